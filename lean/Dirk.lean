import Dirk.Model.Basic
import Dirk.Model.Gob
import Dirk.Model.Rules
import Dirk.Model.Regex
import Dirk.Model.Checker
import Dirk.Model.Ssz
import Dirk.Model.Instance
import Dirk.Spec.Slashing
