/-
  Driver.Main — the model side of the correspondence check: reads one operation per line on stdin,
  runs the Lean model's executable definitions, prints one canonical result line per operation.
  `dirkmodel <engine>`; engines share one protocol (see Driver.Proto).
-/
import Driver.Proto
import Driver.Engines

open Dirk Driver

partial def loop (h : IO.FS.Stream) (st : DState) : IO Unit := do
  let line ← h.getLine
  if line.isEmpty then return ()
  let l := line.trimAscii.toString
  if l.isEmpty || l.startsWith "#" then
    loop h st
  else
    let (st', out) := dstep st l
    match out with
    | some o => IO.println o
    | none => pure ()
    loop h st'

def main (_args : List String) : IO Unit := do
  let stdin ← IO.getStdin
  loop stdin {}
