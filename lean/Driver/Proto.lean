/-
  Driver.Proto — parsing / printing helpers of the line protocol shared by the Lean model driver
  and the Go harness.  Every free-form string and byte string travels hex-encoded; `-` is nil /
  absent, `.` is empty-but-present.
-/
import Dirk.Model.Instance

namespace Driver
open Dirk

def hexDigit (c : Char) : Option Nat :=
  if '0' ≤ c ∧ c ≤ '9' then some (c.toNat - '0'.toNat)
  else if 'a' ≤ c ∧ c ≤ 'f' then some (c.toNat - 'a'.toNat + 10)
  else if 'A' ≤ c ∧ c ≤ 'F' then some (c.toNat - 'A'.toNat + 10)
  else none

def unhexL : List Char → Option Bytes
  | [] => some []
  | a :: b :: rest =>
    match hexDigit a, hexDigit b, unhexL rest with
    | some x, some y, some r => some (UInt8.ofNat (x * 16 + y) :: r)
    | _, _, _ => none
  | _ => none

/-- hex → bytes; `.` = empty -/
def unhex (s : String) : Option Bytes := if s == "." then some [] else unhexL s.toList

/-- optional bytes: `-` = nil -/
def unhexOpt (s : String) : Option (Option Bytes) :=
  if s == "-" then some none else (unhex s).map some

def nib (n : Nat) : Char := if n < 10 then Char.ofNat (48 + n) else Char.ofNat (87 + n)

def hex (b : Bytes) : String :=
  String.ofList (b.flatMap (fun x => [nib (x.toNat / 16), nib (x.toNat % 16)]))

def hexOrDot (b : Bytes) : String := if b.isEmpty then "." else hex b

/-- hex-encoded UTF-8 string; `.` = empty -/
def unhexStr (s : String) : Option String :=
  match unhex s with
  | none => none
  | some b => String.fromUTF8? (ByteArray.mk b.toArray)

def hexStr (s : String) : String := hexOrDot s.toUTF8.toList

def parseAddr (s : String) : Option Addr :=
  if s == "-" then some {} else
  match s.splitOn ":" with
  | ["n", n] => (unhexStr n).map (fun n => { name := n })
  | ["k", k] => (unhex k).map (fun k => { key := some k })
  -- an account created at run time, addressed by its key on the implementation side: the same account as by name
  | ["d", n] => (unhexStr n).map (fun n => { name := n })
  | ["b", n, k] =>
    match unhexStr n, unhex k with
    | some n, some k => some { name := n, key := some k }
    | _, _ => none
  | _ => none

structure FaultSpec where
  /-- store read / write faults and `lockStateFail` (letter `u`) -/
  f : Faults := {}
  signFail : List Nat := []
  /-- letter `r<k>`: the ruler's verdict list is cut to its first `k` entries (Model/ShortRules.lean) -/
  short : Option Nat := none
  deriving Inhabited

def parseFaults (s : String) : Option FaultSpec :=
  if s == "-" then some {} else
  (s.splitOn ",").foldlM (init := ({} : FaultSpec)) fun acc tok =>
    if tok == "s" || tok == "b" || tok == "c" then some { acc with f := { acc.f with storeFail := true } }
    else if tok == "S" then some { acc with f := { acc.f with storeFail := true, storeLanded := true } }
    -- every account fetched for the request answers `IsUnlocked` with an error
    else if tok == "u" then some { acc with f := { acc.f with lockStateFail := true } }
    else if tok.startsWith "f" then
      (tok.drop 1).toString.toNat?.map (fun i => { acc with f := { acc.f with fetchFail := i :: acc.f.fetchFail } })
    else if tok.startsWith "g" then
      (tok.drop 1).toString.toNat?.map (fun i => { acc with signFail := i :: acc.signFail })
    else if tok.startsWith "r" then
      (tok.drop 1).toString.toNat?.bind (fun k => if k = 0 then none else some { acc with short := some k })
    else none

def parseAtt (fs : List String) : Option AttData :=
  match fs with
  | [dom, slot, cidx, bbr, src, sroot, tgt, troot] =>
    match unhexOpt dom, slot.toNat?, cidx.toNat?, unhexOpt bbr, src.toNat?, unhexOpt sroot, tgt.toNat?, unhexOpt troot with
    | some dom, some slot, some cidx, some bbr, some src, some sroot, some tgt, some troot =>
      some { domain := dom, slot := slot, cidx := cidx, bbr := bbr, src := src, srcRoot := sroot, tgt := tgt, tgtRoot := troot }
    | _, _, _, _, _, _, _, _ => none
  | _ => none

def parseProp (fs : List String) : Option PropData :=
  match fs with
  | [dom, slot, prop, par, st, body] =>
    match unhexOpt dom, slot.toNat?, prop.toNat?, unhexOpt par, unhexOpt st, unhexOpt body with
    | some dom, some slot, some prop, some par, some st, some body =>
      some { domain := dom, slot := slot, proposer := prop, parentRoot := par, stateRoot := st, bodyRoot := body }
    | _, _, _, _, _, _ => none
  | _ => none

def parseSign (fs : List String) : Option SignData :=
  match fs with
  | [dom, data] =>
    match unhexOpt dom, unhexOpt data with
    | some dom, some data => some { domain := dom, data := data }
    | _, _ => none
  | _ => none

def posStr (p : Pos) : String :=
  match p.root with
  | some r => p.res.toStr ++ ":" ++ hex r
  | none => p.res.toStr

def fields (line : String) : List String :=
  (line.trimAscii.toString.splitOn " ").filter (· ≠ "")

end Driver
