/-
  Driver.Engines — interpreter of the line protocol on the Lean model (`dstep`).
-/
import Driver.Proto
import Dirk.Spec.Slashing
import Dirk.Spec.Perms
import Dirk.Spec.Import
import Dirk.Model.Scatter
import Dirk.Model.LockTrace
import Dirk.Model.Dkg
import Dirk.Model.Lister
import Dirk.Model.Transport
import Dirk.Model.Handler
import Dirk.Model.ShortRules
import Dirk.Spec.Listing
import Dirk.Spec.Lifecycle
import Dirk.Model.ListerShape

namespace Driver
open Dirk

/-- the harness routes an injected signing failure for batch position j by the signing ROOT (the hook sees
    only the root): every position whose root equals that of a failing position fails with it. -/
def expandSignFails (roots : List (Option Bytes)) (fails : List Nat) : List Nat :=
  let bad := fails.filterMap (fun j => roots.getD j none)
  fails ++ (List.range roots.length).filter (fun i =>
    match roots.getD i none with
    | some r => bad.contains r
    | none => false)

structure DState where
  accounts : List Account := []
  wallets : List String := []
  perms : Perms := []
  adminIPs : List String := []
  raw : Db := []
  legacyRegex : Bool := false
  viaGrpc : Bool := false
  /-- the passphrase each configured account is encrypted with (by "wallet/name"): what an explicit Unlock must present -/
  passOf : List (String × String) := []
  inst : Inst := { cfg := {} }
  -- judge state
  jvotes : List (Bytes × Spec.Vote) := []
  jprops : List (Bytes × PropData) := []
  jfile : IFile := { metadata := none, data := [] }
  dbB : Option Db := none          -- the re-imported copy after `roundtrip`
  lastTrace : List LTok := []
  cluster : Dkg.Cluster := { insts := [], peers := [], timeout := 0 }
  jlife : Spec.Life.JState := {}
  minsts : List (Nat × Inst) := []     -- per-instance signer models of a cluster (C14)
  linBase : Option Inst := none    -- instance state at `lin-begin`
  linOps : List (Nat × Nat × List String × String) := []   -- (t_inv, t_res, observed states, op line)
  deriving Inhabited

def addPerm (ps : Perms) (client : String) (e : PermEntry) : Perms :=
  if ps.any (·.1 == client) then ps.map (fun p => if p.1 == client then (p.1, p.2 ++ [e]) else p)
  else ps ++ [(client, [e])]

def insertSorted (x : String) : List String → List String
  | [] => [x]
  | y :: ys => if x ≤ y then x :: y :: ys else y :: insertSorted x ys

def sortStrings (l : List String) : List String := l.foldr insertSorted []

def exportLine (db : Db) : String :=
  let keys := db.pubKeys
  let parts := keys.map (fun k =>
    match exportKey db k with
    | some p => some (hex k ++ ":" ++ toString p.slot ++ ":" ++ toString p.src ++ ":" ++ toString p.tgt)
    | none => none)
  if parts.any Option.isNone then "E-ERR"
  else "E " ++ " ".intercalate (sortStrings (parts.filterMap id))

def manyStr (ps : List Pos) : String := " ".intercalate (ps.map posStr)

def splitItems (s : String) : List (List String) := (s.splitOn ";").map (·.splitOn ",")

/-- source address field: `-` / `.` = absent -/
def ipOf (s : String) : Option String := if s == "-" || s == "." then some "" else unhexStr s

/-- `.` = empty string -/
def hs (s : String) : Option String := if s == "." then some "" else unhexStr s

def parseIFile (metaS entriesS : String) : Option IFile :=
  let md? : Option (Option (String × String)) :=
    if metaS == "-" then some none else
    match metaS.splitOn "," with
    | [v, g] => match hs v, hs g with
      | some v, some g => some (some (v, g))
      | _, _ => none
    | _ => none
  let entries? : Option (List FileEntry) :=
    if entriesS == "-" then some [] else
    (entriesS.splitOn ";").mapM (fun e =>
      match e.splitOn "," with
      | [pk, bl, att] =>
        let blocks? := if bl == "-" then some [] else (bl.splitOn ":").mapM hs
        let atts? := if att == "-" then some [] else (att.splitOn ":").mapM (fun p =>
          match p.splitOn "~" with
          | [a, b] => match hs a, hs b with
            | some a, some b => some (a, b)
            | _, _ => none
          | _ => none)
        match hs pk, blocks?, atts? with
        | some pk, some blocks, some atts => some { pubkey := pk, blocks := blocks, atts := atts }
        | _, _, _ => none
      | _ => none)
  match md?, entries? with
  | some m, some es => some { metadata := m, data := es }
  | _, _ => none

def parseProt (a b c : String) : Option Protection :=
  match a.toInt?, b.toInt?, c.toInt? with
  | some a, some b, some c => some { slot := a, src := b, tgt := c }
  | _, _, _ => none

/-- order of the BLS12-381 scalar field -/
def blsR : Nat := 0x73eda753299d7d483339d80809a1d80553bda402fffe5bfeffffffff00000001

def powMod (b e m : Nat) : Nat := Id.run do
  let mut result := 1
  let mut base := b % m
  let mut ex := e
  for _ in [0:300] do
    if ex == 0 then break
    if ex % 2 == 1 then result := result * base % m
    base := base * base % m
    ex := ex / 2
  return result

def invMod (a : Nat) : Nat := powMod a (blsR - 2) blsR

/-- Lagrange interpolation at 0 over Z_r of the points (id, share): Σ_j s_j · Π_{m≠j} x_m / (x_m − x_j) -/
def lagrangeAtZero (pts : List (Nat × Nat)) : Nat :=
  pts.foldl (fun acc p =>
    let (xj, sj) := p
    let lam := pts.foldl (fun l q =>
      let xm := q.1
      if xm == xj then l else
      let num := xm % blsR
      let den := (xm + blsR - xj % blsR) % blsR
      l * num % blsR * invMod den % blsR) 1
    (acc + sj % blsR * lam) % blsR) 0

def natOfHexBE (s : String) : Option Nat :=
  s.toList.foldlM (fun acc c => (hexDigit c).map (fun d => acc * 16 + d)) 0

def hexOfNat32 (n : Nat) : String :=
  String.ofList ((List.range 64).reverse.map (fun i => nib (n / 16 ^ i % 16)))

def parseIds (s : String) : Option (List Nat) :=
  if s == "-" || s == "" then some [] else (s.splitOn ",").mapM String.toNat?

/-- caller name → peer id: `signer-testNN` is peer number NN (1-based index into the cluster's id list) -/
def callerId (c : Dkg.Cluster) (name : String) : Nat :=
  -- the harness names peer number k (1-based position in the id list) `signer-test%02d`
  let names := (List.range c.peers.length).map (fun k =>
    "signer-test" ++ (if k + 1 < 10 then "0" else "") ++ toString (k + 1))
  match names.idxOf? name with
  | some k => c.peers.getD k 0
  | none => 0

def faultKind (f : String) : Dkg.GenFault :=
  if f == "-" || f == "nopass" then .none else
  let k := (f.splitOn ":").headD ""
  if k == "drop" || k == "err" || k == "statusreq" || k == "statusreply" then .lost
  else if k == "commitpub" || k == "commitsig" || k == "equiv" then .badCommitReply
  else if k == "dup" || k == "delay" || k == "delayall" then .none
  else .badContribution

/-- the signer model of cluster instance `i`, knowing account `w/a` (keyed by an instance-specific key) -/
def clusterInst (minsts : List (Nat × Inst)) (i : Nat) (w a : String) : Inst :=
  let allPath : CPath := { wallet := Re.star Re.anyAll, account := Re.star Re.anyAll, ops := ["All"] }
  let base : Inst := match minsts.lookup i with
    | some x => x
    | none => { cfg := { access := [("client1", [allPath])] } }
  if base.cfg.accounts.any (fun x => x.wallet == w && x.name == a) then base
  else
    let acct : Account := { wallet := w, name := a,
                            pubkey := [UInt8.ofNat (i % 256), UInt8.ofNat (i / 256 % 256), UInt8.ofNat base.cfg.accounts.length] }
    { base with cfg := { base.cfg with accounts := base.cfg.accounts ++ [acct] } }

def bad (st : DState) (l : String) : DState × Option String := (st, some ("bad-op " ++ l))

def dstepCore (st : DState) (line : String) : DState × Option String :=
  match fields line with
  | ["acct", w, n, pk, u] =>
    match unhexStr w, unhexStr n, unhex pk with
    | some w, some n, some pk =>
      ({ st with accounts := st.accounts ++ [{ wallet := w, name := n, pubkey := pk, unlockable := u == "1" || u == "2" || u.startsWith "d" }],
                 passOf := st.passOf ++ [(w ++ "/" ++ n, if u == "0" then "unknown-passphrase" else if u == "2" then "pass2" else "pass")] }, none)
    | _, _, _ => bad st line
  | ["perm", c, p, ops] =>
    match unhexStr c, unhexStr p with
    | some c, some p =>
      let ops := if ops == "-" then some [] else (ops.splitOn ",").mapM unhexStr
      match ops with
      | some ops => ({ st with perms := addPerm st.perms c { path := p, ops := ops } }, none)
      | none => bad st line
    | _, _ => bad st line
  | ["wallet", w] =>
    match unhexStr w with
    | some w => ({ st with wallets := st.wallets ++ [w] }, none)
    | none => bad st line
  | ["permclient", c] =>          -- a client with an empty entry list
    match unhexStr c with
    | some c => ({ st with perms := st.perms ++ [(c, [])] }, none)
    | none => bad st line
  | ["admin", ip] =>
    match unhexStr ip with
    | some ip => ({ st with adminIPs := st.adminIPs ++ [ip] }, none)
    | none => bad st line
  | ["raw", k, v] =>
    match unhex k, unhex v with
    | some k, some v => ({ st with raw := st.raw.put k v }, none)
    | _, _ => bad st line
  | ["legacyregex"] => ({ st with legacyRegex := true }, none)
  | ["viagrpc"] => ({ st with viaGrpc := true }, none)
  | ["begin"] =>
    let rx := if st.legacyRegex then regexifyLegacy else regexify
    match compilePerms rx st.perms with
    | none => ({ st with inst := { cfg := { wallets := st.wallets, accounts := st.accounts, adminIPs := st.adminIPs }, db := st.raw } }, some "newfail")
    | some acc =>
      ({ st with inst := { cfg := { wallets := st.wallets, accounts := st.accounts, access := acc, adminIPs := st.adminIPs }, db := st.raw } },
       some "ok")
  | ["reset"] => ({}, none)
  | ["list", c, paths] =>
    let ps := if paths == "-" then some [] else (paths.splitOn ",").mapM hs
    match unhexStr c <|> (if c == "." then some "" else none), ps with
    | some c, some ps =>
      let c := if st.viaGrpc && c.isEmpty then "anonymous-empty" else c
      let names := sortStrings ((listAccounts st.inst.cfg c ps).map (fun a => hexStr (a.wallet ++ "/" ++ a.name)))
      (st, some ("S " ++ (if names.isEmpty then "-" else ",".intercalate names)))
    | _, _ => bad st line
  -- account manager: Lock / Unlock an account (by name).  Lock: permission on the account, no effect the signer can see (the
  -- unlocker re-unlocks an account whose passphrase it knows, and the wallet library keeps a decrypted key).  Unlock: the
  -- presented passphrase must be the account's; from then on the account can sign.
  | ["lockacct", c, acct] =>
    match unhexStr c, unhexStr acct with
    | some c, some acct =>
      match fetchByName st.inst.cfg acct with
      | none => (st, some "D")
      | some a => (st, some (if check st.inst.cfg.access c (a.wallet ++ "/" ++ a.name) opLockAccount then "S" else "D"))
    | _, _ => bad st line
  | ["unlockacct", c, acct, pass] =>
    match unhexStr c, unhexStr acct, unhexStr pass <|> (if pass == "." then some "" else none) with
    | some c, some acct, some pass =>
      match fetchByName st.inst.cfg acct with
      | none => (st, some "D")
      | some a =>
        let path := a.wallet ++ "/" ++ a.name
        if !check st.inst.cfg.access c path opUnlockAccount then (st, some "D")
        else if st.passOf.lookup path != some pass then (st, some "D")
        else
          -- the state change is `Op.setUnlockable` of the instance model
          ({ st with inst := (step st.inst (.setUnlockable a.wallet a.name true)).1 }, some "S")
    | _, _, _ => bad st line
  | ["create", c, acct] =>
    match unhexStr c, unhexStr acct with
    | some c, some acct =>
      -- the state change is `Op.create` of the instance model (what the history theorems speak about)
      ({ st with inst := (step st.inst (.create c acct acct.toUTF8.toList)).1 },
       -- (the reply names the account as it now exists: the requested path, character for character)
       some (if (createAccount st.inst.cfg c acct acct.toUTF8.toList).isSome then "ok " ++ hex acct.toUTF8.toList else "err"))
    | _, _ => bad st line
  -- wallet manager: lock / unlock a wallet (permission on the wallet name, the wallet must exist); no effect on listings
  | ["lockwallet", c, wn] =>
    match unhexStr c, unhexStr wn with
    | some c, some wn =>
      ({ st with inst := (step st.inst (.lockWallet c wn)).1 },
       some (if walletExists st.inst.cfg wn && check st.inst.cfg.access c wn opLockWallet then "S" else "D"))
    | _, _ => bad st line
  | ["unlockwallet", c, wn] =>
    match unhexStr c, unhexStr wn with
    | some c, some wn =>
      ({ st with inst := (step st.inst (.unlockWallet c wn)).1 },
       some (if walletExists st.inst.cfg wn && check st.inst.cfg.access c wn "Unlock wallet" then "S" else "D"))
    | _, _ => bad st line
  -- judge C18: the implementation reported that it created this account (so later listings must show it)
  | ["jcreate", acct] =>
    match unhexStr acct with
    | some acct =>
      match walletAndAccount acct with
      | some (w, a) =>
        let cfg := st.inst.cfg
        ({ st with inst := { st.inst with cfg := { cfg with accounts := cfg.accounts ++ [{ wallet := w, name := a, pubkey := [] }] } } }, some "ok")
      | none => bad st line
    | none => bad st line
  -- judge C18: the implementation listed `names` for (client, paths): sound and complete per the Lean spec?
  | ["jlist", c, paths, names] =>
    let ps := if paths == "-" then some [] else (paths.splitOn ",").mapM hs
    let ns := if names == "-" then some [] else (names.splitOn ",").mapM hs
    match unhexStr c <|> (if c == "." then some "" else none), ps, ns with
    | some c, some ps, some ns =>
      let accts := st.inst.cfg.accounts
      let unsound := ns.filter (fun n => !Spec.mayList st.perms accts c ps n)
      let missing := (accts.filter (fun a => Spec.mustList st.perms c ps a)).filter (fun a => !ns.contains (a.wallet ++ "/" ++ a.name))
      (st, some (if !unsound.isEmpty then "LISTED-NOT-ALLOWED " ++ hexStr (unsound.headD "")
                 else if !missing.isEmpty then "MISSING " ++ hexStr ((missing.head?.map (fun a => a.wallet ++ "/" ++ a.name)).getD "")
                 else "ok"))
    | _, _, _ => bad st line
  | ["check", c, acct, op] =>
    match unhexStr c, unhexStr acct, unhexStr op with
    | some c, some acct, some op => (st, some (if check st.inst.cfg.access c acct op then "1" else "0"))
    | _, _, _ => bad st line
  | ["att", c, _ip, addr, d, f] =>
    match unhexStr c, parseAddr addr, parseAtt (d.splitOn ","), parseFaults f with
    | some c, some a, some d, some f =>
      let c := if st.viaGrpc && c.isEmpty then "anonymous-empty" else c
      let (s', p) := if st.viaGrpc then hSignAtt st.inst c a d f.f (f.signFail.contains 0) else signAtt st.inst c a d f.f (f.signFail.contains 0)
      ({ st with inst := s', lastTrace := traceAtt st.inst c a d f.f.lockStateFail ++ (if p.root.isSome then [.sign] else []) }, some (posStr p))
    | _, _, _, _ => bad st line
  | ["atts", c, _ip, f, items] =>
    let its := (splitItems items).mapM (fun fs =>
      match fs with
      | a :: rest => match parseAddr a, parseAtt rest with
        | some a, some d => some (a, d)
        | _, _ => none
      | _ => none)
    match unhexStr c, parseFaults f, its with
    | some c, some f, some its =>
      let c := if st.viaGrpc && c.isEmpty then "anonymous-empty" else c
      let sf := expandSignFails (its.map (fun it => it.2.signingRoot)) f.signFail
      let (s', ps) := match f.short with
        | some k => if st.viaGrpc then hSignAttsShort st.inst c its f.f sf k else signAttsShort st.inst c its f.f sf k
        | none => if st.viaGrpc then hSignAtts st.inst c its f.f sf else signAtts st.inst c its f.f sf
      ({ st with inst := s', lastTrace := traceAtts st.inst c its f.f.lockStateFail ++ List.replicate (ps.filter (·.root.isSome)).length .sign }, some (manyStr ps))
    | _, _, _ => bad st line
  | ["atts0", c, _ip] =>
    match unhexStr c with
    | some c =>
      let (s', ps) := if st.viaGrpc then hSignAtts st.inst c [] {} else signAtts st.inst c [] {}
      ({ st with inst := s' }, some (manyStr ps))
    | none => bad st line
  | ["prop", c, _ip, addr, d, f] =>
    match unhexStr c, parseAddr addr, parseProp (d.splitOn ","), parseFaults f with
    | some c, some a, some d, some f =>
      let c := if st.viaGrpc && c.isEmpty then "anonymous-empty" else c
      let (s', p) := if st.viaGrpc then hSignProp st.inst c a d f.f (f.signFail.contains 0) else signProp st.inst c a d f.f (f.signFail.contains 0)
      ({ st with inst := s', lastTrace := traceProp st.inst c a d f.f.lockStateFail ++ (if p.root.isSome then [.sign] else []) }, some (posStr p))
    | _, _, _, _ => bad st line
  | ["sign", c, ip, addr, d, f] =>
    match unhexStr c, ipOf ip, parseAddr addr, parseSign (d.splitOn ","), parseFaults f with
    | some c, some ip, some a, some d, some f =>
      let c := if st.viaGrpc && c.isEmpty then "anonymous-empty" else c
      let ip := if st.viaGrpc then (if ip.startsWith "127." then ip else "127.0.0.1") else ip
      let (s', p) := if st.viaGrpc then hSignGeneric st.inst c ip a d (f.signFail.contains 0) f.f.lockStateFail
        else signGeneric st.inst c ip a d (f.signFail.contains 0) f.f.lockStateFail
      ({ st with inst := s', lastTrace := traceSign st.inst c a d f.f.lockStateFail ++ (if p.root.isSome then [.sign] else []) }, some (posStr p))
    | _, _, _, _, _ => bad st line
  | ["msign", c, ip, f, items] =>
    let its := (splitItems items).mapM (fun fs =>
      match fs with
      | a :: rest => match parseAddr a, parseSign rest with
        | some a, some d => some (a, d)
        | _, _ => none
      | _ => none)
    match unhexStr c, ipOf ip, parseFaults f, its with
    | some c, some ip, some f, some its =>
      let c := if st.viaGrpc && c.isEmpty then "anonymous-empty" else c
      let ip := if st.viaGrpc then (if ip.startsWith "127." then ip else "127.0.0.1") else ip
      let sf := expandSignFails (its.map (fun it => it.2.signingRoot)) f.signFail
      let (s', ps) := match f.short with
        | some k => if st.viaGrpc then hMultisignShort st.inst c ip its sf f.f.lockStateFail k else multisignShort st.inst c ip its sf f.f.lockStateFail k
        | none => if st.viaGrpc then hMultisign st.inst c ip its sf f.f.lockStateFail else multisign st.inst c ip its sf f.f.lockStateFail
      ({ st with inst := s', lastTrace := traceMsign st.inst c its f.f.lockStateFail ++ List.replicate (ps.filter (·.root.isSome)).length .sign }, some (manyStr ps))
    | _, _, _, _ => bad st line
  -- dkg engine
  -- the same cluster with the real gRPC transport between the instances: nothing changes for the model
  | ["cluster", ids, ms, _grpc] =>
    match parseIds ids, ms.toNat? with
    | some ids, some ms =>
      let cl : Dkg.Cluster := { insts := ids.map (fun i => { id := i }), peers := ids, timeout := if ms == 0 then 600000 else ms }
      ({ st with minsts := [], cluster := cl }, some "ok")
    | _, _ => bad st line
  | ["cluster", ids, ms] =>
    match parseIds ids, ms.toNat? with
    | some ids, some ms =>
      let cl : Dkg.Cluster := { insts := ids.map (fun i => { id := i }), peers := ids, timeout := if ms == 0 then 600000 else ms }
      ({ st with minsts := [], cluster := cl }, some "ok")
    | _, _ => bad st line
  | ["gen", ini, client, acct, t, n, fault] =>
    match ini.toNat?, unhexStr client, unhexStr acct, t.toNat?, n.toNat? with
    | some ini, some client, some acct, some t, some n =>
      let c := st.cluster
      let exists_ := match Dkg.getInst c ini with
        | some x => x.accounts.contains acct
        | none => false
      let permitted := client == "client1"
      let elsewhere := c.insts.any (fun x => x.id != ini && x.accounts.contains acct)
      let fk := if faultKind fault == .none && elsewhere then Dkg.GenFault.heldElsewhere else faultKind fault
      let (ok, allHold) := Dkg.generateOutcome c.insts.length n t (Dkg.distributedWallet acct) exists_ permitted fk
      let c' := if allHold && n == c.insts.length then
                  { c with insts := c.insts.map (fun x => { x with accounts := acct :: x.accounts }) }
                else if allHold && n == 1 then
                  { c with insts := c.insts.map (fun x => if x.id == ini then { x with accounts := acct :: x.accounts } else x) }
                else c
      ({ st with cluster := c' }, some (if ok then "ok" else "err"))
    | _, _, _, _, _ => bad st line
  -- two overlapping generations for one name: X (all its commit requests held back for a while) and, started while X
  -- waits, Y through another instance.  Y finds the name in progress and fails without effect; X completes.
  | ["gens", ini, client, acct, t, n, _ms, _ini2, _t2, _n2] =>
    match ini.toNat?, unhexStr client, unhexStr acct, t.toNat?, n.toNat? with
    | some ini, some client, some acct, some t, some n =>
      let c := st.cluster
      let exists_ := c.insts.any (fun x => x.accounts.contains acct)
      let r := Dkg.generateOutcome c.insts.length n t (Dkg.distributedWallet acct) exists_ (client == "client1") .none
      let c' := if r.2 && n == c.insts.length then { c with insts := c.insts.map (fun x => { x with accounts := acct :: x.accounts }) } else c
      let _ := ini
      ({ st with cluster := c' }, some ((if r.1 then "ok" else "err") ++ " err"))
    | _, _, _, _, _ => bad st line
  -- several generations for different names at the same moment (same wallet, all instances participate): each succeeds
  -- or not exactly as it would alone
  | "gensp" :: client :: t :: n :: specs =>
    match unhexStr client, t.toNat?, n.toNat? with
    | some client, some t, some n =>
      let step := fun (acc : Dkg.Cluster × List String) (spec : String) =>
        match spec.splitOn ":" with
        | [ini, a] =>
          match ini.toNat?, unhexStr a with
          | some _ini, some acct =>
            let c := acc.1
            let exists_ := c.insts.any (fun x => x.accounts.contains acct)
            let r := Dkg.generateOutcome c.insts.length n t (Dkg.distributedWallet acct) exists_ (client == "client1") .none
            let c' := if r.2 && n == c.insts.length then { c with insts := c.insts.map (fun x => { x with accounts := acct :: x.accounts }) } else c
            (c', acc.2 ++ [if r.1 then "ok" else "err"])
          | _, _ => (acc.1, acc.2 ++ ["bad"])
        | _ => (acc.1, acc.2 ++ ["bad"])
      let r := specs.foldl step (st.cluster, [])
      ({ st with cluster := r.1 }, some (" ".intercalate r.2))
    | _, _, _ => bad st line
  | ["holds", acct] =>
    match unhexStr acct with
    | some acct =>
      (st, some (" ".intercalate (st.cluster.insts.map (fun x =>
        let h := x.accounts.contains acct
        toString x.id ++ ":" ++ toString h ++ ":" ++ toString h))))
    | none => bad st line
  | ["hprepare", i, caller, acct, t, parts] =>
    match i.toNat?, hs caller, unhexStr acct, t.toNat?, parseIds parts with
    | some i, some caller, some acct, some t, some parts =>
      let (c, r) := Dkg.onPrepare st.cluster i (callerId st.cluster caller) acct t parts
      ({ st with cluster := c }, some r.toStr)
    | _, _, _, _, _ => bad st line
  -- k Prepare messages for one name at the same moment: whatever the order, the model accepts them one after another
  | ["cprepare", i, caller, acct, k, t, parts] =>
    match i.toNat?, hs caller, unhexStr acct, k.toNat?, t.toNat?, parseIds parts with
    | some i, some caller, some acct, some k, some t, some parts =>
      let r := (List.range k).foldl (fun (acc : Dkg.Cluster × Nat) _ =>
        let o := Dkg.onPrepare acc.1 i (callerId st.cluster caller) acct t parts
        (o.1, if o.2 == .ok then acc.2 + 1 else acc.2)) (st.cluster, 0)
      ({ st with cluster := r.1 }, some ("ok=" ++ toString r.2))
    | _, _, _, _, _, _ => bad st line
  -- a Prepare whose participant list pairs endpoints with other participants' ids: the ids are what the model keeps
  | ["hprepares", i, caller, acct, t, parts, _a, _b] =>
    match i.toNat?, hs caller, unhexStr acct, t.toNat?, parseIds parts with
    | some i, some caller, some acct, some t, some parts =>
      let (c, r) := Dkg.onPrepare st.cluster i (callerId st.cluster caller) acct t parts
      ({ st with cluster := c }, some r.toStr)
    | _, _, _, _, _ => bad st line
  | ["hexecute", i, caller, acct] =>
    match i.toNat?, hs caller, unhexStr acct with
    | some i, some caller, some acct =>
      let (c, r) := Dkg.onExecute st.cluster i (callerId st.cluster caller) acct
      ({ st with cluster := c }, some r.toStr)
    | _, _, _ => bad st line
  -- two Execute requests for one account overlapping in time; at most one of the two callers is a peer: the non-peer's is
  -- refused without effect, the peer's is answered as if it were alone
  | ["hexecute2", i, acct, callerA, callerB, _ms] =>
    match i.toNat?, unhexStr acct, hs callerA, hs callerB with
    | some i, some acct, some ca, some cb =>
      let (c1, r1) := Dkg.onExecute st.cluster i (callerId st.cluster ca) acct
      let (c2, r2) := Dkg.onExecute c1 i (callerId c1 cb) acct
      ({ st with cluster := c2 }, some (r1.toStr ++ " " ++ r2.toStr))
    | _, _, _, _ => bad st line
  | ["hcommit", i, caller, acct] =>
    match i.toNat?, hs caller, unhexStr acct with
    | some i, some caller, some acct =>
      let (c, r) := Dkg.onCommit st.cluster i (callerId st.cluster caller) acct
      ({ st with cluster := c }, some r.toStr)
    | _, _, _ => bad st line
  | ["habort", i, caller, acct] =>
    match i.toNat?, hs caller, unhexStr acct with
    | some i, some caller, some acct =>
      let (c, r) := Dkg.onAbort st.cluster i (callerId st.cluster caller) acct
      ({ st with cluster := c }, some r.toStr)
    | _, _, _ => bad st line
  | ["hcontribute", i, caller, acct] =>
    match i.toNat?, hs caller, unhexStr acct with
    | some i, some caller, some acct =>
      -- the harness sends a syntactically valid contribution whose share does not match the session
      let (c, r) := Dkg.onContribute st.cluster i (callerId st.cluster caller) acct false 1
      ({ st with cluster := c }, some r.toStr)
    | _, _, _ => bad st line
  | ["peerscfg", eps] =>
    match (eps.splitOn ",").mapM unhexStr with
    | some l => (st, some (if Dkg.peersAccepted l then "ok" else "E:refused"))
    | none => bad st line
  | ["hcontributev", i, asker, acct] =>
    match i.toNat?, asker.toNat?, unhexStr acct with
    | some i, some asker, some acct =>
      -- a VALID contribution from participant `asker` (vector of the length the harness's scratch generation uses: n/2+1)
      let (c, r) := Dkg.onContribute st.cluster i asker acct true (st.cluster.peers.length / 2 + 1)
      ({ st with cluster := c }, some r.toStr)
    | _, _, _ => bad st line
  -- C14: a request to instance i's own signer (own rules store); the distributed account is known to
  -- every instance under its name, keyed by the instance's own share (abstracted to the instance id)
  | ["iatt", i, acct, d] =>
    match i.toNat?, unhexStr acct, parseAtt (d.splitOn ",") with
    | some i, some acct, some d =>
      let (w, a) := match walletAndAccount acct with
        | some p => p
        | none => ("", "")
      let base := clusterInst st.minsts i w a
      let (s', p) := signAtt base "client1" { name := acct } d {} false
      ({ st with minsts := (i, s') :: st.minsts.filter (·.1 != i) }, some (posStr p))
    | _, _, _ => bad st line
  -- an attestation while that instance's store refuses writes (badger's ErrBlockedWrites): a store fault, nothing recorded
  | ["iattb", i, acct, d] =>
    match i.toNat?, unhexStr acct, parseAtt (d.splitOn ",") with
    | some i, some acct, some d =>
      let (w, a) := match walletAndAccount acct with
        | some p => p
        | none => ("", "")
      let base := clusterInst st.minsts i w a
      let (s', p) := signAtt base "client1" { name := acct } d { storeFail := true } false
      ({ st with minsts := (i, s') :: st.minsts.filter (·.1 != i) }, some (posStr p))
    | _, _, _ => bad st line
  -- an attestation whose write stalls while its client's deadline passes: for the model it is an ordinary request
  | ["iattx", i, acct, d, _dl, _stall] =>
    match i.toNat?, unhexStr acct, parseAtt (d.splitOn ",") with
    | some i, some acct, some d =>
      let wa := match walletAndAccount acct with
        | some p => p
        | none => ("", "")
      let base := clusterInst st.minsts i wa.1 wa.2
      let r := signAtt base "client1" { name := acct } d {} false
      ({ st with minsts := (i, r.1) :: st.minsts.filter (·.1 != i) }, some (posStr r.2))
    | _, _, _ => bad st line
  -- the same through the batch endpoint (a batch of one)
  | ["iatts", i, acct, d] =>
    match i.toNat?, unhexStr acct, parseAtt (d.splitOn ",") with
    | some i, some acct, some d =>
      let wa := match walletAndAccount acct with
        | some p => p
        | none => ("", "")
      let base := clusterInst st.minsts i wa.1 wa.2
      let r := signAtts base "client1" [({ name := acct }, d)] {}
      ({ st with minsts := (i, r.1) :: st.minsts.filter (·.1 != i) }, some (match r.2 with | [p] => posStr p | _ => "?"))
    | _, _, _ => bad st line
  -- a batch of two: the duty for `acct` first, an attestation of another account of the same instance second
  | ["iatts2", i, acct, d, acct2, d2] =>
    match i.toNat?, unhexStr acct, parseAtt (d.splitOn ","), unhexStr acct2, parseAtt (d2.splitOn ",") with
    | some i, some acct, some d, some acct2, some d2 =>
      let wa := match walletAndAccount acct with
        | some p => p
        | none => ("", "")
      let wa2 := match walletAndAccount acct2 with
        | some p => p
        | none => ("", "")
      let b1 := clusterInst st.minsts i wa.1 wa.2
      let b2 := clusterInst ((i, b1) :: st.minsts.filter (·.1 != i)) i wa2.1 wa2.2
      let r := signAtts b2 "client1" [({ name := acct }, d), ({ name := acct2 }, d2)] {}
      ({ st with minsts := (i, r.1) :: st.minsts.filter (·.1 != i) },
       some (match r.2 with | [p, q] => q.res.toStr ++ "/" ++ posStr p | _ => "?"))
    | _, _, _, _, _ => bad st line
  -- a batch of two whose FIRST entry addresses another account (registered in the model only if it already exists there),
  -- the duty account second
  | ["iattsu", i, acctX, dX, acct, d] =>
    match i.toNat?, unhexStr acctX, parseAtt (dX.splitOn ","), unhexStr acct, parseAtt (d.splitOn ",") with
    | some i, some acctX, some dX, some acct, some d =>
      let wa := match walletAndAccount acct with
        | some p => p
        | none => ("", "")
      let b := clusterInst st.minsts i wa.1 wa.2
      let r := signAtts b "client1" [({ name := acctX }, dX), ({ name := acct }, d)] {}
      ({ st with minsts := (i, r.1) :: st.minsts.filter (·.1 != i) },
       some (match r.2 with | [p, q] => p.res.toStr ++ "/" ++ posStr q | _ => "?"))
    | _, _, _, _, _ => bad st line
  | ["sharepubs", _] => (st, some "-")
  | ["shareowners", _, _] => (st, some "-")
  | ["sendowners", _, _] => (st, some "-")
  | ["ilist", _, _, _] => (st, some "-")
  | ["iprop", i, acct, d] =>
    match i.toNat?, unhexStr acct, parseProp (d.splitOn ",") with
    | some i, some acct, some d =>
      let (w, a) := match walletAndAccount acct with
        | some p => p
        | none => ("", "")
      let base := clusterInst st.minsts i w a
      let (s', p) := signProp base "client1" { name := acct } d {} false
      ({ st with minsts := (i, s') :: st.minsts.filter (·.1 != i) }, some (posStr p))
    | _, _, _ => bad st line
  -- judge C14: with threshold t, two conflicting duties collected c1 and c2 partial signatures
  -- judge C17 on the implementation's replies alone (Spec.Life): jlife-reset <timeout ms> | jlife-sleep <ms> |
  -- jlife <prepare|execute|contribute|commit|abort> <inst> <acct> <ok|no>
  | ["jlife-reset", ms] =>
    match ms.toNat? with
    | some ms => ({ st with jlife := { timeout := ms } }, some "ok")
    | none => bad st line
  | ["jlife-sleep", ms] =>
    match ms.toNat? with
    | some ms => ({ st with jlife := Spec.Life.advance st.jlife ms }, some "ok")
    | none => bad st line
  | ["jlife", m, i, acct, acc] =>
    let m? : Option Spec.Life.Msg := match m with
      | "prepare" => some .prepare | "execute" => some .execute | "contribute" => some .contribute
      | "commit" => some .commit | "abort" => some .abort | _ => none
    match m?, i.toNat?, unhexStr acct with
    | some m, some i, some acct =>
      let r := Spec.Life.judge st.jlife m i acct (acc == "ok")
      ({ st with jlife := r.1 }, some r.2)
    | _, _, _ => bad st line
  -- the signing root of (32-byte object root, 32-byte domain), for judges that verify signatures
  | ["sroot", r, d] =>
    match unhex r, unhex d with
    | some r, some d => (st, some (match Ssz.signingRoot r d with | some x => hex x | none => "-"))
    | _, _ => bad st line
  -- the signing root of an attestation / proposal request's own data (comma-separated fields as in the ops)
  | ["aroot", d] =>
    match parseAtt (d.splitOn ",") with
    | some d => (st, some (match d.signingRoot with | some x => hex x | none => "-"))
    | none => bad st line
  | ["proot", d] =>
    match parseProp (d.splitOn ",") with
    | some d => (st, some (match d.signingRoot with | some x => hex x | none => "-"))
    | none => bad st line
  | ["jquorum", t, c1, c2] =>
    match t.toNat?, c1.toNat?, c2.toNat? with
    | some t, some c1, some c2 =>
      (st, some (if decide (t ≤ c1) && decide (t ≤ c2) then "BOTH-REACH-THRESHOLD" else "ok"))
    | _, _, _ => bad st line
  -- judge C17: the implementation answered `reply` to a commit at instance i; a successful commit
  -- requires an active generation in which every listed participant has contributed
  | ["jcommit", i, acct, reply] =>
    match i.toNat?, unhexStr acct with
    | some i, some acct =>
      if reply != "ok" then (st, some "ok") else
      match Dkg.getInst st.cluster i with
      | none => (st, some "COMMIT-WITHOUT-GENERATION")
      | some x =>
        match (Dkg.active st.cluster x acct).1 with
        | none => (st, some "COMMIT-WITHOUT-GENERATION")
        | some s =>
          (st, some (if s.participants.all (fun p => s.contributed.contains p) then "ok" else "COMMIT-INCOMPLETE"))
    | _, _ => bad st line
  | ["sleep", ms] =>
    match ms.toNat? with
    | some ms => ({ st with cluster := Dkg.tick st.cluster ms }, some "ok")
    | none => bad st line
  -- the deadline carried by the callers' request contexts: no effect on the state machine
  | ["ctxdl", _] => (st, some "ok")
  -- Lagrange recovery of the group secret from extracted shares, over Z_r: `lagrange id:sharehex …`
  | "lagrange" :: pts =>
    let ps := pts.mapM (fun p => match p.splitOn ":" with
      | [i, h] => match i.toNat?, natOfHexBE h with
        | some i, some v => some (i, v)
        | _, _ => none
      | _ => none)
    match ps with
    | some ps => (st, some (hexOfNat32 (lagrangeAtZero ps)))
    | none => bad st line
  -- C19: what the transport policy (with the given client-auth mode) does with a credential kind
  | ["tlsmodel", mode, kind] =>
    let cfg : Transport.ServerCfg := { clientAuth := mode, credsInstalled := true, clientCAs := true }
    let cred : Option Transport.Cred :=
      match kind.splitOn ":" with
      | ["plaintext"] => some .plaintext
      | ["tlsnocert"] => some .tlsNoCert
      | ["selfsigned", cn] => some (.cert false true cn)
      | ["otherca", cn] => some (.cert false true cn)
      -- issued by an authority in the host's trust store, which is not the configured one
      | ["hosttrusted", cn] => some (.cert false true cn)
      -- a certificate of another authority offered inside a session-resumption ticket forged under a guessable ticket key
      | ["forgedticket", _, cn] => some (.cert false true cn)
      | ["expired", cn] => some (.cert true false cn)
      | ["notyetvalid", cn] => some (.cert true false cn)
      | ["valid", cn] => some (.cert true true cn)
      -- a valid leaf followed by certificates that were not verified: the leaf is the certificate
      | ["chain", cns] => (cns.splitOn "+").head?.map (fun cn => .cert true true cn)
      | _ => none
    match cred with
    | none => bad st line
    | some cred =>
      match Transport.serve cfg cred with
      | none => (st, some "refused")
      | some none => (st, some "served -")
      | some (some cn) => (st, some ("served " ++ cn))
  | ["locktrace"] => (st, none)
  | ["nocache"] => (st, none)
  | ["stallfirst", _] => (st, none)
  | ["tracelog"] => (st, none)
  | ["lockwarm", _] => (st, none)
  | ["pruning"] => (st, none)
  | ["store2", _] => (st, none)
  | ["stalelock", _] => (st, none)
  | ["pause", _] => (st, some "ok")
  -- a rules-level batch over synthetic keys (judged by the harness-side expectation, not by this model: "-")
  | ["rbatch", _, _, _, _, _] => (st, some "-")
  -- a second rules service on the storage path of a running instance: the directory lock refuses it
  | ["twinprop", _, _, _, _] => (st, some "refused")
  | ["twinatt", _, _, _, _] => (st, some "refused")
  | ["ltrace"] =>
    let tok (t : LTok) : String := match t with
      | .pre => "P" | .post => "Q" | .fetch => "F" | .store => "S" | .stored => "X" | .sign => "G"
      | .lock k => "L:" ++ hex (k.take 4) | .unlock k => "U:" ++ hex (k.take 4)
    (st, some (if st.lastTrace.isEmpty then "-" else " ".intercalate (st.lastTrace.map tok)))
  | ["syncwrites"] => (st, some "true")
  -- judge C03: after a kill and restart the exported record (es, et) must cover a signature (s, t)
  -- that had been returned before the kill
  | ["jcoveratt", s, t, es, et] =>
    match s.toInt?, t.toInt?, es.toInt?, et.toInt? with
    | some s, some t, some es, some et => (st, some (if decide (s ≤ es) && decide (t ≤ et) then "ok" else "NOT-RECORDED"))
    | _, _, _, _ => bad st line
  | ["jcoverprop", slot, eslot] =>
    match slot.toInt?, eslot.toInt? with
    | some a, some b => (st, some (if decide (a ≤ b) then "ok" else "NOT-RECORDED"))
    | _, _ => bad st line
  | ["restart"] => (st, some "ok")
  | ["export"] => (st, some (exportLine st.inst.db))
  -- rules-level ImportSlashingProtection on the live instance (Dirk.importKey)
  | ["importsvc", k, a, b, c] =>
    match unhex k, a.toInt?, b.toInt?, c.toInt? with
    | some k, some a, some b, some c =>
      -- `Op.importRec` of the instance model: `importKey st.inst.db (toBytes48 k) …`
      ({ st with inst := (step st.inst (.importRec k { slot := a, src := b, tgt := c })).1 }, some "ok")
    | _, _, _, _ => bad st line
  -- judge: released signatures observed on the implementation, evaluated by the Spec predicates
  | ["jatt", k, d] =>
    match unhex k, parseAtt (d.splitOn ",") with
    | some k, some d =>
      let v := Spec.voteOf d
      let clash := st.jvotes.any (fun e => e.1 == k && decide (Spec.Slashable e.2 v))
      ({ st with jvotes := st.jvotes ++ [(k, v)] }, some (if clash then "SLASHABLE" else "ok"))
    | _, _ => bad st line
  -- order-free variant (concurrent requests): two different proposals released for one slot
  | ["jpropd", k, d] =>
    match unhex k, parseProp (d.splitOn ",") with
    | some k, some d =>
      let clash := st.jprops.any (fun e => e.1 == k && decide (Spec.DoubleProposal e.2 d))
      ({ st with jprops := st.jprops ++ [(k, d)] }, some (if clash then "DOUBLE-PROPOSAL" else "ok"))
    | _, _ => bad st line
  | ["jprop", k, d] =>
    match unhex k, parseProp (d.splitOn ",") with
    | some k, some d =>
      let clash := st.jprops.any (fun e => e.1 == k && decide (d.slot ≤ e.2.slot))
      ({ st with jprops := st.jprops ++ [(k, d)] }, some (if clash then "NOT-INCREASING" else "ok"))
    | _, _ => bad st line
  -- the import command while an instance is active on the store: refused (the directory is locked), nothing changes
  | ["importlive", _, _, _] => (st, some "err")
  | ["import", gvr, md, entries] =>
    match hs gvr, parseIFile md entries with
    | some gvr, some f =>
      -- the state change is `Op.importCmd` of the instance model
      ({ st with inst := (step st.inst (.importCmd gvr f)).1 },
       some (match importFile gvr st.inst.db f with | .ok _ => "ok" | .error => "err"))
    | _, _ => bad st line
  | ["probeatt", pk, s, t] =>
    match unhex pk, s.toNat?, t.toNat? with
    | some pk, some s, some t =>
      let req : AttReq := { domain := domAttester ++ List.replicate 28 0, src := s, tgt := t }
      let r := onAttest st.inst.db pk req {}
      match st.dbB with
      | none => ({ st with inst := { st.inst with db := r.2 } }, some r.1.toStr)
      | some b =>
        let rb := onAttest b pk req {}
        ({ st with inst := { st.inst with db := r.2 }, dbB := some rb.2 }, some (r.1.toStr ++ " " ++ rb.1.toStr))
    | _, _, _ => bad st line
  | ["probeprop", pk, slot] =>
    match unhex pk, slot.toNat? with
    | some pk, some slot =>
      let req : PropReq := { domain := domProposer ++ List.replicate 28 0, slot := slot }
      let r := onPropose st.inst.db pk req {}
      match st.dbB with
      | none => ({ st with inst := { st.inst with db := r.2 } }, some r.1.toStr)
      | some b =>
        let rb := onPropose b pk req {}
        ({ st with inst := { st.inst with db := r.2 }, dbB := some rb.2 }, some (r.1.toStr ++ " " ++ rb.1.toStr))
    | _, _ => bad st line
  | ["roundtrip"] =>
    let g := "0x0000000000000000000000000000000000000000000000000000000000000001"
    match toFile g st.inst.db with
    | none => (st, some "E-ERR")
    | some f =>
      match importFile g [] f with
      | .ok b => ({ st with dbB := some b }, some (exportLine b))
      | .error => (st, some "E-IMPORT-ERR")
  | ["exportb"] =>
    match st.dbB with
    | none => (st, some "E-NOTWIN")
    | some b => (st, some (exportLine b))
  | ["scatter", n, p] =>
    match n.toNat?, p.toNat? with
    | some n, some p =>
      (st, some (" ".intercalate ((extents n p).map (fun e => toString e.1 ++ ":" ++ toString e.2))))
    | _, _ => bad st line
  -- judge C09: a well-formed, authorised, fault-free attestation request was answered `state`;
  -- if it advances on everything released so far for the key it must have been signed
  | ["jliveatt", k, s, t, state] =>
    match unhex k, s.toNat?, t.toNat? with
    | some k, some s, some t =>
      let mine := st.jvotes.filter (fun e => e.1 == k)
      let advancing := mine.all (fun e => decide (e.2.tgt < t) && decide (e.2.src ≤ s))
      let must := advancing && decide (s < two63) && decide (t < two63) && (decide (s < t) || (s == 0 && t == 0))
      (st, some (if must && state != "S" then "REFUSED-ADVANCING" else "ok"))
    | _, _, _ => bad st line
  | ["jliveprop", k, slot, state] =>
    match unhex k, slot.toNat? with
    | some k, some slot =>
      let mine := st.jprops.filter (fun e => e.1 == k)
      let must := mine.all (fun e => decide (e.2.slot < slot)) && decide (slot < two63)
      (st, some (if must && state != "S" then "REFUSED-ADVANCING" else "ok"))
    | _, _ => bad st line
  -- judge C11 (legacy records): the export of a key must state exactly the values its old-format
  -- records hold
  | ["jlegacy", a, b, c, x, y, z] =>
    match parseProt a b c, parseProt x y z with
    | some got, some want => (st, some (if got == want then "ok" else "LEGACY-RECORD-NOT-HONOURED"))
    | _, _ => bad st line
  -- judge C11: the export states, for key k, exactly the highest released slot / source / target
  | ["jexport", k, a, b, c] =>
    match unhex k, parseProt a b c with
    | some k, some p =>
      let votes := (st.jvotes.filter (fun e => e.1 == k)).map (·.2)
      let props := (st.jprops.filter (fun e => e.1 == k)).map (·.2)
      let mx (l : List Nat) : Int := l.foldl (fun (acc : Int) (x : Nat) => if Int.ofNat x > acc then Int.ofNat x else acc) (-1)
      let want : Protection := { slot := mx (props.map (·.slot)), src := mx (votes.map (·.src)), tgt := mx (votes.map (·.tgt)) }
      (st, some (if want == p then "ok" else "EXPORT-NOT-EXACT"))
    | _, _ => bad st line
  -- judge C10: remember the file of the import being judged …
  | ["jimpfile", md, entries] =>
    match parseIFile md entries with
    | some f => ({ st with jfile := f }, some "ok")
    | none => bad st line
  -- … then, per key: protection exported before / after a *successful* import
  | ["jimpkey", k, b1, b2, b3, a1, a2, a3] =>
    match unhex k, parseProt b1 b2 b3, parseProt a1 a2 a3 with
    | some k, some b, some a =>
      (st, some (if Spec.importProtects st.jfile k b a then "ok" else "WEAKENED"))
    | _, _, _ => bad st line
  -- … or a *failed* import
  | ["jimpfail", _k, b1, b2, b3, a1, a2, a3] =>
    match parseProt b1 b2 b3, parseProt a1 a2 a3 with
    | some b, some a => (st, some (if Spec.importUnchanged b a then "ok" else "CHANGED-ON-FAILURE"))
    | _, _ => bad st line
  -- one well-formed interchange file with n distinct keys, each with one block and one attestation, into the current
  -- store: by C10_protects every key ends at or above the imported values (the harness counts those that do not)
  | ["importbulk", n, _slot, _src, _tgt] =>
    match n.toNat? with
    | some n => (st, some ("bulk ok n=" ++ toString n ++ " below=0 missing=0"))
    | none => bad st line
  -- hypothesis of C07_entry_matches_spec, evaluated: does the parser give `regexify pat` the anchored shape
  -- around the parse of the body?  (a pattern like `a)(b` does not: its wrapped form parses, its body does not)
  | ["jshape", pat] =>
    match unhexStr pat with
    | some pat =>
      let body := if pat.isEmpty then ".*" else pat
      let anch (r : Re) : Re := Re.cat (Re.cat (Re.cat Re.eps Re.bol) r) Re.eol
      (st, some (if ReParse.parse (regexify pat) == (ReParse.parse ("(?i)" ++ body)).map anch then "ok" else "DIFFERS"))
    | none => bad st line
  -- hypothesis of C18_complete_whole_name, evaluated: the lister's anchored string parses to the AST of the
  -- pattern with the assertions put where `listerAnchor` put `^` / `$`
  | ["jlshape", pat] =>
    match unhexStr pat with
    | some pat => (st, some (if decide (ListerShapeOKGen pat) then "ok" else "DIFFERS"))
    | none => bad st line
  -- judge C07: the implementation answered `res` to Check(client, account, op): does the Lean
  -- specification (first bearing item, whole-name matching) say the same?
  | ["jcheck", c, acct, op, res] =>
    match unhexStr c, unhexStr acct, unhexStr op with
    | some c, some acct, some op =>
      let want := Spec.firstBearing st.perms c acct op
      (st, some (if want == (res == "1") then "ok" else if want then "WRONGLY-REFUSED" else "WRONGLY-ALLOWED"))
    | _, _, _ => bad st line
  -- judge C05: a generic signature was observed for (ip, domain): allowed by the Lean predicate?
  | ["jsign", ip, dom] =>
    match ipOf ip, unhexOpt dom with
    | some ip, some dom =>
      let d := dom.getD []
      let ok := decide (prefix4 d ≠ domAttester) && decide (prefix4 d ≠ domProposer) &&
        (decide (prefix4 d ≠ domExit) || (decide (ip ≠ "") && st.adminIPs.contains ip))
      (st, some (if ok then "ok" else "FORBIDDEN-DOMAIN"))
    | _, _ => bad st line
  -- judge C05: an attestation / proposal signature was observed under this domain
  | ["jdom", kind, dom] =>
    match unhexOpt dom with
    | some dom =>
      let d := dom.getD []
      let ok := if kind == "att" then decide (prefix4 d = domAttester) else decide (prefix4 d = domProposer)
      (st, some (if ok then "ok" else "WRONG-ENDPOINT"))
    | none => bad st line
  -- judge C06: a step on the path of this position failed (injected fault / undecodable record):
  -- the position must not carry a signature
  | ["jfault", hasSig] =>
    (st, some (if hasSig == "1" then "SIGNED-DESPITE-FAULT" else "ok"))
  -- judge C06: the fail-closed biconditional on one observed response position
  | ["jiff", state, hasSig] =>
    let p : Pos := { res := if state == "S" then .succeeded else if state == "D" then .denied
                            else if state == "F" then .failed else .unknown,
                     root := if hasSig == "1" then some [] else none }
    (st, some (if decide (p.root ≠ none ↔ p.res = .succeeded) then "ok" else "NOT-CLOSED"))
  | _ => bad st line

/-- state letters of a result line (`S:abcd D` → [S, D]) -/
def lettersOf (line : String) : List String :=
  ((line.splitOn " ").filter (· ≠ "")).map (fun p => (p.splitOn ":").headD "")

/-- Wing–Gong style search: is there an order of the remaining operations, compatible with their
    real-time order, in which the sequential model produces the observed results and final export? -/
def linSearch : Nat → DState → List (Nat × Nat × List String × String) → String → Bool
  | 0, st, rem, final => rem.isEmpty && (exportLine st.inst.db).trimAscii.toString == final
  | fuel + 1, st, rem, final =>
    if rem.isEmpty then (exportLine st.inst.db).trimAscii.toString == final else
    rem.any (fun c =>
      -- c may go first only if no other remaining operation finished before c was invoked
      let minimal := rem.all (fun r => !(decide (r.2.1 < c.1)))
      if !minimal then false else
      let (st', out) := dstepCore st c.2.2.2
      if lettersOf (out.getD "") != c.2.2.1 then false
      else linSearch fuel st' (rem.erase c) final)

def dstep (st : DState) (line : String) : DState × Option String :=
  match fields line with
  | ["lin-begin"] => ({ st with linBase := some st.inst, linOps := [] }, some "ok")
  | "lin-op" :: tinv :: tres :: obs :: op =>
    match tinv.toNat?, tres.toNat? with
    | some a, some b =>
      ({ st with linOps := st.linOps ++ [(a, b, (obs.splitOn "+").map (fun p => (p.splitOn ":").headD ""), " ".intercalate op)] },
       some "ok")
    | _, _ => bad st line
  | "lin-end" :: final =>
    let ok := linSearch (st.linOps.length + 1) st st.linOps (" ".intercalate final).trimAscii.toString
    (st, some (if ok then "LINEARIZABLE" else "NOT-LINEARIZABLE"))
  | _ => dstepCore st line

end Driver
