/-
  Driver.Engines — interpreter of the line protocol on the Lean model (`dstep`).
-/
import Driver.Proto
import Dirk.Spec.Slashing
import Dirk.Props.C05
import Dirk.Props.C06
import Dirk.Spec.Perms
import Dirk.Spec.Import
import Dirk.Model.Scatter
import Dirk.Model.LockTrace

namespace Driver
open Dirk

structure DState where
  accounts : List Account := []
  perms : Perms := []
  adminIPs : List String := []
  raw : Db := []
  legacyRegex : Bool := false
  inst : Inst := { cfg := {} }
  -- judge state
  jvotes : List (Bytes × Spec.Vote) := []
  jprops : List (Bytes × PropData) := []
  jfile : IFile := { metadata := none, data := [] }
  dbB : Option Db := none          -- the re-imported copy after `roundtrip`
  lastTrace : List LTok := []
  linBase : Option Inst := none    -- instance state at `lin-begin`
  linOps : List (Nat × Nat × List String × String) := []   -- (t_inv, t_res, observed states, op line)
  deriving Inhabited

def addPerm (ps : Perms) (client : String) (e : PermEntry) : Perms :=
  if ps.any (·.1 == client) then ps.map (fun p => if p.1 == client then (p.1, p.2 ++ [e]) else p)
  else ps ++ [(client, [e])]

def insertSorted (x : String) : List String → List String
  | [] => [x]
  | y :: ys => if x ≤ y then x :: y :: ys else y :: insertSorted x ys

def sortStrings (l : List String) : List String := l.foldr insertSorted []

def exportLine (db : Db) : String :=
  let keys := db.pubKeys
  let parts := keys.map (fun k =>
    match exportKey db k with
    | some p => some (hex k ++ ":" ++ toString p.slot ++ ":" ++ toString p.src ++ ":" ++ toString p.tgt)
    | none => none)
  if parts.any Option.isNone then "E-ERR"
  else "E " ++ " ".intercalate (sortStrings (parts.filterMap id))

def manyStr (ps : List Pos) : String := " ".intercalate (ps.map posStr)

def splitItems (s : String) : List (List String) := (s.splitOn ";").map (·.splitOn ",")

/-- source address field: `-` / `.` = absent -/
def ipOf (s : String) : Option String := if s == "-" || s == "." then some "" else unhexStr s

/-- `.` = empty string -/
def hs (s : String) : Option String := if s == "." then some "" else unhexStr s

def parseIFile (metaS entriesS : String) : Option IFile :=
  let md? : Option (Option (String × String)) :=
    if metaS == "-" then some none else
    match metaS.splitOn "," with
    | [v, g] => match hs v, hs g with
      | some v, some g => some (some (v, g))
      | _, _ => none
    | _ => none
  let entries? : Option (List FileEntry) :=
    if entriesS == "-" then some [] else
    (entriesS.splitOn ";").mapM (fun e =>
      match e.splitOn "," with
      | [pk, bl, att] =>
        let blocks? := if bl == "-" then some [] else (bl.splitOn ":").mapM hs
        let atts? := if att == "-" then some [] else (att.splitOn ":").mapM (fun p =>
          match p.splitOn "~" with
          | [a, b] => match hs a, hs b with
            | some a, some b => some (a, b)
            | _, _ => none
          | _ => none)
        match hs pk, blocks?, atts? with
        | some pk, some blocks, some atts => some { pubkey := pk, blocks := blocks, atts := atts }
        | _, _, _ => none
      | _ => none)
  match md?, entries? with
  | some m, some es => some { metadata := m, data := es }
  | _, _ => none

def parseProt (a b c : String) : Option Protection :=
  match a.toInt?, b.toInt?, c.toInt? with
  | some a, some b, some c => some { slot := a, src := b, tgt := c }
  | _, _, _ => none

def bad (st : DState) (l : String) : DState × Option String := (st, some ("bad-op " ++ l))

def dstepCore (st : DState) (line : String) : DState × Option String :=
  match fields line with
  | ["acct", w, n, pk, u] =>
    match unhexStr w, unhexStr n, unhex pk with
    | some w, some n, some pk =>
      ({ st with accounts := st.accounts ++ [{ wallet := w, name := n, pubkey := pk, unlockable := u == "1" }] }, none)
    | _, _, _ => bad st line
  | ["perm", c, p, ops] =>
    match unhexStr c, unhexStr p with
    | some c, some p =>
      let ops := if ops == "-" then some [] else (ops.splitOn ",").mapM unhexStr
      match ops with
      | some ops => ({ st with perms := addPerm st.perms c { path := p, ops := ops } }, none)
      | none => bad st line
    | _, _ => bad st line
  | ["permclient", c] =>          -- a client with an empty entry list
    match unhexStr c with
    | some c => ({ st with perms := st.perms ++ [(c, [])] }, none)
    | none => bad st line
  | ["admin", ip] =>
    match unhexStr ip with
    | some ip => ({ st with adminIPs := st.adminIPs ++ [ip] }, none)
    | none => bad st line
  | ["raw", k, v] =>
    match unhex k, unhex v with
    | some k, some v => ({ st with raw := st.raw.put k v }, none)
    | _, _ => bad st line
  | ["legacyregex"] => ({ st with legacyRegex := true }, none)
  | ["begin"] =>
    let rx := if st.legacyRegex then regexifyLegacy else regexify
    match compilePerms rx st.perms with
    | none => ({ st with inst := { cfg := { accounts := st.accounts, adminIPs := st.adminIPs }, db := st.raw } }, some "newfail")
    | some acc =>
      ({ st with inst := { cfg := { accounts := st.accounts, access := acc, adminIPs := st.adminIPs }, db := st.raw } },
       some "ok")
  | ["reset"] => ({}, none)
  | ["check", c, acct, op] =>
    match unhexStr c, unhexStr acct, unhexStr op with
    | some c, some acct, some op => (st, some (if check st.inst.cfg.access c acct op then "1" else "0"))
    | _, _, _ => bad st line
  | ["att", c, _ip, addr, d, f] =>
    match unhexStr c, parseAddr addr, parseAtt (d.splitOn ","), parseFaults f with
    | some c, some a, some d, some f =>
      let (s', p) := signAtt st.inst c a d f.f (f.signFail.contains 0)
      ({ st with inst := s', lastTrace := traceAtt st.inst c a d ++ (if p.root.isSome then [.sign] else []) }, some (posStr p))
    | _, _, _, _ => bad st line
  | ["atts", c, _ip, f, items] =>
    let its := (splitItems items).mapM (fun fs =>
      match fs with
      | a :: rest => match parseAddr a, parseAtt rest with
        | some a, some d => some (a, d)
        | _, _ => none
      | _ => none)
    match unhexStr c, parseFaults f, its with
    | some c, some f, some its =>
      let (s', ps) := signAtts st.inst c its f.f f.signFail
      ({ st with inst := s', lastTrace := traceAtts st.inst c its ++ List.replicate (ps.filter (·.root.isSome)).length .sign }, some (manyStr ps))
    | _, _, _ => bad st line
  | ["atts0", c, _ip] =>
    match unhexStr c with
    | some c => let (s', ps) := signAtts st.inst c [] {}; ({ st with inst := s' }, some (manyStr ps))
    | none => bad st line
  | ["prop", c, _ip, addr, d, f] =>
    match unhexStr c, parseAddr addr, parseProp (d.splitOn ","), parseFaults f with
    | some c, some a, some d, some f =>
      let (s', p) := signProp st.inst c a d f.f (f.signFail.contains 0)
      ({ st with inst := s', lastTrace := traceProp st.inst c a d ++ (if p.root.isSome then [.sign] else []) }, some (posStr p))
    | _, _, _, _ => bad st line
  | ["sign", c, ip, addr, d, f] =>
    match unhexStr c, ipOf ip, parseAddr addr, parseSign (d.splitOn ","), parseFaults f with
    | some c, some ip, some a, some d, some f =>
      let (s', p) := signGeneric st.inst c ip a d (f.signFail.contains 0)
      ({ st with inst := s', lastTrace := traceSign st.inst c a d ++ (if p.root.isSome then [.sign] else []) }, some (posStr p))
    | _, _, _, _, _ => bad st line
  | ["msign", c, ip, f, items] =>
    let its := (splitItems items).mapM (fun fs =>
      match fs with
      | a :: rest => match parseAddr a, parseSign rest with
        | some a, some d => some (a, d)
        | _, _ => none
      | _ => none)
    match unhexStr c, ipOf ip, parseFaults f, its with
    | some c, some ip, some f, some its =>
      let (s', ps) := multisign st.inst c ip its f.signFail
      ({ st with inst := s', lastTrace := traceMsign st.inst c its ++ List.replicate (ps.filter (·.root.isSome)).length .sign }, some (manyStr ps))
    | _, _, _, _ => bad st line
  | ["locktrace"] => (st, none)
  | ["ltrace"] =>
    let tok (t : LTok) : String := match t with
      | .pre => "P" | .post => "Q" | .fetch => "F" | .store => "S" | .stored => "X" | .sign => "G"
      | .lock k => "L:" ++ hex (k.take 4) | .unlock k => "U:" ++ hex (k.take 4)
    (st, some (if st.lastTrace.isEmpty then "-" else " ".intercalate (st.lastTrace.map tok)))
  | ["syncwrites"] => (st, some "true")
  -- judge C03: after a kill and restart the exported record (es, et) must cover a signature (s, t)
  -- that had been returned before the kill
  | ["jcoveratt", s, t, es, et] =>
    match s.toInt?, t.toInt?, es.toInt?, et.toInt? with
    | some s, some t, some es, some et => (st, some (if decide (s ≤ es) && decide (t ≤ et) then "ok" else "NOT-RECORDED"))
    | _, _, _, _ => bad st line
  | ["jcoverprop", slot, eslot] =>
    match slot.toInt?, eslot.toInt? with
    | some a, some b => (st, some (if decide (a ≤ b) then "ok" else "NOT-RECORDED"))
    | _, _ => bad st line
  | ["restart"] => (st, some "ok")
  | ["export"] => (st, some (exportLine st.inst.db))
  -- judge: released signatures observed on the implementation, evaluated by the Spec predicates
  | ["jatt", k, d] =>
    match unhex k, parseAtt (d.splitOn ",") with
    | some k, some d =>
      let v := Spec.voteOf d
      let clash := st.jvotes.any (fun e => e.1 == k && decide (Spec.Slashable e.2 v))
      ({ st with jvotes := st.jvotes ++ [(k, v)] }, some (if clash then "SLASHABLE" else "ok"))
    | _, _ => bad st line
  -- order-free variant (concurrent requests): two different proposals released for one slot
  | ["jpropd", k, d] =>
    match unhex k, parseProp (d.splitOn ",") with
    | some k, some d =>
      let clash := st.jprops.any (fun e => e.1 == k && decide (Spec.DoubleProposal e.2 d))
      ({ st with jprops := st.jprops ++ [(k, d)] }, some (if clash then "DOUBLE-PROPOSAL" else "ok"))
    | _, _ => bad st line
  | ["jprop", k, d] =>
    match unhex k, parseProp (d.splitOn ",") with
    | some k, some d =>
      let clash := st.jprops.any (fun e => e.1 == k && decide (d.slot ≤ e.2.slot))
      ({ st with jprops := st.jprops ++ [(k, d)] }, some (if clash then "NOT-INCREASING" else "ok"))
    | _, _ => bad st line
  | ["import", gvr, md, entries] =>
    match hs gvr, parseIFile md entries with
    | some gvr, some f =>
      match importFile gvr st.inst.db f with
      | .ok db' => ({ st with inst := { st.inst with db := db' } }, some "ok")
      | .error => (st, some "err")
    | _, _ => bad st line
  | ["probeatt", pk, s, t] =>
    match unhex pk, s.toNat?, t.toNat? with
    | some pk, some s, some t =>
      let req : AttReq := { domain := domAttester ++ List.replicate 28 0, src := s, tgt := t }
      let r := onAttest st.inst.db pk req {}
      match st.dbB with
      | none => ({ st with inst := { st.inst with db := r.2 } }, some r.1.toStr)
      | some b =>
        let rb := onAttest b pk req {}
        ({ st with inst := { st.inst with db := r.2 }, dbB := some rb.2 }, some (r.1.toStr ++ " " ++ rb.1.toStr))
    | _, _, _ => bad st line
  | ["probeprop", pk, slot] =>
    match unhex pk, slot.toNat? with
    | some pk, some slot =>
      let req : PropReq := { domain := domProposer ++ List.replicate 28 0, slot := slot }
      let r := onPropose st.inst.db pk req {}
      match st.dbB with
      | none => ({ st with inst := { st.inst with db := r.2 } }, some r.1.toStr)
      | some b =>
        let rb := onPropose b pk req {}
        ({ st with inst := { st.inst with db := r.2 }, dbB := some rb.2 }, some (r.1.toStr ++ " " ++ rb.1.toStr))
    | _, _ => bad st line
  | ["roundtrip"] =>
    let g := "0x0000000000000000000000000000000000000000000000000000000000000001"
    match toFile g st.inst.db with
    | none => (st, some "E-ERR")
    | some f =>
      match importFile g [] f with
      | .ok b => ({ st with dbB := some b }, some (exportLine b))
      | .error => (st, some "E-IMPORT-ERR")
  | ["exportb"] =>
    match st.dbB with
    | none => (st, some "E-NOTWIN")
    | some b => (st, some (exportLine b))
  | ["scatter", n, p] =>
    match n.toNat?, p.toNat? with
    | some n, some p =>
      (st, some (" ".intercalate ((extents n p).map (fun e => toString e.1 ++ ":" ++ toString e.2))))
    | _, _ => bad st line
  -- judge C09: a well-formed, authorised, fault-free attestation request was answered `state`;
  -- if it advances on everything released so far for the key it must have been signed
  | ["jliveatt", k, s, t, state] =>
    match unhex k, s.toNat?, t.toNat? with
    | some k, some s, some t =>
      let mine := st.jvotes.filter (fun e => e.1 == k)
      let advancing := mine.all (fun e => decide (e.2.tgt < t) && decide (e.2.src ≤ s))
      let must := advancing && decide (s < two63) && decide (t < two63) && (decide (s < t) || (s == 0 && t == 0))
      (st, some (if must && state != "S" then "REFUSED-ADVANCING" else "ok"))
    | _, _, _ => bad st line
  | ["jliveprop", k, slot, state] =>
    match unhex k, slot.toNat? with
    | some k, some slot =>
      let mine := st.jprops.filter (fun e => e.1 == k)
      let must := mine.all (fun e => decide (e.2.slot < slot)) && decide (slot < two63)
      (st, some (if must && state != "S" then "REFUSED-ADVANCING" else "ok"))
    | _, _ => bad st line
  -- judge C11 (legacy records): the export of a key must state exactly the values its old-format
  -- records hold
  | ["jlegacy", a, b, c, x, y, z] =>
    match parseProt a b c, parseProt x y z with
    | some got, some want => (st, some (if got == want then "ok" else "LEGACY-RECORD-NOT-HONOURED"))
    | _, _ => bad st line
  -- judge C11: the export states, for key k, exactly the highest released slot / source / target
  | ["jexport", k, a, b, c] =>
    match unhex k, parseProt a b c with
    | some k, some p =>
      let votes := (st.jvotes.filter (fun e => e.1 == k)).map (·.2)
      let props := (st.jprops.filter (fun e => e.1 == k)).map (·.2)
      let mx (l : List Nat) : Int := l.foldl (fun (acc : Int) (x : Nat) => if Int.ofNat x > acc then Int.ofNat x else acc) (-1)
      let want : Protection := { slot := mx (props.map (·.slot)), src := mx (votes.map (·.src)), tgt := mx (votes.map (·.tgt)) }
      (st, some (if want == p then "ok" else "EXPORT-NOT-EXACT"))
    | _, _ => bad st line
  -- judge C10: remember the file of the import being judged …
  | ["jimpfile", md, entries] =>
    match parseIFile md entries with
    | some f => ({ st with jfile := f }, some "ok")
    | none => bad st line
  -- … then, per key: protection exported before / after a *successful* import
  | ["jimpkey", k, b1, b2, b3, a1, a2, a3] =>
    match unhex k, parseProt b1 b2 b3, parseProt a1 a2 a3 with
    | some k, some b, some a =>
      (st, some (if Spec.importProtects st.jfile k b a then "ok" else "WEAKENED"))
    | _, _, _ => bad st line
  -- … or a *failed* import
  | ["jimpfail", _k, b1, b2, b3, a1, a2, a3] =>
    match parseProt b1 b2 b3, parseProt a1 a2 a3 with
    | some b, some a => (st, some (if Spec.importUnchanged b a then "ok" else "CHANGED-ON-FAILURE"))
    | _, _ => bad st line
  -- judge C07: the implementation answered `res` to Check(client, account, op): does the Lean
  -- specification (first bearing item, whole-name matching) say the same?
  | ["jcheck", c, acct, op, res] =>
    match unhexStr c, unhexStr acct, unhexStr op with
    | some c, some acct, some op =>
      let want := Spec.firstBearing st.perms c acct op
      (st, some (if want == (res == "1") then "ok" else if want then "WRONGLY-REFUSED" else "WRONGLY-ALLOWED"))
    | _, _, _ => bad st line
  -- judge C05: a generic signature was observed for (ip, domain): allowed by the Lean predicate?
  | ["jsign", ip, dom] =>
    match ipOf ip, unhexOpt dom with
    | some ip, some dom =>
      let d := dom.getD []
      let ok := decide (prefix4 d ≠ domAttester) && decide (prefix4 d ≠ domProposer) &&
        (decide (prefix4 d ≠ domExit) || (decide (ip ≠ "") && st.adminIPs.contains ip))
      (st, some (if ok then "ok" else "FORBIDDEN-DOMAIN"))
    | _, _ => bad st line
  -- judge C05: an attestation / proposal signature was observed under this domain
  | ["jdom", kind, dom] =>
    match unhexOpt dom with
    | some dom =>
      let d := dom.getD []
      let ok := if kind == "att" then decide (prefix4 d = domAttester) else decide (prefix4 d = domProposer)
      (st, some (if ok then "ok" else "WRONG-ENDPOINT"))
    | none => bad st line
  -- judge C06: a step on the path of this position failed (injected fault / undecodable record):
  -- the position must not carry a signature
  | ["jfault", hasSig] =>
    (st, some (if hasSig == "1" then "SIGNED-DESPITE-FAULT" else "ok"))
  -- judge C06: the fail-closed biconditional on one observed response position
  | ["jiff", state, hasSig] =>
    let p : Pos := { res := if state == "S" then .succeeded else if state == "D" then .denied
                            else if state == "F" then .failed else .unknown,
                     root := if hasSig == "1" then some [] else none }
    (st, some (if decide (p.root ≠ none ↔ p.res = .succeeded) then "ok" else "NOT-CLOSED"))
  | _ => bad st line

/-- state letters of a result line (`S:abcd D` → [S, D]) -/
def lettersOf (line : String) : List String :=
  ((line.splitOn " ").filter (· ≠ "")).map (fun p => (p.splitOn ":").headD "")

/-- Wing–Gong style search: is there an order of the remaining operations, compatible with their
    real-time order, in which the sequential model produces the observed results and final export? -/
def linSearch : Nat → DState → List (Nat × Nat × List String × String) → String → Bool
  | 0, st, rem, final => rem.isEmpty && (exportLine st.inst.db).trimAscii.toString == final
  | fuel + 1, st, rem, final =>
    if rem.isEmpty then (exportLine st.inst.db).trimAscii.toString == final else
    rem.any (fun c =>
      -- c may go first only if no other remaining operation finished before c was invoked
      let minimal := rem.all (fun r => !(decide (r.2.1 < c.1)))
      if !minimal then false else
      let (st', out) := dstepCore st c.2.2.2
      if lettersOf (out.getD "") != c.2.2.1 then false
      else linSearch fuel st' (rem.erase c) final)

def dstep (st : DState) (line : String) : DState × Option String :=
  match fields line with
  | ["lin-begin"] => ({ st with linBase := some st.inst, linOps := [] }, some "ok")
  | "lin-op" :: tinv :: tres :: obs :: op =>
    match tinv.toNat?, tres.toNat? with
    | some a, some b =>
      ({ st with linOps := st.linOps ++ [(a, b, (obs.splitOn "+").map (fun p => (p.splitOn ":").headD ""), " ".intercalate op)] },
       some "ok")
    | _, _ => bad st line
  | "lin-end" :: final =>
    let ok := linSearch (st.linOps.length + 1) st st.linOps (" ".intercalate final).trimAscii.toString
    (st, some (if ok then "LINEARIZABLE" else "NOT-LINEARIZABLE"))
  | _ => dstepCore st line

end Driver
