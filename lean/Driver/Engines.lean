/-
  Driver.Engines — interpreter of the line protocol on the Lean model (`dstep`).
-/
import Driver.Proto
import Dirk.Spec.Slashing
import Dirk.Props.C05
import Dirk.Props.C06
import Dirk.Spec.Perms

namespace Driver
open Dirk

structure DState where
  accounts : List Account := []
  perms : Perms := []
  adminIPs : List String := []
  raw : Db := []
  legacyRegex : Bool := false
  inst : Inst := { cfg := {} }
  -- judge state
  jvotes : List (Bytes × Spec.Vote) := []
  jprops : List (Bytes × PropData) := []
  deriving Inhabited

def addPerm (ps : Perms) (client : String) (e : PermEntry) : Perms :=
  if ps.any (·.1 == client) then ps.map (fun p => if p.1 == client then (p.1, p.2 ++ [e]) else p)
  else ps ++ [(client, [e])]

def insertSorted (x : String) : List String → List String
  | [] => [x]
  | y :: ys => if x ≤ y then x :: y :: ys else y :: insertSorted x ys

def sortStrings (l : List String) : List String := l.foldr insertSorted []

def exportLine (db : Db) : String :=
  let keys := db.pubKeys
  let parts := keys.map (fun k =>
    match exportKey db k with
    | some p => some (hex k ++ ":" ++ toString p.slot ++ ":" ++ toString p.src ++ ":" ++ toString p.tgt)
    | none => none)
  if parts.any Option.isNone then "E-ERR"
  else "E " ++ " ".intercalate (sortStrings (parts.filterMap id))

def manyStr (ps : List Pos) : String := " ".intercalate (ps.map posStr)

def splitItems (s : String) : List (List String) := (s.splitOn ";").map (·.splitOn ",")

/-- source address field: `-` / `.` = absent -/
def ipOf (s : String) : Option String := if s == "-" || s == "." then some "" else unhexStr s

def bad (st : DState) (l : String) : DState × Option String := (st, some ("bad-op " ++ l))

def dstep (st : DState) (line : String) : DState × Option String :=
  match fields line with
  | ["acct", w, n, pk, u] =>
    match unhexStr w, unhexStr n, unhex pk with
    | some w, some n, some pk =>
      ({ st with accounts := st.accounts ++ [{ wallet := w, name := n, pubkey := pk, unlockable := u == "1" }] }, none)
    | _, _, _ => bad st line
  | ["perm", c, p, ops] =>
    match unhexStr c, unhexStr p with
    | some c, some p =>
      let ops := if ops == "-" then some [] else (ops.splitOn ",").mapM unhexStr
      match ops with
      | some ops => ({ st with perms := addPerm st.perms c { path := p, ops := ops } }, none)
      | none => bad st line
    | _, _ => bad st line
  | ["permclient", c] =>          -- a client with an empty entry list
    match unhexStr c with
    | some c => ({ st with perms := st.perms ++ [(c, [])] }, none)
    | none => bad st line
  | ["admin", ip] =>
    match unhexStr ip with
    | some ip => ({ st with adminIPs := st.adminIPs ++ [ip] }, none)
    | none => bad st line
  | ["raw", k, v] =>
    match unhex k, unhex v with
    | some k, some v => ({ st with raw := st.raw.put k v }, none)
    | _, _ => bad st line
  | ["legacyregex"] => ({ st with legacyRegex := true }, none)
  | ["begin"] =>
    let rx := if st.legacyRegex then regexifyLegacy else regexify
    match compilePerms rx st.perms with
    | none => ({ st with inst := { cfg := { accounts := st.accounts, adminIPs := st.adminIPs }, db := st.raw } }, some "newfail")
    | some acc =>
      ({ st with inst := { cfg := { accounts := st.accounts, access := acc, adminIPs := st.adminIPs }, db := st.raw } },
       some "ok")
  | ["reset"] => ({}, none)
  | ["check", c, acct, op] =>
    match unhexStr c, unhexStr acct, unhexStr op with
    | some c, some acct, some op => (st, some (if check st.inst.cfg.access c acct op then "1" else "0"))
    | _, _, _ => bad st line
  | ["att", c, _ip, addr, d, f] =>
    match unhexStr c, parseAddr addr, parseAtt (d.splitOn ","), parseFaults f with
    | some c, some a, some d, some f =>
      let (s', p) := signAtt st.inst c a d f.f (f.signFail.contains 0)
      ({ st with inst := s' }, some (posStr p))
    | _, _, _, _ => bad st line
  | ["atts", c, _ip, f, items] =>
    let its := (splitItems items).mapM (fun fs =>
      match fs with
      | a :: rest => match parseAddr a, parseAtt rest with
        | some a, some d => some (a, d)
        | _, _ => none
      | _ => none)
    match unhexStr c, parseFaults f, its with
    | some c, some f, some its =>
      let (s', ps) := signAtts st.inst c its f.f f.signFail
      ({ st with inst := s' }, some (manyStr ps))
    | _, _, _ => bad st line
  | ["atts0", c, _ip] =>
    match unhexStr c with
    | some c => let (s', ps) := signAtts st.inst c [] {}; ({ st with inst := s' }, some (manyStr ps))
    | none => bad st line
  | ["prop", c, _ip, addr, d, f] =>
    match unhexStr c, parseAddr addr, parseProp (d.splitOn ","), parseFaults f with
    | some c, some a, some d, some f =>
      let (s', p) := signProp st.inst c a d f.f (f.signFail.contains 0)
      ({ st with inst := s' }, some (posStr p))
    | _, _, _, _ => bad st line
  | ["sign", c, ip, addr, d, f] =>
    match unhexStr c, ipOf ip, parseAddr addr, parseSign (d.splitOn ","), parseFaults f with
    | some c, some ip, some a, some d, some f =>
      let (s', p) := signGeneric st.inst c ip a d (f.signFail.contains 0)
      ({ st with inst := s' }, some (posStr p))
    | _, _, _, _, _ => bad st line
  | ["msign", c, ip, f, items] =>
    let its := (splitItems items).mapM (fun fs =>
      match fs with
      | a :: rest => match parseAddr a, parseSign rest with
        | some a, some d => some (a, d)
        | _, _ => none
      | _ => none)
    match unhexStr c, ipOf ip, parseFaults f, its with
    | some c, some ip, some f, some its =>
      let (s', ps) := multisign st.inst c ip its f.signFail
      ({ st with inst := s' }, some (manyStr ps))
    | _, _, _, _ => bad st line
  | ["restart"] => (st, some "ok")
  | ["export"] => (st, some (exportLine st.inst.db))
  -- judge: released signatures observed on the implementation, evaluated by the Spec predicates
  | ["jatt", k, d] =>
    match unhex k, parseAtt (d.splitOn ",") with
    | some k, some d =>
      let v := Spec.voteOf d
      let clash := st.jvotes.any (fun e => e.1 == k && decide (Spec.Slashable e.2 v))
      ({ st with jvotes := st.jvotes ++ [(k, v)] }, some (if clash then "SLASHABLE" else "ok"))
    | _, _ => bad st line
  | ["jprop", k, d] =>
    match unhex k, parseProp (d.splitOn ",") with
    | some k, some d =>
      let clash := st.jprops.any (fun e => e.1 == k && decide (d.slot ≤ e.2.slot))
      ({ st with jprops := st.jprops ++ [(k, d)] }, some (if clash then "NOT-INCREASING" else "ok"))
    | _, _ => bad st line
  -- judge C07: the implementation answered `res` to Check(client, account, op): does the Lean
  -- specification (first bearing item, whole-name matching) say the same?
  | ["jcheck", c, acct, op, res] =>
    match unhexStr c, unhexStr acct, unhexStr op with
    | some c, some acct, some op =>
      let want := Spec.firstBearing st.perms c acct op
      (st, some (if want == (res == "1") then "ok" else if want then "WRONGLY-REFUSED" else "WRONGLY-ALLOWED"))
    | _, _, _ => bad st line
  -- judge C05: a generic signature was observed for (ip, domain): allowed by the Lean predicate?
  | ["jsign", ip, dom] =>
    match ipOf ip, unhexOpt dom with
    | some ip, some dom =>
      let d := dom.getD []
      let ok := decide (prefix4 d ≠ domAttester) && decide (prefix4 d ≠ domProposer) &&
        (decide (prefix4 d ≠ domExit) || (decide (ip ≠ "") && st.adminIPs.contains ip))
      (st, some (if ok then "ok" else "FORBIDDEN-DOMAIN"))
    | _, _ => bad st line
  -- judge C05: an attestation / proposal signature was observed under this domain
  | ["jdom", kind, dom] =>
    match unhexOpt dom with
    | some dom =>
      let d := dom.getD []
      let ok := if kind == "att" then decide (prefix4 d = domAttester) else decide (prefix4 d = domProposer)
      (st, some (if ok then "ok" else "WRONG-ENDPOINT"))
    | none => bad st line
  -- judge C06: the fail-closed biconditional on one observed response position
  | ["jiff", state, hasSig] =>
    let p : Pos := { res := if state == "S" then .succeeded else if state == "D" then .denied
                            else if state == "F" then .failed else .unknown,
                     root := if hasSig == "1" then some [] else none }
    (st, some (if decide (p.root ≠ none ↔ p.res = .succeeded) then "ok" else "NOT-CLOSED"))
  | _ => bad st line

end Driver
