/-
  Obligations on the regenerated facts about the slashing-protection store (C03 and the record keys
  every rule theorem relies on).  `lake build` re-checks them against what /repo's source says now.
-/
import Dirk.Gen.Facts
import Dirk.Model.Rules

namespace Dirk

/-- NewStore sets SyncWrites to the literal `true` -/
theorem facts_sync_writes : Gen.storeSyncWrites = some "true" := by decide

/-- NewStore sets only reviewed badger options: in particular nothing that switches off the directory lock
    (`BypassLockGuard`), makes the store read-only or in-memory, or changes how many versions are kept -/
theorem facts_store_options :
    Gen.storeOptionsSet.all (fun o => ["Logger", "SyncWrites", "TableLoadingMode", "ValueLogLoadingMode"].contains o) = true := by decide

/-- the record-key action bytes are the ones the model uses (attestation 0x02, proposal 0x03) -/
theorem facts_action_bytes :
    Gen.actionBytes = ["actionSignBeaconAttestation=[]byte{0x02}", "actionSignBeaconProposal=[]byte{0x03}"] ∧
    actionAtt = 2 ∧ actionProp = 3 := by decide

end Dirk
