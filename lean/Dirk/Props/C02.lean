/-
  C02 — No two different block proposals are ever signed for the same slot; more strongly, the slots
  of the proposals signed for a key are strictly increasing over the lifetime of an instance.

  Quantified over every configuration, pre-existing store, finite history of operations (proposals
  by name or key with any slot/roots/domains, faults with the failed write landed or not, restarts,
  attestations and generic signing in between) and key.
-/
import Dirk.Lemmas.Run
import Dirk.Spec.Slashing
import Dirk.Props.KernelsEq

namespace Dirk
open Spec

/-- **C02 (strictly increasing).** -/
theorem C02_increasing (cfg : Config) (db0 : Db) (ops : List Op) (k : Bytes) :
    (proposalsFor (run (init cfg db0) ops).propLog k).Pairwise (fun a b => a.slot < b.slot) := by
  have h := (run_propInv ops _ (init_propInv cfg db0)).mono
  unfold proposalsFor
  rw [List.pairwise_map]
  have h1 := List.Pairwise.filter (fun e => decide (e.1 = k)) h
  refine List.Pairwise.imp_of_mem ?_ h1
  intro a b ha hb hab
  have hak : a.1 = k := by simpa using (List.mem_filter.mp ha).2
  have hbk : b.1 = k := by simpa using (List.mem_filter.mp hb).2
  exact hab (by rw [hak, hbk])

/-- **C02.** No two proposal signatures released for one key are for the same slot. -/
theorem C02 (cfg : Config) (db0 : Db) (ops : List Op) (k : Bytes) :
    (proposalsFor (run (init cfg db0) ops).propLog k).Pairwise
      (fun a b => ¬ DoubleProposal a b ∧ ¬ DoubleProposal b a) := by
  refine (C02_increasing cfg db0 ops k).imp ?_
  intro a b h
  unfold DoubleProposal
  constructor <;> (intro ⟨h1, _⟩; omega)

/-- The statement is **false** of the rule as shipped at the pinned commit: slot 2^63 is approved,
    stored as a negative watermark, and approved again. -/
theorem C02_legacy_counterexample :
    (onProposeLegacy [] [7] ⟨domProposer, two63⟩).1 = .approved ∧
    (onProposeLegacy (onProposeLegacy [] [7] ⟨domProposer, two63⟩).2 [7] ⟨domProposer, two63⟩).1 = .approved := by
  constructor <;> decide

/-- the fixed rule refuses it -/
theorem C02_fixed_refuses : (onPropose [] [7] ⟨domProposer, two63⟩ {}).1 = .denied := by decide

/-- non-vacuity: advancing proposals are approved, a repeated slot is refused -/
example : (onPropose [] [7] ⟨domProposer, 5⟩ {}).1 = .approved := by decide
example : (onPropose (onPropose [] [7] ⟨domProposer, 5⟩ {}).2 [7] ⟨domProposer, 6⟩ {}).1 = .approved := by decide
example : (onPropose (onPropose [] [7] ⟨domProposer, 5⟩ {}).2 [7] ⟨domProposer, 5⟩ {}).1 = .denied := by decide

/-- **tie by translation.** `onPropose` is, for all stores, keys, requests and fault plans, the function `factx`
    translates from the current Go source of `OnSignBeaconProposal` (domain check, MaxInt64 guard, fetch,
    comparison with the stored slot, store), applied to the model's store. -/
theorem C02_kernel_is_source (db : Db) (pk : Bytes) (r : PropReq) (f : Faults) :
    onPropose db pk r f =
      propApply db pk f (Gen.propChecksGen r.domain r.slot (fetchProp db pk (f.fetchFail.contains 0)) (!f.storeFail)) :=
  onPropose_eq_gen db pk r f

end Dirk
