/-
  C02 — No two different block proposals are ever signed for the same slot; more strongly, the slots
  of the proposals signed for a key are strictly increasing over the lifetime of an instance.

  Quantified over every configuration, pre-existing store, finite history of operations (proposals
  by name or key with any slot/roots/domains, faults with the failed write landed or not, restarts,
  attestations and generic signing in between, accounts created, locked and unlocked at run time, wallet
  lock / unlock, slashing-protection import commands with any file between a stop and a start) and key.

  The only operation of `Op` the histories of `C02` exclude (`NoRawImport`) is the raw rules-level import
  `Op.importRec` (`importKey`), which OVERWRITES the record of its key and which dirk reaches only through
  the import command (`Op.importCmd`, `importFile`), which merges raise-only first.  The `…_with_imports`
  theorems generalise to histories that also contain raw imports, each of which covers what had been
  released for its key when it is applied (`SafeHist` / `ImportCovers`, Dirk.Model.Instance).  A raw import
  below a released slot makes the statement false: `C02_lowering_import_counterexample`.
-/
import Dirk.Lemmas.Run
import Dirk.Spec.Slashing
import Dirk.Props.KernelsEq
import Dirk.Props.FactsStore
import Dirk.Lemmas.SszBinding

namespace Dirk
open Spec

/-- generalisation of `C02_increasing` to histories with raw imports that cover what had been released -/
theorem C02_increasing_with_imports (cfg : Config) (db0 : Db) (ops : List Op) (hs : SafeHist (init cfg db0) ops)
    (k : Bytes) :
    (proposalsFor (run (init cfg db0) ops).propLog k).Pairwise (fun a b => a.slot < b.slot) := by
  have h := (run_propInv_with_imports ops _ (init_propInv cfg db0) hs).mono
  unfold proposalsFor
  rw [List.pairwise_map]
  have h1 := List.Pairwise.filter (fun e => decide (e.1 = k)) h
  refine List.Pairwise.imp_of_mem ?_ h1
  intro a b ha hb hab
  have hak : a.1 = k := by simpa using (List.mem_filter.mp ha).2
  have hbk : b.1 = k := by simpa using (List.mem_filter.mp hb).2
  exact hab (by rw [hak, hbk])

/-- generalisation of `C02` to histories with raw imports that cover what had been released -/
theorem C02_with_imports (cfg : Config) (db0 : Db) (ops : List Op) (hs : SafeHist (init cfg db0) ops) (k : Bytes) :
    (proposalsFor (run (init cfg db0) ops).propLog k).Pairwise
      (fun a b => ¬ DoubleProposal a b ∧ ¬ DoubleProposal b a) := by
  refine (C02_increasing_with_imports cfg db0 ops hs k).imp ?_
  intro a b h
  unfold DoubleProposal
  constructor <;> (intro ⟨h1, _⟩; omega)

/-- **C02 (strictly increasing).** -/
theorem C02_increasing (cfg : Config) (db0 : Db) (ops : List Op) (k : Bytes) (h : NoRawImport ops) :
    (proposalsFor (run (init cfg db0) ops).propLog k).Pairwise (fun a b => a.slot < b.slot) :=
  C02_increasing_with_imports cfg db0 ops (safeHist_of_noRawImport ops _ h) k

/-- **C02.** No two proposal signatures released for one key are for the same slot. -/
theorem C02 (cfg : Config) (db0 : Db) (ops : List Op) (k : Bytes) (h : NoRawImport ops) :
    (proposalsFor (run (init cfg db0) ops).propLog k).Pairwise
      (fun a b => ¬ DoubleProposal a b ∧ ¬ DoubleProposal b a) :=
  C02_with_imports cfg db0 ops (safeHist_of_noRawImport ops _ h) k

/-- The statement is **false** of the rule as shipped at the pinned commit: slot 2^63 is approved,
    stored as a negative watermark, and approved again. -/
theorem C02_legacy_counterexample :
    (onProposeLegacy [] [7] ⟨domProposer, two63⟩).1 = .approved ∧
    (onProposeLegacy (onProposeLegacy [] [7] ⟨domProposer, two63⟩).2 [7] ⟨domProposer, two63⟩).1 = .approved := by
  constructor <;> decide

/-- the fixed rule refuses it -/
theorem C02_fixed_refuses : (onPropose [] [7] ⟨domProposer, two63⟩ {}).1 = .denied := by decide

/-- non-vacuity: advancing proposals are approved, a repeated slot is refused -/
example : (onPropose [] [7] ⟨domProposer, 5⟩ {}).1 = .approved := by decide
example : (onPropose (onPropose [] [7] ⟨domProposer, 5⟩ {}).2 [7] ⟨domProposer, 6⟩ {}).1 = .approved := by decide
example : (onPropose (onPropose [] [7] ⟨domProposer, 5⟩ {}).2 [7] ⟨domProposer, 5⟩ {}).1 = .denied := by decide

/-! ### histories with a live import between two signing operations -/

namespace C02ex

def dom : Bytes := [0, 0, 0, 0] ++ List.replicate 28 0
def pk : Bytes := List.replicate 48 7
def acct : Account := { wallet := "w", name := "a", pubkey := pk }
def cfg : Config :=
  { accounts := [acct],
    access := [("c", [{ wallet := .star .any, account := .star .any, ops := ["All"] }])] }
def data (slot : Nat) (body : Bytes) : PropData :=
  { domain := some dom, slot := slot, proposer := 0, parentRoot := some [], stateRoot := some [],
    bodyRoot := some body }
def prop (slot : Nat) (body : Bytes) : Op := .prop "c" { name := "w/a" } (data slot body) {}

theorem pc : preCheck cfg "c" { name := "w/a" } opPropose = .ok acct := by decide

theorem root (slot : Nat) (body : Bytes) : ∃ r, (data slot body).signingRoot = some r :=
  ⟨_, header_signingRoot_exists _ _ (by show dom.length = 32; decide)⟩

/-- the store after slot 10 has been signed -/
def db1 : Db := (onPropose [] pk { domain := dom, slot := 10 } {}).2
def s1 : Inst := { cfg := cfg, db := db1, propLog := [(pk, data 10 [1])] }
def s2 (r : Protection) : Inst := { cfg := cfg, db := importKey db1 (toBytes48 pk) r, propLog := [(pk, data 10 [1])] }

theorem step1 : (step (init cfg []) (prop 10 [1])).1 = s1 := by
  obtain ⟨r, hr⟩ := root 10 [1]
  have h := signProp_approved_eq (s := init cfg []) (c := "c") (a := { name := "w/a" }) (d := data 10 [1])
    (f := {}) (acct := acct) (db' := db1) (by decide) pc (by decide) hr
  show (signProp (init cfg []) "c" { name := "w/a" } (data 10 [1]) {} false).1 = s1
  rw [h]; rfl

theorem step2 (r : Protection) : (step s1 (.importRec pk r)).1 = s2 r := rfl

/-- against an imported slot 12, slot 11 is refused -/
theorem step3_refused :
    step (s2 { slot := 12 }) (prop 11 [1]) = (s2 { slot := 12 }, .one ⟨.denied, none⟩) := by
  have h := signProp_denied_eq (s := s2 { slot := 12 }) (c := "c") (a := { name := "w/a" })
    (d := data 11 [1]) (f := {}) (acct := acct) (db' := (s2 { slot := 12 }).db) (by decide) pc (by decide)
  show ((signProp (s2 { slot := 12 }) "c" { name := "w/a" } (data 11 [1]) {} false).1,
        Out.one (signProp (s2 { slot := 12 }) "c" { name := "w/a" } (data 11 [1]) {} false).2) = _
  rw [h]

/-- against an imported slot 5, a second, different block at slot 10 is approved and signed -/
theorem step3_signed :
    (step (s2 { slot := 5 }) (prop 10 [2])).1.propLog = [(pk, data 10 [1]), (pk, data 10 [2])] := by
  obtain ⟨r, hr⟩ := root 10 [2]
  have h := signProp_approved_eq (s := s2 { slot := 5 }) (c := "c") (a := { name := "w/a" })
    (d := data 10 [2]) (f := {}) (acct := acct)
    (db' := (onPropose (s2 { slot := 5 }).db pk { domain := dom, slot := 10 } {}).2) (by decide) pc (by decide) hr
  show (signProp (s2 { slot := 5 }) "c" { name := "w/a" } (data 10 [2]) {} false).1.propLog = _
  rw [h]; rfl

theorem run3 (r : Protection) (d : Op) :
    run (init cfg []) [prop 10 [1], .importRec pk r, d] = (step (s2 r) d).1 := by
  show (step (step (step (init cfg []) (prop 10 [1])).1 (.importRec pk r)).1 d).1 = _
  rw [step1, step2]

end C02ex

/-- non-vacuity of the import case: a history with an import between two proposals that satisfies the
    hypothesis of `C02_with_imports` (the imported slot 12 covers the released slot 10); the proposal after the
    import, slot 11, is refused and nothing is logged for it. -/
example :
    SafeHist (init C02ex.cfg []) [C02ex.prop 10 [1], .importRec C02ex.pk { slot := 12 }, C02ex.prop 11 [1]] ∧
    (step (run (init C02ex.cfg []) [C02ex.prop 10 [1], .importRec C02ex.pk { slot := 12 }]) (C02ex.prop 11 [1])).2
      = .one ⟨.denied, none⟩ ∧
    (run (init C02ex.cfg []) [C02ex.prop 10 [1], .importRec C02ex.pk { slot := 12 }, C02ex.prop 11 [1]]).propLog
      = [(C02ex.pk, C02ex.data 10 [1])] := by
  refine ⟨⟨trivial, ?_, trivial, trivial⟩, ?_, ?_⟩
  · rw [C02ex.step1]; decide
  · show (step (step (step (init C02ex.cfg []) (C02ex.prop 10 [1])).1 (.importRec C02ex.pk _)).1 _).2 = _
    rw [C02ex.step1, C02ex.step2, C02ex.step3_refused]
  · rw [C02ex.run3, C02ex.step3_refused]; rfl

/-- a file for the import command that states LESS (slot 5) than what was signed (slot 10) -/
def C02ex.lowFile : IFile :=
  { metadata := some ("5", "0x" ++ String.ofList (List.replicate 64 '0')),
    data := [{ pubkey := "0x070707070707070707070707070707070707070707070707070707070707070707070707070707070707070707070707",
               blocks := ["5"], atts := [] }] }

/-- non-vacuity of the import-command case: a history in which the import command is run with a file
    holding a lower slot than what was signed, between two proposals, is a history `C02` speaks about. -/
example : NoRawImport [C02ex.prop 10 [1], .importCmd ("0x" ++ String.ofList (List.replicate 64 '0')) C02ex.lowFile,
    C02ex.prop 10 [2]] := by
  decide

example :
    (proposalsFor (run (init C02ex.cfg [])
        [C02ex.prop 10 [1], .importCmd ("0x" ++ String.ofList (List.replicate 64 '0')) C02ex.lowFile,
         C02ex.prop 10 [2]]).propLog C02ex.pk).Pairwise (fun a b => ¬ DoubleProposal a b ∧ ¬ DoubleProposal b a) :=
  C02 _ _ _ _ (by decide)

/-- **With a raw import below a released slot the statement is false.**  A block at slot 10 is signed; a raw
    import (`Op.importRec`, not the import command) then states
    slot 5 for the key (the record is overwritten, not merged); a different block at slot 10 is then
    approved and signed. -/
theorem C02_lowering_import_counterexample :
    ∃ (cfg : Config) (ops : List Op) (k : Bytes),
      ¬ (proposalsFor (run (init cfg []) ops).propLog k).Pairwise
          (fun a b => ¬ DoubleProposal a b ∧ ¬ DoubleProposal b a) := by
  refine ⟨C02ex.cfg, [C02ex.prop 10 [1], .importRec C02ex.pk { slot := 5 }, C02ex.prop 10 [2]], C02ex.pk, ?_⟩
  rw [C02ex.run3, C02ex.step3_signed]
  decide

/-- **tie by translation.** `onPropose` is, for all stores, keys, requests and fault plans, the function `factx`
    translates from the current Go source of `OnSignBeaconProposal` (domain check, MaxInt64 guard, fetch,
    comparison with the stored slot, store), applied to the model's store. -/
theorem C02_kernel_is_source (db : Db) (pk : Bytes) (r : PropReq) (f : Faults) :
    onPropose db pk r f =
      propApply db pk f (Gen.propChecksGen r.domain r.slot (fetchProp db pk (f.fetchFail.contains 0)) (!f.storeFail)) :=
  onPropose_eq_gen db pk r f

end Dirk
