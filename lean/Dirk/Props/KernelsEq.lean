/-
  Dirk.Props.KernelsEq — the decision kernels, as translated mechanically from /repo's current Go source
  by /verif/factx (Dirk/Gen/Kernels.lean, regenerated on every run), are extensionally EQUAL to the hand-written
  model functions of Dirk/Model/Rules.lean (§1–3), Dirk/Model/Checker.lean (§4–5) and Dirk/Model/Dkg.lean (§6–7),
  for all inputs.

  A semantic edit of a Go kernel changes the regenerated definition and one of these theorems stops building;
  a Go construct outside the translator's fragment replaces the definition by `kernelUntranslatable_…`, and this
  file does not compile at all.  Core Lean only.
-/
import Dirk.Model.Rules
import Dirk.Model.Checker
import Dirk.Model.Dkg
import Dirk.Gen.Kernels

namespace Dirk

/-! ## 1. `runSignBeaconAttestationChecks` ↔ `attChecks` -/

/-- repackages the translated kernel's (verdict, (source, target)) as the model's `Verdict × AttState` -/
def attWrap (o : Verdict × (Int × Int)) : Verdict × AttState := (o.1, ⟨o.2.1, o.2.2⟩)

theorem attChecks_eq_gen (r : AttReq) (st : AttState) :
    attChecks r st = attWrap (Gen.attChecksGen r.domain r.src r.tgt st.src st.tgt) := by
  unfold attChecks Gen.attChecksGen attWrap
  repeat' split
  all_goals first | rfl | (exfalso; simp_all; done) | (exfalso; omega)

example : attChecks ⟨[1, 0, 0, 0, 9], 3, 4⟩ ⟨2, 3⟩ = (.approved, ⟨3, 4⟩) ∧
    attWrap (Gen.attChecksGen [1, 0, 0, 0, 9] 3 4 2 3) = (.approved, ⟨3, 4⟩) := by decide

/-! ## 2. `OnSignBeaconProposal` ↔ `onPropose` -/

/-- What `onPropose` decides, with the two store interactions abstracted: `fetched` is the result of the
    state fetch (`none` = error), `storeOk` says whether the store call reports success.  The second component is
    the slot handed to the store, if the store was called at all.  (The model inlines these checks in
    `onPropose`; `onPropose_eq_propChecks` shows this wrapper is exactly what it does.) -/
def propChecks (r : PropReq) (fetched : Option Int) (storeOk : Bool) : Verdict × Option Int :=
  if prefix4 r.domain ≠ domProposer then (.denied, none)
  else if r.slot > maxI64 then (.denied, none)
  else match fetched with
  | none => (.failed, none)
  | some st =>
    if st ≥ 0 ∧ r.slot ≤ u64 st then (.denied, none)
    else (if storeOk then .approved else .failed, some (i64 r.slot))

/-- plugs a `propChecks`-shaped outcome back into the store: the database afterwards is what `storeOne` leaves
    when a write was attempted, and is untouched otherwise -/
def propApply (db : Db) (pk : Bytes) (f : Faults) (o : Verdict × Option Int) : Verdict × Db :=
  (o.1, match o.2 with
        | none => db
        | some v => (storeOne db (propKey pk) (encodeProp v) f).2)

/-- the store call's success does not depend on what is written -/
theorem storeOne_fst (db : Db) (k v : Bytes) (f : Faults) : (storeOne db k v f).1 = !f.storeFail := by
  unfold storeOne; cases f.storeFail <;> simp

/-- `propChecks` is definitionally what `onPropose` does around its fetch and store -/
theorem onPropose_eq_propChecks (db : Db) (pk : Bytes) (r : PropReq) (f : Faults) :
    onPropose db pk r f =
      propApply db pk f (propChecks r (fetchProp db pk (f.fetchFail.contains 0)) (!f.storeFail)) := by
  unfold onPropose propChecks propApply
  generalize fetchProp db pk (f.fetchFail.contains 0) = fetched
  cases fetched <;> dsimp only <;> repeat' split
  all_goals first | rfl | (simp_all [storeOne_fst]; done) | (exfalso; simp_all; done)

theorem propChecks_eq_gen (r : PropReq) (fetched : Option Int) (storeOk : Bool) :
    propChecks r fetched storeOk = Gen.propChecksGen r.domain r.slot fetched storeOk := by
  unfold propChecks Gen.propChecksGen
  cases fetched <;> cases storeOk <;> dsimp only <;> repeat' split
  all_goals first | rfl | (exfalso; simp_all; done) | (exfalso; omega)

/-- the whole rule, fetch and store included, equals the translated kernel -/
theorem onPropose_eq_gen (db : Db) (pk : Bytes) (r : PropReq) (f : Faults) :
    onPropose db pk r f =
      propApply db pk f
        (Gen.propChecksGen r.domain r.slot (fetchProp db pk (f.fetchFail.contains 0)) (!f.storeFail)) := by
  rw [onPropose_eq_propChecks, propChecks_eq_gen]

example : propChecks ⟨[0, 0, 0, 0], 7⟩ (some 6) true = (.approved, some 7) ∧
    Gen.propChecksGen [0, 0, 0, 0] 7 (some 6) true = (.approved, some 7) ∧
    Gen.propChecksGen [0, 0, 0, 0] 7 (some 7) true = (.denied, none) ∧
    Gen.propChecksGen [0, 0, 0, 0] 7 none true = (.failed, none) ∧
    Gen.propChecksGen [0, 0, 0, 0] 7 (some 6) false = (.failed, some 7) := by decide

/-! ## 3. `OnSign` ↔ `onSign` -/

/-- The Go function first returns FAILED on a nil `metadata` pointer; the model's `onSign` is the function of a
    present metadata record (the ruler always passes one), i.e. the translated kernel at `metadataNil = false`. -/
theorem onSign_eq_gen (adminIPs : List String) (ip : String) (domain : Bytes) :
    onSign adminIPs ip domain = Gen.onSignGen false adminIPs ip domain := by
  unfold onSign Gen.onSignGen
  repeat' split
  all_goals first | rfl | (exfalso; simp_all; done)

/-- … and the nil-metadata arm, which the model does not have, is FAILED -/
theorem onSignGen_nil (adminIPs : List String) (ip : String) (domain : Bytes) :
    Gen.onSignGen true adminIPs ip domain = .failed := by
  unfold Gen.onSignGen; simp

example : onSign ["10.0.0.1"] "10.0.0.1" [4, 0, 0, 0] = .approved ∧
    Gen.onSignGen false ["10.0.0.1"] "10.0.0.1" [4, 0, 0, 0] = .approved ∧
    Gen.onSignGen false ["10.0.0.1"] "10.0.0.2" [4, 0, 0, 0] = .denied ∧
    Gen.onSignGen false ["10.0.0.1"] "" [4, 0, 0, 0] = .denied ∧
    Gen.onSignGen false [] "" [2, 0, 0, 0] = .approved := by decide

/-! ## 4. `regexify` (services/checker/static/parameters.go) ↔ `regexify` -/

theorem regexify_eq_gen (name : String) : regexify name = Gen.regexifyGen name := by
  unfold regexify Gen.regexifyGen
  by_cases h : name = "" <;> simp [h, String.isEmpty_iff]

example : Gen.regexifyGen "" = "(?i)^(?:.*)$" ∧ Gen.regexifyGen "a|b" = "(?i)^(?:a|b)$" := by
  simp [Gen.regexifyGen]

/-! ## 5. `Check` (services/checker/static/service.go) ↔ `check` / `scanPaths` / `scanOps` -/

theorem scanOps_eq_gen (op : String) (ops : List String) : scanOps op ops = Gen.checkOpsGen op ops := by
  induction ops with
  | nil => rfl
  | cons o os ih =>
    unfold scanOps Gen.checkOpsGen
    rw [ih]
    repeat' split
    all_goals first | rfl | (exfalso; simp_all; done)

theorem scanPaths_eq_gen (w a op : String) (paths : List CPath) :
    scanPaths w a op paths =
      Gen.checkLoopGen op (paths.map (fun p => (Re.search p.wallet w && Re.search p.account a, p.ops))) := by
  induction paths with
  | nil => rfl
  | cons p ps ih =>
    unfold scanPaths
    simp only [List.map_cons]
    unfold Gen.checkLoopGen
    rw [ih, scanOps_eq_gen]
    rfl

/-- `Check` as the translated guards followed by the translated loops.  The guards' inputs, read off the model's
    state: `pathOk` / `wallet` = outcome of `walletAndAccount` (Go returns empty names with the error),
    `known` = the client has an entry in the access map (a missing entry gives Go's nil slice: no paths). -/
def checkWrap (credsNil : Bool) (acc : Access) (client account op : String) : Bool :=
  match Gen.checkGuardsGen credsNil client (walletAndAccount account).isSome
      ((walletAndAccount account).getD ("", "")).1 (acc.lookup client).isSome with
  | some b => b
  | none =>
    Gen.checkLoopGen op (((acc.lookup client).getD []).map (fun p =>
      (Re.search p.wallet ((walletAndAccount account).getD ("", "")).1 &&
        Re.search p.account ((walletAndAccount account).getD ("", "")).2, p.ops)))

theorem check_eq_gen (acc : Access) (client account op : String) :
    check acc client account op = checkWrap false acc client account op := by
  unfold check checkWrap Gen.checkGuardsGen
  rw [← scanPaths_eq_gen]
  cases hwa : walletAndAccount account with
  | none => by_cases hc : client = "" <;> simp [hc, String.isEmpty_iff]
  | some wa =>
    cases hl : acc.lookup client with
    | none => by_cases hc : client = "" <;> by_cases hw : wa.1 = "" <;> simp [hc, hw, String.isEmpty_iff]
    | some paths => by_cases hc : client = "" <;> by_cases hw : wa.1 = "" <;> simp [hc, hw, String.isEmpty_iff]

/-- nil credentials (which the model folds into `client = ""`) are refused by the first guard, as an empty
    client name is -/
theorem checkWrap_nil (acc : Access) (client account op : String) :
    checkWrap true acc client account op = false ∧ checkWrap false acc "" account op = false := by
  unfold checkWrap Gen.checkGuardsGen; simp

example : Gen.checkGuardsGen false "client1" true "wallet" true = none ∧
    Gen.checkGuardsGen false "client1" true "wallet" false = some false ∧
    Gen.checkGuardsGen false "client1" true "" true = some false ∧
    Gen.checkGuardsGen false "client1" false "" true = some false := by
  simp [Gen.checkGuardsGen]

/-- a path that does not match is skipped whatever it lists; the loops' verdict is the first bearing item of a matching one -/
example (op : String) (ops : List String) :
    Gen.checkLoopGen op [(false, ops)] = false ∧ Gen.checkLoopGen op [] = false ∧
    Gen.checkLoopGen op [(true, [])] = false := by
  simp [Gen.checkLoopGen, Gen.checkOpsGen]

/-! ## 6. the parameter checks of `OnGenerate` ↔ `Dkg.generateAccepts` -/

theorem generateAccepts_eq_gen (n t : Nat) : Dkg.generateAccepts n t = Gen.generateAcceptsGen n t := by
  unfold Dkg.generateAccepts Gen.generateAcceptsGen
  repeat' split
  all_goals simp
  all_goals omega

example : Dkg.generateAccepts 4 3 = true ∧ Gen.generateAcceptsGen 4 3 = true ∧ Gen.generateAcceptsGen 4 2 = false ∧
    Gen.generateAcceptsGen 5 3 = true ∧ Gen.generateAcceptsGen 0 0 = false ∧ Gen.generateAcceptsGen 3 4 = false := by decide

/-! ## 7. the acceptance conditions of `OnContribute` ↔ `Dkg.fixedAccepts` -/

theorem fixedAccepts_eq_gen (valid : Bool) (vlen threshold : Nat) (listed : Bool) :
    Dkg.fixedAccepts valid vlen threshold listed = Gen.fixedAcceptsGen valid vlen threshold listed := by
  unfold Dkg.fixedAccepts Gen.fixedAcceptsGen
  cases valid <;> cases listed <;> grind

example : Dkg.fixedAccepts true 3 3 true = true ∧ Gen.fixedAcceptsGen true 3 3 true = true ∧
    Gen.fixedAcceptsGen true 4 3 true = false ∧ Gen.fixedAcceptsGen false 3 3 true = false ∧
    Gen.fixedAcceptsGen true 3 3 false = false := by decide

end Dirk
