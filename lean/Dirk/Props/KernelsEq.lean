/-
  Dirk.Props.KernelsEq — the three decision kernels, as translated mechanically from /repo's current Go source
  by /verif/factx (Dirk/Gen/Kernels.lean, regenerated on every run), are extensionally EQUAL to the hand-written
  model functions of Dirk/Model/Rules.lean, for all inputs.

  A semantic edit of a Go kernel changes the regenerated definition and one of these theorems stops building;
  a Go construct outside the translator's fragment replaces the definition by `kernelUntranslatable_…`, and this
  file does not compile at all.  Core Lean only.
-/
import Dirk.Model.Rules
import Dirk.Gen.Kernels

namespace Dirk

/-! ## 1. `runSignBeaconAttestationChecks` ↔ `attChecks` -/

/-- repackages the translated kernel's (verdict, (source, target)) as the model's `Verdict × AttState` -/
def attWrap (o : Verdict × (Int × Int)) : Verdict × AttState := (o.1, ⟨o.2.1, o.2.2⟩)

theorem attChecks_eq_gen (r : AttReq) (st : AttState) :
    attChecks r st = attWrap (Gen.attChecksGen r.domain r.src r.tgt st.src st.tgt) := by
  unfold attChecks Gen.attChecksGen attWrap
  repeat' split
  all_goals first | rfl | (exfalso; simp_all; done) | (exfalso; omega)

example : attChecks ⟨[1, 0, 0, 0, 9], 3, 4⟩ ⟨2, 3⟩ = (.approved, ⟨3, 4⟩) ∧
    attWrap (Gen.attChecksGen [1, 0, 0, 0, 9] 3 4 2 3) = (.approved, ⟨3, 4⟩) := by decide

/-! ## 2. `OnSignBeaconProposal` ↔ `onPropose` -/

/-- What `onPropose` decides, with the two store interactions abstracted: `fetched` is the result of the
    state fetch (`none` = error), `storeOk` says whether the store call reports success.  The second component is
    the slot handed to the store, if the store was called at all.  (The model inlines these checks in
    `onPropose`; `onPropose_eq_propChecks` shows this wrapper is exactly what it does.) -/
def propChecks (r : PropReq) (fetched : Option Int) (storeOk : Bool) : Verdict × Option Int :=
  if prefix4 r.domain ≠ domProposer then (.denied, none)
  else if r.slot > maxI64 then (.denied, none)
  else match fetched with
  | none => (.failed, none)
  | some st =>
    if st ≥ 0 ∧ r.slot ≤ u64 st then (.denied, none)
    else (if storeOk then .approved else .failed, some (i64 r.slot))

/-- plugs a `propChecks`-shaped outcome back into the store: the database afterwards is what `storeOne` leaves
    when a write was attempted, and is untouched otherwise -/
def propApply (db : Db) (pk : Bytes) (f : Faults) (o : Verdict × Option Int) : Verdict × Db :=
  (o.1, match o.2 with
        | none => db
        | some v => (storeOne db (propKey pk) (encodeProp v) f).2)

/-- the store call's success does not depend on what is written -/
theorem storeOne_fst (db : Db) (k v : Bytes) (f : Faults) : (storeOne db k v f).1 = !f.storeFail := by
  unfold storeOne; cases f.storeFail <;> simp

/-- `propChecks` is definitionally what `onPropose` does around its fetch and store -/
theorem onPropose_eq_propChecks (db : Db) (pk : Bytes) (r : PropReq) (f : Faults) :
    onPropose db pk r f =
      propApply db pk f (propChecks r (fetchProp db pk (f.fetchFail.contains 0)) (!f.storeFail)) := by
  unfold onPropose propChecks propApply
  generalize fetchProp db pk (f.fetchFail.contains 0) = fetched
  cases fetched <;> dsimp only <;> repeat' split
  all_goals first | rfl | (simp_all [storeOne_fst]; done) | (exfalso; simp_all; done)

theorem propChecks_eq_gen (r : PropReq) (fetched : Option Int) (storeOk : Bool) :
    propChecks r fetched storeOk = Gen.propChecksGen r.domain r.slot fetched storeOk := by
  unfold propChecks Gen.propChecksGen
  cases fetched <;> cases storeOk <;> dsimp only <;> repeat' split
  all_goals first | rfl | (exfalso; simp_all; done) | (exfalso; omega)

/-- the whole rule, fetch and store included, equals the translated kernel -/
theorem onPropose_eq_gen (db : Db) (pk : Bytes) (r : PropReq) (f : Faults) :
    onPropose db pk r f =
      propApply db pk f
        (Gen.propChecksGen r.domain r.slot (fetchProp db pk (f.fetchFail.contains 0)) (!f.storeFail)) := by
  rw [onPropose_eq_propChecks, propChecks_eq_gen]

example : propChecks ⟨[0, 0, 0, 0], 7⟩ (some 6) true = (.approved, some 7) ∧
    Gen.propChecksGen [0, 0, 0, 0] 7 (some 6) true = (.approved, some 7) ∧
    Gen.propChecksGen [0, 0, 0, 0] 7 (some 7) true = (.denied, none) ∧
    Gen.propChecksGen [0, 0, 0, 0] 7 none true = (.failed, none) ∧
    Gen.propChecksGen [0, 0, 0, 0] 7 (some 6) false = (.failed, some 7) := by decide

/-! ## 3. `OnSign` ↔ `onSign` -/

/-- The Go function first returns FAILED on a nil `metadata` pointer; the model's `onSign` is the function of a
    present metadata record (the ruler always passes one), i.e. the translated kernel at `metadataNil = false`. -/
theorem onSign_eq_gen (adminIPs : List String) (ip : String) (domain : Bytes) :
    onSign adminIPs ip domain = Gen.onSignGen false adminIPs ip domain := by
  unfold onSign Gen.onSignGen
  repeat' split
  all_goals first | rfl | (exfalso; simp_all; done)

/-- … and the nil-metadata arm, which the model does not have, is FAILED -/
theorem onSignGen_nil (adminIPs : List String) (ip : String) (domain : Bytes) :
    Gen.onSignGen true adminIPs ip domain = .failed := by
  unfold Gen.onSignGen; simp

example : onSign ["10.0.0.1"] "10.0.0.1" [4, 0, 0, 0] = .approved ∧
    Gen.onSignGen false ["10.0.0.1"] "10.0.0.1" [4, 0, 0, 0] = .approved ∧
    Gen.onSignGen false ["10.0.0.1"] "10.0.0.2" [4, 0, 0, 0] = .denied ∧
    Gen.onSignGen false ["10.0.0.1"] "" [4, 0, 0, 0] = .denied ∧
    Gen.onSignGen false [] "" [2, 0, 0, 0] = .approved := by decide

end Dirk
