/-
  Dirk.Props.KernelsEq — the decision kernels, as translated mechanically from /repo's current Go source
  by /verif/factx (Dirk/Gen/Kernels.lean, regenerated on every run), are extensionally EQUAL to the hand-written
  model functions of Dirk/Model/Rules.lean (§1–3), Dirk/Model/Checker.lean (§4–5), Dirk/Model/Dkg.lean (§6–7, §9–11),
  Dirk/Model/Scatter.lean (§8), Dirk/Model/Crashes.lean (§12), Dirk/Model/Import.lean (§13) and Dirk/Model/Instance.lean
  (§14: the signer's batch signing loop, with the loop bound that Model/ShortRules.lean rests on; §15: the signer's
  pre-check; §16: the ruler's `RunRules` — validation, duplicate-key refusal, path choice — with the lock protocol of
  Dirk/Model/LockTrace.lean), Dirk/Model/Lister.lean (§17: the lister's `ListAccounts`) and Dirk/Model/Handler.lean (§18: the batch
  paths of the gRPC signer handlers: validation, early exits, result → response mapping), for all inputs.

  A semantic edit of a Go kernel changes the regenerated definition and one of these theorems stops building;
  a Go construct outside the translator's fragment replaces the definition by `kernelUntranslatable_…`, and this
  file does not compile at all.  Core Lean only.
-/
import Dirk.Model.Rules
import Dirk.Model.Checker
import Dirk.Model.Dkg
import Dirk.Model.Scatter
import Dirk.Model.Crashes
import Dirk.Model.Import
import Dirk.Model.Instance
import Dirk.Model.LockTrace
import Dirk.Model.Lister
import Dirk.Model.Handler
import Dirk.Gen.Facts
import Dirk.Gen.Kernels

namespace Dirk

/-! ## 1. `runSignBeaconAttestationChecks` ↔ `attChecks` -/

/-- repackages the translated kernel's (verdict, (source, target)) as the model's `Verdict × AttState` -/
def attWrap (o : Verdict × (Int × Int)) : Verdict × AttState := (o.1, ⟨o.2.1, o.2.2⟩)

theorem attChecks_eq_gen (r : AttReq) (st : AttState) :
    attChecks r st = attWrap (Gen.attChecksGen r.domain r.src r.tgt st.src st.tgt) := by
  unfold attChecks Gen.attChecksGen attWrap
  repeat' split
  all_goals first | rfl | (exfalso; simp_all; done) | (exfalso; omega)

example : attChecks ⟨[1, 0, 0, 0, 9], 3, 4⟩ ⟨2, 3⟩ = (.approved, ⟨3, 4⟩) ∧
    attWrap (Gen.attChecksGen [1, 0, 0, 0, 9] 3 4 2 3) = (.approved, ⟨3, 4⟩) := by decide

/-! ## 2. `OnSignBeaconProposal` ↔ `onPropose` -/

/-- What `onPropose` decides, with the two store interactions abstracted: `fetched` is the result of the
    state fetch (`none` = error), `storeOk` says whether the store call reports success.  The second component is
    the slot handed to the store, if the store was called at all.  (The model inlines these checks in
    `onPropose`; `onPropose_eq_propChecks` shows this wrapper is exactly what it does.) -/
def propChecks (r : PropReq) (fetched : Option Int) (storeOk : Bool) : Verdict × Option Int :=
  if prefix4 r.domain ≠ domProposer then (.denied, none)
  else if r.slot > maxI64 then (.denied, none)
  else match fetched with
  | none => (.failed, none)
  | some st =>
    if st ≥ 0 ∧ r.slot ≤ u64 st then (.denied, none)
    else (if storeOk then .approved else .failed, some (i64 r.slot))

/-- plugs a `propChecks`-shaped outcome back into the store: the database afterwards is what `storeOne` leaves
    when a write was attempted, and is untouched otherwise -/
def propApply (db : Db) (pk : Bytes) (f : Faults) (o : Verdict × Option Int) : Verdict × Db :=
  (o.1, match o.2 with
        | none => db
        | some v => (storeOne db (propKey pk) (encodeProp v) f).2)

/-- the store call's success does not depend on what is written -/
theorem storeOne_fst (db : Db) (k v : Bytes) (f : Faults) : (storeOne db k v f).1 = !f.storeFail := by
  unfold storeOne; cases f.storeFail <;> simp

/-- `propChecks` is definitionally what `onPropose` does around its fetch and store -/
theorem onPropose_eq_propChecks (db : Db) (pk : Bytes) (r : PropReq) (f : Faults) :
    onPropose db pk r f =
      propApply db pk f (propChecks r (fetchProp db pk (f.fetchFail.contains 0)) (!f.storeFail)) := by
  unfold onPropose propChecks propApply
  generalize fetchProp db pk (f.fetchFail.contains 0) = fetched
  cases fetched <;> dsimp only <;> repeat' split
  all_goals first | rfl | (simp_all [storeOne_fst]; done) | (exfalso; simp_all; done)

theorem propChecks_eq_gen (r : PropReq) (fetched : Option Int) (storeOk : Bool) :
    propChecks r fetched storeOk = Gen.propChecksGen r.domain r.slot fetched storeOk := by
  unfold propChecks Gen.propChecksGen
  cases fetched <;> cases storeOk <;> dsimp only <;> repeat' split
  all_goals first | rfl | (exfalso; simp_all; done) | (exfalso; omega)

/-- the whole rule, fetch and store included, equals the translated kernel -/
theorem onPropose_eq_gen (db : Db) (pk : Bytes) (r : PropReq) (f : Faults) :
    onPropose db pk r f =
      propApply db pk f
        (Gen.propChecksGen r.domain r.slot (fetchProp db pk (f.fetchFail.contains 0)) (!f.storeFail)) := by
  rw [onPropose_eq_propChecks, propChecks_eq_gen]

example : propChecks ⟨[0, 0, 0, 0], 7⟩ (some 6) true = (.approved, some 7) ∧
    Gen.propChecksGen [0, 0, 0, 0] 7 (some 6) true = (.approved, some 7) ∧
    Gen.propChecksGen [0, 0, 0, 0] 7 (some 7) true = (.denied, none) ∧
    Gen.propChecksGen [0, 0, 0, 0] 7 none true = (.failed, none) ∧
    Gen.propChecksGen [0, 0, 0, 0] 7 (some 6) false = (.failed, some 7) := by decide

/-! ## 3. `OnSign` ↔ `onSign` -/

/-- The Go function first returns FAILED on a nil `metadata` pointer; the model's `onSign` is the function of a
    present metadata record (the ruler always passes one), i.e. the translated kernel at `metadataNil = false`. -/
theorem onSign_eq_gen (adminIPs : List String) (ip : String) (domain : Bytes) :
    onSign adminIPs ip domain = Gen.onSignGen false adminIPs ip domain := by
  unfold onSign Gen.onSignGen
  repeat' split
  all_goals first | rfl | (exfalso; simp_all; done)

/-- … and the nil-metadata arm, which the model does not have, is FAILED -/
theorem onSignGen_nil (adminIPs : List String) (ip : String) (domain : Bytes) :
    Gen.onSignGen true adminIPs ip domain = .failed := by
  unfold Gen.onSignGen; simp

example : onSign ["10.0.0.1"] "10.0.0.1" [4, 0, 0, 0] = .approved ∧
    Gen.onSignGen false ["10.0.0.1"] "10.0.0.1" [4, 0, 0, 0] = .approved ∧
    Gen.onSignGen false ["10.0.0.1"] "10.0.0.2" [4, 0, 0, 0] = .denied ∧
    Gen.onSignGen false ["10.0.0.1"] "" [4, 0, 0, 0] = .denied ∧
    Gen.onSignGen false [] "" [2, 0, 0, 0] = .approved := by decide

/-! ## 4. `regexify` (services/checker/static/parameters.go) ↔ `regexify` -/

theorem regexify_eq_gen (name : String) : regexify name = Gen.regexifyGen name := by
  unfold regexify Gen.regexifyGen
  by_cases h : name = "" <;> simp [h, String.isEmpty_iff]

example : Gen.regexifyGen "" = "(?i)^(?:.*)$" ∧ Gen.regexifyGen "a|b" = "(?i)^(?:a|b)$" := by
  simp [Gen.regexifyGen]

/-! ## 5. `Check` (services/checker/static/service.go) ↔ `check` / `scanPaths` / `scanOps` -/

theorem scanOps_eq_gen (op : String) (ops : List String) : scanOps op ops = Gen.checkOpsGen op ops := by
  induction ops with
  | nil => rfl
  | cons o os ih =>
    unfold scanOps Gen.checkOpsGen
    rw [ih]
    repeat' split
    all_goals first | rfl | (exfalso; simp_all; done)

theorem scanPaths_eq_gen (w a op : String) (paths : List CPath) :
    scanPaths w a op paths =
      Gen.checkLoopGen op (paths.map (fun p => (Re.search p.wallet w && Re.search p.account a, p.ops))) := by
  induction paths with
  | nil => rfl
  | cons p ps ih =>
    unfold scanPaths
    simp only [List.map_cons]
    unfold Gen.checkLoopGen
    rw [ih, scanOps_eq_gen]
    rfl

/-- `Check` as the translated guards followed by the translated loops.  The guards' inputs, read off the model's
    state: `pathOk` / `wallet` = outcome of `walletAndAccount` (Go returns empty names with the error),
    `known` = the client has an entry in the access map (a missing entry gives Go's nil slice: no paths). -/
def checkWrap (credsNil : Bool) (acc : Access) (client account op : String) : Bool :=
  match Gen.checkGuardsGen credsNil client (walletAndAccount account).isSome
      ((walletAndAccount account).getD ("", "")).1 (acc.lookup client).isSome with
  | some b => b
  | none =>
    Gen.checkLoopGen op (((acc.lookup client).getD []).map (fun p =>
      (Re.search p.wallet ((walletAndAccount account).getD ("", "")).1 &&
        Re.search p.account ((walletAndAccount account).getD ("", "")).2, p.ops)))

theorem check_eq_gen (acc : Access) (client account op : String) :
    check acc client account op = checkWrap false acc client account op := by
  unfold check checkWrap Gen.checkGuardsGen
  rw [← scanPaths_eq_gen]
  cases hwa : walletAndAccount account with
  | none => by_cases hc : client = "" <;> simp [hc, String.isEmpty_iff]
  | some wa =>
    cases hl : acc.lookup client with
    | none => by_cases hc : client = "" <;> by_cases hw : wa.1 = "" <;> simp [hc, hw, String.isEmpty_iff]
    | some paths => by_cases hc : client = "" <;> by_cases hw : wa.1 = "" <;> simp [hc, hw, String.isEmpty_iff]

/-- nil credentials (which the model folds into `client = ""`) are refused by the first guard, as an empty
    client name is -/
theorem checkWrap_nil (acc : Access) (client account op : String) :
    checkWrap true acc client account op = false ∧ checkWrap false acc "" account op = false := by
  unfold checkWrap Gen.checkGuardsGen; simp

example : Gen.checkGuardsGen false "client1" true "wallet" true = none ∧
    Gen.checkGuardsGen false "client1" true "wallet" false = some false ∧
    Gen.checkGuardsGen false "client1" true "" true = some false ∧
    Gen.checkGuardsGen false "client1" false "" true = some false := by
  simp [Gen.checkGuardsGen]

/-- a path that does not match is skipped whatever it lists; the loops' verdict is the first bearing item of a matching one -/
example (op : String) (ops : List String) :
    Gen.checkLoopGen op [(false, ops)] = false ∧ Gen.checkLoopGen op [] = false ∧
    Gen.checkLoopGen op [(true, [])] = false := by
  simp [Gen.checkLoopGen, Gen.checkOpsGen]

/-! ## 6. the parameter checks of `OnGenerate` ↔ `Dkg.generateAccepts` -/

theorem generateAccepts_eq_gen (n t : Nat) : Dkg.generateAccepts n t = Gen.generateAcceptsGen n t := by
  unfold Dkg.generateAccepts Gen.generateAcceptsGen
  repeat' split
  all_goals simp
  all_goals omega

example : Dkg.generateAccepts 4 3 = true ∧ Gen.generateAcceptsGen 4 3 = true ∧ Gen.generateAcceptsGen 4 2 = false ∧
    Gen.generateAcceptsGen 5 3 = true ∧ Gen.generateAcceptsGen 0 0 = false ∧ Gen.generateAcceptsGen 3 4 = false := by decide

/-! ## 7. the acceptance conditions of `OnContribute` ↔ `Dkg.fixedAccepts` -/

theorem fixedAccepts_eq_gen (valid : Bool) (vlen threshold : Nat) (listed : Bool) :
    Dkg.fixedAccepts valid vlen threshold listed = Gen.fixedAcceptsGen valid vlen threshold listed := by
  unfold Dkg.fixedAccepts Gen.fixedAcceptsGen
  cases valid <;> cases listed <;> grind

example : Dkg.fixedAccepts true 3 3 true = true ∧ Gen.fixedAcceptsGen true 3 3 true = true ∧
    Gen.fixedAcceptsGen true 4 3 true = false ∧ Gen.fixedAcceptsGen false 3 3 true = false ∧
    Gen.fixedAcceptsGen true 3 3 false = false := by decide

/-! ## 8. `calculateExtentSize` -/

theorem wrapI64_id (x : Int) (h1 : -9223372036854775808 ≤ x) (h2 : x ≤ 9223372036854775807) :
    Gen.wrapI64 x = x := by
  unfold Gen.wrapI64; omega

theorem extentSize_eq_gen (n p : Nat) (hp : 0 < p) (hn : n ≤ maxI64) :
    Gen.extentSizeGen n p = some (extentSize n p : Int) := by
  have hdiv : Int.tdiv (n : Int) (p : Int) = ((n / p : Nat) : Int) := (Int.ofNat_tdiv n p).symm
  have hle : n / p ≤ n := Nat.div_le_self n p
  have hp' : ¬ ((p : Int) = 0) := by omega
  unfold maxI64 at hn
  unfold Gen.extentSizeGen extentSize
  simp only [hp', if_false, hdiv]
  generalize n / p = e at hle ⊢
  rw [wrapI64_id _ (by omega) (by omega)]
  by_cases he : e = 0
  · simp [he]
  · have he' : ¬ ((e : Int) = 0) := by omega
    have hmod : Int.tmod (n : Int) (e : Int) = ((n % e : Nat) : Int) := (Int.ofNat_tmod n e).symm
    have hne : n % e > 0 → e ≠ n := by
      intro hm h; rw [h, Nat.mod_self] at hm; omega
    simp only [he', he, if_false, hmod]
    generalize n % e = m at hne ⊢
    by_cases hm : m > 0
    · have hm' : (m : Int) > 0 := by omega
      have := hne hm
      simp only [hm', hm, if_true]
      rw [wrapI64_id _ (by omega) (by omega)]
      simp
    · have hm' : ¬ ((m : Int) > 0) := by omega
      simp only [hm', hm, if_false]

/-- with `procs = 0` the Go code panics (integer divide by zero); the runtime never reports 0 processors -/
theorem extentSizeGen_zero (items : Int) : Gen.extentSizeGen items 0 = none := by
  unfold Gen.extentSizeGen; simp

example : Gen.extentSizeGen 10 3 = some 4 ∧ Gen.extentSizeGen 3 8 = some 1 ∧ Gen.extentSizeGen 8 4 = some 2 ∧
    extentSize 10 3 = 4 := by decide

/-! ## 9. `senderID` -/

theorem senderIdLoopGen_nil (caller : String) (acc : Nat) : Gen.senderIdLoopGen caller acc [] = acc := by
  rw [Gen.senderIdLoopGen]

/-- one iteration, in a fixed orientation (the source may write the comparison either way round) -/
theorem senderIdLoopGen_cons (caller : String) (acc : Nat) (p : Nat × String) (ps : List (Nat × String)) :
    Gen.senderIdLoopGen caller acc (p :: ps) =
      if p.2 = caller then p.1 else Gen.senderIdLoopGen caller acc ps := by
  by_cases h : p.2 = caller
  · simp [Gen.senderIdLoopGen, h]
  · have h' : ¬ caller = p.2 := fun e => h e.symm
    first | (simp only [Gen.senderIdLoopGen, h, if_false]; done) | simp only [Gen.senderIdLoopGen, h, h', if_false]

/-- the translated loop returns the id of the FIRST entry (in iteration order) whose name equals the caller
    exactly, and leaves the result variable alone if there is none -/
theorem senderIdLoopGen_find (caller : String) (acc : Nat) (peers : List (Nat × String)) :
    Gen.senderIdLoopGen caller acc peers = ((peers.find? (fun p => p.2 == caller)).map (·.1)).getD acc := by
  induction peers with
  | nil => rw [senderIdLoopGen_nil]; rfl
  | cons p ps ih =>
    rw [senderIdLoopGen_cons]
    by_cases h : p.2 = caller
    · simp [h]
    · simp [h, ih]

theorem senderIdGen_first (pre post : List (Nat × String)) (id : Nat) (caller : String)
    (hpre : ∀ p ∈ pre, p.2 ≠ caller) :
    Gen.senderIdGen (pre ++ (id, caller) :: post) caller = id := by
  unfold Gen.senderIdGen
  induction pre with
  | nil => simp [senderIdLoopGen_cons]
  | cons q qs ih =>
    have hq : q.2 ≠ caller := hpre q (by simp)
    simp only [List.cons_append, senderIdLoopGen_cons, hq, if_false]
    exact ih (fun p hp => hpre p (by simp [hp]))

theorem senderIdGen_none (peers : List (Nat × String)) (caller : String) (h : ∀ p ∈ peers, p.2 ≠ caller) :
    Gen.senderIdGen peers caller = 0 := by
  unfold Gen.senderIdGen
  induction peers with
  | nil => rw [senderIdLoopGen_nil]
  | cons q qs ih =>
    have hq : q.2 ≠ caller := h q (by simp)
    simp only [senderIdLoopGen_cons, hq, if_false]
    exact ih (fun p hp => h p (by simp [hp]))

/-- order-independent characterisation (Go ranges over a map): if the configured names are distinct, the result is
    the id of THE peer with the caller's name, wherever it comes in the iteration -/
theorem senderIdGen_mem (peers : List (Nat × String)) (id : Nat) (caller : String)
    (hnd : (peers.map (·.2)).Nodup) (hmem : (id, caller) ∈ peers) :
    Gen.senderIdGen peers caller = id := by
  unfold Gen.senderIdGen
  induction peers with
  | nil => simp at hmem
  | cons q qs ih =>
    simp only [List.map_cons, List.nodup_cons] at hnd
    by_cases hq : q.2 = caller
    · simp only [senderIdLoopGen_cons, hq, if_true]
      rcases List.mem_cons.mp hmem with h | h
      · rw [← h]
      · exfalso
        apply hnd.1
        rw [hq]
        exact List.mem_map.mpr ⟨(id, caller), h, rfl⟩
    · simp only [senderIdLoopGen_cons, hq, if_false]
      rcases List.mem_cons.mp hmem with h | h
      · exfalso; apply hq; rw [← h]
      · exact ih hnd.2 h

/-- **`senderIdGen_spec`**: exact (case-sensitive, un-normalised) name equality decides; 0 if no peer has the name;
    with distinct names, the id of the one that has it — whatever the iteration order -/
theorem senderIdGen_spec (peers : List (Nat × String)) (caller : String) :
    ((∀ p ∈ peers, p.2 ≠ caller) → Gen.senderIdGen peers caller = 0) ∧
    (∀ id, (peers.map (·.2)).Nodup → (id, caller) ∈ peers → Gen.senderIdGen peers caller = id) :=
  ⟨senderIdGen_none peers caller, fun id hnd hmem => senderIdGen_mem peers id caller hnd hmem⟩

/-- Go's map iteration order does not matter when the names are distinct (`static.New` refuses duplicate names) -/
theorem senderIdGen_perm (peers peers' : List (Nat × String)) (caller : String)
    (hperm : peers.Perm peers') (hnd : (peers.map (·.2)).Nodup) :
    Gen.senderIdGen peers caller = Gen.senderIdGen peers' caller := by
  have hnd' : (peers'.map (·.2)).Nodup := (hperm.map (·.2)).nodup_iff.mp hnd
  by_cases h : ∃ p ∈ peers, p.2 = caller
  · obtain ⟨p, hp, hpc⟩ := h
    have hp1 : (p.1, caller) ∈ peers := by rw [← hpc]; exact hp
    rw [senderIdGen_mem peers p.1 caller hnd hp1, senderIdGen_mem peers' p.1 caller hnd' (hperm.mem_iff.mp hp1)]
  · have h1 : ∀ p ∈ peers, p.2 ≠ caller := fun p hp hc => h ⟨p, hp, hc⟩
    have h2 : ∀ p ∈ peers', p.2 ≠ caller := fun p hp => h1 p (hperm.mem_iff.mpr hp)
    rw [senderIdGen_none peers caller h1, senderIdGen_none peers' caller h2]

/-- the model's `senderId` works on ids (the caller's name is already resolved); for a cluster whose peers carry
    pairwise different names — `name` injective — the translated resolution of `name caller` over the configured
    table is exactly the model's function of `caller` -/
theorem senderId_eq_gen (c : Dkg.Cluster) (name : Nat → String) (hinj : ∀ a b, name a = name b → a = b)
    (caller : Nat) :
    Dkg.senderId c caller = Gen.senderIdGen (c.peers.map (fun i => (i, name i))) (name caller) := by
  unfold Dkg.senderId Gen.senderIdGen
  induction c.peers with
  | nil => simp [senderIdLoopGen_nil]
  | cons i is ih =>
    simp only [List.map_cons, senderIdLoopGen_cons]
    by_cases h : i = caller
    · simp [h]
    · have hn : ¬ (name i = name caller) := fun hc => h (hinj _ _ hc)
      have hb : (caller == i) = false := by simp; exact fun hc => h hc.symm
      simp only [hn, if_false, ← ih, List.contains_cons, hb, Bool.false_or]

/-- a context without a client name gives 0 (not a peer) -/
theorem senderIdCtxGen_none (peers : List (Nat × String)) : Gen.senderIdCtxGen none peers = 0 := rfl

/-- exact matching: a name differing in case, or by a trailing dot, is not the peer -/
example : Gen.senderIdGen [(1, "signer-1"), (2, "signer-2")] "signer-2" = 2 ∧
    Gen.senderIdGen [(1, "signer-1"), (2, "signer-2")] "Signer-2" = 0 ∧
    Gen.senderIdGen [(1, "signer-1"), (2, "signer-2")] "signer-2." = 0 ∧
    Gen.senderIdCtxGen (some "signer-1") [(2, "signer-2"), (1, "signer-1")] = 1 := by
  simp [Gen.senderIdCtxGen, Gen.senderIdGen, senderIdLoopGen_cons, senderIdLoopGen_nil]

/-- the hypotheses of the order-independent statements are satisfiable: two peers, either iteration order -/
example : Gen.senderIdGen [(1, "signer-1"), (2, "signer-2")] "signer-2" =
    Gen.senderIdGen [(2, "signer-2"), (1, "signer-1")] "signer-2" :=
  senderIdGen_perm _ _ _ (List.Perm.swap _ _ _) (by simp)

/-! ## 10. the acceptance conditions of `OnCommit` -/

theorem commitListedGen_eq (l : List (Bool × Bool)) :
    Gen.commitListedGen l = (l.all (·.1) && l.all (·.2)) := by
  induction l with
  | nil => rfl
  | cons p ps ih =>
    unfold Gen.commitListedGen
    rw [ih]
    obtain ⟨a, b⟩ := p
    cases a <;> cases b <;> simp
    -- remaining: rearrangement of conjunctions
    all_goals grind

/-- what the translated guards say, for independently held secrets and vectors (`secrets`, `vvecs`: the key sets of
    generation.sharedSecrets / sharedVVecs; `parts`: the IDs of generation.participants) -/
theorem commitAcceptsGen_spec (secrets vvecs parts : List Nat) :
    Gen.commitAcceptsGen secrets.length vvecs.length parts.length
        (parts.map (fun p => (secrets.contains p, vvecs.contains p))) =
      (decide (secrets.length = parts.length) && decide (vvecs.length = parts.length) &&
        parts.all (fun p => secrets.contains p) && parts.all (fun p => vvecs.contains p)) := by
  unfold Gen.commitAcceptsGen
  rw [commitListedGen_eq]
  simp only [List.all_map]
  repeat' split
  all_goals simp_all [Function.comp_def]

/-- the two checks of the model's `onCommit` (secrets and vectors are stored together: `contributed`) -/
def commitChecks (s : Dkg.Session) : Bool :=
  !(decide (s.contributed.length ≠ s.participants.length)) && s.participants.all (fun p => s.contributed.contains p)

theorem commitChecks_eq_gen (s : Dkg.Session) :
    commitChecks s = Gen.commitAcceptsGen s.contributed.length s.contributed.length s.participants.length
      (s.participants.map (fun p => (s.contributed.contains p, s.contributed.contains p))) := by
  rw [commitAcceptsGen_spec]
  unfold commitChecks
  by_cases h : s.contributed.length = s.participants.length <;> simp [h]

example : Gen.commitAcceptsGen 2 2 2 [(true, true), (true, true)] = true ∧
    Gen.commitAcceptsGen 2 2 2 [(true, true), (false, false)] = false ∧
    Gen.commitAcceptsGen 2 2 2 [(true, true), (true, false)] = false ∧
    Gen.commitAcceptsGen 2 3 2 [(true, true), (true, true)] = false ∧
    Gen.commitAcceptsGen 1 2 2 [(true, true), (true, true)] = false ∧
    commitChecks ⟨2, [1, 2], [2, 1], 0⟩ = true ∧ commitChecks ⟨2, [1, 2], [2, 3], 0⟩ = false := by decide

/-- `commitChecks` is exactly what `onCommit` tests between finding the active session and looking at the wallet -/
theorem onCommit_eq_commitChecks (c : Dkg.Cluster) (i caller : Nat) (acct : String) :
    Dkg.onCommit c i caller acct =
      if Dkg.senderId c caller = 0 then (c, .unknownSender) else
      match Dkg.getInst c i with
      | none => (c, .refused)
      | some x =>
        match (Dkg.active c x acct).1 with
        | none => (Dkg.setInst c (Dkg.active c x acct).2, .refused)
        | some s =>
          if !commitChecks s then (Dkg.setInst c (Dkg.active c x acct).2, .refused)
          else if !Dkg.distributedWallet acct then (Dkg.setInst c (Dkg.active c x acct).2, .refused)
          else if (Dkg.active c x acct).2.accounts.contains acct then (Dkg.setInst c (Dkg.active c x acct).2, .refused)
          else (Dkg.setInst c { (Dkg.dropSession (Dkg.active c x acct).2 acct) with
                  accounts := acct :: (Dkg.active c x acct).2.accounts }, .ok) := by
  unfold Dkg.onCommit commitChecks
  split
  · rfl
  · cases Dkg.getInst c i with
    | none => rfl
    | some x =>
      dsimp only
      generalize Dkg.active c x acct = r
      obtain ⟨s?, x'⟩ := r
      cases s? with
      | none => rfl
      | some s =>
        dsimp only
        by_cases h1 : s.contributed.length = s.participants.length
        · by_cases h2 : s.participants.all (fun p => s.contributed.contains p) = true <;> simp_all
        · simp [h1]

/-- so: whenever the translated guards refuse, `onCommit` refuses and creates nothing -/
theorem onCommit_refused_of_gen (c : Dkg.Cluster) (i caller : Nat) (acct : String) (x : Dkg.DInst) (s : Dkg.Session)
    (hx : Dkg.getInst c i = some x) (hs : (Dkg.active c x acct).1 = some s)
    (hgen : Gen.commitAcceptsGen s.contributed.length s.contributed.length s.participants.length
      (s.participants.map (fun p => (s.contributed.contains p, s.contributed.contains p))) = false) :
    (Dkg.onCommit c i caller acct).2 ≠ .ok := by
  rw [onCommit_eq_commitChecks, hx]
  dsimp only
  rw [hs, ← commitChecks_eq_gen] at *
  dsimp only
  split
  · simp
  · simp [hgen]

/-! ## 11. `getGeneration` -/

theorem generationExpired_eq_gen (now started timeout : Nat) :
    Gen.generationExpiredGen now started timeout = decide (now - started > timeout) := rfl

/-- `active` through the translated function: `present` = the account has a session, and the pair it returns says
    whether the session is handed out and whether the entry is removed -/
def activeWrap (c : Dkg.Cluster) (x : Dkg.DInst) (acct : String) : Option Dkg.Session × Dkg.DInst :=
  match x.sessions.lookup acct with
  | none =>
    ((if (Gen.getGenerationGen false c.now 0 c.timeout).1 then some default else none), x)
  | some s =>
    ((if (Gen.getGenerationGen true c.now s.started c.timeout).1 then some s else none),
     (if (Gen.getGenerationGen true c.now s.started c.timeout).2 then
        { x with sessions := x.sessions.filter (·.1 != acct) } else x))

theorem active_eq_gen (c : Dkg.Cluster) (x : Dkg.DInst) (acct : String) :
    Dkg.active c x acct = activeWrap c x acct := by
  unfold Dkg.active activeWrap Gen.getGenerationGen
  cases x.sessions.lookup acct with
  | none => simp
  | some s =>
    by_cases h : c.now - s.started > c.timeout <;> simp [h]

example : Gen.generationExpiredGen 100 30 70 = false ∧ Gen.generationExpiredGen 101 30 70 = true ∧
    Gen.generationExpiredGen 10 30 70 = false ∧ Gen.getGenerationGen true 101 30 70 = (false, true) ∧
    Gen.getGenerationGen false 101 30 70 = (false, false) ∧ Gen.getGenerationGen true 100 30 70 = (true, false) := by decide

/-! ## 12. `Suitable` -/

theorem suitableRefuses_eq_gen (threshold npeers : Nat) :
    Gen.suitableRefusesGen threshold npeers = decide (threshold > npeers) := by
  unfold Gen.suitableRefusesGen
  by_cases h : threshold > npeers <;> simp [h]

/-- the model's `suitableAlloc` (the function `C20_alloc_bounded` is about) is the translated guard followed by the
    translated allocation size -/
theorem suitableAlloc_eq_gen (npeers n : Nat) : suitableAlloc npeers n = .ok (Gen.suitableAllocGen n npeers) := by
  unfold suitableAlloc Gen.suitableAllocGen
  rw [suitableRefuses_eq_gen]
  by_cases h : n > npeers <;> simp [h]

/-- `C20_alloc_bounded`, read off the translated code directly -/
theorem suitableAllocGen_bounded (npeers n k : Nat) (h : Gen.suitableAllocGen n npeers = some k) : k ≤ npeers := by
  unfold Gen.suitableAllocGen at h
  rw [suitableRefuses_eq_gen] at h
  by_cases hn : n > npeers
  · simp [hn] at h
  · simp [hn] at h; omega

example : Gen.suitableAllocGen 3 3 = some 3 ∧ Gen.suitableAllocGen 4 3 = none ∧
    Gen.suitableAllocGen 4294967295 3 = none ∧ Gen.suitableRefusesGen 4 3 = true := by decide

/-! ## 13. the import command's raise-only merge (`storeSlashingProtection`, the body of the loop over the file's entries)
     ↔ `foldAtts`, `foldBlocks` and the `start` selection of `mergeEntries` (Model/Import.lean)

  The translated code works on plain integers: a record is the triple (slot, source, target), and the numbers read
  from the file come in already parsed (`parseInt64 s` = the model of `strconv.ParseInt(s, 10, 64)`; it is never
  unfolded here). -/

/-- a record as the triple (slot, source, target) the translated code uses -/
def Protection.triple (p : Protection) : Int × Int × Int := (p.slot, p.src, p.tgt)

def Protection.ofTriple (t : Int × Int × Int) : Protection := ⟨t.1, t.2.1, t.2.2⟩

theorem Protection.ofTriple_triple (p : Protection) : Protection.ofTriple p.triple = p := rfl

/-- the two attestation fields of `p` replaced by the pair the translated step returns -/
def Protection.withAtt (p : Protection) (q : Int × Int) : Protection := { p with src := q.1, tgt := q.2 }

def Protection.withSlot (p : Protection) (v : Int) : Protection := { p with slot := v }

/-- one signed attestation of the file folded into `p` by the translated loop body -/
def importAttStepP (p : Protection) (st : String × String) : Option Protection :=
  (Gen.importAttStepGen p.src p.tgt (parseInt64 st.1) (parseInt64 st.2)).map p.withAtt

/-- one signed block of the file folded into `p` by the translated loop body -/
def importBlockStepP (p : Protection) (s : String) : Option Protection :=
  (Gen.importBlockStepGen p.slot (parseInt64 s)).map p.withSlot

theorem foldAtts_nil (p : Protection) : foldAtts p [] = some p := by rw [foldAtts]

theorem foldBlocks_nil (p : Protection) : foldBlocks p [] = some p := by rw [foldBlocks]

/-- the model's `foldAtts`, one element at a time, is the translated step followed by the fold of the rest.  (The Go
    raises the source before it looks at the target, the model checks both numbers first: the results agree because a
    rejected number discards the record whole.) -/
theorem foldAtts_cons_eq_gen (p : Protection) (s t : String) (rest : List (String × String)) :
    foldAtts p ((s, t) :: rest) = (importAttStepP p (s, t)).bind (fun p' => foldAtts p' rest) := by
  rw [foldAtts]
  unfold importAttStepP Gen.importAttStepGen Protection.withAtt
  dsimp only
  generalize parseInt64 s = a
  generalize parseInt64 t = b
  cases a with
  | none => rfl
  | some sv =>
    dsimp only
    by_cases hs : sv < 0
    · simp only [hs, if_true]; rfl
    · simp only [hs, if_false]
      cases b with
      | none => rfl
      | some tv =>
        dsimp only
        by_cases ht : tv < 0
        · simp only [ht, if_true]; rfl
        · simp only [ht, if_false]; rfl

/-- **`importAttStep_eq_gen`**: one signed attestation, for every record and every pair of strings -/
theorem importAttStep_eq_gen (p : Protection) (s t : String) :
    foldAtts p [(s, t)] =
      (Gen.importAttStepGen p.src p.tgt (parseInt64 s) (parseInt64 t)).map
        (fun q => { p with src := q.1, tgt := q.2 }) := by
  rw [foldAtts_cons_eq_gen]
  unfold importAttStepP Protection.withAtt
  cases Gen.importAttStepGen p.src p.tgt (parseInt64 s) (parseInt64 t) with
  | none => rfl
  | some q => simp only [Option.map_some, Option.bind_some, foldAtts_nil]

/-- … and the whole list: `foldAtts` is the left fold of the translated step -/
theorem foldAtts_eq_gen (p : Protection) (l : List (String × String)) :
    foldAtts p l = l.foldlM importAttStepP p := by
  induction l generalizing p with
  | nil => rw [foldAtts_nil]; rfl
  | cons st rest ih =>
    obtain ⟨s, t⟩ := st
    rw [foldAtts_cons_eq_gen, List.foldlM_cons]
    cases importAttStepP p (s, t) with
    | none => rfl
    | some p' => simp only [Option.bind_some, ih]; rfl

theorem foldBlocks_cons_eq_gen (p : Protection) (s : String) (rest : List String) :
    foldBlocks p (s :: rest) = (importBlockStepP p s).bind (fun p' => foldBlocks p' rest) := by
  rw [foldBlocks]
  unfold importBlockStepP Gen.importBlockStepGen Protection.withSlot
  generalize parseInt64 s = a
  cases a with
  | none => rfl
  | some v =>
    dsimp only
    by_cases hv : v < 0
    · simp only [hv, if_true]; rfl
    · simp only [hv, if_false]; rfl

/-- **`importBlockStep_eq_gen`**: one signed block, for every record and every string -/
theorem importBlockStep_eq_gen (p : Protection) (s : String) :
    foldBlocks p [s] = (Gen.importBlockStepGen p.slot (parseInt64 s)).map (fun v => { p with slot := v }) := by
  rw [foldBlocks_cons_eq_gen]
  unfold importBlockStepP Protection.withSlot
  cases Gen.importBlockStepGen p.slot (parseInt64 s) with
  | none => rfl
  | some v => simp only [Option.map_some, Option.bind_some, foldBlocks_nil]

theorem foldBlocks_eq_gen (p : Protection) (l : List String) :
    foldBlocks p l = l.foldlM importBlockStepP p := by
  induction l generalizing p with
  | nil => rw [foldBlocks_nil]; rfl
  | cons s rest ih =>
    rw [foldBlocks_cons_eq_gen, List.foldlM_cons]
    cases importBlockStepP p s with
    | none => rfl
    | some p' => simp only [Option.bind_some, ih]; rfl

/-- the record `mergeEntries` starts from for key `k`: an earlier entry of the file, else the existing store, else −1/−1/−1
    (this is, verbatim, the `start` of `mergeEntries`; see `mergeEntries_step_eq_gen`) -/
def importStart (fromFile fromStore : Option Protection) : Protection :=
  match fromFile with
  | some p => p
  | none => match fromStore with
    | some p => p
    | none => {}

/-- **`importStart_eq_gen`**: the start record is what the translated `if !exists { … }` computes from the two optional
    records, for all of them -/
theorem importStart_eq_gen (fromFile fromStore : Option Protection) :
    importStart fromFile fromStore =
      Protection.ofTriple (Gen.importStartGen (fromFile.map Protection.triple) (fromStore.map Protection.triple)) := by
  unfold importStart Gen.importStartGen
  cases fromFile with
  | some p => rfl
  | none =>
    cases fromStore with
    | some p => rfl
    | none => rfl

/-- … in the form the task names it: for the map built so far, the store and the key -/
theorem importStart_eq_gen' (db : Db) (m : PMap) (k : Bytes) :
    (match m.get k with
      | some p => p
      | none => match existingOf db k with
        | some p => p
        | none => ({} : Protection)) =
      Protection.ofTriple
        (Gen.importStartGen ((m.get k).map Protection.triple) ((existingOf db k).map Protection.triple)) :=
  importStart_eq_gen (m.get k) (existingOf db k)

/-- one entry of the file merged into the map being built, written with the translated functions only (the decoding of
    the public key, `hexDecode0x` / `fit48`, is not part of the translated kernels) -/
def mergeStepGen (db : Db) (m : PMap) (e : FileEntry) : Option PMap :=
  match hexDecode0x e.pubkey with
  | none => none
  | some kb =>
    ((e.atts.foldlM importAttStepP
        (Protection.ofTriple (Gen.importStartGen ((m.get (fit48 kb)).map Protection.triple)
          ((existingOf db (fit48 kb)).map Protection.triple)))).bind
      (fun p1 => e.blocks.foldlM importBlockStepP p1)).map (fun p2 => m.set (fit48 kb) p2)

/-- **`mergeEntries_step_eq_gen`**: one step of `mergeEntries` is entirely the generated start, attestation step and
    block step -/
theorem mergeEntries_step_eq_gen (db : Db) (m : PMap) (e : FileEntry) (rest : List FileEntry) :
    mergeEntries db m (e :: rest) = (mergeStepGen db m e).bind (fun m' => mergeEntries db m' rest) := by
  rw [mergeEntries]
  unfold mergeStepGen
  cases hexDecode0x e.pubkey with
  | none => rfl
  | some kb =>
    dsimp only
    rw [← importStart_eq_gen, ← foldAtts_eq_gen]
    change (match foldAtts (importStart (m.get (fit48 kb)) (existingOf db (fit48 kb))) e.atts with
      | none => none
      | some p1 => match foldBlocks p1 e.blocks with
        | none => none
        | some p2 => mergeEntries db (m.set (fit48 kb) p2) rest) = _
    cases foldAtts (importStart (m.get (fit48 kb)) (existingOf db (fit48 kb))) e.atts with
    | none => rfl
    | some p1 =>
      simp only [Option.bind_some, ← foldBlocks_eq_gen]
      cases foldBlocks p1 e.blocks with
      | none => rfl
      | some p2 => rfl

/-- … and the whole loop over the file's entries -/
theorem mergeEntries_eq_gen (db : Db) (m : PMap) (l : List FileEntry) :
    mergeEntries db m l = l.foldlM (mergeStepGen db) m := by
  induction l generalizing m with
  | nil => rw [mergeEntries]; rfl
  | cons e rest ih =>
    rw [mergeEntries_step_eq_gen, List.foldlM_cons]
    cases mergeStepGen db m e with
    | none => rfl
    | some m' => simp only [Option.bind_some, ih]; rfl

/-- raise-only, rejection of negative and unparsable numbers, source handled before target: read off the translated code -/
example : Gen.importAttStepGen 5 9 (some 7) (some 8) = some (7, 9) ∧
    Gen.importAttStepGen 5 9 (some 3) (some 12) = some (5, 12) ∧
    Gen.importAttStepGen 5 9 (some 5) (some 9) = some (5, 9) ∧
    Gen.importAttStepGen (-1) (-1) (some 0) (some 0) = some (0, 0) ∧
    Gen.importAttStepGen 5 9 (some (-1)) (some 12) = none ∧
    Gen.importAttStepGen 5 9 (some 7) (some (-2)) = none ∧
    Gen.importAttStepGen 5 9 none (some 12) = none ∧
    Gen.importAttStepGen 5 9 (some 7) none = none ∧
    Gen.importBlockStepGen 10 (some 20) = some 20 ∧ Gen.importBlockStepGen 10 (some 4) = some 10 ∧
    Gen.importBlockStepGen (-1) (some 0) = some 0 ∧ Gen.importBlockStepGen 10 (some (-1)) = none ∧
    Gen.importBlockStepGen 10 none = none := by decide

/-- the start record: an earlier entry of the file wins over the store; with neither, −1/−1/−1 -/
example : Gen.importStartGen (some (1, 2, 3)) (some (4, 5, 6)) = (1, 2, 3) ∧
    Gen.importStartGen none (some (4, 5, 6)) = (4, 5, 6) ∧
    Gen.importStartGen none none = (-1, -1, -1) ∧
    importStart none none = {} ∧ importStart none (some ⟨10, 2, 3⟩) = ⟨10, 2, 3⟩ := by decide

/-! ## 14. the "Carry out the signing" loop of `SignBeaconAttestations` / `Multisign` ↔ `signEvs` / `signGenerics`

  The generated position functions speak in enumerator VALUES (`rules.Result` in, `core.Result` out), computed by the
  translator from the two iota blocks.  `verdictCode` / `resCode` are the model's reading of those values; they are
  proved to be the regenerated ones (`verdictCode_agrees`, `resCode_agrees`), and the enumerator names are the ones the
  facts file carries (`rulesResultValues_names`, cf. `facts_rules_results` in Props/FactsResults.lean). -/

/-- `rules.Result` enumerator value of a model verdict -/
def verdictCode : Verdict → Nat
  | .unknown => 0 | .approved => 1 | .denied => 2 | .failed => 3

/-- `core.Result` enumerator value of a model result -/
def resCode : Res → Nat
  | .unknown => 0 | .succeeded => 1 | .denied => 2 | .failed => 3

/-- decoding of a `core.Result` value (`none`: not an enumerator) -/
def resOfCode : Nat → Option Res
  | 0 => some .unknown | 1 => some .succeeded | 2 => some .denied | 3 => some .failed | _ => none

theorem resOfCode_resCode (r : Res) : resOfCode (resCode r) = some r := by cases r <;> rfl

theorem resCode_of_resOfCode (n : Nat) (r : Res) (h : resOfCode n = some r) : resCode r = n := by
  unfold resOfCode at h
  split at h <;> simp at h <;> subst h <;> rfl

/-- the encoding of verdicts is the regenerated iota block of `rules.Result` (rules/service.go) … -/
theorem verdictCode_agrees :
    Gen.rulesResultValuesGen = [("UNKNOWN", verdictCode .unknown), ("APPROVED", verdictCode .approved),
      ("DENIED", verdictCode .denied), ("FAILED", verdictCode .failed)] := by decide

/-- … whose names are exactly the enumerators the facts file lists (what `facts_rules_results` is about) -/
theorem rulesResultValues_names : Gen.rulesResultValuesGen.map (·.1) = Gen.rulesResults := by decide

/-- the decoding of results is the regenerated iota block of `core.Result` (core/result.go) -/
theorem resCode_agrees :
    Gen.coreResultValuesGen = [("ResultUnknown", resCode .unknown), ("ResultSucceeded", resCode .succeeded),
      ("ResultDenied", resCode .denied), ("ResultFailed", resCode .failed)] := by decide

/-- One step of `signEvs` is the generated position function of `SignBeaconAttestations`.
    The model folds the failure of `attestation.HashTreeRoot()` and of `generateSigningRoot` into
    `d.signingRoot = none` (Model/Instance.lean: `AttData.signingRoot`), so ANY split of that into the two generated
    inputs `rootErr`, `signingRootErr` will do; `signErr` is `signFails.contains i`.  The position's result is the
    decoding of the generated value, the root (and the released entry) is there exactly when the generated function
    says `signatures[i]` is assigned. -/
theorem signLoopPosAtt_eq_gen (sf : List Nat) (i : Nat) (k : Bytes) (d : AttData) (v : Verdict)
    (rootErr signingRootErr : Bool) (h : (rootErr || signingRootErr) = d.signingRoot.isNone) :
    ∃ r, resOfCode (Gen.signLoopPosAttGen (verdictCode v) rootErr signingRootErr (sf.contains i)).1 = some r ∧
      signEvs sf i [(k, d, v)] =
        [(⟨r, if (Gen.signLoopPosAttGen (verdictCode v) rootErr signingRootErr (sf.contains i)).2
               then d.signingRoot else none⟩,
          if (Gen.signLoopPosAttGen (verdictCode v) rootErr signingRootErr (sf.contains i)).2
          then some (k, d) else none)] := by
  simp only [signEvs]
  generalize sf.contains i = c
  cases hr : d.signingRoot <;> cases c <;> cases v <;> cases rootErr <;> cases signingRootErr <;>
    simp [hr] at h <;>
    simp [Gen.signLoopPosAttGen, verdictCode, resOfCode, verdictRes]

/-- the form asked for: `rootErr := d.signingRoot.isNone`, `signingRootErr := false`; result and `root.isSome` of the
    one position `signEvs` produces -/
theorem signLoopPosAtt_eq_gen' (sf : List Nat) (i : Nat) (k : Bytes) (d : AttData) (v : Verdict) :
    (signEvs sf i [(k, d, v)]).map (fun o => (resCode o.1.res, o.1.root.isSome, o.2.isSome)) =
      [((Gen.signLoopPosAttGen (verdictCode v) d.signingRoot.isNone false (sf.contains i)).1,
        (Gen.signLoopPosAttGen (verdictCode v) d.signingRoot.isNone false (sf.contains i)).2,
        (Gen.signLoopPosAttGen (verdictCode v) d.signingRoot.isNone false (sf.contains i)).2)] := by
  obtain ⟨r, hr, he⟩ := signLoopPosAtt_eq_gen sf i k d v d.signingRoot.isNone false (by simp)
  rw [he]
  simp only [List.map_cons, List.map_nil, resCode_of_resOfCode _ _ hr]
  generalize sf.contains i = c
  cases hs : d.signingRoot <;> cases c <;> cases v <;>
    simp [Gen.signLoopPosAttGen, verdictCode]

/-- One step of `signGenerics` is the generated position function of `Multisign`; the verdict is `onSign`'s
    (the single rule the model's ruler runs for a generic signature), `signingRootErr` is `d.signingRoot = none`. -/
theorem signLoopPosMulti_eq_gen (adminIPs : List String) (ip : String) (sf : List Nat) (i : Nat) (k : Bytes)
    (d : SignData) :
    ∃ r, resOfCode (Gen.signLoopPosMultiGen (verdictCode (onSign adminIPs ip (d.domain.getD [])))
            d.signingRoot.isNone (sf.contains i)).1 = some r ∧
      signGenerics adminIPs ip sf i [(k, d)] =
        [(⟨r, if (Gen.signLoopPosMultiGen (verdictCode (onSign adminIPs ip (d.domain.getD [])))
                   d.signingRoot.isNone (sf.contains i)).2 then d.signingRoot else none⟩,
          if (Gen.signLoopPosMultiGen (verdictCode (onSign adminIPs ip (d.domain.getD [])))
                   d.signingRoot.isNone (sf.contains i)).2 then some (k, d) else none)] := by
  simp only [signGenerics]
  generalize sf.contains i = c
  generalize onSign adminIPs ip (d.domain.getD []) = v
  cases hr : d.signingRoot <;> cases c <;> cases v <;>
    simp [Gen.signLoopPosMultiGen, verdictCode, resOfCode, verdictRes]

theorem signLoopPosMulti_eq_gen' (adminIPs : List String) (ip : String) (sf : List Nat) (i : Nat) (k : Bytes)
    (d : SignData) :
    (signGenerics adminIPs ip sf i [(k, d)]).map (fun o => (resCode o.1.res, o.1.root.isSome, o.2.isSome)) =
      [((Gen.signLoopPosMultiGen (verdictCode (onSign adminIPs ip (d.domain.getD []))) d.signingRoot.isNone (sf.contains i)).1,
        (Gen.signLoopPosMultiGen (verdictCode (onSign adminIPs ip (d.domain.getD []))) d.signingRoot.isNone (sf.contains i)).2,
        (Gen.signLoopPosMultiGen (verdictCode (onSign adminIPs ip (d.domain.getD []))) d.signingRoot.isNone (sf.contains i)).2)] := by
  obtain ⟨r, hr, he⟩ := signLoopPosMulti_eq_gen adminIPs ip sf i k d
  rw [he]
  simp only [List.map_cons, List.map_nil, resCode_of_resOfCode _ _ hr]
  generalize sf.contains i = c
  generalize onSign adminIPs ip (d.domain.getD []) = v
  cases hs : d.signingRoot <;> cases c <;> cases v <;>
    simp [Gen.signLoopPosMultiGen, verdictCode]

/-- the position the model builds from what the generated function returns -/
def posOfGen (g : Nat × Bool) (root : Option Bytes) : Pos := ⟨(resOfCode g.1).getD .unknown, if g.2 then root else none⟩

/-- the whole signing pass over a verdict list is the indexed map of the generated position function -/
theorem signEvs_eq_gen_map (sf : List Nat) (i : Nat) (evs : List (Bytes × AttData × Verdict)) :
    signEvs sf i evs = (evs.zipIdx i).map (fun e =>
      (posOfGen (Gen.signLoopPosAttGen (verdictCode e.1.2.2) e.1.2.1.signingRoot.isNone false (sf.contains e.2))
          e.1.2.1.signingRoot,
       if (Gen.signLoopPosAttGen (verdictCode e.1.2.2) e.1.2.1.signingRoot.isNone false (sf.contains e.2)).2
       then some (e.1.1, e.1.2.1) else none)) := by
  induction evs generalizing i with
  | nil => simp [signEvs]
  | cons e rest ih =>
    obtain ⟨k, d, v⟩ := e
    obtain ⟨r, hr, he⟩ := signLoopPosAtt_eq_gen sf i k d v d.signingRoot.isNone false (by simp)
    have hcons : signEvs sf i ((k, d, v) :: rest) = signEvs sf i [(k, d, v)] ++ signEvs sf (i + 1) rest := by
      simp [signEvs]
    rw [hcons, he, ih (i + 1)]
    simp only [List.zipIdx_cons, List.map_cons, posOfGen, hr, Option.getD_some, List.cons_append, List.nil_append]

theorem signGenerics_eq_gen_map (adminIPs : List String) (ip : String) (sf : List Nat) (i : Nat)
    (keyed : List (Bytes × SignData)) :
    signGenerics adminIPs ip sf i keyed = (keyed.zipIdx i).map (fun e =>
      (posOfGen (Gen.signLoopPosMultiGen (verdictCode (onSign adminIPs ip (e.1.2.domain.getD [])))
          e.1.2.signingRoot.isNone (sf.contains e.2)) e.1.2.signingRoot,
       if (Gen.signLoopPosMultiGen (verdictCode (onSign adminIPs ip (e.1.2.domain.getD [])))
          e.1.2.signingRoot.isNone (sf.contains e.2)).2 then some (e.1.1, e.1.2) else none)) := by
  induction keyed generalizing i with
  | nil => simp [signGenerics]
  | cons e rest ih =>
    obtain ⟨k, d⟩ := e
    obtain ⟨r, hr, he⟩ := signLoopPosMulti_eq_gen adminIPs ip sf i k d
    have hcons : signGenerics adminIPs ip sf i ((k, d) :: rest) =
        signGenerics adminIPs ip sf i [(k, d)] ++ signGenerics adminIPs ip sf (i + 1) rest := by
      simp [signGenerics]
    rw [hcons, he, ih (i + 1)]
    simp only [List.zipIdx_cons, List.map_cons, posOfGen, hr, Option.getD_some, List.cons_append, List.nil_append]

/-- The regenerated loop bound.  Both signing loops are `util.Scatter(len(rulesResults), func(offset, entries, _) { for i :=
    offset; i < offset+entries; i++ { switch rulesResults[i] … } })` with `rulesResults` the ruler's answer; `results` is
    `make([]core.Result, len(data))` filled with ResultUnknown (which is also the type's zero value), `signatures` is
    `make([][]byte, len(data))` (nil entries).  So exactly the first `len(rulesResults)` positions are visited and the others
    keep UNKNOWN / no signature: the `take k` and `padUnknown` of Model/ShortRules.lean (`finishKeyedShort`,
    `multisignShort`). -/
theorem signLoopBound_is_rules_results :
    Gen.signLoopBoundAttGen = "len(rulesResults)" ∧ Gen.signLoopBoundMultiGen = "len(rulesResults)" ∧
    Gen.signLoopIndexAttGen = "i := offset; i < offset+entries; i++" ∧
    Gen.signLoopIndexMultiGen = "i := offset; i < offset+entries; i++" ∧
    Gen.signLoopSwitchTagAttGen = "rulesResults[i]" ∧ Gen.signLoopSwitchTagMultiGen = "rulesResults[i]" ∧
    Gen.signLoopVerdictsAttGen =
      "rulesResults := s.ruler.RunRules(ctx, credentials, ruler.ActionSignBeaconAttestation, rulesData)" ∧
    Gen.signLoopVerdictsMultiGen = "rulesResults := s.ruler.RunRules(ctx, credentials, ruler.ActionSign, rulesData)" ∧
    Gen.signLoopInitAttGen = "results := make([]core.Result, len(data))" ∧
    Gen.signLoopInitMultiGen = "results := make([]core.Result, len(data))" ∧
    Gen.signLoopInitFillAttGen = ["for i := range results { results[i] = core.ResultUnknown }"] ∧
    Gen.signLoopInitFillMultiGen = ["for i := range results { results[i] = core.ResultUnknown }"] ∧
    Gen.signLoopSigInitAttGen = "signatures := make([][]byte, len(data))" ∧
    Gen.signLoopSigInitMultiGen = "signatures := make([][]byte, len(data))" ∧
    Gen.coreResultZeroIsUnknownGen = true := by decide

/-- read off the translated code: verdict values 0..3 = UNKNOWN, APPROVED, DENIED, FAILED; results 1 = SUCCEEDED,
    2 = DENIED, 3 = FAILED.  (A value no arm names — 4, say — falls out of the switch into the signing code, as in Go:
    the generated function shows it; that no such enumerator exists is `facts_rules_results` /
    `facts_result_switches_total` in Props/FactsResults.lean, not asserted here.) -/
example : Gen.signLoopPosAttGen 1 false false false = (1, true) ∧ Gen.signLoopPosAttGen 1 true false false = (3, false) ∧
    Gen.signLoopPosAttGen 1 false true false = (3, false) ∧ Gen.signLoopPosAttGen 1 false false true = (3, false) ∧
    Gen.signLoopPosAttGen 0 false false false = (3, false) ∧ Gen.signLoopPosAttGen 2 false false false = (2, false) ∧
    Gen.signLoopPosAttGen 3 false false false = (3, false) ∧
    Gen.signLoopPosMultiGen 1 false false = (1, true) ∧ Gen.signLoopPosMultiGen 1 false true = (3, false) ∧
    Gen.signLoopPosMultiGen 1 true false = (3, false) ∧ Gen.signLoopPosMultiGen 2 false false = (2, false) := by decide

/-! ## 15. the signer's pre-check (`preCheck`, `fetchAccount`, `checkAccess`, `unlockAccount` of
    services/signer/standard/helpers.go) ↔ `fetchAccount` / `preCheck` of Model/Instance.lean

  The generated functions return `core.Result` enumerator VALUES (§14: `resCode`, `resOfCode`, `resCode_agrees`); every
  opaque call of the Go (the fetcher, the checker, the type assertion, `IsUnlocked`, the unlocker) is a Bool input, and
  `preCheckGen` is the composition written in `preCheck` itself over the three callees' results. -/

/-- the generated `fetchAccount` on the model's inputs: `name == ""`, `pubKey == nil`, and whether the fetcher's
    `FetchAccount(name)` / `FetchAccountByKey(pubKey)` (the model's `fetchByName` / `fetchByKey`) finds nothing -/
def fetchAccountG (cfg : Config) (a : Addr) : Nat × Nat :=
  Gen.fetchAccountGen a.name.isEmpty a.key.isNone (fetchByName cfg a.name).isNone (a.key.bind (fetchByKey cfg)).isNone

/-- `fetchAccount`: the generated result is SUCCEEDED exactly when the model resolves the account and DENIED otherwise;
    the fetch made is the one by key exactly when a key is given (whatever the name), the one by name exactly when no key
    but a name is given, none when neither is; and the model's answer IS the answer of the fetch the Go makes. -/
theorem fetchAccount_eq_gen (cfg : Config) (a : Addr) :
    (fetchAccountG cfg a).1 = (if (fetchAccount cfg a).isSome then resCode .succeeded else resCode .denied) ∧
    ((fetchAccountG cfg a).2 = 2 ↔ a.key.isSome) ∧
    ((fetchAccountG cfg a).2 = 1 ↔ (a.key.isNone ∧ a.name.isEmpty = false)) ∧
    fetchAccount cfg a = (match (fetchAccountG cfg a).2 with
      | 0 => none
      | 1 => fetchByName cfg a.name
      | _ => a.key.bind (fetchByKey cfg)) := by
  unfold fetchAccountG fetchAccount Gen.fetchAccountGen
  cases hk : a.key with
  | none =>
    cases hn : a.name.isEmpty <;> cases hf : fetchByName cfg a.name <;> simp [resCode]
  | some k =>
    cases hn : a.name.isEmpty <;> cases hf : fetchByKey cfg k <;> simp [resCode, hf]

/-- the corners `name = "" ∧ key = some _` and `name ≠ "" ∧ key = some _`: in the Go as in the model the KEY wins — the
    name is not even looked at (for any name, and whatever a fetch by name would have answered) -/
theorem fetchAccount_key_wins (cfg : Config) (name : String) (k : Bytes) (byNameErr byKeyErr : Bool) :
    fetchAccount cfg ⟨name, some k⟩ = fetchByKey cfg k ∧
    (Gen.fetchAccountGen name.isEmpty false byNameErr byKeyErr).2 = 2 ∧
    (Gen.fetchAccountGen name.isEmpty false byNameErr byKeyErr).1 =
      (if byKeyErr then resCode .denied else resCode .succeeded) := by
  cases hn : name.isEmpty <;> cases byNameErr <;> cases byKeyErr <;>
    simp [fetchAccount, Gen.fetchAccountGen, resCode]

theorem checkAccess_eq_gen (checkerSaysYes : Bool) :
    Gen.checkAccessGen checkerSaysYes = if checkerSaysYes then resCode .succeeded else resCode .denied := by
  cases checkerSaysYes <;> rfl

/-- `unlockAccount` on a fetched (non-nil) wallet and account that is an `AccountLocker`: FAILED when `IsUnlocked` errs
    (`lockStateFail`), else SUCCEEDED when it is unlocked already or the unlocker opens it (`acct.unlockable`), else
    DENIED — the tail of the model's `preCheck`.  (`unlockErr = false`: the model has no fault for the unlocker's own
    error; the generated function answers FAILED there, see the example below.) -/
theorem unlockAccount_eq_gen (lockStateFail unlockable isUnlocked unlockOk : Bool)
    (h : (isUnlocked || unlockOk) = unlockable) :
    Gen.unlockAccountGen false false true lockStateFail isUnlocked false unlockOk =
      if lockStateFail then resCode .failed else if unlockable then resCode .succeeded else resCode .denied := by
  subst h
  cases lockStateFail <;> cases isUnlocked <;> cases unlockOk <;> rfl

/-- what the model's `preCheck` answers for a `core.Result` value, `acct` being the fetched account -/
def preCheckOfCode (acct : Account) (n : Nat) : Except Res Account :=
  match resOfCode n with
  | some .succeeded => .ok acct
  | some r => .error r
  | none => .error .unknown

/-- the name the Go hands to the checker is the model's `wallet ++ "/" ++ name` -/
theorem preCheckCheckedNameFn_eq (w n name action : String) :
    Gen.preCheckCheckedNameFnGen w n name action = w ++ "/" ++ n := rfl

/-- `preCheck`: the model's answer is the decoding of the composed generated functions.
    When the account does not resolve the generated composition is DENIED whatever the later stages would say (they are
    not reached); when it resolves to `acct`, with `checkerSaysYes` the checker's answer for the generated account-name
    expression on `acct`, and the unlock stage instantiated as in `unlockAccount_eq_gen`, the model's `preCheck` is
    `.ok acct` exactly when the composition is SUCCEEDED and `.error r`, `r` the decoded value, otherwise. -/
theorem preCheck_eq_gen (cfg : Config) (client : String) (a : Addr) (op : String) (lockStateFail : Bool) :
    (fetchAccount cfg a = none → ∀ checkRes unlockRes : Nat,
        Gen.preCheckGen (fetchAccountG cfg a).1 checkRes unlockRes = resCode .denied ∧
        preCheck cfg client a op lockStateFail = .error .denied) ∧
    (∀ acct, fetchAccount cfg a = some acct → ∀ isUnlocked unlockOk : Bool,
        (isUnlocked || unlockOk) = acct.unlockable →
        preCheck cfg client a op lockStateFail =
          preCheckOfCode acct (Gen.preCheckGen (fetchAccountG cfg a).1
            (Gen.checkAccessGen (check cfg.access client (Gen.preCheckCheckedNameFnGen acct.wallet acct.name a.name op) op))
            (Gen.unlockAccountGen false false true lockStateFail isUnlocked false unlockOk)) ∧
        (preCheck cfg client a op lockStateFail = .ok acct ↔
          Gen.preCheckGen (fetchAccountG cfg a).1
            (Gen.checkAccessGen (check cfg.access client (Gen.preCheckCheckedNameFnGen acct.wallet acct.name a.name op) op))
            (Gen.unlockAccountGen false false true lockStateFail isUnlocked false unlockOk) = resCode .succeeded)) := by
  have hf := (fetchAccount_eq_gen cfg a).1
  refine ⟨?_, ?_⟩
  · intro hnone c u
    rw [hnone] at hf
    simp only [Option.isSome_none] at hf
    refine ⟨?_, ?_⟩
    · rw [hf]; simp [Gen.preCheckGen, resCode]
    · simp [preCheck, hnone]
  · intro acct hsome isUnlocked unlockOk hu
    rw [hsome] at hf
    simp only [Option.isSome_some, if_true] at hf
    have hname : Gen.preCheckCheckedNameFnGen acct.wallet acct.name a.name op = acct.wallet ++ "/" ++ acct.name := rfl
    rw [hf, checkAccess_eq_gen, unlockAccount_eq_gen lockStateFail acct.unlockable isUnlocked unlockOk hu, hname]
    simp only [preCheck, hsome]
    cases check cfg.access client (acct.wallet ++ "/" ++ acct.name) op <;> cases lockStateFail <;>
      cases acct.unlockable <;> simp [Gen.preCheckGen, resCode, preCheckOfCode, resOfCode]

/-- the regenerated shape of `preCheck`: what is handed to `checkAccess` as the account name (locals printed as their
    roles) and the order of the three calls -/
theorem preCheck_shape_is_source :
    Gen.preCheckCheckedNameGen = "fmt.Sprintf(\"%s/%s\", wallet.Name(), account.Name())" ∧
    Gen.preCheckOrderGen = ["fetchAccount", "checkAccess", "unlockAccount"] := by decide

/-- read off the translated code (results 1 = SUCCEEDED, 2 = DENIED, 3 = FAILED): the branches of `unlockAccount` the
    model does not exercise (nil wallet / account: DENIED; not an `AccountLocker`: SUCCEEDED without asking anyone; the
    unlocker's own error: FAILED), `fetchAccount`'s corners, and `preCheck` returning the FIRST result that is not
    SUCCEEDED. -/
example : Gen.unlockAccountGen true false true false true false true = 2 ∧
    Gen.unlockAccountGen false true true false true false true = 2 ∧
    Gen.unlockAccountGen false false false true false true false = 1 ∧
    Gen.unlockAccountGen false false true false false true true = 3 ∧
    Gen.unlockAccountGen false false true true true false true = 3 ∧
    Gen.fetchAccountGen true true false false = (2, 0) ∧ Gen.fetchAccountGen false true false true = (1, 1) ∧
    Gen.fetchAccountGen true false true false = (1, 2) ∧ Gen.fetchAccountGen false false false true = (2, 2) ∧
    Gen.preCheckGen 2 3 3 = 2 ∧ Gen.preCheckGen 1 2 3 = 2 ∧ Gen.preCheckGen 1 1 3 = 3 ∧ Gen.preCheckGen 1 1 1 = 1 ∧
    Gen.preCheckGen 0 1 1 = 0 := by decide

/-- the hypotheses of `preCheck_eq_gen` are satisfiable on a non-trivial configuration: one account, addressed by key
    while a (different, non-existent) name is given as well — the key wins and the request passes -/
example :
    let cfg : Config := { accounts := [⟨"w", "a", [1, 2, 3], true⟩], access := [] }
    fetchAccount cfg ⟨"other/name", some [1, 2, 3]⟩ = some ⟨"w", "a", [1, 2, 3], true⟩ ∧
    (fetchAccountG cfg ⟨"other/name", some [1, 2, 3]⟩).2 = 2 := by
  refine ⟨by decide, ?_⟩
  exact ((fetchAccount_eq_gen _ _).2.1).2 rfl

/-! ## 16. the ruler's `RunRules` and the head of `runRules` (services/ruler/golang/runner.go) ↔ `firstDup`, `rulesKeyed`
    (Model/Instance.lean) and the lock protocol `lockWrap` (Model/LockTrace.lean; the thread program of Model/Conc.lean)

  `Gen.runRulesValidateGen` takes, for every scan loop of the Go, the first index at which each guard's condition holds;
  `IsFirst` is that contract, `scanExit_eq_run` justifies the (fixed-text) combinator `Gen.scanExitGen` against a step-by-step
  execution of such a loop, and `firstDup_spec` shows the model's `firstDup` meets the contract of the duplicate guard.
  `Gen.lockCallsTokGen` is produced from the locker calls recognised in the source (a `defer` in a forward loop ⇒ reverse
  order at the return). -/

/-- `o` is the first index below `n` at which `p` holds (`none`: it holds at no index below `n`) — the contract of the
    `first…` parameters of `Gen.runRulesValidateGen` -/
def IsFirst (p : Nat → Prop) (n : Nat) : Option Nat → Prop
  | none => ∀ i, i < n → ¬ p i
  | some i => i < n ∧ p i ∧ ∀ j, j < i → ¬ p j

theorem IsFirst_unique {p : Nat → Prop} {n : Nat} {a b : Option Nat} (ha : IsFirst p n a) (hb : IsFirst p n b) :
    a = b := by
  cases a with
  | none =>
    cases b with
    | none => rfl
    | some j => exact absurd hb.2.1 (ha j hb.1)
  | some i =>
    cases b with
    | none => exact absurd ha.2.1 (hb i ha.1)
    | some j =>
      have h1 : ¬ j < i := fun h => ha.2.2 j h hb.2.1
      have h2 : ¬ i < j := fun h => hb.2.2 i h ha.2.1
      have : i = j := by omega
      rw [this]

/-! ### `scanExitGen` is what a guard loop does -/

/-- step-by-step execution of `for i := lo; i < lo+fuel; i++ { if C₁(i) { r[i] = v₁; return }; … }`: at index `i` the
    guards are tried in source order, the first whose condition holds returns (index, its value) -/
def scanRun (guards : List ((Nat → Bool) × Nat)) : (i fuel : Nat) → Option (Nat × Nat)
  | _, 0 => none
  | i, fuel + 1 =>
    match guards.find? (fun g => g.1 i) with
    | some g => some (i, g.2)
    | none => scanRun guards (i + 1) fuel

/-- the first index in `[lo, lo+len)` at which `c` holds -/
def firstIdxFrom (c : Nat → Bool) : (lo len : Nat) → Option Nat
  | _, 0 => none
  | lo, len + 1 => if c lo then some lo else firstIdxFrom c (lo + 1) len

theorem firstIdxFrom_ge (c : Nat → Bool) : ∀ (len lo i : Nat), firstIdxFrom c lo len = some i → lo ≤ i := by
  intro len
  induction len with
  | zero => intro lo i h; simp [firstIdxFrom] at h
  | succ len ih =>
    intro lo i h
    simp only [firstIdxFrom] at h
    split at h
    · simp at h; omega
    · have := ih _ _ h; omega

theorem firstIdxFrom_isFirst (c : Nat → Bool) (n : Nat) : IsFirst (fun i => c i = true) n (firstIdxFrom c 0 n) := by
  suffices h : ∀ (len lo : Nat), (match firstIdxFrom c lo len with
      | none => ∀ i, lo ≤ i → i < lo + len → ¬ c i = true
      | some i => lo ≤ i ∧ i < lo + len ∧ c i = true ∧ ∀ j, lo ≤ j → j < i → ¬ c j = true) by
    have := h n 0
    cases hf : firstIdxFrom c 0 n with
    | none => rw [hf] at this; intro i hi; exact this i (Nat.zero_le _) (by omega)
    | some i =>
      rw [hf] at this
      exact ⟨by omega, this.2.2.1, fun j hj => this.2.2.2 j (Nat.zero_le _) hj⟩
  intro len
  induction len with
  | zero => intro lo; simp only [firstIdxFrom]; intro i h1 h2; omega
  | succ len ih =>
    intro lo
    simp only [firstIdxFrom]
    by_cases hc : c lo = true
    · rw [if_pos hc]
      exact ⟨Nat.le_refl _, by omega, hc, fun j h1 h2 => by omega⟩
    · rw [if_neg hc]
      have := ih (lo + 1)
      cases hf : firstIdxFrom c (lo + 1) len with
      | none =>
        rw [hf] at this
        intro i h1 h2
        by_cases hi : i = lo
        · subst hi; exact hc
        · exact this i (by omega) (by omega)
      | some i =>
        rw [hf] at this
        refine ⟨by omega, by omega, this.2.2.1, ?_⟩
        intro j h1 h2
        by_cases hj : j = lo
        · subst hj; exact hc
        · exact this.2.2.2 j (by omega) h2

theorem scanExitGen_ge (lo : Nat) : ∀ (l : List (Option Nat × Nat)), (∀ e ∈ l, ∀ i, e.1 = some i → lo ≤ i) →
    ∀ j w, Gen.scanExitGen l = some (j, w) → lo ≤ j := by
  intro l
  induction l with
  | nil => intro _ j w h; simp [Gen.scanExitGen] at h
  | cons e rest ih =>
    intro hall j w h
    obtain ⟨o, v⟩ := e
    have hrest := ih (fun e he => hall e (List.mem_cons_of_mem _ he))
    cases o with
    | none => simp only [Gen.scanExitGen] at h; exact hrest j w h
    | some i =>
      have hi : lo ≤ i := hall (some i, v) (List.mem_cons_self ..) i rfl
      simp only [Gen.scanExitGen] at h
      cases hr : Gen.scanExitGen rest with
      | none => rw [hr] at h; simp at h; omega
      | some jw =>
        obtain ⟨j', w'⟩ := jw
        rw [hr] at h
        simp only at h
        split at h
        · simp at h; have := hrest j' w' hr; omega
        · simp at h; omega

theorem scanExitGen_all_none : ∀ (l : List (Option Nat × Nat)), (∀ e ∈ l, e.1 = none) → Gen.scanExitGen l = none := by
  intro l
  induction l with
  | nil => intro _; rfl
  | cons e rest ih =>
    intro h
    obtain ⟨o, v⟩ := e
    have : o = none := h (o, v) (List.mem_cons_self ..)
    subst this
    simp only [Gen.scanExitGen]
    exact ih (fun e he => h e (List.mem_cons_of_mem _ he))

theorem firstIdxFrom_succ (c : Nat → Bool) (lo len : Nat) :
    firstIdxFrom c lo (len + 1) = if c lo = true then some lo else firstIdxFrom c (lo + 1) len := rfl

theorem scanExitGen_hit (lo len : Nat) : ∀ (guards : List ((Nat → Bool) × Nat)) (g : (Nat → Bool) × Nat),
    guards.find? (fun g => g.1 lo) = some g →
    Gen.scanExitGen (guards.map (fun g => (firstIdxFrom g.1 lo (len + 1), g.2))) = some (lo, g.2) := by
  intro guards
  induction guards with
  | nil => intro g h; simp at h
  | cons h t ih =>
    intro g hf
    simp only [List.map_cons]
    have hge : ∀ e ∈ t.map (fun g => (firstIdxFrom g.1 lo (len + 1), g.2)), ∀ i, e.1 = some i → lo ≤ i := by
      intro e he i hi
      simp only [List.mem_map] at he
      obtain ⟨g', _, rfl⟩ := he
      exact firstIdxFrom_ge _ _ _ _ hi
    generalize t.map (fun g => (firstIdxFrom g.1 lo (len + 1), g.2)) = T at ih hge
    by_cases hc : h.1 lo = true
    · simp only [List.find?_cons, hc] at hf
      simp at hf
      subst hf
      rw [firstIdxFrom_succ, if_pos hc]
      simp only [Gen.scanExitGen]
      cases hr : Gen.scanExitGen T with
      | none => rfl
      | some jw =>
        obtain ⟨j, w⟩ := jw
        have := scanExitGen_ge lo _ hge j w hr
        simp only
        rw [if_neg (by omega)]
    · have hc' : h.1 lo = false := by simpa using hc
      simp only [List.find?_cons, hc'] at hf
      have iht := ih g hf
      rw [firstIdxFrom_succ, if_neg hc]
      cases hh : firstIdxFrom h.1 (lo + 1) len with
      | none => simp only [Gen.scanExitGen]; exact iht
      | some i =>
        have := firstIdxFrom_ge _ _ _ _ hh
        simp only [Gen.scanExitGen, iht]
        rw [if_pos (by omega)]

/-- **`scanExitGen` against an execution.**  Running the loop over `[0, n)` step by step gives exactly what the
    generated combinator computes from the guards' first indices (in source order). -/
theorem scanExit_eq_run (guards : List ((Nat → Bool) × Nat)) (n : Nat) :
    scanRun guards 0 n = Gen.scanExitGen (guards.map (fun g => (firstIdxFrom g.1 0 n, g.2))) := by
  suffices h : ∀ (len lo : Nat), scanRun guards lo len =
      Gen.scanExitGen (guards.map (fun g => (firstIdxFrom g.1 lo len, g.2))) from h n 0
  intro len
  induction len with
  | zero =>
    intro lo
    simp only [scanRun, firstIdxFrom]
    exact (scanExitGen_all_none _ (by intro e he; simp only [List.mem_map] at he; obtain ⟨_, _, rfl⟩ := he; rfl)).symm
  | succ len ih =>
    intro lo
    simp only [scanRun]
    cases hf : guards.find? (fun g => g.1 lo) with
    | some g => exact (scanExitGen_hit lo len guards g hf).symm
    | none =>
      simp only
      rw [ih (lo + 1)]
      congr 1
      apply List.map_congr_left
      intro g hg
      have : g.1 lo = false := by
        have := List.find?_eq_none.mp hf g hg
        simpa using this
      simp [firstIdxFrom, this]

/-! ### the duplicate check -/

/-- the condition of the duplicate guard at index `i`, on the Go's map key: entry `i`'s key equals an earlier entry's -/
def dupKeyAt (ks : List Bytes) (i : Nat) : Prop :=
  ∃ k, ks[i]? = some k ∧ Gen.runRulesKeyGen k ∈ (ks.take i).map Gen.runRulesKeyGen

/-- the Go's map key (`var key [48]byte; copy(key[:], PubKey)`) is the model's `toBytes48` -/
theorem runRulesKeyGen_eq (k : Bytes) : Gen.runRulesKeyGen k = toBytes48 k := rfl

theorem firstDup_spec_aux : ∀ (ks seen : List Bytes) (i0 : Nat),
    (firstDup seen i0 ks = none → ∀ i k, ks[i]? = some k →
        toBytes48 k ∉ seen ∧ toBytes48 k ∉ (ks.take i).map toBytes48) ∧
    (∀ r, firstDup seen i0 ks = some r → ∃ i k, r = i0 + i ∧ ks[i]? = some k ∧
        (toBytes48 k ∈ seen ∨ toBytes48 k ∈ (ks.take i).map toBytes48) ∧
        ∀ j k', j < i → ks[j]? = some k' → toBytes48 k' ∉ seen ∧ toBytes48 k' ∉ (ks.take j).map toBytes48) := by
  intro ks
  induction ks with
  | nil =>
    intro seen i0
    refine ⟨fun _ i k h => by simp at h, fun r h => by simp [firstDup] at h⟩
  | cons k0 rest ih =>
    intro seen i0
    simp only [firstDup]
    by_cases hc : seen.contains (toBytes48 k0) = true
    · simp only [hc, if_true]
      refine ⟨fun h => by simp at h, ?_⟩
      intro r hr
      simp at hr
      subst hr
      refine ⟨0, k0, rfl, rfl, Or.inl (by simpa using hc), fun j k' hj => by omega⟩
    · simp only [hc]
      have hns : toBytes48 k0 ∉ seen := by simpa using hc
      obtain ⟨ihn, ihs⟩ := ih (toBytes48 k0 :: seen) (i0 + 1)
      refine ⟨?_, ?_⟩
      · intro h i k hk
        simp only [Bool.false_eq_true, if_false] at h
        cases i with
        | zero =>
          simp at hk; subst hk
          exact ⟨hns, by simp⟩
        | succ i' =>
          simp only [List.getElem?_cons_succ] at hk
          have := ihn h i' k hk
          simp only [List.mem_cons, not_or] at this
          refine ⟨this.1.2, ?_⟩
          simp only [List.take_succ_cons, List.map_cons, List.mem_cons, not_or]
          exact ⟨this.1.1, this.2⟩
      · intro r hr
        simp only [Bool.false_eq_true, if_false] at hr
        obtain ⟨i', k, hr', hk, hin, hmin⟩ := ihs r hr
        refine ⟨i' + 1, k, by omega, by simpa using hk, ?_, ?_⟩
        · simp only [List.take_succ_cons, List.map_cons, List.mem_cons]
          rcases hin with h | h
          · simp only [List.mem_cons] at h
            rcases h with h | h
            · exact Or.inr (Or.inl h)
            · exact Or.inl h
          · exact Or.inr (Or.inr h)
        · intro j k' hj hk'
          cases j with
          | zero =>
            simp at hk'; subst hk'
            exact ⟨hns, by simp⟩
          | succ j' =>
            simp only [List.getElem?_cons_succ] at hk'
            have := hmin j' k' (by omega) hk'
            simp only [List.mem_cons, not_or] at this
            refine ⟨this.1.2, ?_⟩
            simp only [List.take_succ_cons, List.map_cons, List.mem_cons, not_or]
            exact ⟨this.1.1, this.2⟩

/-- **`firstDup` meets the contract of `firstDupKey`**: it is the first index whose 48-byte key occurred at an earlier
    index (`none`: there is none). -/
theorem firstDup_spec (ks : List Bytes) : IsFirst (dupKeyAt ks) ks.length (firstDup [] 0 ks) := by
  obtain ⟨hn, hs⟩ := firstDup_spec_aux ks [] 0
  cases hf : firstDup [] 0 ks with
  | none =>
    intro i _ hd
    obtain ⟨k, hk, hin⟩ := hd
    exact (hn hf i k hk).2 hin
  | some r =>
    obtain ⟨i, k, hr, hk, hin, hmin⟩ := hs r hf
    have hri : r = i := by omega
    subst hri
    refine ⟨?_, ⟨k, hk, ?_⟩, ?_⟩
    · exact (List.getElem?_eq_some_iff.mp hk).1
    · rcases hin with h | h
      · simp at h
      · exact h
    · intro j hj hd
      obtain ⟨k', hk', hin'⟩ := hd
      exact (hmin j k' hj hk').2 hin'

theorem replicate_set_eq (n i a b : Nat) :
    (List.replicate n a).set i b = (List.range n).map (fun j => if j = i then b else a) := by
  apply List.ext_getElem
  · simp
  · intro j h1 h2
    simp only [List.getElem_set, List.getElem_replicate, List.getElem_map, List.getElem_range]
    by_cases h : i = j
    · simp [h]
    · have : ¬ j = i := fun e => h e.symm
      simp [h, this]

/-- **The duplicate refusal.**  For a request of a locking action whose entries are all there (no nil entry, no nil
    `Data`) and whose keys `ks` are all non-empty, and for ANY values of the `firstEmptyKey` / `firstDupKey` inputs that
    meet their contract (`IsFirst` of the Go's conditions): the empty-key input is `none`, the duplicate input IS the
    model's `firstDup [] 0 ks`, the generated validation passes exactly when the model finds no duplicate, and otherwise
    answers a list of `ks.length` results that is FAILED at the model's duplicate index and UNKNOWN elsewhere. -/
theorem runRulesValidate_dup_eq_model (ks : List Bytes) (hne : ks ≠ []) (hk : ∀ k ∈ ks, k ≠ [])
    (fe fd : Option Nat)
    (hfe : IsFirst (fun i => ∃ k, ks[i]? = some k ∧ k.length = 0) ks.length fe)
    (hfd : IsFirst (dupKeyAt ks) ks.length fd) :
    fe = none ∧ fd = firstDup [] 0 ks ∧
    (Gen.runRulesValidateGen ks.length none none true fe fd = none ↔ firstDup [] 0 ks = none) ∧
    (∀ i, firstDup [] 0 ks = some i → i < ks.length ∧
      Gen.runRulesValidateGen ks.length none none true fe fd =
        some ((List.range ks.length).map
          (fun j => if j = i then verdictCode .failed else verdictCode .unknown))) := by
  have hfe' : fe = none := by
    apply IsFirst_unique hfe
    intro i _ hex
    obtain ⟨k, hk1, hk2⟩ := hex
    have := hk k (List.mem_of_getElem? hk1)
    exact this (List.eq_nil_of_length_eq_zero hk2)
  have hfd' : fd = firstDup [] 0 ks := IsFirst_unique hfd (firstDup_spec ks)
  have hlen : ks.length ≠ 0 := by
    intro h; exact hne (List.eq_nil_of_length_eq_zero h)
  refine ⟨hfe', hfd', ?_, ?_⟩
  · subst hfe'; rw [hfd']
    cases firstDup [] 0 ks <;> simp [Gen.runRulesValidateGen, Gen.scanExitGen, hlen]
  · intro i hi
    have hspec := firstDup_spec ks
    rw [hi] at hspec
    refine ⟨hspec.1, ?_⟩
    subst hfe'; rw [hfd', hi]
    simp [Gen.runRulesValidateGen, Gen.scanExitGen, hlen, replicate_set_eq, verdictCode]

/-- the hypotheses of `runRulesValidate_dup_eq_model` are satisfiable, with and without a duplicate (keys that differ
    only beyond byte 48 ARE duplicates; keys shorter than 48 bytes are zero padded) -/
example : firstDup [] 0 [[1], [2], [1, 0]] = some 2 ∧ firstDup [] 0 [[1], [2], [3]] = none ∧
    Gen.runRulesValidateGen 3 none none true none (firstDup [] 0 [[1], [2], [1, 0]]) = some [0, 0, 3] ∧
    Gen.runRulesValidateGen 3 none none true none (firstDup [] 0 [[1], [2], [3]]) = none := by decide

/-- the signer's reading of that answer (`signAtts` / `multisign`: "duplicate → every position FAILED"): its signing loop
    (§14) turns the FAILED position into FAILED and every UNKNOWN position into FAILED as well, signing nothing -/
theorem runRulesDup_signer_reads_all_failed (n i : Nat) (a b c : Bool) :
    ((List.range n).map (fun j => if j = i then verdictCode .failed else verdictCode .unknown)).map
        (fun v => Gen.signLoopPosAttGen v a b c) = List.replicate n (resCode .failed, false) ∧
    ((List.range n).map (fun j => if j = i then verdictCode .failed else verdictCode .unknown)).map
        (fun v => Gen.signLoopPosMultiGen v b c) = List.replicate n (resCode .failed, false) := by
  refine ⟨?_, ?_⟩ <;>
  · apply List.ext_getElem
    · simp
    · intro j h1 h2
      simp only [List.getElem_map, List.getElem_range, List.getElem_replicate]
      by_cases h : j = i <;> simp [h, verdictCode, resCode, Gen.signLoopPosAttGen, Gen.signLoopPosMultiGen]

/-- the other refusals, read off the translated code (0 = UNKNOWN, 3 = FAILED): no data; a nil entry / nil `Data` (whatever
    the action, and before any key is looked at); for a locking action an empty key or a duplicate, whichever comes first —
    at the same index the empty key; for the other actions the keys are not looked at -/
example : Gen.runRulesValidateGen 0 none none true none none = some [3] ∧
    Gen.runRulesValidateGen 3 (some 1) none false none none = some [0, 3, 0] ∧
    Gen.runRulesValidateGen 3 (some 2) (some 1) true (some 0) none = some [0, 3, 0] ∧
    Gen.runRulesValidateGen 4 none none true (some 3) (some 2) = some [0, 0, 3, 0] ∧
    Gen.runRulesValidateGen 4 none none true (some 1) (some 2) = some [0, 3, 0, 0] ∧
    Gen.runRulesValidateGen 4 none none true (some 2) (some 2) = some [0, 0, 3, 0] ∧
    Gen.runRulesValidateGen 4 none none false (some 1) (some 2) = none ∧
    Gen.runRulesValidateGen 4 none none true none none = none := by decide

/-- the list `RunRules` returns when it gives up at index `i`: FAILED there, UNKNOWN (the initial value) elsewhere -/
def failedAt (n i : Nat) : List Nat :=
  (List.range n).map (fun j => if j = i then verdictCode .failed else verdictCode .unknown)

/-- **The validation, completely.**  No data: `[FAILED]`.  Otherwise: the first nil entry or nil `Data` (whichever has the
    smaller index) is FAILED, whatever the action and the keys; else, for a locking action, the first empty or duplicate
    key (whichever has the smaller index) is FAILED; else the checks pass; for the other actions the keys are not
    looked at. -/
theorem runRulesValidate_spec (n : Nat) (hn : n ≠ 0) (locking : Bool) (fe fd : Option Nat) :
    (∀ fn fnd, Gen.runRulesValidateGen 0 fn fnd locking fe fd = some [verdictCode .failed]) ∧
    (∀ i j, Gen.runRulesValidateGen n (some i) (some j) locking fe fd = some (failedAt n (min i j))) ∧
    (∀ i, Gen.runRulesValidateGen n (some i) none locking fe fd = some (failedAt n i)) ∧
    (∀ j, Gen.runRulesValidateGen n none (some j) locking fe fd = some (failedAt n j)) ∧
    (∀ i j, Gen.runRulesValidateGen n none none true (some i) (some j) = some (failedAt n (min i j))) ∧
    (∀ i, Gen.runRulesValidateGen n none none true (some i) none = some (failedAt n i)) ∧
    (∀ j, Gen.runRulesValidateGen n none none true none (some j) = some (failedAt n j)) ∧
    Gen.runRulesValidateGen n none none true none none = none ∧
    Gen.runRulesValidateGen n none none false fe fd = none := by
  have hmin : ∀ i j : Nat, (if j < i then j else i) = min i j := by
    intro i j; rw [Nat.min_def]; split <;> split <;> omega
  refine ⟨?_, ?_, ?_, ?_, ?_, ?_, ?_, ?_, ?_⟩
  · intro fn fnd; simp [Gen.runRulesValidateGen, verdictCode]
  · intro i j
    by_cases h : j < i <;>
      simp [Gen.runRulesValidateGen, Gen.scanExitGen, hn, failedAt, ← hmin, replicate_set_eq, verdictCode, h]
  · intro i; simp [Gen.runRulesValidateGen, Gen.scanExitGen, hn, failedAt, replicate_set_eq, verdictCode]
  · intro j; simp [Gen.runRulesValidateGen, Gen.scanExitGen, hn, failedAt, replicate_set_eq, verdictCode]
  · intro i j
    by_cases h : j < i <;>
      simp [Gen.runRulesValidateGen, Gen.scanExitGen, hn, failedAt, ← hmin, replicate_set_eq, verdictCode, h]
  · intro i; simp [Gen.runRulesValidateGen, Gen.scanExitGen, hn, failedAt, replicate_set_eq, verdictCode]
  · intro j; simp [Gen.runRulesValidateGen, Gen.scanExitGen, hn, failedAt, replicate_set_eq, verdictCode]
  · simp [Gen.runRulesValidateGen, Gen.scanExitGen, hn]
  · simp [Gen.runRulesValidateGen, Gen.scanExitGen, hn]

/-- for the actions that do not lock, only the nil checks are made -/
theorem runRulesValidate_nonlocking (n : Nat) (hn : n ≠ 0) (fe fd : Option Nat) :
    Gen.runRulesValidateGen n none none false fe fd = none := by
  simp [Gen.runRulesValidateGen, Gen.scanExitGen, hn]

/-- the locking actions are the model's three signing operations -/
theorem runRulesIsLocking_eq (action : String) :
    Gen.runRulesIsLockingGen action = [opSign, opPropose, opAttest].contains action := by
  have h : ∀ b : String, (action == b) = decide (action = b) := fun b => by
    by_cases h : action = b <;> simp [h]
  simp [Gen.runRulesIsLockingGen, opSign, opPropose, opAttest, Bool.or_assoc, h]

/-! ### the lock protocol -/

/-- the string token of a model token (the generated `lockTokGen` / `unlockTokGen` for the keyed ones) -/
def ltokStr : LTok → String
  | .pre => "pre" | .lock k => Gen.lockTokGen k | .post => "post" | .unlock k => Gen.unlockTokGen k
  | .fetch => "fetch" | .store => "store" | .stored => "stored" | .sign => "sign"

/-- **The model's lock protocol is the one recognised in the source.**  With the model's tokens for the four locker
    calls, the call sequence generated from `RunRules` for the public keys `keys` (request order) around the rules' own
    calls `inner` IS `lockWrap (keys.map toBytes48) inner`: PreLock, the locks in request order, PostLock, the rules, the
    unlocks in reverse order — token by token, for all keys and all `inner`.  (An unlock loop in forward order, a PostLock
    before the locks, a missing call or a key of another width gives a different generated list, for which this equation
    is false.)  Second part: the same through the string tokens. -/
theorem lockCalls_eq_lockWrap (keys : List Bytes) (inner : List LTok) :
    Gen.lockCallsTokGen LTok.pre LTok.post LTok.lock LTok.unlock keys inner = lockWrap (keys.map toBytes48) inner ∧
    Gen.lockCallsGen keys (inner.map ltokStr) = (lockWrap (keys.map toBytes48) inner).map ltokStr := by
  refine ⟨?_, ?_⟩
  · simp only [Gen.lockCallsTokGen, lockWrap, List.map_map, List.map_reverse]
    rfl
  · simp only [Gen.lockCallsGen, Gen.lockCallsTokGen, lockWrap, List.map_append, List.map_map, List.map_reverse,
      List.map_cons, List.map_nil, ltokStr]
    rfl

/-- the instance `traceAtts` / `traceMsign` use (Model/LockTrace.lean): the keys are the resolved accounts' public keys -/
theorem lockWrap_keyed_eq_gen {α : Type} (keyed : List (Bytes × α)) (inner : List LTok) :
    lockWrap (keyed.map (fun e => toBytes48 e.1)) inner =
      Gen.lockCallsTokGen LTok.pre LTok.post LTok.lock LTok.unlock (keyed.map (·.1)) inner := by
  rw [(lockCalls_eq_lockWrap _ _).1, List.map_map]
  rfl

/-- the tokens distinguish what they must: order of the keys, lock from unlock, the four calls -/
example : Gen.lockCallsGen [[1], [2]] ["fetch"] =
    ["pre", Gen.lockTokGen (toBytes48 [1]), Gen.lockTokGen (toBytes48 [2]), "post", "fetch",
     Gen.unlockTokGen (toBytes48 [2]), Gen.unlockTokGen (toBytes48 [1])] := rfl

/-! ### the choice of the path -/

/-- **Per-entry vs batch path.**  For attestations the batch path is taken exactly for more than one entry, for every
    other action never; and that is `rulesKeyed`'s split: a single resolved entry goes to the single rule (`onAttest`),
    two or more to `onAttestBatch`.  (`keyed = []` does not reach `runRules`: `RunRules` answers `[FAILED]` for no data,
    `runRulesValidateGen 0 … = some [3]`; there the model's `rulesKeyed []` reads "batch" and the Go would read "per-entry",
    neither of which is ever run.) -/
theorem runRulesPath_eq_model :
    (∀ n, Gen.runRulesPathGen n true = 1 ↔ n > 1) ∧ (∀ n, Gen.runRulesPathGen n true = 0 ↔ n ≤ 1) ∧
    (∀ n, Gen.runRulesPathGen n false = 0) ∧
    (∀ (db : Db) (keyed : List (Bytes × AttData)) (f : Faults), keyed ≠ [] →
      (Gen.runRulesPathGen keyed.length true = 0 → ∃ k d, keyed = [(k, d)] ∧
          rulesKeyed db keyed f = (some [(k, d, (onAttest db k d.req f).1)], (onAttest db k d.req f).2)) ∧
      (Gen.runRulesPathGen keyed.length true = 1 → rulesKeyed db keyed f = onAttestBatch AttData.req db keyed f)) := by
  have h1 : ∀ n, Gen.runRulesPathGen n true = 1 ↔ n > 1 := by
    intro n; by_cases h : n > 1 <;> simp [Gen.runRulesPathGen, h]
  have h0 : ∀ n, Gen.runRulesPathGen n true = 0 ↔ n ≤ 1 := by
    intro n; by_cases h : n > 1 <;> simp [Gen.runRulesPathGen, h] <;> omega
  refine ⟨h1, h0, fun n => by simp [Gen.runRulesPathGen], ?_⟩
  intro db keyed f hne
  refine ⟨fun h => ?_, fun h => ?_⟩
  · have hl := (h0 _).mp h
    match keyed, hne, hl with
    | [(k, d)], _, _ => exact ⟨k, d, rfl, rfl⟩
    | _ :: _ :: _, _, hl => simp at hl
  · have hl := (h1 _).mp h
    match keyed, hl with
    | [], hl => simp at hl
    | [_], hl => simp at hl
    | _ :: _ :: _, _ => rfl

/-- the action compared with in `runRules` is the model's attestation operation -/
theorem runRulesPath_action : Gen.runRulesAttestationActionGen = opAttest := by decide

/-! ### the shape -/

/-- the regenerated string facts: which actions lock, how the map key and the lock key are built (48 bytes, `copy` into a
    fresh array), and the locker calls in source order with their loop structure -/
theorem runRules_shape_is_source :
    Gen.runRulesLockingActionsGen = [opSign, opPropose, opAttest] ∧
    Gen.runRulesKeyWidthGen = 48 ∧ Gen.runRulesLockKeyWidthGen = 48 ∧
    Gen.runRulesDupKeyExprGen = "var key [48]byte; copy(key[:], rulesData[i].PubKey)" ∧
    Gen.runRulesLockProtocolGen =
      ["PreLock", "for-each-in-order: Lock(key48(PubKey)); defer Unlock(key48(PubKey))", "PostLock", "return runRules"] := by
  decide

/-! ## 17. the lister's `ListAccounts` (services/lister/standard/listaccounts.go) ↔ `listerAnchor`, `listerPath`, `listAccounts` (C18) -/

/-- **The anchoring.**  The string the Go hands to `regexp.Compile` is the string the model parses: the model's
    STRING-level function `listerAnchor` (Model/Lister.lean; `listerPath` parses `listerAnchor a`, and the run-time
    hypothesis `ListerShapeOKGen` of Model/ListerShape.lean is about `ReParse.parse (listerAnchor pat)`), not the AST-level
    `listerAnchorRe`.  Definitional: both are the same two `let`s. -/
theorem listAnchor_eq_model (s : String) : Gen.listAnchorGen s = listerAnchor s := rfl

/-- a `^` is put in front unless there is one, then a `$` behind unless there is one -/
example (s : String) (h1 : s.startsWith "^" = false) (h2 : ("^" ++ s).endsWith "$" = false) :
    Gen.listAnchorGen s = "^" ++ s ++ "$" := by
  simp [Gen.listAnchorGen, h1, h2]

example (s : String) (h1 : s.startsWith "^" = true) (h2 : s.endsWith "$" = true) : Gen.listAnchorGen s = s := by
  simp [Gen.listAnchorGen, h1, h2]

/-- what `listerPath` says about a path, in `listPathGen`'s code: 0 skipped, 1 every account of the wallet, 2 those the
    expression matches -/
def listPathCode : Option (String × Option Re) → Nat
  | none => 0
  | some (_, none) => 1
  | some (_, some _) => 2

/-- `listPathGen` with its inputs taken from the model: `e2wallet.WalletAndAccountNames` is `walletAndAccount` (an error is
    `none`; then the other inputs are never read — `listPath_namesErr`), `regexp.Compile` of the anchored account part is
    `ReParse.parse (Gen.listAnchorGen a)`; the two fetches' outcomes are given -/
def listPathGenOf (path : String) (fetchWalletErr fetchAccountsErr : Bool) : Nat :=
  match walletAndAccount path with
  | none => Gen.listPathGen true false false false fetchWalletErr fetchAccountsErr
  | some (w, a) =>
    Gen.listPathGen false w.isEmpty a.isEmpty (ReParse.parse (Gen.listAnchorGen a)).isNone fetchWalletErr fetchAccountsErr

/-- after an error of `WalletAndAccountNames` nothing else is read -/
theorem listPath_namesErr (we ae ce fw fa : Bool) : Gen.listPathGen true we ae ce fw fa = 0 := by
  simp [Gen.listPathGen]

/-- an error of either fetch skips the path, whatever the rest -/
theorem listPath_fetchErr (ne we ae ce fa : Bool) :
    Gen.listPathGen ne we ae ce true fa = 0 ∧ Gen.listPathGen ne we ae ce false true = 0 := by
  cases ne <;> cases we <;> cases ae <;> cases ce <;> cases fa <;> simp [Gen.listPathGen]

/-- in a configuration in which the wallet is found and its accounts can be read, the translated path body computes the
    code of `listerPath path` -/
theorem listPathGenOf_eq_code (path : String) :
    listPathGenOf path false false = listPathCode (listerPath path) := by
  unfold listPathGenOf listerPath
  cases walletAndAccount path with
  | none => simp [Gen.listPathGen, listPathCode]
  | some wa =>
    obtain ⟨w, a⟩ := wa
    simp only [listAnchor_eq_model]
    by_cases hw : w.isEmpty = true
    · simp [Gen.listPathGen, listPathCode, hw]
    · by_cases ha : a.isEmpty = true
      · simp [Gen.listPathGen, listPathCode, hw, ha]
      · cases hp : ReParse.parse (listerAnchor a) <;> simp [Gen.listPathGen, listPathCode, hw, ha]

/-- **One path.**  With the wallet found and its accounts readable: the translated path body answers 0 exactly when the
    model lists nothing for this path for a reason other than the per-account filter (`listerPath path = none`: malformed
    path, empty wallet name, or the anchored account part does not compile), 1 exactly when every account of the wallet is a
    candidate, 2 exactly when the candidates are those a compiled expression matches; and then the wallet is the first
    result of `walletAndAccount` and the expression is the parse of the Go's own anchored string (`none` for an empty
    account part).  When a fetch fails the Go skips the path (`listPath_fetchErr`); the MODEL has no such outcome in
    `listerPath`: it folds "wallet unknown" into the account filter — see `listPath_unknown_wallet_folded`. -/
theorem listPath_eq_model (path : String) :
    (listPathGenOf path false false = 0 ↔ listerPath path = none) ∧
    (listPathGenOf path false false = 1 ↔ ∃ w, listerPath path = some (w, none)) ∧
    (listPathGenOf path false false = 2 ↔ ∃ w r, listerPath path = some (w, some r)) ∧
    (∀ w re?, listerPath path = some (w, re?) → ∃ a, walletAndAccount path = some (w, a) ∧ w.isEmpty = false ∧
      re? = if a.isEmpty then none else ReParse.parse (Gen.listAnchorGen a)) := by
  rw [listPathGenOf_eq_code]
  refine ⟨?_, ?_, ?_, ?_⟩
  · cases listerPath path with
    | none => simp [listPathCode]
    | some p => obtain ⟨w, re?⟩ := p; cases re? <;> simp [listPathCode]
  · cases listerPath path with
    | none => simp [listPathCode]
    | some p => obtain ⟨w, re?⟩ := p; cases re? <;> simp [listPathCode]
  · cases listerPath path with
    | none => simp [listPathCode]
    | some p => obtain ⟨w, re?⟩ := p; cases re? <;> simp [listPathCode]
  · intro w re? h
    unfold listerPath at h
    cases hwa : walletAndAccount path with
    | none => simp [hwa] at h
    | some wa =>
      obtain ⟨w', a⟩ := wa
      simp only [hwa] at h
      by_cases hw : w'.isEmpty = true
      · simp [hw] at h
      · by_cases ha : a.isEmpty = true
        · simp [hw, ha] at h
          exact ⟨a, by rw [h.1], by simpa [h.1] using hw, by simp [ha, h.2]⟩
        · cases hp : ReParse.parse (listerAnchor a) with
          | none => simp [hw, ha, hp] at h
          | some r =>
            simp [hw, ha, hp] at h
            exact ⟨a, by rw [h.1], by simpa [h.1] using hw, by simp [ha, listAnchor_eq_model, hp, h.2]⟩

/-- **"Wallet unknown" is folded into the account filter.**  The Go skips a path whose wallet cannot be fetched
    (`listPath_fetchErr`: code 0); the model's `listerPath` does not look at the configuration at all, and `listAccounts`
    then filters `cfg.accounts` by `a.wallet == w`: for a wallet that does not exist (`walletExists cfg w = false`) no account
    passes, so the path contributes nothing — the same listing as the Go's skip. -/
theorem listPath_unknown_wallet_folded (cfg : Config) (client path w : String) (re? : Option Re)
    (h : listerPath path = some (w, re?)) (hw : walletExists cfg w = false) :
    listAccounts cfg client [path] = [] ∧
    Gen.listPathGen false false false false true false = 0 := by
  refine ⟨?_, by simp [Gen.listPathGen]⟩
  unfold walletExists at hw
  rw [Bool.or_eq_false_iff] at hw
  have hnone : cfg.accounts.filter (fun a => a.wallet == w) = [] := by
    rw [List.filter_eq_nil_iff]
    intro a ha hc
    have := hw.2
    rw [List.any_eq_false] at this
    exact this a ha hc
  simp only [listAccounts, List.flatMap_cons, List.flatMap_nil, List.append_nil, h, hnone, List.filter_nil]

/-- **One account.**  For an account `a` of the path's wallet, with the model's instantiation of the opaque calls — the
    expression is `re?` (`hasRegex := re?.isSome`, `regexMatches := Re.search r a.name`, read only where there is one),
    `checkAccess` is the checker's `check` for the name and the action the GO hands it (`listCheckedNameFnGen`,
    `listActionGen`), every model account provides a public key, the rules' list check approves — the translated account
    body appends `a` exactly when the model's filter predicate in `listAccounts` keeps it. -/
theorem listAccount_eq_model (cfg : Config) (client : String) (re? : Option Re) (a : Account) :
    Gen.listAccountGen re?.isSome (re?.all (fun r => Re.search r a.name))
        (check cfg.access client (Gen.listCheckedNameFnGen a.wallet a.name) Gen.listActionGen) true true =
      ((match re? with
        | none => true
        | some r => Re.search r a.name) &&
       check cfg.access client (a.wallet ++ "/" ++ a.name) opAccess) := by
  have hact : Gen.listActionGen = opAccess := by decide
  simp only [Gen.listCheckedNameFnGen, hact]
  cases re? <;> cases check cfg.access client (a.wallet ++ "/" ++ a.name) opAccess <;>
    simp [Gen.listAccountGen]

/-- each of the five inputs matters, in the order of the source: no match, no access, no public key or no approval
    each keep the account out; without an expression the match is not consulted -/
example : Gen.listAccountGen true true true true true = true ∧ Gen.listAccountGen false false true true true = true ∧
    Gen.listAccountGen true false true true true = false ∧ Gen.listAccountGen true true false true true = false ∧
    Gen.listAccountGen true true true false true = false ∧ Gen.listAccountGen true true true true false = false := by
  decide

/-- **The listing, through the translated pieces**: `listAccounts` is, path by path in order, the accounts of the
    path's wallet (in stored order) that the translated account body appends -/
theorem listAccounts_eq_gen (cfg : Config) (client : String) (paths : List String) :
    listAccounts cfg client paths = paths.flatMap (fun path =>
      match listerPath path with
      | none => []
      | some (w, re?) =>
        (cfg.accounts.filter (fun a => a.wallet == w)).filter (fun a =>
          Gen.listAccountGen re?.isSome (re?.all (fun r => Re.search r a.name))
            (check cfg.access client (Gen.listCheckedNameFnGen a.wallet a.name) Gen.listActionGen) true true)) := by
  unfold listAccounts
  congr 1
  funext path
  cases listerPath path with
  | none => rfl
  | some p =>
    obtain ⟨w, re?⟩ := p
    simp only
    congr 1
    funext a
    exact (listAccount_eq_model cfg client re? a).symm

/-- **The shape.**  What the Go hands to which call: nil credentials are refused before anything is listed; ONE result
    slice, made before the path loop; the paths in order; the wallet fetched for the PATH, its accounts for `wallet.Name()`;
    the accounts in order; the expression matched against the account's own name; `checkAccess` for
    `wallet.Name()/walletAccount.Name()` with the action "Access account" (`opAccess`), the same action for the rules;
    the only append; the final result. -/
theorem list_shape_is_source :
    Gen.listShapeGen = [
      "nil credentials: return core.ResultFailed, nil",
      "result slice: accounts := make([]e2wtypes.Account, 0), before the path loop",
      "path loop: for _, path := range paths",
      "names: e2wallet.WalletAndAccountNames(path)",
      "wallet: FetchWallet(ctx, path)",
      "accounts of: FetchAccounts(ctx, wallet.Name())",
      "account loop: for _, walletAccount := range walletAccounts",
      "regex matched against: walletAccount.Name()",
      "checkAccess name: fmt.Sprintf(\"%s/%s\", wallet.Name(), walletAccount.Name())",
      "checkAccess action: Access account",
      "RunRules action: Access account",
      "RunRules data: []*ruler.RulesData{{WalletName: wallet.Name(), AccountName: walletAccount.Name(), PubKey: pubKey, Data: &rules.AccessAccountData{Paths: paths}}}",
      "append: accounts = append(accounts, walletAccount)",
      "finally: return core.ResultSucceeded, accounts"] ∧
    Gen.listActionGen = opAccess ∧
    (∀ w n : String, Gen.listCheckedNameFnGen w n = w ++ "/" ++ n) := by
  refine ⟨rfl, by decide, fun _ _ => rfl⟩

/-! ## 18. the batch paths of the gRPC signer handlers `SignBeaconAttestations` / `Multisign` with their `validate…Requests`
    (services/api/grpc/handlers/signer) ↔ `handlerRejects`, `firstRejected`, `firstRejectedSign`, `respond`, `hSignAtts`,
    `hMultisign` (Model/Handler.lean)

  The generated definitions name response states by the NAME of the `pb.ResponseState` enumerator; `stateName` is the model's
  reading (`Res` serves both as `core.Result` and as response state), and where the module's source is available the
  enumerator VALUES are checked to be the `resCode` ones (`pbStates_agree`).  Where the Go and the model differ:
  * the Go also refuses a nil entry (FAILED) and, for attestations, absent data / source / target (DENIED); the model has no
    such values (`AttData` always carries them), so the theorems instantiate those inputs with `false`
    (`attsEntryVerdict_beyond_model` states what the Go does there);
  * a name given TOGETHER with a key: both the Go and `handlerRejects` look at the name alone (no `/` ⇒ DENIED whatever the
    key), so `attsEntryVerdict_eq_model` holds for EVERY `Addr`, not only under the wire invariant `Addr.wire`. -/

/-- the name of a `pb.ResponseState` enumerator, for the model's reading of response states as `Res` -/
def stateName : Res → String
  | .unknown => "UNKNOWN" | .succeeded => "SUCCEEDED" | .denied => "DENIED" | .failed => "FAILED"

theorem stateName_inj (a b : Res) (h : stateName a = stateName b) : a = b := by
  cases a <;> cases b <;> first | rfl | (exact absurd h (by decide))

theorem pbStates_agree :
    Gen.pbResponseStateValuesGen.all (fun l => l == [(stateName .unknown, resCode .unknown), (stateName .succeeded, resCode .succeeded),
      (stateName .denied, resCode .denied), (stateName .failed, resCode .failed)]) = true := by decide

theorem attsEntryVerdict_eq_model (a : Addr) :
    Gen.attsEntryVerdictGen false a.name.isEmpty a.key.isNone (a.name.contains '/') false false false =
      if handlerRejects a then some (stateName .denied) else none := by
  unfold handlerRejects Gen.attsEntryVerdictGen stateName
  cases a.name.isEmpty <;> cases a.key.isNone <;> cases (a.name.contains '/') <;> rfl

theorem attsEntryVerdict_beyond_model (ae kn sl dn sn tn : Bool) :
    Gen.attsEntryVerdictGen true ae kn sl dn sn tn = some (stateName .failed) ∧
    (Gen.attsEntryVerdictGen false ae kn sl dn sn tn =
      if (ae && kn) || (!ae && !sl) || dn || sn || tn then some (stateName .denied) else none) := by
  cases ae <;> cases kn <;> cases sl <;> cases dn <;> cases sn <;> cases tn <;> exact ⟨rfl, rfl⟩

theorem msignEntryVerdict_eq_model (a : Addr) (d : SignData) :
    Gen.msignEntryVerdictGen false a.name.isEmpty a.key.isNone (a.name.contains '/') d.data.isNone d.domain.isNone =
      if handlerRejects a || d.data.isNone || d.domain.isNone then some (stateName .denied) else none := by
  unfold handlerRejects Gen.msignEntryVerdictGen stateName
  cases a.name.isEmpty <;> cases a.key.isNone <;> cases (a.name.contains '/') <;> cases d.data.isNone <;>
    cases d.domain.isNone <;> rfl

theorem msignEntryVerdict_nil (ae kn sl dn mn : Bool) :
    Gen.msignEntryVerdictGen true ae kn sl dn mn = some (stateName .failed) := rfl

theorem firstBadGen_eq_findIdx {α : Type} (rej : α → Bool) (verdict : α → Option String) (v : String)
    (hv : ∀ x, verdict x = if rej x then some v else none) (l : List α) :
    Gen.firstBadGen (l.map verdict) = (l.findIdx? rej).map (fun i => (i, v)) := by
  induction l with
  | nil => rfl
  | cons x xs ih =>
    simp only [List.map_cons, List.findIdx?_cons, hv x]
    cases rej x
    · simp only [Bool.false_eq_true, if_false, Gen.firstBadGen, ih, Option.map_map]
      congr 1
    · simp [Gen.firstBadGen]


/-- the contract of `firstBad`, stated on the list of verdicts: `firstBadGen` returns the first index whose verdict is
    `some v` (with that v), every earlier verdict being `none` -/
theorem firstBadGen_spec (l : List (Option String)) :
    match Gen.firstBadGen l with
    | some (i, v) => l[i]? = some (some v) ∧ ∀ j, j < i → l[j]? = some none
    | none => ∀ j, j < l.length → l[j]? = some none := by
  induction l with
  | nil => intro j hj; simp at hj
  | cons x xs ih =>
    cases x with
    | some v => simp [Gen.firstBadGen]
    | none =>
      simp only [Gen.firstBadGen]
      cases hr : Gen.firstBadGen xs with
      | none =>
        rw [hr] at ih
        intro j hj
        cases j with
        | zero => rfl
        | succ j => simpa using ih j (by simpa using hj)
      | some p =>
        obtain ⟨i, v⟩ := p
        rw [hr] at ih
        refine ⟨by simpa using ih.1, ?_⟩
        intro j hj
        cases j with
        | zero => rfl
        | succ j => simpa using ih.2 j (by simpa using hj)

theorem replicate_set_eq_range {α : Type} (n i : Nat) (a b : α) :
    (List.replicate n a).set i b = (List.range n).map (fun j => if j = i then b else a) := by
  apply List.ext_getElem
  · simp
  · intro j h1 h2
    simp only [List.length_set, List.length_replicate] at h1
    simp only [List.getElem_set, List.getElem_replicate, List.getElem_map, List.getElem_range]
    by_cases h : i = j
    · subst h; simp
    · have : ¬ j = i := fun e => h e.symm
      simp [h, this]

/-- the responses after a validation that stopped at `i` (written DENIED), as the model writes them -/
def rejectedAt (n i : Nat) : List Pos := (List.range n).map (fun j => if j = i then ⟨.denied, none⟩ else ⟨.unknown, none⟩)

theorem batchAfterValidate_findIdx {α : Type} (rej : α → Bool) (l : List α) :
    Gen.batchAfterValidateGen l.length ((l.findIdx? rej).map (fun i => (i, stateName .denied))) =
      (l.findIdx? rej).map (fun i => (rejectedAt l.length i).map (fun p => stateName p.res)) := by
  cases h : l.findIdx? rej with
  | none =>
    simp [Gen.batchAfterValidateGen]
  | some i =>
    have hi : i < l.length := (List.findIdx?_eq_some_iff_getElem.mp h).1
    simp only [Gen.batchAfterValidateGen, Option.map_some, rejectedAt, List.map_map, replicate_set_eq_range]
    rw [if_pos]
    · congr 1
      apply List.map_congr_left
      intro j _
      by_cases hj : j = i <;> simp [hj, stateName]
    · simp only [List.any_eq_true, List.mem_map, List.mem_range]
      exact ⟨stateName .denied, ⟨i, hi, by simp⟩, by simp [stateName]⟩


/-- **Any rejected entry stops the handler** — also the Go-only FAILED of a nil entry, for which the model has no value:
    with the validation stopped at `i < n` having written DENIED or FAILED the responses are returned, `v` at `i` and UNKNOWN
    elsewhere; with no entry rejected the signer is called. -/
theorem batchAfterValidate_stops (n i : Nat) (hi : i < n) :
    Gen.batchAfterValidateGen n (some (i, stateName .denied)) =
      some ((List.range n).map (fun j => if j = i then stateName .denied else stateName .unknown)) ∧
    Gen.batchAfterValidateGen n (some (i, stateName .failed)) =
      some ((List.range n).map (fun j => if j = i then stateName .failed else stateName .unknown)) ∧
    Gen.batchAfterValidateGen n none = none := by
  have hany : ∀ v : String, ((List.range n).map (fun j => if j = i then v else "UNKNOWN")).any
      (fun s => s == "DENIED" || s == "FAILED") = (v == "DENIED" || v == "FAILED") := by
    intro v
    by_cases hv : (v == "DENIED" || v == "FAILED") = true
    · rw [hv]
      simp only [List.any_eq_true, List.mem_map, List.mem_range]
      exact ⟨v, ⟨i, hi, by simp⟩, hv⟩
    · simp only [Bool.not_eq_true] at hv
      rw [hv]
      simp only [List.any_eq_false, List.mem_map, List.mem_range]
      rintro s ⟨j, _, rfl⟩
      by_cases hj : j = i
      · simp only [hj, if_true]; simp [hv]
      · simp [hj]
  refine ⟨?_, ?_, ?_⟩
  · simp only [Gen.batchAfterValidateGen, replicate_set_eq_range, stateName, hany]; rfl
  · simp only [Gen.batchAfterValidateGen, replicate_set_eq_range, stateName, hany]; rfl
  · simp [Gen.batchAfterValidateGen]

/-- the verdict the generated validation of `SignBeaconAttestations` gives a model entry (a non-nil entry with data and both
    checkpoints: the model's `AttData` has no absent data / checkpoint) -/
def attsVerdictOf (a : Addr) : Option String :=
  Gen.attsEntryVerdictGen false a.name.isEmpty a.key.isNone (a.name.contains '/') false false false

/-- … of `Multisign` -/
def msignVerdictOf (it : Addr × SignData) : Option String :=
  Gen.msignEntryVerdictGen false it.1.name.isEmpty it.1.key.isNone (it.1.name.contains '/') it.2.data.isNone it.2.domain.isNone

theorem firstBad_eq_firstRejected (as : List Addr) :
    Gen.firstBadGen (as.map attsVerdictOf) = (firstRejected as).map (fun i => (i, stateName .denied)) :=
  firstBadGen_eq_findIdx handlerRejects attsVerdictOf (stateName .denied) attsEntryVerdict_eq_model as

theorem firstBad_eq_firstRejectedSign (items : List (Addr × SignData)) :
    Gen.firstBadGen (items.map msignVerdictOf) = (firstRejectedSign items).map (fun i => (i, stateName .denied)) :=
  firstBadGen_eq_findIdx (fun it : Addr × SignData => handlerRejects it.1 || it.2.data.isNone || it.2.domain.isNone) msignVerdictOf (stateName .denied)
    (fun it => msignEntryVerdict_eq_model it.1 it.2) items

/-- **Validation, then the early return** (`SignBeaconAttestations`).  With the first bad entry computed by the generated
    per-entry verdicts (`firstBadGen`: what the Go loop with `return` does), the responses the generated handler returns
    after the validation are the model's — DENIED at the first rejected entry, UNKNOWN elsewhere — and it goes on to the
    signer (`none`) exactly when the model's `firstRejected` finds nothing. -/
theorem batch_validate_eq_model (as : List Addr) :
    Gen.batchAfterValidateGen as.length (Gen.firstBadGen (as.map attsVerdictOf)) =
        (firstRejected as).map (fun i => (rejectedAt as.length i).map (fun p => stateName p.res)) ∧
      (Gen.batchAfterValidateGen as.length (Gen.firstBadGen (as.map attsVerdictOf)) = none ↔ firstRejected as = none) := by
  have h := batchAfterValidate_findIdx handlerRejects as
  rw [firstBad_eq_firstRejected]
  unfold firstRejected
  refine ⟨h, ?_⟩
  rw [h]
  cases as.findIdx? handlerRejects <;> simp

/-- … stated, as the task has it, with the first rejected index given: for ANY `firstBad` meeting its contract. -/
theorem batch_validate_eq_model' (as : List Addr) (i : Nat) (h : firstRejected as = some i) :
    Gen.batchAfterValidateGen as.length (some (i, "DENIED")) =
      some ((List.range as.length).map (fun j => stateName (if j = i then Res.denied else Res.unknown))) := by
  have := (batch_validate_eq_model as).1
  rw [firstBad_eq_firstRejected, h] at this
  simp only [Option.map_some, rejectedAt, List.map_map] at this
  rw [show (some (i, "DENIED") : Option (Nat × String)) = some (i, stateName .denied) from rfl, this]
  congr 2
  funext j
  by_cases hj : j = i <;> simp [hj]

/-- `Multisign` likewise, against `firstRejectedSign` -/
theorem batch_validate_msign_eq_model (items : List (Addr × SignData)) :
    Gen.batchAfterValidateGen items.length (Gen.firstBadGen (items.map msignVerdictOf)) =
        (firstRejectedSign items).map (fun i => (rejectedAt items.length i).map (fun p => stateName p.res)) ∧
      (Gen.batchAfterValidateGen items.length (Gen.firstBadGen (items.map msignVerdictOf)) = none ↔
        firstRejectedSign items = none) := by
  have h := batchAfterValidate_findIdx (fun it : Addr × SignData => handlerRejects it.1 || it.2.data.isNone || it.2.domain.isNone) items
  rw [firstBad_eq_firstRejectedSign]
  unfold firstRejectedSign
  refine ⟨h, ?_⟩
  rw [h]
  cases items.findIdx? _ <;> simp

/-- **Before the validation.**  A nil request or one without entries gets ONE response, DENIED; the model's empty item
    list (it has no nil request) gives the same. -/
theorem batchEarly_eq_model (reqNil : Bool) (n : Nat) :
    Gen.batchEarlyGen reqNil n = (if reqNil || n == 0 then some [stateName .denied] else none) ∧
    (∀ (s : Inst) (c : String) (f : Faults) (sf : List Nat),
      some ((hSignAtts s c [] f sf).2.map (fun p => stateName p.res)) = Gen.batchEarlyGen false 0) ∧
    (∀ (s : Inst) (c ip : String) (sf : List Nat) (lsf : Bool),
      some ((hMultisign s c ip [] sf lsf).2.map (fun p => stateName p.res)) = Gen.batchEarlyGen false 0) := by
  refine ⟨?_, fun _ _ _ _ => rfl, fun _ _ _ _ _ => rfl⟩
  unfold Gen.batchEarlyGen stateName
  cases reqNil <;> by_cases h : n = 0 <;> simp [h]

/-- **The handler's refusals are the generated ones** (`hSignAtts`): whenever the generated early exit or the generated
    validation + early return produce a response list, the model handler returns exactly it (no signature anywhere) and
    leaves the instance untouched; otherwise the model goes on to the signer and maps `respond` over its result. -/
theorem hSignAtts_eq_gen (s : Inst) (c : String) (items : List (Addr × AttData)) (f : Faults) (sf : List Nat) :
    let its := items.map (fun it => (it.1.wire, it.2.wire))
    match Gen.batchEarlyGen false its.length with
    | some l => hSignAtts s c items f sf = (s, [⟨.denied, none⟩]) ∧ l = [stateName .denied]
    | none =>
      match Gen.batchAfterValidateGen its.length (Gen.firstBadGen ((its.map (·.1)).map attsVerdictOf)) with
      | some l => (hSignAtts s c items f sf).1 = s ∧ (hSignAtts s c items f sf).2.map (fun p => stateName p.res) = l ∧
          ∀ p ∈ (hSignAtts s c items f sf).2, p.root = none
      | none => hSignAtts s c items f sf = ((signAtts s c its f sf).1, (signAtts s c its f sf).2.map respond) := by
  intro its
  have hlen : (its.map (·.1)).length = its.length := by simp
  have hb := batch_validate_eq_model (its.map (·.1))
  rw [hlen] at hb
  cases hits : its with
  | nil =>
    have : hSignAtts s c items f sf = (s, [⟨.denied, none⟩]) := by
      unfold hSignAtts; simp only; rw [show items.map (fun it => (it.1.wire, it.2.wire)) = [] from hits]; rfl
    simp [Gen.batchEarlyGen, this, stateName]
  | cons x xs =>
    have hne : its.isEmpty = false := by rw [hits]; rfl
    have hearly : Gen.batchEarlyGen false (x :: xs).length = none := by simp [Gen.batchEarlyGen]
    rw [hearly]
    simp only
    rw [← hits]
    have hunf : hSignAtts s c items f sf =
        match firstRejected (its.map (·.1)) with
        | some i => (s, rejectedAt its.length i)
        | none => ((signAtts s c its f sf).1, (signAtts s c its f sf).2.map respond) := by
      unfold hSignAtts
      simp only [rejectedAt]
      rw [show items.map (fun it => (it.1.wire, it.2.wire)) = its from rfl, hne]
      simp only [Bool.false_eq_true, if_false]
      rfl
    rw [hb.1, hunf]
    cases firstRejected (its.map (·.1)) with
    | none => rfl
    | some i =>
      refine ⟨rfl, rfl, ?_⟩
      intro p hp
      simp only [rejectedAt, List.mem_map] at hp
      obtain ⟨j, _, rfl⟩ := hp
      split <;> rfl


/-- … and `hMultisign` -/
theorem hMultisign_eq_gen (s : Inst) (c ip : String) (items : List (Addr × SignData)) (sf : List Nat) (lsf : Bool) :
    let its := items.map (fun it => (it.1.wire, it.2.wire))
    match Gen.batchEarlyGen false its.length with
    | some l => hMultisign s c ip items sf lsf = (s, [⟨.denied, none⟩]) ∧ l = [stateName .denied]
    | none =>
      match Gen.batchAfterValidateGen its.length (Gen.firstBadGen (its.map msignVerdictOf)) with
      | some l => (hMultisign s c ip items sf lsf).1 = s ∧
          (hMultisign s c ip items sf lsf).2.map (fun p => stateName p.res) = l ∧
          ∀ p ∈ (hMultisign s c ip items sf lsf).2, p.root = none
      | none => hMultisign s c ip items sf lsf =
          ((multisign s c ip its sf lsf).1, (multisign s c ip its sf lsf).2.map respond) := by
  intro its
  have hb := batch_validate_msign_eq_model its
  cases hits : its with
  | nil =>
    have : hMultisign s c ip items sf lsf = (s, [⟨.denied, none⟩]) := by
      unfold hMultisign; simp only; rw [show items.map (fun it => (it.1.wire, it.2.wire)) = [] from hits]; rfl
    simp [Gen.batchEarlyGen, this, stateName]
  | cons x xs =>
    have hne : its.isEmpty = false := by rw [hits]; rfl
    have hearly : Gen.batchEarlyGen false (x :: xs).length = none := by simp [Gen.batchEarlyGen]
    rw [hearly]
    simp only
    rw [← hits]
    have hunf : hMultisign s c ip items sf lsf =
        match firstRejectedSign its with
        | some i => (s, rejectedAt its.length i)
        | none => ((multisign s c ip its sf lsf).1, (multisign s c ip its sf lsf).2.map respond) := by
      unfold hMultisign
      simp only [rejectedAt]
      rw [show items.map (fun it => (it.1.wire, it.2.wire)) = its from rfl, hne]
      simp only [Bool.false_eq_true, if_false]
      rfl
    rw [hb.1, hunf]
    cases firstRejectedSign its with
    | none => rfl
    | some i =>
      refine ⟨rfl, rfl, ?_⟩
      intro p hp
      simp only [rejectedAt, List.mem_map] at hp
      obtain ⟨j, _, rfl⟩ := hp
      split <;> rfl

/-- **The final switch is `respond`.**  For every position the signer returns, the generated mapping applied to the
    `core.Result` value of `p.res` names `p.res`'s state and copies the signature exactly under SUCCEEDED — which is what
    `respond p` is.  A value that is no `core.Result` enumerator keeps the creation state UNKNOWN and copies nothing. -/
theorem resultToState_eq_respond (p : Pos) :
    Gen.resultToStateGen (resCode p.res) = (stateName p.res, decide (p.res = .succeeded)) ∧
    respond p = ⟨p.res, if (Gen.resultToStateGen (resCode p.res)).2 then p.root else none⟩ ∧
    (stateName (respond p).res = (Gen.resultToStateGen (resCode p.res)).1) ∧
    ((Gen.resultToStateGen (resCode p.res)).2 = true ↔ p.res = .succeeded) ∧
    (∀ n, resOfCode n = none → Gen.resultToStateGen n = (stateName .unknown, false)) := by
  refine ⟨?_, ?_, ?_, ?_, ?_⟩
  · cases h : p.res <;> rfl
  · obtain ⟨r, root⟩ := p
    cases r <;> rfl
  · cases h : p.res <;> simp [respond, h, resCode, Gen.resultToStateGen, stateName]
  · cases h : p.res <;> simp [resCode, Gen.resultToStateGen]
  · intro n hn
    match n, hn with
    | 0, hn | 1, hn | 2, hn | 3, hn => simp [resOfCode] at hn
    | n + 4, _ => simp [Gen.resultToStateGen, stateName]

/-- **The shape.**  The facts the model's `hSignAtts` / `hMultisign` rest on, as read from the source of both handlers: one
    response per entry, created UNKNOWN; the validation between that and the signer; the early return on DENIED or FAILED;
    the signer called once with `accountNames[i] = request.GetAccount()`, `pubKeys[i] = request.GetPublicKey()`; the results
    mapped position by position; and both handlers give the same early exits, the same after-validation behaviour and the
    same switch. -/
theorem handler_shape_is_source :
    Gen.handlerShapeGen = [
      "responses: res.Responses = make([]*pb.SignResponse, len(req.GetRequests())); for i := range req.GetRequests() { res.Responses[i] = &pb.SignResponse{State: pb.ResponseState_UNKNOWN} }",
      "validation [SignBeaconAttestations]: validateSignBeaconAttestationsRequests(ctx, req, res) is called after the responses are created and before the signer",
      "validation [Multisign]: validateMultisignRequests(ctx, req, res) is called after the responses are created and before the signer",
      "early return: for i := range req.GetRequests() { if res.Responses[i].State == pb.ResponseState_DENIED || res.Responses[i].State == pb.ResponseState_FAILED { return res, nil } }",
      "accountNames: accountNames := make([]string, len(req.GetRequests())); for i, request := range req.GetRequests(): accountNames[i] = request.GetAccount()",
      "pubKeys: pubKeys := make([][]byte, len(req.GetRequests())); for i, request := range req.GetRequests(): pubKeys[i] = request.GetPublicKey()",
      "reqData [SignBeaconAttestations]: reqData := make([]*rules.SignBeaconAttestationData, len(req.GetRequests())); for i, request := range req.GetRequests(): reqData[i] = &rules.SignBeaconAttestationData{Domain: request.GetDomain(), Slot: request.GetData().GetSlot(), CommitteeIndex: request.GetData().GetCommitteeIndex(), BeaconBlockRoot: request.GetData().GetBeaconBlockRoot(), Source: &rules.Checkpoint{Epoch: request.GetData().GetSource().GetEpoch(), Root: request.GetData().GetSource().GetRoot()}, Target: &rules.Checkpoint{Epoch: request.GetData().GetTarget().GetEpoch(), Root: request.GetData().GetTarget().GetRoot()}}",
      "reqData [Multisign]: reqData := make([]*rules.SignData, len(req.GetRequests())); for i, request := range req.GetRequests(): reqData[i] = &rules.SignData{Domain: request.GetDomain(), Data: request.GetData()}",
      "signer call [SignBeaconAttestations]: results, signatures := h.signer.SignBeaconAttestations(ctx, handlers.GenerateCredentials(ctx), accountNames, pubKeys, reqData) (the only call of the signer, after the early-return loop)",
      "signer call [Multisign]: results, signatures := h.signer.Multisign(ctx, handlers.GenerateCredentials(ctx), accountNames, pubKeys, reqData) (the only call of the signer, after the early-return loop)",
      "result loop: for i := range results { switch results[i] { … } }: response i takes the state and the signature the arm of results[i] gives it",
      "return: return res, nil"] ∧
    Gen.batchEarlySameInBothGen = true ∧ Gen.batchAfterValidateSameInBothGen = true ∧
    Gen.resultToStateSameInBothGen = true := ⟨rfl, rfl, rfl, rfl⟩

/-- the theorems above speak about non-trivial values: a batch whose second entry names an account without `/` -/
example :
    let as : List Addr := [⟨"w/a", none⟩, ⟨"bad", none⟩, ⟨"", none⟩]
    firstRejected as = some 1 ∧
    Gen.batchAfterValidateGen as.length (Gen.firstBadGen (as.map attsVerdictOf)) = some ["UNKNOWN", "DENIED", "UNKNOWN"] := by
  have h : firstRejected [⟨"w/a", none⟩, ⟨"bad", none⟩, ⟨"", none⟩] = some 1 := by
    simp [firstRejected, List.findIdx?_cons, handlerRejects]
  refine ⟨h, ?_⟩
  rw [(batch_validate_eq_model _).1, h]
  rfl

/-- … and the Go-only corners the model has no value for: a nil entry is FAILED (still an early return), and with the
    entry verdicts of a batch `[ok, nil entry, bad name]` the validation stops at the nil entry -/
example :
    Gen.batchAfterValidateGen 3 (Gen.firstBadGen [none, some "FAILED", some "DENIED"]) = some ["UNKNOWN", "FAILED", "UNKNOWN"] := by
  decide

/-! ## 19. the per-entry dispatch of `runRules` and the batch shortcut (services/ruler/golang/runner.go) ↔ which rule the model's endpoints consult (C05)

  The model's endpoints consult one rule each: `signGeneric` / `multisign` → `onSign`, `signProp` → `onPropose`, `signAtt` → `onAttest`,
  `signAtts` → `onAttest` or `onAttestBatch` (`rulesKeyed`).  In the Go the endpoints hand an ACTION string to the ruler and the `switch action`
  of `runRules` picks the rules method.  `dispatchTableGen` is that switch as a table. -/

/-- the rules methods that approve a signature -/
def signingRules : List String := ["OnSign", "OnSignBeaconProposal", "OnSignBeaconAttestation", "OnSignBeaconAttestations"]

/-- the whole regenerated table: nine arms, in source order -/
theorem dispatch_table_is_source :
    Gen.dispatchTableGen = [
      ("Sign", "*rules.SignData", "OnSign"),
      ("Sign beacon proposal", "*rules.SignBeaconProposalData", "OnSignBeaconProposal"),
      ("Sign beacon attestation", "*rules.SignBeaconAttestationData", "OnSignBeaconAttestation"),
      ("Access account", "*rules.AccessAccountData", "OnListAccounts"),
      ("Lock wallet", "*rules.LockWalletData", "OnLockWallet"),
      ("Unlock wallet", "*rules.UnlockWalletData", "OnUnlockWallet"),
      ("Lock account", "*rules.LockAccountData", "OnLockAccount"),
      ("Unlock account", "*rules.UnlockAccountData", "OnUnlockAccount"),
      ("Create account", "*rules.CreateAccountData", "OnCreateAccount")] := rfl

/-- **Which rule answers which signing action.**  The arm a Go `switch` takes for an action is the FIRST whose constant equals it
    (`List.lookup`): for the model's `opSign` that arm asserts `*rules.SignData` and calls `OnSign`; `opPropose` → `OnSignBeaconProposal`;
    `opAttest` → `OnSignBeaconAttestation`.  No action value occurs in two arms, and the arms that name a signing rule at all are exactly
    these three — each signing rule is reachable through exactly one action, and `OnSignBeaconAttestations` through none (only through
    the batch shortcut, `dispatch_shape_is_source`).  This is what Props/C05.lean presupposes: the generic endpoints' action reaches
    `OnSign` and nothing else. -/
theorem dispatch_signing_actions :
    Gen.dispatchTableGen.lookup opSign = some ("*rules.SignData", "OnSign") ∧
    Gen.dispatchTableGen.lookup opPropose = some ("*rules.SignBeaconProposalData", "OnSignBeaconProposal") ∧
    Gen.dispatchTableGen.lookup opAttest = some ("*rules.SignBeaconAttestationData", "OnSignBeaconAttestation") ∧
    (Gen.dispatchTableGen.map (·.1)).Nodup ∧
    Gen.dispatchTableGen.filter (fun e => signingRules.contains e.2.2) =
      [(opSign, "*rules.SignData", "OnSign"), (opPropose, "*rules.SignBeaconProposalData", "OnSignBeaconProposal"),
       (opAttest, "*rules.SignBeaconAttestationData", "OnSignBeaconAttestation")] ∧
    (∀ e ∈ Gen.dispatchTableGen, e.1 ≠ opSign → e.1 ≠ opPropose → e.1 ≠ opAttest → e.2.2 ∉ signingRules) := by
  decide

/-- **One entry, the regular case**: a non-nil entry, no metadata error, an action the switch names (`k` = its line in the table) and data
    of the asserted type — the entry's result is the rule's verdict, except that UNKNOWN becomes FAILED. -/
theorem dispatchEntry_eq_model (k : Nat) (hk : k < Gen.dispatchTableGen.length) (v : Verdict) :
    Gen.dispatchEntryGen false false (some k) true (verdictCode v) = verdictCode (if v = .unknown then .failed else v) := by
  have h9 : Gen.dispatchTableGen.length = 9 := rfl
  rw [h9] at hk
  have hc : k = 0 ∨ k = 1 ∨ k = 2 ∨ k = 3 ∨ k = 4 ∨ k = 5 ∨ k = 6 ∨ k = 7 ∨ k = 8 := by omega
  rcases hc with rfl | rfl | rfl | rfl | rfl | rfl | rfl | rfl | rfl <;> cases v <;> rfl

/-- … which is never UNKNOWN -/
theorem dispatchEntry_known (k : Nat) (hk : k < Gen.dispatchTableGen.length) (v : Verdict) :
    Gen.dispatchEntryGen false false (some k) true (verdictCode v) ≠ verdictCode .unknown := by
  rw [dispatchEntry_eq_model k hk v]; cases v <;> decide

/-- **One entry, every other case** (all inputs): a nil entry keeps the UNKNOWN the list was created with; a metadata error, data of another
    type (whatever the action), and an action no arm names (`none`, or an index beyond the table: the `default` arm) give FAILED — no rule is
    asked (`ruleVerdict` is irrelevant). -/
theorem dispatchEntry_refusals (m t : Bool) (a : Option Nat) (c : Nat) :
    Gen.dispatchEntryGen true m a t c = verdictCode .unknown ∧
    Gen.dispatchEntryGen false true a t c = verdictCode .failed ∧
    Gen.dispatchEntryGen false false a false c = verdictCode .failed ∧
    ((∀ k, a = some k → Gen.dispatchTableGen.length ≤ k) → Gen.dispatchEntryGen false false a t c = verdictCode .failed) := by
  refine ⟨rfl, rfl, ?_, ?_⟩
  · match a with
    | none => rfl
    | some 0 | some 1 | some 2 | some 3 | some 4 | some 5 | some 6 | some 7 | some 8 => rfl
    | some (k + 9) => rfl
  · intro h
    have h9 : Gen.dispatchTableGen.length = 9 := rfl
    rw [h9] at h
    match a, h with
    | none, _ => rfl
    | some k, h =>
      have hk := h k rfl
      match k, hk with
      | k + 9, _ => rfl

/-- **Composition with the signer's loop** (P15: `signLoopPosAttGen` / `signLoopPosMultiGen` read the ruler's list position by position).
    A nil entry's UNKNOWN is read as FAILED; so is every other refusal; and in the regular case the position ends — signing errors apart —
    in `verdictRes v'`, `v'` the dispatched verdict, which is `verdictRes v` of the rule's own verdict: the model's `verdictRes`
    (`.unknown ↦ .failed`) covers both the ruler's conversion and the signer's. -/
theorem dispatch_then_signLoop (m t r s e : Bool) (a : Option Nat) (c : Nat) (k : Nat) (hk : k < Gen.dispatchTableGen.length) (v : Verdict) :
    (Gen.signLoopPosAttGen (Gen.dispatchEntryGen true m a t c) r s e).1 = resCode .failed ∧
    (Gen.signLoopPosMultiGen (Gen.dispatchEntryGen true m a t c) s e).1 = resCode .failed ∧
    (Gen.signLoopPosAttGen (Gen.dispatchEntryGen false true a t c) r s e).1 = resCode .failed ∧
    (Gen.signLoopPosMultiGen (Gen.dispatchEntryGen false true a t c) s e).1 = resCode .failed ∧
    (Gen.signLoopPosAttGen (Gen.dispatchEntryGen false false a false c) r s e).1 = resCode .failed ∧
    (Gen.signLoopPosMultiGen (Gen.dispatchEntryGen false false a false c) s e).1 = resCode .failed ∧
    (Gen.signLoopPosAttGen (Gen.dispatchEntryGen false false (some k) true (verdictCode v)) false false false).1 =
      resCode (verdictRes (if v = .unknown then .failed else v)) ∧
    (Gen.signLoopPosMultiGen (Gen.dispatchEntryGen false false (some k) true (verdictCode v)) false false).1 =
      resCode (verdictRes (if v = .unknown then .failed else v)) ∧
    verdictRes (if v = .unknown then .failed else v) = verdictRes v := by
  have hr := dispatchEntry_refusals m t a c
  rw [hr.1, hr.2.1, hr.2.2.1, dispatchEntry_eq_model k hk v]
  refine ⟨rfl, rfl, rfl, rfl, rfl, rfl, ?_, ?_, ?_⟩ <;> cases v <;> rfl

/-- **The batch shortcut**, as read from `runRulesForMultipleBeaconAttestations`: the list starts UNKNOWN; a missing account, a metadata
    error and data that is not `*rules.SignBeaconAttestationData` write FAILED at THAT position and `break` out of the extent (the others keep
    UNKNOWN — the signer's loop reads them as FAILED, `dispatch_then_signLoop`); any FAILED ⇒ the list is returned without asking a rule;
    otherwise the ONE rules call is `OnSignBeaconAttestations(ctx, metadatas, reqData)` on the asserted data, whose answer is returned
    unconverted.  Together with `runRulesPath_action` (the shortcut is taken for `opAttest` only) and `dispatch_signing_actions`:
    the batch attestation rule is reachable through the attestation action only. -/
theorem dispatch_shape_is_source :
    Gen.dispatchBatchGen = [
      "results: created len(rulesData) long, every position rules.UNKNOWN",
      "missing account: if rulesData[i].AccountName == \"\" { results[i] = rules.FAILED; break }",
      "metadata error: metadatas[i], err = s.assembleMetadata(…); if err != nil { results[i] = rules.FAILED; break }",
      "type mismatch: data, ok := rulesData[i].Data.(*rules.SignBeaconAttestationData); if !ok { results[i] = rules.FAILED; break }",
      "data: reqData := make([]*rules.SignBeaconAttestationData, len(rulesData)); reqData[i] = data (the value asserted to be *rules.SignBeaconAttestationData)",
      "break: leaves the loop over the extent — the later entries of that extent are not examined and keep rules.UNKNOWN",
      "early return: for i := range results { if results[i] == rules.FAILED { return results } } (the rule is not called; the other positions are returned as they are)",
      "rule: return s.rules.OnSignBeaconAttestations(ctx, metadatas, reqData)",
      "unknown: the list the rule returns is returned as it is — rules.UNKNOWN in it is NOT converted"] ∧
    Gen.runRulesAttestationActionGen = opAttest ∧
    Gen.dispatchTableGen.lookup Gen.runRulesAttestationActionGen = some ("*rules.SignBeaconAttestationData", "OnSignBeaconAttestation") := by
  refine ⟨rfl, by decide, by decide⟩

end Dirk
