/-
  C15 — Concurrent batches with overlapping keys always complete (partial: scheduler).

  On the lock-protocol model (Dirk.Model.Conc), for every set of requests with duplicate-free key
  lists — whatever keys they share and in whatever orders they name them — and every reachable
  state: some request can always take a step unless all are done (no deadlock), every step strictly
  decreases a natural-number measure (no infinite execution), hence every maximal execution ends with
  all requests done.  The locker-wide critical section around the locking phase is what makes this
  true: the same protocol without it has a reachable stuck state.
  Assumed: a blocked mutex acquisition proceeds once the mutex is free (Go's sync.Mutex).
-/
import Dirk.Lemmas.ConcProgress

namespace Dirk.Conc

variable {Val : Type}

/-- **C15 (no deadlock).** -/
theorem C15_progress (reqs : List (Req Val)) (db0 c0 : Key → Val) (hnd : ∀ r ∈ reqs, r.keys.Nodup)
    (s : CState Val) (hr : Reachable reqs db0 c0 s) (hn : ¬ AllDone s) : ∃ t l s', Step s t l s' :=
  progress (inv_reachable reqs db0 c0 hnd s hr) hn

/-- **C15 (termination).** Every step decreases the measure; an execution from `s` has at most
    `measure s` steps. -/
theorem C15_measure (reqs : List (Req Val)) (db0 c0 : Key → Val) (hnd : ∀ r ∈ reqs, r.keys.Nodup)
    (s s' : CState Val) (hr : Reachable reqs db0 c0 s) (tr : List (Tid × Label)) (he : Exec s tr s') :
    tr.length + measure s' ≤ measure s :=
  exec_length_le (inv_reachable reqs db0 c0 hnd s hr) he

/-- **C15 (completion).** From every reachable state all requests can run to completion. -/
theorem C15_complete (reqs : List (Req Val)) (db0 c0 : Key → Val) (hnd : ∀ r ∈ reqs, r.keys.Nodup)
    (s : CState Val) (hr : Reachable reqs db0 c0 s) : ∃ tr s', Exec s tr s' ∧ AllDone s' :=
  completes reqs db0 c0 hnd s hr

/-- **C15 (why PreLock/PostLock matter).** Without the locker-wide critical section two requests naming
    keys [0,1] and [1,0] reach a state where neither is done and nothing can move. -/
theorem C15_needs_global : ∃ (s : CState Unit),
    (∃ tr : List (Tid × Label), ExecNoGlobal (initState [⟨[0, 1], id⟩, ⟨[1, 0], id⟩] (fun _ => ()) (fun _ => ())) tr s) ∧
    ¬ AllDone s ∧ ¬ ∃ t l s', StepNoGlobal s t l s' :=
  needs_global

end Dirk.Conc
