/-
  Obligation on the regenerated facts about how rule verdicts are consumed.  `lake build` re-checks it against what
  /repo's source says now.

  The signer, account-manager and wallet-manager services turn a `rules.Result` into their own result with a `switch`
  whose APPROVED arm falls out of the switch into the code that acts (signs, unlocks, creates).  Go does not check such a
  switch for exhaustiveness: an enumerator that no arm names, in a switch without a `default`, falls out of the switch the
  same way APPROVED does.  The model's verdict type has exactly the enumerators the source declares (checked here), and
  every switch over them either names them all or has a default.
-/
import Dirk.Gen.Facts

namespace Dirk

/-- the enumerators the model's rule verdicts cover (Model.Rules.Verdict: unknown / approved / denied / failed) -/
def modelledRulesResults : List String := ["UNKNOWN", "APPROVED", "DENIED", "FAILED"]

theorem facts_rules_results : Gen.rulesResults = modelledRulesResults := by decide

/-- every switch over a rules.Result outside package rules names every enumerator or has a default -/
theorem facts_result_switches_total :
    Gen.resultSwitches.all (fun sw => sw.2.2 || Gen.rulesResults.all (fun r => sw.2.1.contains r)) = true := by decide

/-- …and there is at least one such switch per signing endpoint (the fact is not vacuous) -/
theorem facts_result_switches_present :
    ["services/signer/standard/signbeaconattestation.go:SignBeaconAttestation",
     "services/signer/standard/signbeaconattestations.go:SignBeaconAttestations",
     "services/signer/standard/signbeaconproposal.go:SignBeaconProposal",
     "services/signer/standard/signgeneric.go:SignGeneric",
     "services/signer/standard/multisign.go:Multisign"].all (fun w => Gen.resultSwitches.any (fun sw => sw.1 == w)) = true := by decide

end Dirk
