/-
  C07 — Operations are served only when the client's permissions allow them.

  (1) decision logic: the nested loops with early returns of `Check` compute exactly "the first
      bearing item of the flattened operation lists of the matching entries", default deny, for every
      compiled configuration, client, account and operation;
  (2) unknown client / no identity / malformed account ⇒ refused;
  (3) a refused request changes nothing: no signature, no store change, no log change (signer level);
  (4) the decision is taken on the canonical name of the account actually resolved.
  The link between `regexify`'s anchored search and whole-name matching is carried by the
  correspondence check (perms engine) and the judge (which evaluates Dirk.Spec.firstBearing).
-/
import Dirk.Spec.Perms
import Dirk.Model.Instance
import Dirk.Lemmas.PreCheck
import Dirk.Lemmas.RegexAnchor

namespace Dirk
open Spec

theorem scanOps_eq (op : String) (ops : List String) :
    scanOps op ops = (ops.filterMap (bearing op)).head? := by
  induction ops with
  | nil => rfl
  | cons o os ih =>
    simp only [scanOps, List.filterMap_cons, bearing]
    split
    · simp
    · split
      · simp
      · simp [ih]

/-- an entry "matches" in the compiled form -/
def cmatches (w a : String) (p : CPath) : Bool := Re.search p.wallet w && Re.search p.account a

/-- **C07 (decision logic).** The outer/inner loops of `Check` equal the first-bearing-item rule over
    the flattened operation lists of the matching entries, in order; default deny. -/
theorem C07_scan_eq_spec (w a op : String) (paths : List CPath) :
    scanPaths w a op paths = firstOf op ((paths.filter (cmatches w a)).flatMap (·.ops)) := by
  induction paths with
  | nil => rfl
  | cons p ps ih =>
    simp only [scanPaths, List.filter_cons, cmatches]
    split
    · rename_i hm
      simp only [hm, ↓reduceIte, List.flatMap_cons]
      rw [scanOps_eq]
      unfold firstOf
      rw [List.filterMap_append]
      cases hq : List.filterMap (bearing op) p.ops with
      | nil => simp [ih, firstOf]
      | cons b bs => simp
    · rename_i hm
      simp only [hm]
      simpa [cmatches] using ih

/-- the body `regexify` wraps: the pattern itself, `.*` for the empty pattern -/
def rxBody (pat : String) : String := if pat.isEmpty then ".*" else pat

/-- what the parser makes of `regexify`'s output: the parse of `(?i)body` put between the two
    assertions.  This is a fact about the string-level parser; it is not proved but evaluated by the
    driver (`jshape`) for every pattern the correspondence check uses. -/
def ShapeOK (pat : String) : Prop :=
  ReParse.parse (regexify pat) = (ReParse.parse ("(?i)" ++ rxBody pat)).map Re.anch

/-- **C07 (whole-name matching).** A compiled path of the shape the parser produces for `regexify`'s
    output matches exactly when the two bodies match the WHOLE wallet name and the WHOLE account name:
    Go's unanchored `MatchString` on `^(?:…)$` cannot match a proper part of a name. -/
theorem C07_whole_name (rw ra : Re) (ops : List String) (w a : String) :
    cmatches w a { wallet := Re.anch rw, account := Re.anch ra, ops := ops }
      = (Re.fullMatch rw w && Re.fullMatch ra a) :=
  Re.cmatch_anchored rw ra w a

/-- **C07 (compiled entry = specification).** An entry compiled through `regexify` matches a
    wallet/account pair in `Check` exactly when the specification says its patterns match the whole
    names (`Spec.entryMatches`), for every entry whose two patterns parse to the anchored shape. -/
theorem C07_entry_matches_spec (e : PermEntry) (c : CPath) (w a : String)
    (hc : compileEntry regexify e = some c)
    (hs : ∀ pw pa, walletAndAccount e.path = some (pw, pa) → ShapeOK pw ∧ ShapeOK pa) :
    cmatches w a c = entryMatches e w a := by
  unfold compileEntry at hc
  unfold entryMatches
  split at hc
  · cases hc
  · rename_i pw pa hwa
    obtain ⟨hsw, hsa⟩ := hs pw pa hwa
    simp only [hwa]
    split at hc
    · cases hc
    · unfold ShapeOK at hsw hsa
      split at hc
      · rename_i rw' ra' hpw hpa
        cases hc
        rw [hpw] at hsw
        rw [hpa] at hsa
        unfold patMatches
        unfold rxBody at hsw hsa
        cases hbw : ReParse.parse ("(?i)" ++ (if pw.isEmpty then ".*" else pw)) with
        | none => rw [hbw] at hsw; cases hsw
        | some bw =>
          cases hba : ReParse.parse ("(?i)" ++ (if pa.isEmpty then ".*" else pa)) with
          | none => rw [hba] at hsa; cases hsa
          | some ba =>
            rw [hbw] at hsw; rw [hba] at hsa
            simp only [Option.map_some, Option.some.injEq] at hsw hsa
            subst hsw; subst hsa
            exact Re.cmatch_anchored bw ba w a
      · cases hc

/-- **C07 (default deny).** No matching entry bears on the operation ⇒ refused. -/
theorem C07_default_deny (acc : Access) (client account op : String)
    (h : ∀ w a paths, walletAndAccount account = some (w, a) → acc.lookup client = some paths →
      ((paths.filter (cmatches w a)).flatMap (·.ops)).filterMap (bearing op) = []) :
    check acc client account op = false := by
  unfold check
  split
  · rfl
  · split
    · rfl
    · rename_i w a hwa
      split
      · rfl
      · split
        · rfl
        · rename_i paths hl
          rw [C07_scan_eq_spec]
          simp [firstOf, h w a paths hwa hl]

/-- **C07 (unknown client).** -/
theorem C07_unknown_client (acc : Access) (client account op : String) (h : acc.lookup client = none) :
    check acc client account op = false := by
  unfold check
  repeat' split
  all_goals simp_all

/-- **C07 (no authenticated identity).** -/
theorem C07_no_identity (acc : Access) (account op : String) : check acc "" account op = false := by
  simp [check]

/-- **C07 (a refused signing request changes nothing).** If the permission check refuses the resolved
    account, the attestation endpoint returns no signature and leaves store and logs untouched. -/
theorem C07_refused_no_effect_att (s : Inst) (c : String) (a : Addr) (d : AttData) (f : Faults) (sf : Bool)
    (acct : Account) (hres : fetchAccount s.cfg a = some acct)
    (hden : check s.cfg.access c (acct.wallet ++ "/" ++ acct.name) opAttest = false) :
    signAtt s c a d f sf = (s, ⟨.denied, none⟩) := by
  unfold signAtt
  split
  · rfl
  · simp [preCheck, hres, hden]

theorem C07_refused_no_effect_prop (s : Inst) (c : String) (a : Addr) (d : PropData) (f : Faults) (sf : Bool)
    (acct : Account) (hres : fetchAccount s.cfg a = some acct)
    (hden : check s.cfg.access c (acct.wallet ++ "/" ++ acct.name) opPropose = false) :
    signProp s c a d f sf = (s, ⟨.denied, none⟩) := by
  unfold signProp
  split
  · rfl
  · simp [preCheck, hres, hden]

theorem C07_refused_no_effect_sign (s : Inst) (c ip : String) (a : Addr) (d : SignData) (sf lf : Bool)
    (acct : Account) (hres : fetchAccount s.cfg a = some acct)
    (hden : check s.cfg.access c (acct.wallet ++ "/" ++ acct.name) opSign = false) :
    signGeneric s c ip a d sf lf = (s, ⟨.denied, none⟩) := by
  unfold signGeneric
  split
  · rfl
  · simp [preCheck, hres, hden]

/-- **C07 (batches).** A batch in which any position is refused releases nothing and changes nothing. -/
theorem C07_refused_no_effect_atts (s : Inst) (c : String) (items : List (Addr × AttData)) (f : Faults)
    (sf : List Nat) (h : (preCheckAll s.cfg c opAttest items).any isErr = true) :
    (signAtts s c items f sf).1 = s := by
  have h := preCheckAll_any_isErr_mono _ _ _ _ h f.lockStateFail
  unfold signAtts
  simp only
  repeat' split
  all_goals simp_all

/-- **C07 (the decision is taken on the resolved account).** Whenever an attestation is released,
    the permission check passed for the canonical `wallet/account` name of the account the request
    resolved to — whether it was addressed by name or by public key. -/
theorem C07_resolved_account (s : Inst) (c : String) (a : Addr) (d : AttData) (f : Faults) (sf : Bool)
    (h : (signAtt s c a d f sf).2.root ≠ none) :
    ∃ acct, fetchAccount s.cfg a = some acct ∧
      check s.cfg.access c (acct.wallet ++ "/" ++ acct.name) opAttest = true := by
  unfold signAtt at h
  split at h
  · simp at h
  · split at h
    · simp at h
    · rename_i acct hpc
      unfold preCheck at hpc
      split at hpc
      · cases hpc
      · rename_i acct' hfa
        split at hpc
        · cases hpc
        · rename_i hchk
          split at hpc
          · cases hpc
          · split at hpc
            · cases hpc
            · injection hpc with hpc; subst hpc
              exact ⟨acct', hfa, by simpa using hchk⟩

/-- a case-insensitive literal -/
def lit (s : String) : Re := s.toList.foldr (fun c r => Re.cat (Re.chr true c) r) Re.eps

/-- what `regexify` produced at the pinned commit for the path `w1|w2`: `(?i)^w1|w2$` -/
def legacyAnchored : Re := Re.alt (Re.cat Re.bol (lit "w1")) (Re.cat (lit "w2") Re.eol)

/-- what the fixed `regexify` produces: `(?i)^(?:w1|w2)$` -/
def fixedAnchored : Re := Re.cat Re.bol (Re.cat (Re.alt (lit "w1") (lit "w2")) Re.eol)

/-- The shipped defect (repaired by a `fix:` commit): anchors bound to the outer alternatives only,
    so `w1|w2` also granted `w10` and `xw2`. -/
theorem C07_legacy_counterexample :
    (Re.search legacyAnchored "w10", Re.search legacyAnchored "xw2") = (true, true) := by decide

/-- The fixed form matches exactly the alternatives, in any case. -/
theorem C07_fixed_alternation :
    (Re.search fixedAnchored "w10", Re.search fixedAnchored "xw2", Re.search fixedAnchored "W1",
     Re.search fixedAnchored "w2") = (false, false, true, true) := by decide

end Dirk
