/-
  C03 — Slashing protection survives a crash at any instant (partial: disk durability assumed).

  Micro-step model with crashes (Dirk.Model.Crash): requests run up to their rules verdict, approved
  ones become in-flight, are signed later in any order, and a crash — between any two micro-steps,
  any number of times — drops everything volatile and keeps exactly the store.  For every
  configuration, pre-existing store and execution:
    * by the time a signature is produced (and ever after, across crashes) the store's record for the
      key covers it (recorded before released);
    * every request that conflicts with a released signature is refused, whatever happened in between;
    * the released signatures of a key are pairwise non-slashable / have pairwise different slots.
  Assumed: a store call that returned is durable (badger SyncWrites), badger recovers what it synced.

  Requests include the operations that do not sign (account creation, account and wallet lock / unlock,
  the slashing-protection import command — all unrestricted — and the raw rules-level import).  The raw
  import OVERWRITES the record of its key, so the executions considered contain only raw imports that
  cover what the instance has approved so far for that key (`MStep.request` carries `Op.safeAt`, i.e.
  `ImportCovers`); a raw import below that defeats the property with or without crashes (Props/C01.lean,
  `C01_lowering_import_counterexample`).
-/
import Dirk.Props.FactsResults
import Dirk.Lemmas.Crash
import Dirk.Props.FactsStore
import Dirk.Spec.Slashing

namespace Dirk
open Spec

/-- **C03 (recorded before released).** Every attestation that is in flight (approved, about to be
    signed) or already released is covered by the stored record of its key, in every reachable state
    of every execution with crashes; likewise proposals. -/
theorem C03_recorded_before_release (cfg : Config) (db0 : Db) (m : MState) (hr : MReach cfg db0 m) :
    (∀ e, e ∈ m.inflightAtt ∨ e ∈ m.releasedAtt → Covers m.inst.db e.1 e.2.src e.2.tgt) ∧
    (∀ e, e ∈ m.inflightProp ∨ e ∈ m.releasedProp → PCovers m.inst.db e.1 e.2.slot) := by
  have h := mreach_inv hr
  exact ⟨fun e he => h.att.covered e (h.attIn e he), fun e he => h.prop.covered e (h.propIn e he)⟩

/-- a request that would be slashable against a covered vote is not approved -/
theorem conflicting_not_approved (db : Db) (pk : Bytes) (e : AttData) (r : AttReq) (f : Faults)
    (hc : Covers db pk e.src e.tgt)
    (hconf : r.tgt = e.tgt ∨ (e.src < r.src ∧ r.tgt < e.tgt) ∨ (r.src < e.src ∧ e.tgt < r.tgt)) :
    (onAttest db pk r f).1 ≠ .approved := by
  obtain ⟨st, hf, _, _, hs, ht⟩ := hc
  intro happ
  rcases hon : onAttest db pk r f with ⟨v, db'⟩
  rw [hon] at happ; simp only at happ
  have hall := ((onAttest_inv hon).2 happ).2.2.2 e.src e.tgt ⟨st, hf, by assumption, by assumption, hs, ht⟩
  omega

/-- **C03 (refused after any crash).** In any reachable state — in particular after a kill and restart
    on the same directory — an attestation request for a key that double-votes with, surrounds or is
    surrounded by a signature already released for that key is not approved; a proposal at or below a
    released slot is not approved. -/
theorem C03_refuses_after_crash (cfg : Config) (db0 : Db) (m : MState) (hr : MReach cfg db0 m) :
    (∀ e ∈ m.releasedAtt, ∀ (r : AttReq) (f : Faults),
        (r.tgt = e.2.tgt ∨ (e.2.src < r.src ∧ r.tgt < e.2.tgt) ∨ (r.src < e.2.src ∧ e.2.tgt < r.tgt)) →
        (onAttest m.inst.db e.1 r f).1 ≠ .approved) ∧
    (∀ e ∈ m.releasedProp, ∀ (r : PropReq) (f : Faults), r.slot ≤ e.2.slot →
        (onPropose m.inst.db e.1 r f).1 ≠ .approved) := by
  obtain ⟨ha, hp⟩ := C03_recorded_before_release cfg db0 m hr
  constructor
  · intro e he r f hconf
    exact conflicting_not_approved _ _ _ _ _ (ha e (Or.inr he)) hconf
  · intro e he r f hle happ
    rcases hon : onPropose m.inst.db e.1 r f with ⟨v, db'⟩
    rw [hon] at happ; simp only at happ
    have := ((onPropose_inv hon).2 happ).2.2.2 e.2.slot (hp e (Or.inr he))
    omega

/-- **C03 (no slashable pair is ever released, crashes included).** -/
theorem C03_released_never_slashable (cfg : Config) (db0 : Db) (m : MState) (hr : MReach cfg db0 m) :
    (∀ a ∈ m.releasedAtt, ∀ b ∈ m.releasedAtt, a.1 = b.1 → a ≠ b →
        ¬ Slashable (voteOf a.2) (voteOf b.2)) ∧
    (∀ a ∈ m.releasedProp, ∀ b ∈ m.releasedProp, a.1 = b.1 → a ≠ b → a.2.slot ≠ b.2.slot) := by
  have h := mreach_inv hr
  constructor
  · intro a ha b hb hk hne
    have hab := pairwise_mem_or h.att.mono (h.attIn a (Or.inr ha)) (h.attIn b (Or.inr hb)) hne
    unfold Slashable DoubleVote Surrounds voteOf
    simp only
    rcases hab with hab | hab
    · have := hab hk; unfold VoteLt at this
      intro hs; rcases hs with ⟨h1, _⟩ | ⟨h1, h2⟩ | ⟨h1, h2⟩ <;> omega
    · have := hab hk.symm; unfold VoteLt at this
      intro hs; rcases hs with ⟨h1, _⟩ | ⟨h1, h2⟩ | ⟨h1, h2⟩ <;> omega
  · intro a ha b hb hk hne
    have hab := pairwise_mem_or h.prop.mono (h.propIn a (Or.inr ha)) (h.propIn b (Or.inr hb)) hne
    rcases hab with hab | hab
    · have := hab hk; omega
    · have := hab hk.symm; omega

/-- non-vacuity: a crash between approval and signing is a real transition of the model and leaves
    the record moved with nothing released -/
example (m : MState) : MStep m { m with inflightAtt := [], inflightProp := [] } := MStep.crash m

end Dirk
