/-
  C04 / C15 — the lock protocol the concurrency theorems are about IS the one in the source.

  `Props/C04.lean` (`C04_trace_is_protocol`, mutual exclusion, linearizability) and `Props/C15.lean` (progress) speak about
  requests that run `lockWrap`: PreLock, Lock for each public key in request order, PostLock, the rules' own store calls,
  Unlock in reverse order — and about batches whose keys are distinct.  Here that shape is tied to
  `services/ruler/golang/runner.go` by the kernel regenerated from it on every run (factx/runrules.go): the locker calls
  `RunRules` makes, their loop structure (`defer` ⇒ reverse order after the rules have run), the 48-byte key, the refusal of
  a key that occurs twice, and the actions for which locks are taken.  Proofs: Props/KernelsEq.lean §16.
-/
import Dirk.Props.C04
import Dirk.Props.C15
import Dirk.Props.KernelsEq

namespace Dirk

/-- **C04 (the lock protocol is the source).** For every list of public keys and every inner call sequence, the model's
    `lockWrap` is the call sequence generated from the Go source of `RunRules`; the source takes locks for exactly the three
    signing actions, keys them by the first 48 bytes of the public key, and (`decide` on the regenerated shape) calls
    PreLock, Lock/defer-Unlock per entry in order, PostLock, then the rules. -/
theorem C04_lock_protocol_is_source :
    (∀ (keys : List Bytes) (inner : List LTok),
      lockWrap (keys.map toBytes48) inner = Gen.lockCallsTokGen LTok.pre LTok.post LTok.lock LTok.unlock keys inner) ∧
    Gen.runRulesLockingActionsGen = [opSign, opPropose, opAttest] ∧
    Gen.runRulesKeyWidthGen = 48 ∧ Gen.runRulesLockKeyWidthGen = 48 ∧
    Gen.runRulesLockProtocolGen =
      ["PreLock", "for-each-in-order: Lock(key48(PubKey)); defer Unlock(key48(PubKey))", "PostLock", "return runRules"] :=
  ⟨fun keys inner => ((lockCalls_eq_lockWrap keys inner).1).symm, runRules_shape_is_source.1, runRules_shape_is_source.2.1,
   runRules_shape_is_source.2.2.1, runRules_shape_is_source.2.2.2.2⟩

/-- **C04 / C15 (a key named twice is refused before any lock is taken).** For a batch of non-empty keys under a locking
    action, the validation translated from `RunRules` lets the request through exactly when the model's `firstDup` finds
    nothing — so every request that reaches the locks names distinct keys (the `Nodup` hypothesis of `C04_*` and `C15_*`) —
    and otherwise answers FAILED at the duplicate and UNKNOWN elsewhere, which the signer's loop reads as FAILED everywhere. -/
theorem C15_distinct_keys_is_source (ks : List Bytes) (hne : ks ≠ []) (hk : ∀ k ∈ ks, k ≠ []) (fe fd : Option Nat)
    (hfe : IsFirst (fun i => ∃ k, ks[i]? = some k ∧ k.length = 0) ks.length fe)
    (hfd : IsFirst (dupKeyAt ks) ks.length fd) :
    (Gen.runRulesValidateGen ks.length none none true fe fd = none ↔ firstDup [] 0 ks = none) :=
  (runRulesValidate_dup_eq_model ks hne hk fe fd hfe hfd).2.2.1

/-- **C09 / C04 (single rule for one entry, batch rule for more).** -/
theorem C04_rules_path_is_source :
    (∀ n, Gen.runRulesPathGen n true = 1 ↔ n > 1) ∧ (∀ n, Gen.runRulesPathGen n false = 0) :=
  ⟨runRulesPath_eq_model.1, runRulesPath_eq_model.2.2.1⟩

end Dirk
