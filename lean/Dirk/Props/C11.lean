/-
  C11 — Exported protection data is faithful and survives restart and upgrade.

  (1) record codec round-trips for every int64 value (both record kinds);
  (2) restart keeps the store (model-trivial; the content is in the correspondence check, which
      closes and reopens the real badger store);
  (3) importing an export into an empty store yields a store that fetches the same states, hence the
      rule functions take the same decisions on every request;
  (4) [Dirk.Lemmas.Exact] on fault-free histories of well-formed requests from an empty store the
      export states exactly the last — which is the highest — released slot, source and target.
  Legacy (gob) records: decoded by Dirk.Model.Gob; their equivalence with Go's decoder is established
  by the correspondence check on records produced by Go's own encoder.
-/
import Dirk.Lemmas.Run
import Dirk.Model.Import
import Dirk.Lemmas.Exact

set_option linter.unusedSimpArgs false

namespace Dirk

/-- **C11 (codec).** -/
theorem C11_codec_roundtrip :
    (∀ s : AttState, InI64 s.src → InI64 s.tgt → decodeAtt (encodeAtt s) = some s) ∧
    (∀ v : Int, InI64 v → decodeProp (encodeProp v) = some v) :=
  ⟨decodeAtt_encodeAtt, decodeProp_encodeProp⟩

/-- **C11 (restart).** -/
theorem C11_restart (s : Inst) : (step s .restart).1 = s := rfl

/-- **C11 (export is exact).** After any fault-free history of operations from an empty store, the
    export states for every key exactly the last released slot, source and target (−1 = none) … -/
theorem C11_export_exact (cfg : Config) (ops : List Op) (hc : ∀ op ∈ ops, op.clean) (k : Bytes) :
    exportKey (run (init cfg []) ops).db k =
      some { slot := lastSlot (run (init cfg []) ops).propLog k,
             src := (lastVote (run (init cfg []) ops).attLog k).src,
             tgt := (lastVote (run (init cfg []) ops).attLog k).tgt } :=
  export_exact cfg ops hc k

/-- … and the last released is the highest released, in each dimension (any history, faults included, of
    signing requests, restarts, import commands, account creations and lock / unlock). -/
theorem C11_last_is_highest (cfg : Config) (ops : List Op) (hr : NoRawImport ops) (k : Bytes) :
    (∀ e ∈ (run (init cfg []) ops).attLog, e.1 = k →
      (e.2.tgt : Int) ≤ (lastVote (run (init cfg []) ops).attLog k).tgt ∧
      (e.2.src : Int) ≤ (lastVote (run (init cfg []) ops).attLog k).src) ∧
    (∀ e ∈ (run (init cfg []) ops).propLog, e.1 = k →
      (e.2.slot : Int) ≤ lastSlot (run (init cfg []) ops).propLog k) :=
  ⟨last_is_max_att cfg ops hr k, last_is_max_prop cfg ops hr k⟩

/-- generalisation to histories that also contain raw rules-level imports (`Op.importRec`), each covering
    what had been released for its key when it is applied (`SafeHist`) -/
theorem C11_last_is_highest_with_imports (cfg : Config) (ops : List Op) (hs : SafeHist (init cfg []) ops) (k : Bytes) :
    (∀ e ∈ (run (init cfg []) ops).attLog, e.1 = k →
      (e.2.tgt : Int) ≤ (lastVote (run (init cfg []) ops).attLog k).tgt ∧
      (e.2.src : Int) ≤ (lastVote (run (init cfg []) ops).attLog k).src) ∧
    (∀ e ∈ (run (init cfg []) ops).propLog, e.1 = k →
      (e.2.slot : Int) ≤ lastSlot (run (init cfg []) ops).propLog k) :=
  ⟨last_is_max_att_with_imports cfg ops hs k, last_is_max_prop_with_imports cfg ops hs k⟩

/-- decisions of the attestation rule depend on the store only through the fetched state -/
theorem onAttest_verdict_congr (db db' : Db) (pk : Bytes) (r : AttReq) (f : Faults)
    (h : fetchAtt db' pk false = fetchAtt db pk false) :
    (onAttest db' pk r f).1 = (onAttest db pk r f).1 := by
  unfold onAttest
  cases hb : f.fetchFail.contains 0 with
  | true => simp [fetchAtt]
  | false =>
    rw [h]
    cases hf : fetchAtt db pk false with
    | none => rfl
    | some st =>
      simp only
      split
      · simp [storeOne]; split <;> rfl
      · rfl

theorem onPropose_verdict_congr (db db' : Db) (pk : Bytes) (r : PropReq) (f : Faults)
    (h : fetchProp db' pk false = fetchProp db pk false) :
    (onPropose db' pk r f).1 = (onPropose db pk r f).1 := by
  unfold onPropose
  split
  · rfl
  · split
    · rfl
    · cases hb : f.fetchFail.contains 0 with
      | true => simp [fetchProp]
      | false =>
        rw [h]
        cases hf : fetchProp db pk false with
        | none => rfl
        | some st =>
          simp only
          split
          · rfl
          · simp [storeOne]; split <;> rfl

/-- **C11 (export → import into an empty store → same decisions).** If a key's exported protection
    is `p` (int64 values; an absent source means an absent target, as every store built by signing
    satisfies), then the store obtained by importing `p` into an empty store fetches exactly the same
    states for that key, so every attestation and proposal request gets the same verdict. -/
theorem C11_import_export_same_decisions (db : Db) (k : Bytes) (p : Protection)
    (hex : exportKey db k = some p) (hi : InI64 p.slot ∧ InI64 p.src ∧ InI64 p.tgt)
    (hsrc : p.src = -1 → p.tgt = -1) :
    fetchAtt (importKey [] k p) k false = fetchAtt db k false ∧
    fetchProp (importKey [] k p) k false = fetchProp db k false ∧
    (∀ r f, (onAttest (importKey [] k p) k r f).1 = (onAttest db k r f).1) ∧
    (∀ r f, (onPropose (importKey [] k p) k r f).1 = (onPropose db k r f).1) := by
  unfold exportKey at hex
  split at hex
  · rename_i a pr ha hp
    injection hex with hex
    subst hex
    simp only at hi hsrc
    have hempty_att : fetchAtt ([] : Db) k false = some ⟨-1, -1⟩ := by simp [fetchAtt, Db.get]
    have hempty_prop : fetchProp ([] : Db) k false = some (-1) := by simp [fetchProp, Db.get]
    have hatt : fetchAtt (importKey [] k { slot := pr, src := a.src, tgt := a.tgt }) k false = fetchAtt db k false := by
      rw [ha]
      unfold importKey
      simp only
      split
      · -- the attestation record is written
        have : (⟨a.src, a.tgt⟩ : AttState) = a := by cases a; rfl
        rw [this]
        exact fetchAtt_put_att_same _ _ a hi.2.1 hi.2.2
      · rename_i h1
        have h1' : a.src = -1 := Decidable.not_not.mp h1
        have h2 := hsrc h1'
        have : a = ⟨-1, -1⟩ := by cases a; simp_all
        rw [this]
        split
        · rw [fetchAtt_put_prop]; exact hempty_att
        · exact hempty_att
    have hprop : fetchProp (importKey [] k { slot := pr, src := a.src, tgt := a.tgt }) k false = fetchProp db k false := by
      rw [hp]
      unfold importKey
      simp only
      split
      · rw [fetchProp_put_att]
        split
        · exact fetchProp_put_prop_same _ _ _ hi.1
        · rename_i h0
          have : pr = -1 := Decidable.not_not.mp h0
          rw [this]; exact hempty_prop
      · split
        · exact fetchProp_put_prop_same _ _ _ hi.1
        · rename_i h0
          have : pr = -1 := Decidable.not_not.mp h0
          rw [this]; exact hempty_prop
    exact ⟨hatt, hprop, fun r f => onAttest_verdict_congr _ _ _ _ _ hatt,
      fun r f => onPropose_verdict_congr _ _ _ _ _ hprop⟩
  · cases hex

end Dirk
