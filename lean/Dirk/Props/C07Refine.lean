/-
  Dirk.Props.C07Refine — C07 end to end: the checker's decision IS the specification's, for every
  configuration the checker accepts and every request (proved in Dirk.Lemmas.PermsRefine on top of the
  theorems of Dirk.Props.C07 and the anchoring theorem of Dirk.Lemmas.RegexAnchor).
-/
import Dirk.Props.C07
import Dirk.Lemmas.PermsRefine
import Dirk.Props.KernelsEq

namespace Dirk

/-- **C07 (refinement).** For every permission configuration `perms` that `checker/static.New` accepts
    (`compilePerms regexify perms = some acc`) and whose patterns parse to the anchored shape
    (`PermsShapeOK`, a fact about the string-level parser that the driver evaluates for every pattern in
    use), and for every client, account path and operation:
    `Check` answers exactly what the specification says — scan the client's entries in order; entries
    match on the WHOLE wallet and account names, ignoring case; the first operation item that bears on
    the request decides; nothing bears ⇒ refuse. -/
theorem C07_check_refines_spec (perms : Perms) (acc : Access) (client account op : String)
    (hc : compilePerms regexify perms = some acc) (hs : PermsShapeOK perms) :
    check acc client account op = Spec.firstBearing perms client account op :=
  check_refines_spec perms acc client account op hc hs

/-- **C07 (nothing is granted by default).** A request is served only if some entry of that very client
    matches the whole names and carries an item bearing on the operation. -/
theorem C07_served_has_bearing (perms : Perms) (acc : Access) (client account op : String)
    (hc : compilePerms regexify perms = some acc) (hs : PermsShapeOK perms)
    (ht : check acc client account op = true) :
    ∃ w a es e item, walletAndAccount account = some (w, a) ∧ perms.lookup client = some es ∧
      e ∈ es ∧ Spec.entryMatches e w a = true ∧ item ∈ e.ops ∧ Spec.bearing op item ≠ none :=
  check_true_has_bearing perms acc client account op hc hs ht

/-- **tie by translation.** `regexify`, the guard prefix of `Check` and its two loops are, for all inputs, the
    functions `factx` translates on every run from the current Go source of services/checker/static
    (parameters.go `regexify`, service.go `Check`); regular-expression matching itself enters only as the Boolean
    "both of this entry's expressions matched". -/
theorem C07_kernel_is_source (acc : Access) (client account op name : String) :
    regexify name = Gen.regexifyGen name ∧
    check acc client account op = checkWrap false acc client account op :=
  ⟨regexify_eq_gen name, check_eq_gen acc client account op⟩

/-- **C07 (the signer's pre-check is the source).** For every configuration, client, address, operation and lock-state
    fault, the model's `preCheck` — fetch the account (by key when a key is given, else by name), ask the checker about
    `wallet/account` and the operation, unlock — is the decoding of the functions translated on every run from the Go source of
    `preCheck`, `fetchAccount`, `checkAccess` and `unlockAccount` (services/signer/standard/helpers.go), composed as the source
    composes them (the first result that is not SUCCEEDED is returned); and the name handed to the checker is, in the source as
    it is now, `fmt.Sprintf("%s/%s", wallet.Name(), account.Name())`, after the fetch and before the unlock. -/
theorem C07_precheck_is_source (cfg : Config) (client : String) (a : Addr) (op : String) (lockStateFail : Bool) :
    (fetchAccount cfg a = none → preCheck cfg client a op lockStateFail = .error .denied) ∧
    (∀ acct, fetchAccount cfg a = some acct → ∀ isUnlocked unlockOk : Bool,
        (isUnlocked || unlockOk) = acct.unlockable →
        preCheck cfg client a op lockStateFail =
          preCheckOfCode acct (Gen.preCheckGen (fetchAccountG cfg a).1
            (Gen.checkAccessGen (check cfg.access client (Gen.preCheckCheckedNameFnGen acct.wallet acct.name a.name op) op))
            (Gen.unlockAccountGen false false true lockStateFail isUnlocked false unlockOk))) ∧
    Gen.preCheckOrderGen = ["fetchAccount", "checkAccess", "unlockAccount"] :=
  ⟨fun h => ((preCheck_eq_gen cfg client a op lockStateFail).1 h 0 0).2,
   fun acct h iu uo hu => ((preCheck_eq_gen cfg client a op lockStateFail).2 acct h iu uo hu).1,
   preCheck_shape_is_source.2⟩

end Dirk
