/-
  Dirk.Props.C07Refine — C07 end to end: the checker's decision IS the specification's, for every
  configuration the checker accepts and every request (proved in Dirk.Lemmas.PermsRefine on top of the
  theorems of Dirk.Props.C07 and the anchoring theorem of Dirk.Lemmas.RegexAnchor).
-/
import Dirk.Props.C07
import Dirk.Lemmas.PermsRefine
import Dirk.Props.KernelsEq

namespace Dirk

/-- **C07 (refinement).** For every permission configuration `perms` that `checker/static.New` accepts
    (`compilePerms regexify perms = some acc`) and whose patterns parse to the anchored shape
    (`PermsShapeOK`, a fact about the string-level parser that the driver evaluates for every pattern in
    use), and for every client, account path and operation:
    `Check` answers exactly what the specification says — scan the client's entries in order; entries
    match on the WHOLE wallet and account names, ignoring case; the first operation item that bears on
    the request decides; nothing bears ⇒ refuse. -/
theorem C07_check_refines_spec (perms : Perms) (acc : Access) (client account op : String)
    (hc : compilePerms regexify perms = some acc) (hs : PermsShapeOK perms) :
    check acc client account op = Spec.firstBearing perms client account op :=
  check_refines_spec perms acc client account op hc hs

/-- **C07 (nothing is granted by default).** A request is served only if some entry of that very client
    matches the whole names and carries an item bearing on the operation. -/
theorem C07_served_has_bearing (perms : Perms) (acc : Access) (client account op : String)
    (hc : compilePerms regexify perms = some acc) (hs : PermsShapeOK perms)
    (ht : check acc client account op = true) :
    ∃ w a es e item, walletAndAccount account = some (w, a) ∧ perms.lookup client = some es ∧
      e ∈ es ∧ Spec.entryMatches e w a = true ∧ item ∈ e.ops ∧ Spec.bearing op item ≠ none :=
  check_true_has_bearing perms acc client account op hc hs ht

/-- **tie by translation.** `regexify`, the guard prefix of `Check` and its two loops are, for all inputs, the
    functions `factx` translates on every run from the current Go source of services/checker/static
    (parameters.go `regexify`, service.go `Check`); regular-expression matching itself enters only as the Boolean
    "both of this entry's expressions matched". -/
theorem C07_kernel_is_source (acc : Access) (client account op name : String) :
    regexify name = Gen.regexifyGen name ∧
    check acc client account op = checkWrap false acc client account op :=
  ⟨regexify_eq_gen name, check_eq_gen acc client account op⟩

end Dirk
