/-
  C06 — Signing fails closed, when the RULER answers for fewer requests than the batch holds.

  dirk's own ruler always hands back one verdict per request; the signer (services/signer/standard/
  signbeaconattestations.go, multisign.go) nevertheless walks `len(rulesResults)` positions only and leaves the others
  UNKNOWN without a signature.  Model: Dirk/Model/ShortRules.lean (`signAttsShort`, `multisignShort`: the verdict
  list cut to its first `k` entries; exercised against the implementation through fault letter `r<k>`).
  Proofs: Dirk/Lemmas/ShortRules.lean.  Stated here, apart from the lemmas, for every state, client, batch, fault
  plan and cut `k`.
-/
import Dirk.Lemmas.ShortRules
import Dirk.Props.KernelsEq

namespace Dirk

/-- **C06 (positions nobody ruled on are never signed, batch attestations).** -/
theorem C06_unruled_atts (s : Inst) (c : String) (items : List (Addr × AttData)) (f : Faults) (sf : List Nat) (k : Nat) :
    (∀ p ∈ (signAttsShort s c items f sf k).2.drop k, p.root = none ∧ p.res ≠ .succeeded) ∧
    (∀ p ∈ (signAttsShort s c items f sf k).2, p.closed) ∧
    (signAttsShort s c items f sf k).2.length = max 1 items.length ∧
    (∃ rel, (signAttsShort s c items f sf k).1.attLog = s.attLog ++ rel ∧ rel.length ≤ k) :=
  ⟨C06_short_rules_atts s c items f sf k, C06_short_rules_atts_closed s c items f sf k,
   C06_short_rules_atts_shape s c items f sf k, (C06_short_rules_atts_log s c items f sf k).1⟩

/-- **C06 (positions nobody ruled on are never signed, multisign).** -/
theorem C06_unruled_msign (s : Inst) (c ip : String) (items : List (Addr × SignData)) (sf : List Nat) (lf : Bool) (k : Nat) :
    (∀ p ∈ (multisignShort s c ip items sf lf k).2.drop k, p.root = none ∧ p.res ≠ .succeeded) ∧
    (∀ p ∈ (multisignShort s c ip items sf lf k).2, p.closed) ∧
    (multisignShort s c ip items sf lf k).2.length = max 1 items.length ∧
    (∃ rel, (multisignShort s c ip items sf lf k).1.signLog = s.signLog ++ rel ∧ rel.length ≤ k) :=
  ⟨C06_short_rules_msign s c ip items sf lf k, C06_short_rules_msign_closed s c ip items sf lf k,
   C06_short_rules_msign_shape s c ip items sf lf k, (C06_short_rules_msign_log s c ip items sf lf k).1⟩

/-- **C06 (the cut model is the uncut one where the ruler answered):** with a full-length list nothing changes, and
    in any case the answered positions, and the rules' state, are those of `signAtts` / `multisign` — so every theorem
    about those (C01, C02, C05, C06_atts, …) speaks about the answered part of a cut batch too. -/
theorem C06_unruled_is_prefix (s : Inst) (c ip : String) (atts : List (Addr × AttData)) (gens : List (Addr × SignData))
    (f : Faults) (sf : List Nat) (lf : Bool) (k : Nat) :
    (atts.length ≤ k → signAttsShort s c atts f sf k = signAtts s c atts f sf) ∧
    (gens.length ≤ k → multisignShort s c ip gens sf lf k = multisign s c ip gens sf lf) ∧
    (signAttsShort s c atts f sf k).2.take k = (signAtts s c atts f sf).2.take k ∧
    (multisignShort s c ip gens sf lf k).2.take k = (multisign s c ip gens sf lf).2.take k ∧
    (signAttsShort s c atts f sf k).1.db = (signAtts s c atts f sf).1.db :=
  ⟨signAttsShort_of_ge s c atts f sf k, multisignShort_of_ge s c ip gens sf lf k,
   signAttsShort_take s c atts f sf k, multisignShort_take s c ip gens sf lf k, signAttsShort_db s c atts f sf k⟩

/-- **C06 (the signing loop is the source).** What the model does at each visited position of a batch — `signEvs` for
    `SignBeaconAttestations`, `signGenerics` for `Multisign` — is, for every verdict list, fault plan and start index, the
    indexed map of the position function translated on every run from the Go source of the final loop of those two
    functions (verdict switch arm by arm, the error checks after it, the assignment of the signature); and that loop, in
    the source as it is now, runs over `len(rulesResults)` positions of a result slice created UNKNOWN — the regenerated
    fact behind the `take k` of Model/ShortRules.lean. -/
theorem C06_kernel_is_source :
    (∀ (sf : List Nat) (i : Nat) (evs : List (Bytes × AttData × Verdict)),
      signEvs sf i evs = (evs.zipIdx i).map (fun e =>
        (posOfGen (Gen.signLoopPosAttGen (verdictCode e.1.2.2) e.1.2.1.signingRoot.isNone false (sf.contains e.2))
            e.1.2.1.signingRoot,
         if (Gen.signLoopPosAttGen (verdictCode e.1.2.2) e.1.2.1.signingRoot.isNone false (sf.contains e.2)).2
         then some (e.1.1, e.1.2.1) else none))) ∧
    (∀ (adminIPs : List String) (ip : String) (sf : List Nat) (i : Nat) (keyed : List (Bytes × SignData)),
      signGenerics adminIPs ip sf i keyed = (keyed.zipIdx i).map (fun e =>
        (posOfGen (Gen.signLoopPosMultiGen (verdictCode (onSign adminIPs ip (e.1.2.domain.getD [])))
            e.1.2.signingRoot.isNone (sf.contains e.2)) e.1.2.signingRoot,
         if (Gen.signLoopPosMultiGen (verdictCode (onSign adminIPs ip (e.1.2.domain.getD [])))
            e.1.2.signingRoot.isNone (sf.contains e.2)).2 then some (e.1.1, e.1.2) else none))) ∧
    Gen.signLoopBoundAttGen = "len(rulesResults)" ∧ Gen.signLoopBoundMultiGen = "len(rulesResults)" ∧
    Gen.coreResultZeroIsUnknownGen = true :=
  ⟨signEvs_eq_gen_map, signGenerics_eq_gen_map, signLoopBound_is_rules_results.1, signLoopBound_is_rules_results.2.1,
   by decide⟩

end Dirk
