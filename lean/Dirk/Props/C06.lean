/-
  C06 — Signing fails closed.

  For all five signing operations of the signer model, under every fault plan (failing fetches at any
  positions, a failing store call whose write landed or not, failing signing calls at any positions,
  accounts that cannot say whether they are unlocked),
  every configuration, client, addressing mode and data: a response position carries a signature if
  and only if its state is SUCCEEDED; the response has one position per request (one for an empty
  request); and an injected fault on the path of a position leaves it without a signature.
  Under the lock-state fault no position of any request is signed and the instance state is untouched
  (`C06_lock_state_fault_*`; the complete outcome: `sign*_lock_state_fault`, `multisign_lock_state_fault`).
-/
import Dirk.Props.FactsResults
import Dirk.Lemmas.Run
import Dirk.Lemmas.PreCheck

namespace Dirk

/-- the fail-closed biconditional for one response position -/
def Pos.closed (p : Pos) : Prop := p.root ≠ none ↔ p.res = .succeeded

theorem verdictRes_ne_succeeded {v : Verdict} (h : v ≠ .approved) : verdictRes v ≠ .succeeded := by
  cases v <;> simp_all [verdictRes]

theorem preCheck_error_ne_succeeded (cfg : Config) (client : String) (a : Addr) (op : String) (r : Res)
    {lf : Bool} (h : preCheck cfg client a op lf = .error r) : r ≠ .succeeded := by
  unfold preCheck at h
  repeat' split at h
  all_goals first | (injection h with h; subst h; simp) | cases h

/-- **C06 (single attestation).** -/
theorem C06_att (s : Inst) (c : String) (a : Addr) (d : AttData) (f : Faults) (sf : Bool) :
    (signAtt s c a d f sf).2.closed := by
  unfold signAtt Pos.closed
  split
  · simp
  · split
    · rename_i r hpc
      simp; exact preCheck_error_ne_succeeded _ _ _ _ _ hpc
    · rename_i acct _
      rcases onAttest s.db acct.pubkey d.req f with ⟨v, db'⟩
      simp only
      cases v <;> simp [verdictRes]
      repeat' split
      all_goals simp

/-- **C06 (proposal).** -/
theorem C06_prop (s : Inst) (c : String) (a : Addr) (d : PropData) (f : Faults) (sf : Bool) :
    (signProp s c a d f sf).2.closed := by
  unfold signProp Pos.closed
  split
  · simp
  · split
    · rename_i r hpc
      simp; exact preCheck_error_ne_succeeded _ _ _ _ _ hpc
    · rename_i acct _
      rcases onPropose s.db acct.pubkey { domain := d.domain.getD [], slot := d.slot } f with ⟨v, db'⟩
      simp only
      cases v <;> simp [verdictRes]
      repeat' split
      all_goals simp

/-- **C06 (generic).** -/
theorem C06_sign (s : Inst) (c ip : String) (a : Addr) (d : SignData) (sf lf : Bool) :
    (signGeneric s c ip a d sf lf).2.closed := by
  unfold signGeneric Pos.closed
  split
  · simp
  · split
    · rename_i r hpc
      simp; exact preCheck_error_ne_succeeded _ _ _ _ _ hpc
    · rcases onSign s.cfg.adminIPs ip (d.domain.getD []) with _ | _ | _ | _ <;> simp [verdictRes]
      repeat' split
      all_goals simp

theorem signEvs_closed (sf : List Nat) : ∀ (evs : List (Bytes × AttData × Verdict)) (i : Nat),
    ∀ p ∈ (signEvs sf i evs).map (·.1), p.closed := by
  intro evs
  induction evs with
  | nil => intro i p hp; simp [signEvs] at hp
  | cons e rest ih =>
    intro i p hp
    obtain ⟨k, d, v⟩ := e
    simp only [signEvs, List.map_cons] at hp
    rcases List.mem_cons.mp hp with rfl | hp
    · unfold Pos.closed
      cases v <;> simp [verdictRes]
      repeat' split
      all_goals simp
    · exact ih (i + 1) p hp

theorem signGenerics_closed (adminIPs : List String) (ip : String) (sf : List Nat) :
    ∀ (keyed : List (Bytes × SignData)) (i : Nat),
      ∀ p ∈ (signGenerics adminIPs ip sf i keyed).map (·.1), p.closed := by
  intro keyed
  induction keyed with
  | nil => intro i p hp; simp [signGenerics] at hp
  | cons e rest ih =>
    intro i p hp
    obtain ⟨k, d⟩ := e
    simp only [signGenerics, List.map_cons] at hp
    rcases List.mem_cons.mp hp with rfl | hp
    · unfold Pos.closed
      rcases onSign adminIPs ip (d.domain.getD []) with _ | _ | _ | _ <;> simp [verdictRes]
      repeat' split
      all_goals simp
    · exact ih (i + 1) p hp

theorem preCheckPositions_closed {α : Type} (pcs : List (Except Res α))
    (h : ∀ p ∈ pcs, ∀ r, p = .error r → r ≠ .succeeded) :
    ∀ p ∈ preCheckPositions pcs, p.closed := by
  intro p hp
  unfold preCheckPositions at hp
  obtain ⟨x, hx, rfl⟩ := List.mem_map.mp hp
  unfold Pos.closed
  cases x with
  | error r => simp; exact h _ hx r rfl
  | ok a => simp

theorem preCheckAll_error_ne_succeeded {α : Type} (cfg : Config) (client op : String)
    (items : List (Addr × α)) {lf : Bool} :
    ∀ p ∈ preCheckAll cfg client op items lf, ∀ r, p = .error r → r ≠ .succeeded := by
  intro p hp r hr
  unfold preCheckAll at hp
  obtain ⟨it, _, rfl⟩ := List.mem_map.mp hp
  split at hr
  · rename_i r0 hpc
    injection hr with hr; subst hr
    exact preCheck_error_ne_succeeded _ _ _ _ _ hpc
  · cases hr

/-- **C06 (batch attestations), position by position.** -/
theorem C06_atts (s : Inst) (c : String) (items : List (Addr × AttData)) (f : Faults) (sf : List Nat) :
    ∀ p ∈ (signAtts s c items f sf).2, p.closed := by
  unfold signAtts
  simp only
  split
  · intro p hp; simp at hp; subst hp; simp [Pos.closed]
  · split
    · intro p hp
      obtain ⟨j, _, rfl⟩ := List.mem_map.mp hp
      split <;> simp [Pos.closed]
    · split
      · exact preCheckPositions_closed _ (preCheckAll_error_ne_succeeded _ _ _ _)
      · split
        · intro p hp
          obtain ⟨_, _, rfl⟩ := List.mem_map.mp hp
          simp [Pos.closed]
        · unfold attestKeyed finishKeyed
          split
          · intro p hp
            obtain ⟨_, _, rfl⟩ := List.mem_map.mp hp
            simp [Pos.closed]
          · exact signEvs_closed sf _ 0

/-- **C06 (multisign), position by position.** -/
theorem C06_msign (s : Inst) (c ip : String) (items : List (Addr × SignData)) (sf : List Nat) (lf : Bool) :
    ∀ p ∈ (multisign s c ip items sf lf).2, p.closed := by
  unfold multisign
  simp only
  split
  · intro p hp; simp at hp; subst hp; simp [Pos.closed]
  · split
    · intro p hp
      obtain ⟨j, _, rfl⟩ := List.mem_map.mp hp
      split <;> simp [Pos.closed]
    · split
      · exact preCheckPositions_closed _ (preCheckAll_error_ne_succeeded _ _ _ _)
      · split
        · intro p hp
          obtain ⟨_, _, rfl⟩ := List.mem_map.mp hp
          simp [Pos.closed]
        · exact signGenerics_closed _ _ sf _ 0

/-- **C06 (faults close the path, single attestation).** A failing state read, a failing state
    write (whether or not the write landed) or a failing signing call each yield no signature. -/
theorem C06_att_fault (s : Inst) (c : String) (a : Addr) (d : AttData) (f : Faults) (sf : Bool)
    (h : f.fetchFail.contains 0 = true ∨ f.storeFail = true ∨ sf = true) :
    (signAtt s c a d f sf).2.root = none := by
  unfold signAtt
  split
  · rfl
  · split
    · rfl
    · rename_i acct _
      have hv : (onAttest s.db acct.pubkey d.req f).1 = .approved →
          ¬ (f.fetchFail.contains 0 = true ∨ f.storeFail = true) := by
        unfold onAttest
        intro hv hf
        split at hv
        · cases hv
        · rename_i st hfe
          rcases hf with hf | hf
          · rw [hf] at hfe; simp [fetchAtt] at hfe
          · split at hv
            · simp [storeOne, hf] at hv
            · rename_i v0 st0 hne hq; exact absurd hv hne
      rcases hon : onAttest s.db acct.pubkey d.req f with ⟨v, db'⟩
      rw [hon] at hv
      simp only at hv ⊢
      split
      · have := hv rfl
        split
        · rfl
        · split
          · rfl
          · rcases h with h | h | h
            · exact absurd (Or.inl h) this
            · exact absurd (Or.inr h) this
            · simp_all
      · rfl

/-- **C06 (faults close the path, proposal).** -/
theorem C06_prop_fault (s : Inst) (c : String) (a : Addr) (d : PropData) (f : Faults) (sf : Bool)
    (h : f.fetchFail.contains 0 = true ∨ f.storeFail = true ∨ sf = true) :
    (signProp s c a d f sf).2.root = none := by
  unfold signProp
  split
  · rfl
  · split
    · rfl
    · rename_i acct _
      have hv : (onPropose s.db acct.pubkey { domain := d.domain.getD [], slot := d.slot } f).1 = .approved →
          ¬ (f.fetchFail.contains 0 = true ∨ f.storeFail = true) := by
        unfold onPropose
        intro hv hf
        repeat' split at hv
        all_goals try cases hv
        rename_i st hfe _
        rcases hf with hf | hf
        · rw [hf] at hfe; simp [fetchProp] at hfe
        · simp [storeOne, hf] at hv
      rcases hon : onPropose s.db acct.pubkey { domain := d.domain.getD [], slot := d.slot } f with ⟨v, db'⟩
      rw [hon] at hv
      simp only at hv ⊢
      split
      · have := hv rfl
        split
        · rfl
        · split
          · rfl
          · rcases h with h | h | h
            · exact absurd (Or.inl h) this
            · exact absurd (Or.inr h) this
            · simp_all
      · rfl

/-- **C06 (a failing batch write fails every position).** -/
theorem C06_batch_store_fault {α : Type} (req : α → AttReq) (db : Db) (items : List (Bytes × α)) (f : Faults)
    (h : f.storeFail = true) : (onAttestBatch req db items f).1 = none := by
  unfold onAttestBatch
  split
  · rfl
  · simp only [storeMany, h]
    split <;> simp

/-- **C06 (a failing read anywhere in a batch fails every position).** -/
theorem C06_batch_fetch_fault {α : Type} (req : α → AttReq) (db : Db) (f : Faults) :
    ∀ (items : List (Bytes × α)) (i j : Nat), j < items.length → f.fetchFail.contains (i + j) = true →
      evalBatch req db f i items = none := by
  intro items
  induction items with
  | nil => intro i j hj; simp at hj
  | cons it rest ih =>
    intro i j hj hf
    obtain ⟨pk, a⟩ := it
    simp only [evalBatch]
    cases j with
    | zero => simp at hf; simp [fetchAtt, hf]
    | succ j =>
      split
      · rfl
      · have := ih (i + 1) j (by simpa using hj) (by rw [show i + 1 + j = i + (j + 1) by omega]; exact hf)
        simp [this]

theorem okItems_length {α : Type} : ∀ (pcs : List (Except Res α)), pcs.any isErr = false →
    (okItems pcs).length = pcs.length := by
  intro pcs
  induction pcs with
  | nil => intro _; rfl
  | cons p rest ih =>
    intro h
    simp only [List.any_cons, Bool.or_eq_false_iff] at h
    cases p with
    | error r => simp [isErr] at h
    | ok a =>
      have := ih h.2
      simp only [okItems] at this ⊢
      simp [this]

theorem signEvs_length (sf : List Nat) : ∀ (evs : List (Bytes × AttData × Verdict)) (i : Nat),
    (signEvs sf i evs).length = evs.length := by
  intro evs
  induction evs with
  | nil => intro i; rfl
  | cons e rest ih => intro i; obtain ⟨k, d, v⟩ := e; simp [signEvs, ih]

theorem signGenerics_length (adminIPs : List String) (ip : String) (sf : List Nat) :
    ∀ (keyed : List (Bytes × SignData)) (i : Nat), (signGenerics adminIPs ip sf i keyed).length = keyed.length := by
  intro keyed
  induction keyed with
  | nil => intro i; rfl
  | cons e rest ih => intro i; obtain ⟨k, d⟩ := e; simp [signGenerics, ih]

theorem rulesKeyed_length {db : Db} {keyed : List (Bytes × AttData)} {f : Faults}
    {evs : List (Bytes × AttData × Verdict)} (h : (rulesKeyed db keyed f).1 = some evs) :
    evs.length = keyed.length := by
  unfold rulesKeyed at h
  split at h
  · simp only at h; injection h with h; subst h; rfl
  · unfold onAttestBatch at h
    split at h
    · cases h
    · rename_i evs0 hev
      obtain ⟨hk, _⟩ := evalBatch_spec AttData.req db f keyed 0 evs0 hev
      simp only at h
      split at h
      · injection h with h; subst h
        have := congrArg List.length hk
        simpa using this
      · cases h

/-- **C06 (shape, batch attestations).** One response position per request; exactly one for an
    empty request. -/
theorem C06_shape_atts (s : Inst) (c : String) (items : List (Addr × AttData)) (f : Faults) (sf : List Nat) :
    (signAtts s c items f sf).2.length = max 1 items.length := by
  unfold signAtts
  simp only
  split
  · rename_i h0; simp [h0]
  · rename_i h0
    have hmax : max 1 items.length = items.length := by omega
    rw [hmax]
    split
    · simp
    · split
      · simp [preCheckPositions, preCheckAll]
      · rename_i hne
        have hlen : (okItems (preCheckAll s.cfg c opAttest items f.lockStateFail)).length = items.length := by
          rw [okItems_length _ (by simpa using hne)]; simp [preCheckAll]
        split
        · simp
        · unfold attestKeyed finishKeyed
          split
          · simp [hlen]
          · rename_i evs hev
            simp [signEvs_length, rulesKeyed_length hev, hlen]

/-- **C06 (shape, multisign).** -/
theorem C06_shape_msign (s : Inst) (c ip : String) (items : List (Addr × SignData)) (sf : List Nat) (lf : Bool) :
    (multisign s c ip items sf lf).2.length = max 1 items.length := by
  unfold multisign
  simp only
  split
  · rename_i h0; simp [h0]
  · rename_i h0
    have hmax : max 1 items.length = items.length := by omega
    rw [hmax]
    split
    · simp
    · split
      · simp [preCheckPositions, preCheckAll]
      · rename_i hne
        have hlen : (okItems (preCheckAll s.cfg c opSign items lf)).length = items.length := by
          rw [okItems_length _ (by simpa using hne)]; simp [preCheckAll]
        split
        · simp
        · simp [signGenerics_length, hlen]

/-! ## The lock-state fault

`lockStateFail`: every account fetched for the request answers `IsUnlocked()` with an error.  In the Go,
`unlockAccount` turns that error into FAILED, `preCheck` returns it, and
* the single endpoints return `(checkRes, nil)` right there — before the ruler is called;
* `SignBeaconAttestations` / `Multisign` pre-check EVERY entry (an entry that fails gets its own pre-check
  result, one that passes stays UNKNOWN), and if any entry's result is neither UNKNOWN nor SUCCEEDED they
  return `(results, nil)` — before `RunRules`.  Under this fault no entry passes, so every entry carries its
  own pre-check result: DENIED if the account does not resolve or the permission check refuses it (both come
  before the lock state is asked), FAILED otherwise — also for an account whose passphrase is unknown.
The rules are never consulted, nothing is signed, nothing is written. -/

/-- the complete outcome of `SignBeaconAttestation` under the fault -/
theorem signAtt_lock_state_fault (s : Inst) (c : String) (a : Addr) (d : AttData) (f : Faults) (sf : Bool)
    (h : f.lockStateFail = true) :
    signAtt s c a d f sf =
      (s, ⟨if d.wellFormed then lockFaultRes s.cfg c a opAttest else .denied, none⟩) := by
  unfold signAtt
  rw [h, preCheck_lock_state_fault]
  cases d.wellFormed <;> simp

theorem signProp_lock_state_fault (s : Inst) (c : String) (a : Addr) (d : PropData) (f : Faults) (sf : Bool)
    (h : f.lockStateFail = true) :
    signProp s c a d f sf =
      (s, ⟨if d.wellFormed then lockFaultRes s.cfg c a opPropose else .denied, none⟩) := by
  unfold signProp
  rw [h, preCheck_lock_state_fault]
  cases d.wellFormed <;> simp

theorem signGeneric_lock_state_fault (s : Inst) (c ip : String) (a : Addr) (d : SignData) (sf : Bool) :
    signGeneric s c ip a d sf true =
      (s, ⟨if d.wellFormed then lockFaultRes s.cfg c a opSign else .denied, none⟩) := by
  unfold signGeneric
  rw [preCheck_lock_state_fault]
  cases d.wellFormed <;> simp

/-- the complete outcome of `SignBeaconAttestations` under the fault: the state is untouched and the response
    depends on nothing but the request, the accounts and the permissions — not on the store, the other faults
    or the signing faults (the rules are not consulted) -/
theorem signAtts_lock_state_fault (s : Inst) (c : String) (items : List (Addr × AttData)) (f : Faults)
    (sf : List Nat) (h : f.lockStateFail = true) :
    signAtts s c items f sf =
      (s, if items.length = 0 then [⟨.denied, none⟩] else
          match firstMalformed (items.map (·.2)) with
          | some i => (List.range items.length).map (fun j => if j = i then ⟨.denied, none⟩ else ⟨.unknown, none⟩)
          | none => items.map (fun it => ⟨lockFaultRes s.cfg c it.1 opAttest, none⟩)) := by
  unfold signAtts
  simp only [h]
  split
  · rfl
  · rename_i h0
    cases firstMalformed (items.map (·.2)) with
    | some i => rfl
    | none =>
      simp only
      rw [if_pos (preCheckAll_lock_state_fault_any _ _ _ _ (by intro hn; subst hn; exact h0 rfl))]
      rw [preCheckAll_lock_state_fault]
      simp [preCheckPositions]

theorem multisign_lock_state_fault (s : Inst) (c ip : String) (items : List (Addr × SignData)) (sf : List Nat) :
    multisign s c ip items sf true =
      (s, if items.length = 0 then [⟨.denied, none⟩] else
          match (items.map (·.2)).findIdx? (fun d => !d.wellFormed) with
          | some i => (List.range items.length).map (fun j => if j = i then ⟨.denied, none⟩ else ⟨.unknown, none⟩)
          | none => items.map (fun it => ⟨lockFaultRes s.cfg c it.1 opSign, none⟩)) := by
  unfold multisign
  simp only
  split
  · rfl
  · rename_i h0
    cases (items.map (·.2)).findIdx? (fun d => !d.wellFormed) with
    | some i => rfl
    | none =>
      simp only
      rw [if_pos (preCheckAll_lock_state_fault_any _ _ _ _ (by intro hn; subst hn; exact h0 rfl))]
      rw [preCheckAll_lock_state_fault]
      simp [preCheckPositions]

/-- **C06 (lock-state fault, single attestation).** No signature, not SUCCEEDED, and the whole instance state
    (`db`, `attLog`, `propLog`, `signLog`, `cfg`) is what it was. -/
theorem C06_lock_state_fault_att (s : Inst) (c : String) (a : Addr) (d : AttData) (f : Faults) (sf : Bool)
    (h : f.lockStateFail = true) :
    (signAtt s c a d f sf).2.root = none ∧ (signAtt s c a d f sf).2.res ≠ .succeeded ∧
    (signAtt s c a d f sf).1 = s := by
  rw [signAtt_lock_state_fault s c a d f sf h]
  refine ⟨rfl, ?_, rfl⟩
  simp only
  split
  · exact lockFaultRes_ne_succeeded _ _ _ _
  · simp

/-- **C06 (lock-state fault, proposal).** -/
theorem C06_lock_state_fault_prop (s : Inst) (c : String) (a : Addr) (d : PropData) (f : Faults) (sf : Bool)
    (h : f.lockStateFail = true) :
    (signProp s c a d f sf).2.root = none ∧ (signProp s c a d f sf).2.res ≠ .succeeded ∧
    (signProp s c a d f sf).1 = s := by
  rw [signProp_lock_state_fault s c a d f sf h]
  refine ⟨rfl, ?_, rfl⟩
  simp only
  split
  · exact lockFaultRes_ne_succeeded _ _ _ _
  · simp

/-- **C06 (lock-state fault, generic).** -/
theorem C06_lock_state_fault_sign (s : Inst) (c ip : String) (a : Addr) (d : SignData) (sf : Bool) :
    (signGeneric s c ip a d sf true).2.root = none ∧ (signGeneric s c ip a d sf true).2.res ≠ .succeeded ∧
    (signGeneric s c ip a d sf true).1 = s := by
  rw [signGeneric_lock_state_fault s c ip a d sf]
  refine ⟨rfl, ?_, rfl⟩
  simp only
  split
  · exact lockFaultRes_ne_succeeded _ _ _ _
  · simp

/-- **C06 (lock-state fault, batch attestations).** For every item list (empty, malformed somewhere, any mix
    of unknown / forbidden / locked / good accounts, duplicates): NO position carries a signature or is
    SUCCEEDED, and the whole instance state is what it was. -/
theorem C06_lock_state_fault_atts (s : Inst) (c : String) (items : List (Addr × AttData)) (f : Faults)
    (sf : List Nat) (h : f.lockStateFail = true) :
    (∀ p ∈ (signAtts s c items f sf).2, p.root = none ∧ p.res ≠ .succeeded) ∧
    (signAtts s c items f sf).1 = s := by
  rw [signAtts_lock_state_fault s c items f sf h]
  refine ⟨?_, rfl⟩
  intro p hp
  simp only at hp
  split at hp
  · simp at hp; subst hp; simp
  · split at hp
    · obtain ⟨j, _, rfl⟩ := List.mem_map.mp hp
      split <;> simp
    · obtain ⟨it, _, rfl⟩ := List.mem_map.mp hp
      exact ⟨rfl, lockFaultRes_ne_succeeded _ _ _ _⟩

/-- **C06 (lock-state fault, multisign).** -/
theorem C06_lock_state_fault_msign (s : Inst) (c ip : String) (items : List (Addr × SignData)) (sf : List Nat) :
    (∀ p ∈ (multisign s c ip items sf true).2, p.root = none ∧ p.res ≠ .succeeded) ∧
    (multisign s c ip items sf true).1 = s := by
  rw [multisign_lock_state_fault s c ip items sf]
  refine ⟨?_, rfl⟩
  intro p hp
  simp only at hp
  split at hp
  · simp at hp; subst hp; simp
  · split at hp
    · obtain ⟨j, _, rfl⟩ := List.mem_map.mp hp
      split <;> simp
    · obtain ⟨it, _, rfl⟩ := List.mem_map.mp hp
      exact ⟨rfl, lockFaultRes_ne_succeeded _ _ _ _⟩

/-! ### the lock-state fault on a concrete configuration -/

namespace C06ex

def good : Account := { wallet := "w", name := "a", pubkey := List.replicate 48 7 }
/-- an account whose passphrase is not known to the unlocker -/
def locked : Account := { wallet := "w", name := "l", pubkey := List.replicate 48 8, unlockable := false }
def cfg : Config :=
  { accounts := [good, locked],
    access := [("c", [{ wallet := .star .any, account := .star .any, ops := ["All"] }])] }
def data : AttData :=
  { domain := some ([1, 0, 0, 0] ++ List.replicate 28 0), slot := 0, cidx := 0, bbr := some [], src := 1,
    srcRoot := some [], tgt := 2, tgtRoot := some [] }
def batch : List (Addr × AttData) := [({ name := "w/a" }, data), ({ name := "w/none" }, data), ({ name := "w/l" }, data)]

/-- without the fault: the good account passes, the locked one is DENIED … -/
example : preCheck cfg "c" { name := "w/a" } opAttest = .ok good := by decide
example : preCheck cfg "c" { name := "w/l" } opAttest = .error .denied := by decide
/-- … with it: both are FAILED (the error comes before any passphrase is tried); an unknown account and a
    client without permission stay DENIED (both are decided before the lock state is asked) -/
example : preCheck cfg "c" { name := "w/a" } opAttest true = .error .failed := by decide
example : preCheck cfg "c" { name := "w/l" } opAttest true = .error .failed := by decide
example : preCheck cfg "c" { name := "w/none" } opAttest true = .error .denied := by decide
example : preCheck cfg "other" { name := "w/a" } opAttest true = .error .denied := by decide

/-- a batch without the fault: the good position stays UNKNOWN, the others carry their own result … -/
example : (signAtts { cfg := cfg } "c" batch {}).2 = [⟨.unknown, none⟩, ⟨.denied, none⟩, ⟨.denied, none⟩] := by
  decide
/-- … and with it: every position carries its own pre-check result, none is UNKNOWN -/
example : (signAtts { cfg := cfg } "c" batch { lockStateFail := true }).2 =
    [⟨.failed, none⟩, ⟨.denied, none⟩, ⟨.failed, none⟩] := by
  rw [signAtts_lock_state_fault _ _ _ _ _ rfl]; decide

end C06ex

/-- non-vacuity: a concrete store fault turns an otherwise approved request into FAILED -/
example : (onAttest [] [7] ⟨domAttester, 1, 2⟩ { storeFail := true }).1 = .failed := by decide
example : (onAttest [] [7] ⟨domAttester, 1, 2⟩ { fetchFail := [0] }).1 = .failed := by decide

end Dirk
