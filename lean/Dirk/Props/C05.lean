/-
  C05 — Slashable message types can only be signed via the protected endpoints.

  Decision logic stated outright for the rule functions, lifted to the signer-level operations
  (every configuration, client, address, data, fault plan), and to every reachable instance state
  through the ghost logs of released signatures.
-/
import Dirk.Lemmas.Dom
import Dirk.Props.KernelsEq

namespace Dirk

/-- what a generic signature may be released for -/
def GenericAllowed (adminIPs : List String) (ip : String) (domain : Bytes) : Prop :=
  prefix4 domain ≠ domAttester ∧ prefix4 domain ≠ domProposer ∧
  (prefix4 domain = domExit → ip ≠ "" ∧ ip ∈ adminIPs)

theorem onSign_approved {adminIPs : List String} {ip : String} {domain : Bytes}
    (h : onSign adminIPs ip domain = .approved) : GenericAllowed adminIPs ip domain := by
  unfold onSign at h
  unfold GenericAllowed
  split at h
  · cases h
  · split at h
    · cases h
    · rename_i h1 h2
      refine ⟨h1, h2, ?_⟩
      intro he
      simp only [he, ↓reduceIte] at h
      split at h
      · cases h
      · rename_i hip
        split at h
        · rename_i hc
          exact ⟨hip, by simpa using hc⟩
        · cases h

/-- **C05 (generic, single).** `SignGeneric` never returns a signature under the attester or proposer
    domain types, and under the voluntary-exit type only for a listed, non-empty source address. -/
theorem C05_generic_single (s : Inst) (c ip : String) (a : Addr) (d : SignData) (sf lf : Bool)
    (h : (signGeneric s c ip a d sf lf).2.root ≠ none) :
    GenericAllowed s.cfg.adminIPs ip (d.domain.getD []) := by
  unfold signGeneric at h
  split at h
  · simp at h
  · split at h
    · simp at h
    · split at h
      · rename_i hv
        exact onSign_approved hv
      · simp at h

theorem signGenerics_allowed (adminIPs : List String) (ip : String) (sf : List Nat) :
    ∀ (keyed : List (Bytes × SignData)) (i : Nat),
      ∀ x ∈ (signGenerics adminIPs ip sf i keyed).filterMap (·.2),
        GenericAllowed adminIPs ip (x.2.domain.getD []) := by
  intro keyed
  induction keyed with
  | nil => intro i x hx; simp [signGenerics] at hx
  | cons e rest ih =>
    intro i x hx
    obtain ⟨k, d⟩ := e
    simp only [signGenerics, List.filterMap_cons] at hx
    split at hx
    · exact ih (i + 1) x hx
    · rename_i y hy
      rcases List.mem_cons.mp hx with rfl | hx
      · split at hy
        · rename_i hv
          split at hy
          · simp at hy
          · split at hy
            · simp at hy
            · simp at hy; subst hy; exact onSign_approved hv
        · simp at hy
      · exact ih (i + 1) x hx

/-- a position carries a signature exactly when an entry is released -/
theorem signGenerics_root_iff (adminIPs : List String) (ip : String) (sf : List Nat) :
    ∀ (keyed : List (Bytes × SignData)) (i : Nat),
      ∀ p ∈ signGenerics adminIPs ip sf i keyed, (p.1.root ≠ none ↔ p.2 ≠ none) := by
  intro keyed
  induction keyed with
  | nil => intro i p hp; simp [signGenerics] at hp
  | cons e rest ih =>
    intro i p hp
    obtain ⟨k, d⟩ := e
    simp only [signGenerics] at hp
    rcases List.mem_cons.mp hp with rfl | hp
    · repeat' split
      all_goals simp
    · exact ih (i + 1) p hp

/-- **C05 (generic, multi).** Every entry `Multisign` adds to the released log is allowed. -/
theorem C05_generic_multi (s : Inst) (c ip : String) (items : List (Addr × SignData)) (sf : List Nat) (lf : Bool) :
    ∀ e ∈ (multisign s c ip items sf lf).1.signLog,
      e ∈ s.signLog ∨ GenericAllowed s.cfg.adminIPs ip (e.2.domain.getD []) := by
  unfold multisign
  simp only
  repeat' split
  all_goals try (intro e he; exact Or.inl he)
  intro e he
  simp only at he
  rcases List.mem_append.mp he with h | h
  · exact Or.inl h
  · exact Or.inr (signGenerics_allowed _ _ _ _ _ e h)

/-- **C05 (attestation endpoint).** A request whose domain type is not beacon-attester gets no
    signature from `SignBeaconAttestation`, and the store is left exactly as it was. -/
theorem C05_attest_only_attester (s : Inst) (c : String) (a : Addr) (d : AttData) (f : Faults) (sf : Bool)
    (h : prefix4 (d.domain.getD []) ≠ domAttester) :
    (signAtt s c a d f sf).2.root = none ∧ (signAtt s c a d f sf).1.db = s.db := by
  unfold signAtt
  split
  · exact ⟨rfl, rfl⟩
  · split
    · exact ⟨rfl, rfl⟩
    · rename_i acct _
      have hden : onAttest s.db acct.pubkey d.req f = (.denied, s.db) ∨
          onAttest s.db acct.pubkey d.req f = (.failed, s.db) := by
        unfold onAttest
        split
        · right; rfl
        · left
          have : ∀ st, attChecks d.req st = (.denied, st) := by
            intro st; unfold attChecks; simp [AttData.req, h]
          rw [this]
      rcases hden with hd | hd <;> simp [hd, verdictRes]

/-- **C05 (proposal endpoint).** A request whose domain type is not beacon-proposer gets no signature
    from `SignBeaconProposal`, and the store is left exactly as it was. -/
theorem C05_propose_only_proposer (s : Inst) (c : String) (a : Addr) (d : PropData) (f : Faults) (sf : Bool)
    (h : prefix4 (d.domain.getD []) ≠ domProposer) :
    (signProp s c a d f sf).2.root = none ∧ (signProp s c a d f sf).1.db = s.db := by
  unfold signProp
  split
  · exact ⟨rfl, rfl⟩
  · split
    · exact ⟨rfl, rfl⟩
    · have : ∀ pk, onPropose s.db pk { domain := d.domain.getD [], slot := d.slot } f = (.denied, s.db) := by
        intro pk; unfold onPropose; simp [h]
      simp [this, verdictRes]

/-- **C05 (all histories).** In every reachable state, every released attestation signature carries
    the attester domain type and every released proposal signature the proposer domain type. -/
theorem C05_logs (cfg : Config) (db0 : Db) (ops : List Op) :
    (∀ e ∈ (run (init cfg db0) ops).attLog, prefix4 (e.2.domain.getD []) = domAttester) ∧
    (∀ e ∈ (run (init cfg db0) ops).propLog, prefix4 (e.2.domain.getD []) = domProposer) :=
  let h := run_domInv ops (init cfg db0) ⟨by simp [init], by simp [init]⟩
  ⟨h.att, h.prop⟩

/-- non-vacuity: the generic rule does approve ordinary domains and listed exits -/
example : onSign ["10.0.0.1"] "" ([2, 0, 0, 0] ++ List.replicate 28 0) = .approved := by decide
example : onSign ["10.0.0.1"] "10.0.0.1" ([4, 0, 0, 0] ++ List.replicate 28 0) = .approved := by decide
example : onSign ["10.0.0.1"] "10.0.0.2" ([4, 0, 0, 0] ++ List.replicate 28 0) = .denied := by decide
example : onSign [] "" ([1, 0, 0, 0] ++ List.replicate 28 0) = .denied := by decide

/-- **tie by translation.** The generic-signing rule the theorems above are about is, for all administrator
    lists, source addresses and domains, the function `factx` translates from the current Go source of `OnSign`. -/
theorem C05_kernel_is_source (adminIPs : List String) (ip : String) (domain : Bytes) :
    onSign adminIPs ip domain = Gen.onSignGen false adminIPs ip domain :=
  onSign_eq_gen adminIPs ip domain

/-- **C05 (each signing rule is reachable through exactly one action — the dispatch is the source).** In the ruler's per-entry
    path as it is in the source now (services/ruler/golang/runner.go, translated on every run: factx/dispatch.go) the generic
    signing action reaches `OnSign` and nothing else, the proposal action `OnSignBeaconProposal`, the attestation action
    `OnSignBeaconAttestation`; no two arms name one action; and no other action's arm calls a signing rule.  So a request that
    enters through a generic endpoint is judged by the generic rule (which refuses the attester and proposer domain types:
    `C05_generic_single` / `_multi`), whatever its data.  A verdict the rule leaves UNKNOWN, data of another type, a failing
    metadata assembly and an action no arm names all end FAILED. -/
theorem C05_dispatch_is_source :
    Gen.dispatchTableGen.lookup opSign = some ("*rules.SignData", "OnSign") ∧
    Gen.dispatchTableGen.lookup opPropose = some ("*rules.SignBeaconProposalData", "OnSignBeaconProposal") ∧
    Gen.dispatchTableGen.lookup opAttest = some ("*rules.SignBeaconAttestationData", "OnSignBeaconAttestation") ∧
    (Gen.dispatchTableGen.map (·.1)).Nodup ∧
    (∀ e ∈ Gen.dispatchTableGen, e.1 ≠ opSign → e.1 ≠ opPropose → e.1 ≠ opAttest → e.2.2 ∉ signingRules) ∧
    (∀ (k : Nat), k < Gen.dispatchTableGen.length → ∀ v : Verdict,
      Gen.dispatchEntryGen false false (some k) true (verdictCode v) = verdictCode (if v = .unknown then .failed else v)) :=
  ⟨dispatch_signing_actions.1, dispatch_signing_actions.2.1, dispatch_signing_actions.2.2.1, dispatch_signing_actions.2.2.2.1,
   dispatch_signing_actions.2.2.2.2.2, fun k hk v => dispatchEntry_eq_model k hk v⟩

end Dirk
