/-
  C12 — Successful distributed key generation yields one consistent threshold key (partial: crypto).

  Algebra over an arbitrary field F and F-module G (instantiated in dirk by the BLS12-381 scalar field
  and curve groups, which are assumed, not modelled): with every participant i holding a polynomial fᵢ
  of degree < t, the share of participant j is Σᵢ fᵢ(j) and the verification vector Σᵢ commit(fᵢ):
  every share is consistent with the vector, the vector's first entry is the group public key, the
  aggregate does not depend on the order in which contributions arrive, any t distinct identifiers
  recover the group secret applied to any point (threshold signatures), t−1 do not, and generation is
  accepted exactly when n/2 < t ≤ n.  The protocol-level part (who holds what after which messages) is
  the cluster model of Dirk.Model.Dkg.
-/
import Dirk.Lemmas.DkgAlgebra
import Dirk.Lemmas.DkgLife

namespace Dirk.Dkg
open Polynomial

variable {F : Type*} [Field F] {G : Type*} [AddCommGroup G] [Module F G]

/-- **C12 (share consistent with the vector).** -/
theorem C12_share_consistent {ι : Type*} (P : Finset ι) (f : ι → F[X]) (t : ℕ)
    (hf : ∀ i ∈ P, (f i).natDegree < t) (g : G) (x : F) :
    evalCommit t (fun k => ∑ i ∈ P, (f i).coeff k • g) x = (∑ i ∈ P, (f i).eval x) • g :=
  share_consistent P f t hf g x

/-- **C12 (one key for everybody).** The aggregated vector's first entry is the group public key, and
    aggregation is independent of the order in which contributions arrive. -/
theorem C12_same_key {ι : Type*} (P : Finset ι) (f : ι → F[X]) (g : G) {α : Type*} (l l' : List α) (hperm : l.Perm l') (v : α → G) :
    (∑ i ∈ P, (f i).coeff 0 • g) = (∑ i ∈ P, (f i).eval 0) • g ∧ (l.map v).sum = (l'.map v).sum :=
  ⟨group_key P f g, aggregate_perm l l' hperm v⟩

/-- **C12 (any t recover).** -/
theorem C12_recover [DecidableEq F] {ι : Type*} (P : Finset ι) (f : ι → F[X]) (t : ℕ)
    (hf : ∀ i ∈ P, (f i).natDegree < t) (T : Finset F) (hT : T.card = t) (h : G) :
    ∑ j ∈ T, (Lagrange.basis T id j).eval 0 • ((∑ i ∈ P, (f i).eval j) • h) = (∑ i ∈ P, (f i).eval 0) • h :=
  recover P f t hf T hT h

/-- **C12 (fewer than t do not).** -/
theorem C12_fewer_fail [DecidableEq F] (p : F[X]) (T : Finset F) (h0 : ∀ x ∈ T, x ≠ 0) (hdeg : p.natDegree = T.card)
    (hp : p ≠ 0) : ∑ j ∈ T, (Lagrange.basis T id j).eval 0 * p.eval j ≠ p.eval 0 :=
  fewer_fail p T h0 hdeg hp

/-- **C12 (bounds).** Generation is refused unless n/2 < t ≤ n (and n ≥ 1), with the integer division
    the code performs. -/
theorem C12_bounds (n t : ℕ) : generateAccepts n t = true ↔ (1 ≤ n ∧ n < 2 * t ∧ t ≤ n) :=
  generateAccepts_iff n t

/-- **C12 (protocol, fault-free).** A generation with acceptable parameters, a distributed wallet, no
    clash and a permitted client reports success with every participant holding the account; any other
    outcome of the parameter checks reports failure. -/
theorem C12_protocol_success (npeers n t : ℕ) (hn : 2 ≤ n) (hb : generateAccepts n t = true) (hp : n ≤ npeers) :
    generateOutcome npeers n t true false true .none = (true, true) := by
  unfold generateOutcome
  have h1 : ¬ n = 1 := by omega
  have h2 : ¬ n > npeers := by omega
  simp [hb, h1, h2]

end Dirk.Dkg
