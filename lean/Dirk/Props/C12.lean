/-
  C12 — Successful distributed key generation yields one consistent threshold key (partial: crypto).

  Algebra over an arbitrary field F and F-module G (instantiated in dirk by the BLS12-381 scalar field
  and curve groups, which are assumed, not modelled): with every participant i holding a polynomial fᵢ
  of degree < t, the share of participant j is Σᵢ fᵢ(j) and the verification vector Σᵢ commit(fᵢ):
  every share is consistent with the vector, the vector's first entry is the group public key, the
  aggregate does not depend on the order in which contributions arrive, any t distinct identifiers
  recover the group secret applied to any point (threshold signatures), t−1 do not, and generation is
  accepted exactly when n/2 < t ≤ n.  The protocol-level part (who holds what after which messages) is
  the cluster model of Dirk.Model.Dkg.
-/
import Dirk.Lemmas.DkgAlgebra
import Dirk.Lemmas.DkgLife
import Dirk.Lemmas.DkgSuccess
import Dirk.Props.KernelsEq

namespace Dirk.Dkg
open Polynomial

variable {F : Type*} [Field F] {G : Type*} [AddCommGroup G] [Module F G]

/-- **C12 (share consistent with the vector).** -/
theorem C12_share_consistent {ι : Type*} (P : Finset ι) (f : ι → F[X]) (t : ℕ)
    (hf : ∀ i ∈ P, (f i).natDegree < t) (g : G) (x : F) :
    evalCommit t (fun k => ∑ i ∈ P, (f i).coeff k • g) x = (∑ i ∈ P, (f i).eval x) • g :=
  share_consistent P f t hf g x

/-- **C12 (one key for everybody).** The aggregated vector's first entry is the group public key, and
    aggregation is independent of the order in which contributions arrive. -/
theorem C12_same_key {ι : Type*} (P : Finset ι) (f : ι → F[X]) (g : G) {α : Type*} (l l' : List α) (hperm : l.Perm l') (v : α → G) :
    (∑ i ∈ P, (f i).coeff 0 • g) = (∑ i ∈ P, (f i).eval 0) • g ∧ (l.map v).sum = (l'.map v).sum :=
  ⟨group_key P f g, aggregate_perm l l' hperm v⟩

/-- **C12 (any t recover).** -/
theorem C12_recover [DecidableEq F] {ι : Type*} (P : Finset ι) (f : ι → F[X]) (t : ℕ)
    (hf : ∀ i ∈ P, (f i).natDegree < t) (T : Finset F) (hT : T.card = t) (h : G) :
    ∑ j ∈ T, (Lagrange.basis T id j).eval 0 • ((∑ i ∈ P, (f i).eval j) • h) = (∑ i ∈ P, (f i).eval 0) • h :=
  recover P f t hf T hT h

/-- **C12 (fewer than t do not).** -/
theorem C12_fewer_fail [DecidableEq F] (p : F[X]) (T : Finset F) (h0 : ∀ x ∈ T, x ≠ 0) (hdeg : p.natDegree = T.card)
    (hp : p ≠ 0) : ∑ j ∈ T, (Lagrange.basis T id j).eval 0 * p.eval j ≠ p.eval 0 :=
  fewer_fail p T h0 hdeg hp

/-- **C12 (bounds).** Generation is refused unless n/2 < t ≤ n (and n ≥ 1), with the integer division
    the code performs. -/
theorem C12_bounds (n t : ℕ) : generateAccepts n t = true ↔ (1 ≤ n ∧ n < 2 * t ∧ t ≤ n) :=
  generateAccepts_iff n t

/-- **C12 (protocol, fault-free).** A generation with acceptable parameters, a distributed wallet, no
    clash and a permitted client reports success with every participant holding the account; any other
    outcome of the parameter checks reports failure. -/
theorem C12_protocol_success (npeers n t : ℕ) (hn : 2 ≤ n) (hb : generateAccepts n t = true) (hp : n ≤ npeers) :
    generateOutcome npeers n t true false true .none = (true, true) := by
  unfold generateOutcome
  have h1 : ¬ n = 1 := by omega
  have h2 : ¬ n > npeers := by omega
  simp [hb, h1, h2]

/-- **C12 (protocol, message level, fault-free).** On a fresh cluster whose instances are the
    participants (distinct non-zero ids, all configured peers), for an account name in a distributed
    wallet and ANY threshold: every `Prepare` is accepted; the `Execute`s, in ANY order, are all accepted
    and leave every participant holding a contribution from every participant; every `Commit` is then
    accepted, and afterwards every participant holds the account and no generation for it remains.
    (What the contributions are worth — that the shares are consistent, any `t` recover the key and fewer
    cannot — is `C12_share_consistent` / `C12_recover` / `C12_fewer_fail` over an arbitrary field.) -/
theorem C12_generation_succeeds (parts peers order : List Nat) (timeout now : Nat) (acct : String)
    (t init : Nat) (hnd : parts.Nodup) (hnz : ∀ i ∈ parts, i ≠ 0) (hpeers : ∀ i ∈ parts, i ∈ peers)
    (hlen : 2 ≤ parts.length) (hdw : distributedWallet acct = true) (hinit : init ∈ parts)
    (horder : order.Perm parts) :
    let c0 := freshCluster parts peers timeout now
    let p := prepareAll c0 init acct t parts parts
    let e := executeAll p.1 init acct order
    let m := commitAll e.1 init acct parts
    p.2 = List.replicate parts.length Reply.ok ∧
    e.2 = List.replicate parts.length Reply.ok ∧
    m.2 = List.replicate parts.length Reply.ok ∧
    ∀ i ∈ parts, ∃ x, getInst m.1 i = some x ∧ acct ∈ x.accounts ∧ x.sessions.lookup acct = none := by
  have h := generation_succeeds_fresh parts peers order timeout now acct t init hnd hnz hpeers hlen hdw hinit horder
  exact ⟨h.1, h.2.1, h.2.2.2.1, h.2.2.2.2⟩

/-- **tie by translation.** The parameter check `C12_bounds` is about is the function translated on every run from
    the three guards at the top of `OnGenerate` (services/process/standard/generate.go), uint32 division included. -/
theorem C12_kernel_is_source (n t : Nat) : generateAccepts n t = Dirk.Gen.generateAcceptsGen n t :=
  Dirk.generateAccepts_eq_gen n t

end Dirk.Dkg
