/-
  Obligations on the regenerated facts that C19 instantiates its theorem with.  `lake build` re-checks
  them against what /repo's source says now.
-/
import Dirk.Gen.Facts
import Dirk.Model.Transport

namespace Dirk

theorem facts_tls_clientAuth : Gen.tlsClientAuth = some "tls.RequireAndVerifyClientCert" := by decide
theorem facts_tls_minVersion : Gen.tlsMinVersion = some "tls.VersionTLS13" := by decide
theorem facts_tls_clientCAs : Gen.tlsClientCAsSet = true := by decide
/-- fields a server tls.Config may be given without weakening client authentication (anything else — session-ticket keys,
    GetConfigForClient, VerifyPeerCertificate, InsecureSkipVerify, MaxVersion, … — needs review) -/
def reviewedTlsFields : List String := ["Certificates", "ClientAuth", "ClientCAs", "MinVersion", "NextProtos", "CipherSuites", "CurvePreferences"]
/-- the server's tls.Config is given reviewed fields only, and no method is called on it (e.g. SetSessionTicketKeys) -/
theorem facts_tls_fields : Gen.tlsConfigFields.all (fun f => reviewedTlsFields.contains f) = true ∧ Gen.tlsConfigCalls = [] := by decide
theorem facts_tls_creds : Gen.grpcCredsInstalled = true ∧ Gen.grpcNewServerCalls = 1 ∧ Gen.otherGrpcServers = [] := by decide
theorem facts_services : Gen.registeredServices = ["WalletManager", "AccountManager", "Lister", "Signer", "DKG"] := by decide
theorem facts_interceptor : "interceptors.ClientInfoInterceptor" ∈ Gen.interceptorChain := by decide
theorem facts_clientName : Gen.clientNameExpr = some "peerCert.Subject.CommonName" ∧
    Gen.clientCertSource = some "peerCerts := authState.PeerCertificates; peerCert := peerCerts[0]" := by decide

/-- the server configuration the regenerated facts describe -/
def serverCfg : Transport.ServerCfg :=
  { clientAuth := Gen.tlsClientAuth.getD "", credsInstalled := Gen.grpcCredsInstalled, clientCAs := Gen.tlsClientCAsSet }

end Dirk
