/-
  Obligations on the regenerated facts that C19 instantiates its theorem with.  `lake build` re-checks
  them against what /repo's source says now.
-/
import Dirk.Gen.Facts
import Dirk.Model.Transport

namespace Dirk

theorem facts_tls_clientAuth : Gen.tlsClientAuth = some "tls.RequireAndVerifyClientCert" := by decide
theorem facts_tls_minVersion : Gen.tlsMinVersion = some "tls.VersionTLS13" := by decide
theorem facts_tls_clientCAs : Gen.tlsClientCAsSet = true := by decide
theorem facts_tls_creds : Gen.grpcCredsInstalled = true ∧ Gen.grpcNewServerCalls = 1 ∧ Gen.otherGrpcServers = [] := by decide
theorem facts_services : Gen.registeredServices = ["WalletManager", "AccountManager", "Lister", "Signer", "DKG"] := by decide
theorem facts_interceptor : "interceptors.ClientInfoInterceptor" ∈ Gen.interceptorChain := by decide
theorem facts_clientName : Gen.clientNameExpr = some "peerCert.Subject.CommonName" ∧
    Gen.clientCertSource = some "peerCerts := authState.PeerCertificates; peerCert := peerCerts[0]" := by decide

/-- the server configuration the regenerated facts describe -/
def serverCfg : Transport.ServerCfg :=
  { clientAuth := Gen.tlsClientAuth.getD "", credsInstalled := Gen.grpcCredsInstalled, clientCAs := Gen.tlsClientCAsSet }

end Dirk
