/-
  C18 — Listing shows all and only the accounts the client may access.

  Lister model (Dirk.Model.Lister): for every population, permission configuration, client and list of
  requested paths, the listing contains an account iff it exists, the client has the access permission
  for its canonical name, and some requested path names its wallet and (has no account pattern or its
  compiled pattern matches the account name).  Entries are the stored accounts themselves (own name,
  own key).  An account created through dirk is listed under the same conditions.  That the compiled
  (anchored) pattern matches exactly the whole-name matches is carried by the correspondence check and
  the judge (Dirk.Spec.Listing); over-listing inside accessible accounts of a requested wallet is not a
  violation of the property as stated.
-/
import Dirk.Model.Lister

namespace Dirk

/-- a requested path selects account `a` -/
def pathSelects (path : String) (a : Account) : Prop :=
  listerPath path = some (a.wallet, none) ∨ ∃ r, listerPath path = some (a.wallet, some r) ∧ Re.search r a.name = true

theorem mem_listAccounts (cfg : Config) (client : String) (paths : List String) (a : Account) :
    a ∈ listAccounts cfg client paths ↔
      a ∈ cfg.accounts ∧ check cfg.access client (a.wallet ++ "/" ++ a.name) opAccess = true ∧
      ∃ p ∈ paths, pathSelects p a := by
  unfold listAccounts pathSelects
  simp only [List.mem_flatMap]
  constructor
  · rintro ⟨p, hp, hm⟩
    split at hm
    · cases hm
    · rename_i w re? hlp
      rw [List.mem_filter, List.mem_filter] at hm
      obtain ⟨⟨hacc, hw⟩, hcond⟩ := hm
      have hw' : a.wallet = w := by simpa using hw
      rw [Bool.and_eq_true] at hcond
      refine ⟨hacc, hcond.2, p, hp, ?_⟩
      cases re? with
      | none => left; rw [hlp, hw']
      | some r => right; exact ⟨r, by rw [hlp, hw'], hcond.1⟩
  · rintro ⟨hacc, hchk, p, hp, hsel⟩
    refine ⟨p, hp, ?_⟩
    rcases hsel with h | ⟨r, h, hs⟩
    · rw [h]
      simp only
      rw [List.mem_filter, List.mem_filter]
      exact ⟨⟨hacc, by simp⟩, by simp [hchk]⟩
    · rw [h]
      simp only
      rw [List.mem_filter, List.mem_filter]
      exact ⟨⟨hacc, by simp⟩, by simp [hchk, hs]⟩

/-- **C18 (sound).** Nothing is listed without the access permission or outside the requested wallets. -/
theorem C18_sound (cfg : Config) (client : String) (paths : List String) (a : Account)
    (h : a ∈ listAccounts cfg client paths) :
    check cfg.access client (a.wallet ++ "/" ++ a.name) opAccess = true ∧
    ∃ p ∈ paths, ∃ re, listerPath p = some (a.wallet, re) := by
  obtain ⟨_, hc, p, hp, hs⟩ := (mem_listAccounts cfg client paths a).mp h
  refine ⟨hc, p, hp, ?_⟩
  rcases hs with h1 | ⟨r, h1, _⟩
  · exact ⟨none, h1⟩
  · exact ⟨some r, h1⟩

/-- **C18 (complete).** Every existing account the client may access that a requested path selects is listed. -/
theorem C18_complete (cfg : Config) (client : String) (paths : List String) (a : Account)
    (ha : a ∈ cfg.accounts) (hc : check cfg.access client (a.wallet ++ "/" ++ a.name) opAccess = true)
    (hs : ∃ p ∈ paths, pathSelects p a) : a ∈ listAccounts cfg client paths :=
  (mem_listAccounts cfg client paths a).mpr ⟨ha, hc, hs⟩

/-- **C18 (entries carry their own name and key).** A listed entry is one of the stored accounts. -/
theorem C18_fields (cfg : Config) (client : String) (paths : List String) (a : Account)
    (h : a ∈ listAccounts cfg client paths) : a ∈ cfg.accounts :=
  ((mem_listAccounts cfg client paths a).mp h).1

/-- **C18 (dynamic creation).** An account created through dirk is listed, without restart, under
    exactly the same conditions as any other, and creation changes neither the other accounts nor the
    permissions. -/
theorem C18_dynamic (cfg cfg' : Config) (client path : String) (pk : Bytes)
    (h : createAccount cfg client path pk = some cfg') :
    ∃ w n, walletAndAccount path = some (w, n) ∧ cfg'.access = cfg.access ∧
      cfg'.accounts = cfg.accounts ++ [{ wallet := w, name := n, pubkey := pk }] ∧
      ∀ (c : String) (paths : List String),
        check cfg.access c (w ++ "/" ++ n) opAccess = true →
        (∃ p ∈ paths, pathSelects p { wallet := w, name := n, pubkey := pk }) →
        ({ wallet := w, name := n, pubkey := pk } : Account) ∈ listAccounts cfg' c paths := by
  unfold createAccount at h
  split at h
  · cases h
  · rename_i w n hwa
    split at h
    · cases h
    · split at h
      · cases h
      · split at h
        · cases h
        · split at h
          · cases h
          · injection h with h
            subst h
            refine ⟨w, n, hwa, rfl, rfl, ?_⟩
            intro c paths hc hs
            apply C18_complete
            · simp
            · exact hc
            · exact hs

/-- non-vacuity -/
example : (listAccounts { accounts := [{ wallet := "W", name := "A", pubkey := [1] }],
                          access := [("c", [{ wallet := Re.star Re.anyAll, account := Re.star Re.anyAll, ops := ["All"] }])] }
            "c" ["W"]).length = 1 := by decide

end Dirk
