/-
  C08 — Every signature is valid for exactly the requested data and account (partial: crypto).

  Proved about the model: (1) in a batch, the root signed at response position i is the signing root
  of request i's own data, the rules call preserves the order and payload of the requests, and there
  is one response per request (C06_shape_*); (2) what is handed to the signing call of the single
  endpoints is the signing root of exactly the submitted data, under the key of the account the
  request resolved to; (3) the SSZ chunks of well-formed attestation data / block headers determine
  the data (injectivity below the hash).  Assumed: SHA-256 collision resistance and the BLS
  library; that the model's SHA-256/SSZ equal the implementation's is established on every run by
  having the real BLS library verify the real signatures against the model's roots.
-/
import Dirk.Lemmas.Run
import Dirk.Lemmas.PreCheck

set_option linter.unusedSimpArgs false

namespace Dirk

/-- the rules call keeps the requests in order with their own payloads -/
theorem evalBatch_payload {α : Type} (req : α → AttReq) (db : Db) (f : Faults) :
    ∀ (items : List (Bytes × α)) (i : Nat) (evs : List (Bytes × α × Verdict × AttState)),
      evalBatch req db f i items = some evs → evs.map (fun e => (e.1, e.2.1)) = items := by
  intro items
  induction items with
  | nil => intro i evs h; simp [evalBatch] at h; subst h; rfl
  | cons it rest ih =>
    intro i evs h
    obtain ⟨pk, a⟩ := it
    simp only [evalBatch] at h
    split at h
    · cases h
    · split at h
      · cases h
      · rename_i l hl
        injection h with h; subst h
        simp [ih (i + 1) l hl]

theorem rulesKeyed_payload {db : Db} {keyed : List (Bytes × AttData)} {f : Faults}
    {evs : List (Bytes × AttData × Verdict)} (h : (rulesKeyed db keyed f).1 = some evs) :
    evs.map (fun e => (e.1, e.2.1)) = keyed := by
  unfold rulesKeyed at h
  split at h
  · simp only at h; injection h with h; subst h; rfl
  · unfold onAttestBatch at h
    split at h
    · cases h
    · rename_i evs0 hev
      simp only at h
      split at h
      · injection h with h; subst h
        have := evalBatch_payload AttData.req db f keyed 0 evs0 hev
        simpa [List.map_map, Function.comp_def] using this
      · cases h

/-- position by position: a response position that carries a root carries the signing root of the
    request at the same position -/
theorem signEvs_pointwise (sf : List Nat) : ∀ (evs : List (Bytes × AttData × Verdict)) (i : Nat),
    ∀ p ∈ List.zip evs ((signEvs sf i evs).map (·.1)), p.2.root ≠ none → p.2.root = p.1.2.1.signingRoot := by
  intro evs
  induction evs with
  | nil => intro i p hp; simp [signEvs] at hp
  | cons e rest ih =>
    intro i p hp hr
    obtain ⟨k, d, v⟩ := e
    simp only [signEvs, List.map_cons, List.zip_cons_cons] at hp
    rcases List.mem_cons.mp hp with rfl | hp
    · simp only at hr ⊢
      cases v <;> simp [verdictRes] at hr ⊢
      split at hr
      · simp at hr
      · rename_i root hroot
        split at hr
        · simp at hr
        · simp [hroot]
          split <;> simp_all
    · exact ih (i + 1) p hp hr

/-- **C08 (batch alignment).** In `SignBeaconAttestations`, once accounts are resolved: the
    response positions are aligned with the requests — position i's root, if any, is the signing root
    of request i's data — and the verdicts come from a rules call that saw the requests in order. -/
theorem C08_batch_pointwise (s : Inst) (keyed : List (Bytes × AttData)) (f : Faults) (sf : List Nat)
    (evs : List (Bytes × AttData × Verdict)) (h : (rulesKeyed s.db keyed f).1 = some evs) :
    evs.map (fun e => (e.1, e.2.1)) = keyed ∧
    (attestKeyed s keyed f sf).2 = (signEvs sf 0 evs).map (·.1) ∧
    ∀ p ∈ List.zip evs (attestKeyed s keyed f sf).2, p.2.root ≠ none → p.2.root = p.1.2.1.signingRoot := by
  have h2 : (attestKeyed s keyed f sf).2 = (signEvs sf 0 evs).map (·.1) := by
    unfold attestKeyed finishKeyed; rw [h]
  refine ⟨rulesKeyed_payload h, h2, ?_⟩
  rw [h2]
  exact signEvs_pointwise sf evs 0

/-- **C08 (what is signed, single endpoints).** A signature returned by `SignBeaconAttestation` is
    over the signing root of exactly the submitted data, and the released entry is filed under the
    public key of the account the request resolved to. -/
theorem C08_signed_root (s : Inst) (c : String) (a : Addr) (d : AttData) (f : Faults) (sf : Bool)
    (r : Bytes) (h : (signAtt s c a d f sf).2.root = some r) :
    d.signingRoot = some r ∧ ∃ acct, preCheck s.cfg c a opAttest = .ok acct ∧
      (signAtt s c a d f sf).1.attLog = s.attLog ++ [(acct.pubkey, d)] := by
  unfold signAtt at h ⊢
  split at h
  · simp at h
  · split at h
    · simp at h
    · rename_i acct hpc
      rcases hon : onAttest s.db acct.pubkey d.req f with ⟨v, db'⟩
      rw [hon] at h
      simp only at h
      cases v <;> simp [verdictRes] at h
      split at h
      · simp at h
      · rename_i root hroot
        split at h
        · simp at h
        · simp at h; subst h
          refine ⟨hroot, acct, (preCheck_ok hpc).2, ?_⟩
          simp_all

/-! ### injectivity of the SSZ chunks -/

/-- well-formed attestation data: integers fit 64 bits, roots are 32 bytes -/
def Ssz.Att.WF (a : Ssz.Att) : Prop :=
  a.slot < two64 ∧ a.index < two64 ∧ a.srcEpoch < two64 ∧ a.tgtEpoch < two64 ∧
  a.bbr.length = 32 ∧ a.srcRoot.length = 32 ∧ a.tgtRoot.length = 32

/-- the 32-byte chunks that are hashed (before any hashing) -/
def Ssz.attChunks (a : Ssz.Att) : List Bytes :=
  [Ssz.u64leaf a.slot, Ssz.u64leaf a.index, Ssz.fit32 a.bbr, Ssz.u64leaf a.srcEpoch, Ssz.fit32 a.srcRoot,
   Ssz.u64leaf a.tgtEpoch, Ssz.fit32 a.tgtRoot]

theorem u64leaf_inj {a b : Nat} (ha : a < two64) (hb : b < two64) (h : Ssz.u64leaf a = Ssz.u64leaf b) : a = b := by
  unfold Ssz.u64leaf at h
  have h1 : le64 a = le64 b := by
    have := congrArg (List.take 8) h
    simpa [List.take_append_of_le_length, le64_length] using this
  rw [← unle64_le64 a ha, ← unle64_le64 b hb, h1]

theorem fit32_id {b : Bytes} (h : b.length = 32) : Ssz.fit32 b = b := by
  unfold Ssz.fit32
  rw [List.take_append_of_le_length (by omega)]
  exact List.take_of_length_le (by omega)

/-- **C08 (chunks determine the data).** -/
theorem C08_leaves_injective (a b : Ssz.Att) (ha : a.WF) (hb : b.WF)
    (h : Ssz.attChunks a = Ssz.attChunks b) : a = b := by
  obtain ⟨a1, a2, a3, a4, a5, a6, a7⟩ := ha
  obtain ⟨b1, b2, b3, b4, b5, b6, b7⟩ := hb
  unfold Ssz.attChunks at h
  simp only [List.cons.injEq, and_true] at h
  obtain ⟨h1, h2, h3, h4, h5, h6, h7⟩ := h
  rw [fit32_id a5, fit32_id b5] at h3
  rw [fit32_id a6, fit32_id b6] at h5
  rw [fit32_id a7, fit32_id b7] at h7
  have e1 := u64leaf_inj a1 b1 h1
  have e2 := u64leaf_inj a2 b2 h2
  have e4 := u64leaf_inj a3 b3 h4
  have e6 := u64leaf_inj a4 b4 h6
  cases a; cases b; simp_all

/-- the model's leaves are a function of those chunks only -/
theorem attLeaves_of_chunks (a : Ssz.Att) :
    Ssz.attLeaves a = match Ssz.attChunks a with
      | [c0, c1, c2, c3, c4, c5, c6] => [c0, c1, c2, Ssz.h2 c3 c4, Ssz.h2 c5 c6, Ssz.zero32, Ssz.zero32, Ssz.zero32]
      | _ => [] := by
  simp [Ssz.attLeaves, Ssz.attChunks, Ssz.checkpointRoot]

def Ssz.Header.WF (h : Ssz.Header) : Prop :=
  h.slot < two64 ∧ h.proposer < two64 ∧ h.parentRoot.length = 32 ∧ h.stateRoot.length = 32 ∧ h.bodyRoot.length = 32

/-- **C08 (block header leaves determine the header).** -/
theorem C08_header_leaves_injective (a b : Ssz.Header) (ha : a.WF) (hb : b.WF)
    (h : Ssz.headerLeaves a = Ssz.headerLeaves b) : a = b := by
  obtain ⟨a1, a2, a3, a4, a5⟩ := ha
  obtain ⟨b1, b2, b3, b4, b5⟩ := hb
  unfold Ssz.headerLeaves at h
  simp only [List.cons.injEq, and_true] at h
  obtain ⟨h1, h2, h3, h4, h5⟩ := h
  rw [fit32_id a3, fit32_id b3] at h3
  rw [fit32_id a4, fit32_id b4] at h4
  rw [fit32_id a5, fit32_id b5] at h5
  have e1 := u64leaf_inj a1 b1 h1
  have e2 := u64leaf_inj a2 b2 h2
  cases a; cases b; simp_all

end Dirk
