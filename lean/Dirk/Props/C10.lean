/-
  C10 — Importing slashing-protection data never weakens protection.

  The command-level import (`dirk --import-slashing-protection`) is modelled from the parsed file down
  (metadata checks, `strconv.ParseInt`-exact number parsing, hex key decoding with `copy` into 48
  bytes, per-key per-field merge with the existing record, rules-level write).  For every prior store
  whose decodable records hold int64 values, every interchange file and every `--genesis-validators-root`:
  a successful import never lowers any field of any key, covers every number the file states, and
  keeps the store in range (so the statements compose over any sequence of imports); wrong or missing
  metadata and malformed keys/numbers make the import fail, which by construction of the result type
  produces no new store.  Refusal of conflicting requests afterwards follows from the rule lemmas.
-/
import Dirk.Lemmas.ImportProofs
import Dirk.Lemmas.PropInv
import Dirk.Lemmas.ImportCmd
import Dirk.Props.KernelsEq
import Dirk.Props.FactsStore

namespace Dirk

/-- **C10 (never lowers).** -/
theorem C10_never_lowers (gvr : String) (db db' : Db) (f : IFile) (hr : RangeOK db)
    (h : importFile gvr db f = .ok db') :
    ∀ k p, exportKey db k = some p → ∃ p', exportKey db' k = some p' ∧ ProtGe p' p :=
  import_never_lowers gvr db db' f hr h

/-- **C10 (covers the file).** -/
theorem C10_protects (gvr : String) (db db' : Db) (f : IFile) (hr : RangeOK db)
    (h : importFile gvr db f = .ok db') :
    ∀ e ∈ f.data, ∃ kb p', hexDecode0x e.pubkey = some kb ∧ exportKey db' (fit48 kb) = some p' ∧
      (∀ s ∈ e.blocks, ∃ v, parseInt64 s = some v ∧ 0 ≤ v ∧ v ≤ p'.slot) ∧
      (∀ a ∈ e.atts, ∃ vs vt, parseInt64 a.1 = some vs ∧ parseInt64 a.2 = some vt ∧
          0 ≤ vs ∧ 0 ≤ vt ∧ vs ≤ p'.src ∧ vt ≤ p'.tgt) :=
  import_covers_file gvr db db' f hr h

/-- **C10 (sequences of imports).** The range condition is preserved, so `C10_never_lowers` and
    `C10_protects` apply again to the result. -/
theorem C10_composes (gvr : String) (db db' : Db) (f : IFile) (hr : RangeOK db)
    (h : importFile gvr db f = .ok db') : RangeOK db' :=
  import_rangeOK gvr db db' f hr h

/-- **C10 (refused afterwards).** Once a record holds slot `w`, every proposal at or below `w` is
    refused; once it holds (ws, wt), every attestation with target ≤ wt or source < ws is refused. -/
theorem C10_refuses_after_prop (db : Db) (pk : Bytes) (w : Int) (r : PropReq) (f : Faults)
    (hf : fetchProp db pk false = some w) (hi : InI64 w) (hle : (r.slot : Int) ≤ w) :
    (onPropose db pk r f).1 ≠ .approved := by
  intro happ
  rcases hon : onPropose db pk r f with ⟨v, db'⟩
  rw [hon] at happ; simp only at happ
  have := ((onPropose_inv hon).2 happ).2.2.2 r.slot ⟨w, hf, hi, hle⟩
  omega

theorem C10_refuses_after_att (db : Db) (pk : Bytes) (w : AttState) (r : AttReq) (f : Faults)
    (hf : fetchAtt db pk false = some w)
    (hle : (0 ≤ w.tgt ∧ (r.tgt : Int) ≤ w.tgt) ∨ (0 ≤ w.src ∧ (r.src : Int) < w.src)) :
    (onAttest db pk r f).1 ≠ .approved := by
  unfold onAttest
  split
  · simp
  · rename_i st hst
    have := fetchAtt_some_false hst
    rw [hf] at this; injection this with this; subst this
    split
    · rename_i st' hchk
      obtain ⟨_, _, _, hgt, hge, _⟩ := attChecks_approved hchk
      exfalso
      rcases hle with ⟨h0, h⟩ | ⟨h0, h⟩
      · have := hgt h0; omega
      · have := hge h0; omega
    · rename_i v0 st0 hne hq
      exact hne

theorem C10_bad_metadata (gvr : String) (db : Db) (f : IFile)
    (h : f.metadata = none ∨ ∃ v g, f.metadata = some (v, g) ∧ (v ≠ "5" ∨ g ≠ gvr)) :
    ∀ db', importFile gvr db f ≠ .ok db' :=
  import_bad_metadata' gvr db f h

theorem C10_parse_error_no_change (gvr : String) (db : Db) (f : IFile)
    (h : ∃ e ∈ f.data, hexDecode0x e.pubkey = none ∨ (∃ s ∈ e.blocks, ∀ v, parseInt64 s = some v → v < 0) ∨
         (∃ a ∈ e.atts, (∀ v, parseInt64 a.1 = some v → v < 0) ∨ (∀ v, parseInt64 a.2 = some v → v < 0))) :
    ∀ db', importFile gvr db f ≠ .ok db' :=
  import_parse_error' gvr db f h

/-- The shipped defect (repaired by a `fix:` commit): the file entry was compared with the existing
    record jointly in all three fields and dropped whole unless not older in each — an entry with a
    newer slot and no attestations (read as −1, −1) against a store holding slot 10 and 5→6 was
    dropped although the command reported success. -/
theorem C10_legacy_counterexample :
    legacyTake (some { slot := 10, src := 5, tgt := 6 }) { slot := 20, src := -1, tgt := -1 } = false := by
  decide

/-- the range hypothesis of the theorems above holds for EVERY store: whatever decodes (current or legacy format) holds
    int64 values -/
theorem C10_range_any (db : Db) : RangeOK db := rangeOK_any db

/-- **C10 inside an instance's lifetime.** An import command run between two runs of the instance (`Op.importCmd`: any
    file, any flag; the store becomes the command's result when it succeeds and is untouched when it refuses) keeps both
    slashing-protection invariants — everything released so far stays covered by the store — with NO hypothesis on the
    file. This is what lets `C01`, `C02` and `C14` range over histories that contain import commands. -/
theorem C10_import_command_keeps_invariants {s : Inst} (ha : AttInv s) (hp : PropInv s) (gvr : String) (f : IFile) :
    AttInv (step s (.importCmd gvr f)).1 ∧ PropInv (step s (.importCmd gvr f)).1 :=
  ⟨step_importCmd_attInv ha gvr f, step_importCmd_propInv hp gvr f⟩

/-- **tie by translation.** The merge the theorems above are about is, entry by entry, the code translated on every run
    from the Go source of `storeSlashingProtection` (package main): the value a key starts from (an earlier entry of the
    file, else the existing store's record, else −1/−1/−1), the raise-only fold of each signed attestation and each signed
    block, and the rejection of numbers that do not parse or are negative. (Not translated: public-key decoding and the
    reading of the existing store, which `mergeStepGen` takes from the model.) -/
theorem C10_kernel_is_source (db : Db) (m : PMap) (l : List FileEntry) :
    mergeEntries db m l = l.foldlM (mergeStepGen db) m :=
  mergeEntries_eq_gen db m l

end Dirk
