/-
  C10 — Importing slashing-protection data never weakens protection.

  The command-level import (`dirk --import-slashing-protection`) is modelled from the parsed file down
  (metadata checks, `strconv.ParseInt`-exact number parsing, hex key decoding with `copy` into 48
  bytes, per-key per-field merge with the existing record, rules-level write).  For every prior store
  whose decodable records hold int64 values, every interchange file and every `--genesis-validators-root`:
  a successful import never lowers any field of any key, covers every number the file states, and
  keeps the store in range (so the statements compose over any sequence of imports); wrong or missing
  metadata and malformed keys/numbers make the import fail, which by construction of the result type
  produces no new store.  Refusal of conflicting requests afterwards follows from the rule lemmas.
-/
import Dirk.Lemmas.ImportProofs
import Dirk.Lemmas.PropInv
import Dirk.Lemmas.ImportCmd
import Dirk.Props.KernelsEq
import Dirk.Props.FactsStore

namespace Dirk

/-- **C10 (never lowers).** -/
theorem C10_never_lowers (gvr : String) (db db' : Db) (f : IFile) (hr : RangeOK db)
    (h : importFile gvr db f = .ok db') :
    ∀ k p, exportKey db k = some p → ∃ p', exportKey db' k = some p' ∧ ProtGe p' p :=
  import_never_lowers gvr db db' f hr h

/-- **C10 (covers the file).** -/
theorem C10_protects (gvr : String) (db db' : Db) (f : IFile) (hr : RangeOK db)
    (h : importFile gvr db f = .ok db') :
    ∀ e ∈ f.data, ∃ kb p', hexDecode0x e.pubkey = some kb ∧ exportKey db' (fit48 kb) = some p' ∧
      (∀ s ∈ e.blocks, ∃ v, parseInt64 s = some v ∧ 0 ≤ v ∧ v ≤ p'.slot) ∧
      (∀ a ∈ e.atts, ∃ vs vt, parseInt64 a.1 = some vs ∧ parseInt64 a.2 = some vt ∧
          0 ≤ vs ∧ 0 ≤ vt ∧ vs ≤ p'.src ∧ vt ≤ p'.tgt) :=
  import_covers_file gvr db db' f hr h

/-- **C10 (sequences of imports).** The range condition is preserved, so `C10_never_lowers` and
    `C10_protects` apply again to the result. -/
theorem C10_composes (gvr : String) (db db' : Db) (f : IFile) (hr : RangeOK db)
    (h : importFile gvr db f = .ok db') : RangeOK db' :=
  import_rangeOK gvr db db' f hr h

/-- **C10 (refused afterwards).** Once a record holds slot `w`, every proposal at or below `w` is
    refused; once it holds (ws, wt), every attestation with target ≤ wt or source < ws is refused. -/
theorem C10_refuses_after_prop (db : Db) (pk : Bytes) (w : Int) (r : PropReq) (f : Faults)
    (hf : fetchProp db pk false = some w) (hi : InI64 w) (hle : (r.slot : Int) ≤ w) :
    (onPropose db pk r f).1 ≠ .approved := by
  intro happ
  rcases hon : onPropose db pk r f with ⟨v, db'⟩
  rw [hon] at happ; simp only at happ
  have := ((onPropose_inv hon).2 happ).2.2.2 r.slot ⟨w, hf, hi, hle⟩
  omega

theorem C10_refuses_after_att (db : Db) (pk : Bytes) (w : AttState) (r : AttReq) (f : Faults)
    (hf : fetchAtt db pk false = some w)
    (hle : (0 ≤ w.tgt ∧ (r.tgt : Int) ≤ w.tgt) ∨ (0 ≤ w.src ∧ (r.src : Int) < w.src)) :
    (onAttest db pk r f).1 ≠ .approved := by
  unfold onAttest
  split
  · simp
  · rename_i st hst
    have := fetchAtt_some_false hst
    rw [hf] at this; injection this with this; subst this
    split
    · rename_i st' hchk
      obtain ⟨_, _, _, hgt, hge, _⟩ := attChecks_approved hchk
      exfalso
      rcases hle with ⟨h0, h⟩ | ⟨h0, h⟩
      · have := hgt h0; omega
      · have := hge h0; omega
    · rename_i v0 st0 hne hq
      exact hne

theorem C10_bad_metadata (gvr : String) (db : Db) (f : IFile)
    (h : f.metadata = none ∨ ∃ v g, f.metadata = some (v, g) ∧ (v ≠ "5" ∨ g ≠ gvr)) :
    ∀ db', importFile gvr db f ≠ .ok db' :=
  import_bad_metadata' gvr db f h

theorem C10_parse_error_no_change (gvr : String) (db : Db) (f : IFile)
    (h : ∃ e ∈ f.data, hexDecode0x e.pubkey = none ∨ (∃ s ∈ e.blocks, ∀ v, parseInt64 s = some v → v < 0) ∨
         (∃ a ∈ e.atts, (∀ v, parseInt64 a.1 = some v → v < 0) ∨ (∀ v, parseInt64 a.2 = some v → v < 0))) :
    ∀ db', importFile gvr db f ≠ .ok db' :=
  import_parse_error' gvr db f h

/-- The shipped defect (repaired by a `fix:` commit): the file entry was compared with the existing
    record jointly in all three fields and dropped whole unless not older in each — an entry with a
    newer slot and no attestations (read as −1, −1) against a store holding slot 10 and 5→6 was
    dropped although the command reported success. -/
theorem C10_legacy_counterexample :
    legacyTake (some { slot := 10, src := 5, tgt := 6 }) { slot := 20, src := -1, tgt := -1 } = false := by
  decide

/-- the range hypothesis of the theorems above holds for EVERY store: whatever decodes (current or legacy format) holds
    int64 values -/
theorem C10_range_any (db : Db) : RangeOK db := rangeOK_any db

/-- **C10 inside an instance's lifetime.** An import command run between two runs of the instance (`Op.importCmd`: any
    file, any flag; the store becomes the command's result when it succeeds and is untouched when it refuses) keeps both
    slashing-protection invariants — everything released so far stays covered by the store — with NO hypothesis on the
    file. This is what lets `C01`, `C02` and `C14` range over histories that contain import commands. -/
theorem C10_import_command_keeps_invariants {s : Inst} (ha : AttInv s) (hp : PropInv s) (gvr : String) (f : IFile) :
    AttInv (step s (.importCmd gvr f)).1 ∧ PropInv (step s (.importCmd gvr f)).1 :=
  ⟨step_importCmd_attInv ha gvr f, step_importCmd_propInv hp gvr f⟩

/-- a sequence of import commands: each file is merged into what the earlier ones left; a refused import leaves the
    store as it was (`C10_bad_metadata`, `C10_parse_error_no_change`: a refusal yields no new store) -/
def importSeq (gvr : String) (db : Db) : List IFile → Db
  | [] => db
  | f :: fs =>
    match importFile gvr db f with
    | .ok db' => importSeq gvr db' fs
    | .error => importSeq gvr db fs

theorem importSeq_append (gvr : String) (db : Db) (pre post : List IFile) :
    importSeq gvr db (pre ++ post) = importSeq gvr (importSeq gvr db pre) post := by
  induction pre generalizing db with
  | nil => rfl
  | cons f fs ih =>
    simp only [List.cons_append, importSeq]
    split <;> exact ih _

theorem ProtGe.trans' {a b c : Protection} (h1 : ProtGe a b) (h2 : ProtGe b c) : ProtGe a c := by
  unfold ProtGe at *; omega

/-- **C10 (any sequence of imports never lowers).** For every prior store, every `--genesis-validators-root` and every
    LIST of interchange files run one after the other (accepted or refused, in any mix), no field of any key ends lower
    than it started. No hypothesis on the store: the range condition is `C10_range_any`. -/
theorem C10_sequence_never_lowers (gvr : String) (db : Db) (fs : List IFile) :
    ∀ k p, exportKey db k = some p → ∃ p', exportKey (importSeq gvr db fs) k = some p' ∧ ProtGe p' p := by
  induction fs generalizing db with
  | nil => intro k p h; exact ⟨p, h, ProtGe.refl p⟩
  | cons f fs ih =>
    intro k p h
    simp only [importSeq]
    split
    · rename_i db' hok
      obtain ⟨p1, h1, g1⟩ := C10_never_lowers gvr db db' f (C10_range_any db) hok k p h
      obtain ⟨p2, h2, g2⟩ := ih db' k p1 h1
      exact ⟨p2, h2, ProtGe.trans' g2 g1⟩
    · exact ih db k p h

/-- **C10 (any sequence of imports keeps covering every accepted file).** Whatever was imported before (`pre`) and
    whatever is imported afterwards (`post`), every number stated by a file the command accepted is still covered by
    the store at the end of the whole sequence. -/
theorem C10_sequence_protects (gvr : String) (db db1 : Db) (pre post : List IFile) (f : IFile)
    (h : importFile gvr (importSeq gvr db pre) f = .ok db1) :
    ∀ e ∈ f.data, ∃ kb p', hexDecode0x e.pubkey = some kb ∧
      exportKey (importSeq gvr db (pre ++ f :: post)) (fit48 kb) = some p' ∧
      (∀ s ∈ e.blocks, ∃ v, parseInt64 s = some v ∧ 0 ≤ v ∧ v ≤ p'.slot) ∧
      (∀ a ∈ e.atts, ∃ vs vt, parseInt64 a.1 = some vs ∧ parseInt64 a.2 = some vt ∧
          0 ≤ vs ∧ 0 ≤ vt ∧ vs ≤ p'.src ∧ vt ≤ p'.tgt) := by
  intro e he
  obtain ⟨kb, p1, hk, h1, hb, ha⟩ := C10_protects gvr _ db1 f (C10_range_any _) h e he
  have hseq : importSeq gvr db (pre ++ f :: post) = importSeq gvr db1 post := by
    rw [importSeq_append]; simp only [importSeq, h]
  obtain ⟨p2, h2, g2⟩ := C10_sequence_never_lowers gvr db1 post (fit48 kb) p1 h1
  refine ⟨kb, p2, hk, by rw [hseq]; exact h2, ?_, ?_⟩
  · intro s hs
    obtain ⟨v, hv, h0, hle⟩ := hb s hs
    exact ⟨v, hv, h0, by unfold ProtGe at g2; omega⟩
  · intro a haa
    obtain ⟨vs, vt, hvs, hvt, h0s, h0t, hles, hlet⟩ := ha a haa
    exact ⟨vs, vt, hvs, hvt, h0s, h0t, by unfold ProtGe at g2; omega, by unfold ProtGe at g2; omega⟩

/-- **C10 end to end (proposals).** After ANY list of imports in which file `f` was accepted at some point, a proposal
    for a key of `f` at or below any slot `f` states for it is refused by the rules running on the final store — under
    every fault plan. This is the property's first sentence for blocks, with all three quantifiers (store, file,
    sequence) in one statement. -/
theorem C10_sequence_refuses_prop (gvr : String) (db db1 : Db) (pre post : List IFile) (f : IFile)
    (h : importFile gvr (importSeq gvr db pre) f = .ok db1)
    (e : FileEntry) (he : e ∈ f.data) (s : String) (hs : s ∈ e.blocks) (v : Int) (hv : parseInt64 s = some v)
    (kb : Bytes) (hk : hexDecode0x e.pubkey = some kb) (r : PropReq) (hle : (r.slot : Int) ≤ v) (fl : Faults) :
    (onPropose (importSeq gvr db (pre ++ f :: post)) (fit48 kb) r fl).1 ≠ .approved := by
  obtain ⟨kb', p', hk', hex, hb, _⟩ := C10_sequence_protects gvr db db1 pre post f h e he
  rw [hk] at hk'; injection hk' with hk'; subst hk'
  obtain ⟨v', hv', _, hle'⟩ := hb s hs
  rw [hv] at hv'; injection hv' with hv'; subst hv'
  obtain ⟨_, hp⟩ := exportKey_some hex
  exact C10_refuses_after_prop _ _ p'.slot r fl hp (fetchProp_inI64 hp) (by omega)

/-- **C10 end to end (attestations).** Likewise: an attestation whose target is at or below a target `f` states, or whose
    source is below a source `f` states, is refused on the final store. -/
theorem C10_sequence_refuses_att (gvr : String) (db db1 : Db) (pre post : List IFile) (f : IFile)
    (h : importFile gvr (importSeq gvr db pre) f = .ok db1)
    (e : FileEntry) (he : e ∈ f.data) (a : String × String) (ha : a ∈ e.atts)
    (vs vt : Int) (hvs : parseInt64 a.1 = some vs) (hvt : parseInt64 a.2 = some vt)
    (kb : Bytes) (hk : hexDecode0x e.pubkey = some kb) (r : AttReq)
    (hle : (r.tgt : Int) ≤ vt ∨ (r.src : Int) < vs) (fl : Faults) :
    (onAttest (importSeq gvr db (pre ++ f :: post)) (fit48 kb) r fl).1 ≠ .approved := by
  obtain ⟨kb', p', hk', hex, _, hat⟩ := C10_sequence_protects gvr db db1 pre post f h e he
  rw [hk] at hk'; injection hk' with hk'; subst hk'
  obtain ⟨vs', vt', hvs', hvt', h0s, h0t, hles, hlet⟩ := hat a ha
  rw [hvs] at hvs'; injection hvs' with hvs'; subst hvs'
  rw [hvt] at hvt'; injection hvt' with hvt'; subst hvt'
  obtain ⟨hatt, _⟩ := exportKey_some hex
  refine C10_refuses_after_att _ _ ⟨p'.src, p'.tgt⟩ r fl hatt ?_
  rcases hle with hl | hl
  · exact Or.inl ⟨by show (0:Int) ≤ p'.tgt; omega, by show (r.tgt : Int) ≤ p'.tgt; omega⟩
  · exact Or.inr ⟨by show (0:Int) ≤ p'.src; omega, by show (r.src : Int) < p'.src; omega⟩

/-- the premises are satisfiable: a file stating slot 7 and the vote 3→4 for a key is accepted on an empty store, so
    `C10_sequence_protects` / `_refuses_prop` / `_refuses_att` apply to it with any `post` -/
def exGvr : String := "0x0000000000000000000000000000000000000000000000000000000000000000"
def exKey : String := "0xa99a76ed7796f7be22d5b7e85deeb7c5677e88e511e0b337618f8c4eb61349b4bf2d153f649f7b53359fe8b94a38e44c"
def exFile : IFile := { metadata := some ("5", exGvr), data := [{ pubkey := exKey, blocks := ["7"], atts := [("3", "4")] }] }
example : ∃ db1, importFile exGvr (importSeq exGvr [] []) exFile = .ok db1 := ⟨_, rfl⟩
example : ∃ kb, hexDecode0x exKey = some kb := ⟨_, rfl⟩
example : parseInt64 "7" = some 7 := rfl

/-- **tie by translation.** The merge the theorems above are about is, entry by entry, the code translated on every run
    from the Go source of `storeSlashingProtection` (package main): the value a key starts from (an earlier entry of the
    file, else the existing store's record, else −1/−1/−1), the raise-only fold of each signed attestation and each signed
    block, and the rejection of numbers that do not parse or are negative. (Not translated: public-key decoding and the
    reading of the existing store, which `mergeStepGen` takes from the model.) -/
theorem C10_kernel_is_source (db : Db) (m : PMap) (l : List FileEntry) :
    mergeEntries db m l = l.foldlM (mergeStepGen db) m :=
  mergeEntries_eq_gen db m l

end Dirk
