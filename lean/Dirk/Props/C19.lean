/-
  C19 — Nothing is served without a certificate from the configured authority (partial: crypto/tls).

  Transport policy model instantiated with the facts regenerated from the source on every run (client
  authentication mode, credentials installed on the only gRPC server, the registered services, the
  interceptor that derives the client name from the first verified peer certificate): a remote procedure
  of any registered service is dispatched only for a caller presenting a currently valid certificate
  issued by a configured authority, and the identity used afterwards is that certificate's subject
  common name.
-/
import Dirk.Props.FactsTls

namespace Dirk
open Transport

/-- **C19 (policy).** Under "require and verify" with credentials installed, whatever is served was
    asked for with a valid certificate from a trusted issuer, and carries that certificate's name. -/
theorem C19_policy (cfg : ServerCfg) (h1 : cfg.clientAuth = "tls.RequireAndVerifyClientCert") (h2 : cfg.credsInstalled = true)
    (cred : Cred) (ident : Option String) (h : serve cfg cred = some ident) :
    ∃ cn, cred = .cert true true cn ∧ ident = some cn ∧ cfg.clientCAs = true := by
  unfold serve handshake at h
  cases cred with
  | plaintext => simp [h2] at h
  | tlsNoCert => simp [h1, h2] at h
  | cert trusted valid cn =>
    simp only [h1, h2] at h
    simp at h
    obtain ⟨⟨ht, hv, hc⟩, hi⟩ := h
    exact ⟨cn, by rw [ht, hv], hi.symm, hc⟩

/-- **C19.** The same for the server configuration dirk's source describes right now. -/
theorem C19 (cred : Cred) (ident : Option String) (h : serve serverCfg cred = some ident) :
    ∃ cn, cred = .cert true true cn ∧ ident = some cn :=
  let ⟨cn, h1, h2, _⟩ := C19_policy serverCfg (by decide) (by decide) cred ident h
  ⟨cn, h1, h2⟩

/-- what the weaker modes would admit (why the fact obligation matters) -/
theorem C19_if_given_admits_no_cert :
    serve { clientAuth := "tls.VerifyClientCertIfGiven", credsInstalled := true, clientCAs := true } .tlsNoCert = some none := by
  decide

theorem C19_no_creds_admits_plaintext :
    serve { clientAuth := "tls.RequireAndVerifyClientCert", credsInstalled := false, clientCAs := true } .plaintext = some none := by
  decide

/-- non-vacuity: a valid certificate is served under its own name -/
example : serve serverCfg (.cert true true "client-test01") = some (some "client-test01") := by decide

end Dirk
