/-
  C14 — Conflicting duties can never both reach the signing threshold.

  Cluster = n independent instance models (own configuration, own pre-existing store); the client
  routes any operations to any instances in any order: since instances share nothing, instance i ends
  in `run (init (cfg i) (db0 i)) (ops i)` where `ops i` is what was routed to it, in order (concurrency
  inside one instance reduces to such an order by C04).  For every n, every threshold t with 2t > n
  (which key generation enforces, C12_bounds) and every pair of conflicting duties, the sets of
  instances that released a signature for the one and for the other cannot both have t members.

  The histories contain any operations except the raw rules-level import (`NoRawImport`: signing, restarts,
  import commands, account creation, lock / unlock).  The `…_with_imports` theorems generalise to histories
  that also contain raw imports (`Op.importRec`, which overwrites), each covering what its instance had
  released for the key when it is applied (`SafeHist`).
-/
import Dirk.Lemmas.DkgAlgebra
import Dirk.Model.Dkg
import Dirk.Lemmas.Crash
import Dirk.Spec.Slashing

namespace Dirk
open Spec

/-- generalisation of `instance_not_both` to histories with raw imports that cover what had been released -/
theorem instance_not_both_with_imports (cfg : Config) (db0 : Db) (ops : List Op)
    (hs : SafeHist (init cfg db0) ops) (k : Bytes) (d1 d2 : AttData)
    (hconf : Slashable (voteOf d1) (voteOf d2))
    (h1 : (k, d1) ∈ (run (init cfg db0) ops).attLog) (h2 : (k, d2) ∈ (run (init cfg db0) ops).attLog) : False := by
  have hm := (run_attInv_with_imports ops _ (init_attInv cfg db0) hs).mono
  have hne : (k, d1) ≠ (k, d2) := by
    intro he
    injection he with _ he
    subst he
    unfold Slashable DoubleVote Surrounds at hconf
    rcases hconf with ⟨_, h⟩ | ⟨h, _⟩ | ⟨h, _⟩
    · exact h rfl
    · omega
    · omega
  rcases pairwise_mem_or hm h1 h2 hne with h | h
  · have hlt := h rfl
    simp only [VoteLt] at hlt
    unfold Slashable DoubleVote Surrounds voteOf at hconf
    simp only at hconf
    rcases hconf with ⟨a, _⟩ | ⟨a, b⟩ | ⟨a, b⟩ <;> omega
  · have hlt := h rfl
    simp only [VoteLt] at hlt
    unfold Slashable DoubleVote Surrounds voteOf at hconf
    simp only at hconf
    rcases hconf with ⟨a, _⟩ | ⟨a, b⟩ | ⟨a, b⟩ <;> omega

theorem instance_not_both_prop_with_imports (cfg : Config) (db0 : Db) (ops : List Op)
    (hs : SafeHist (init cfg db0) ops) (k : Bytes) (d1 d2 : PropData)
    (hconf : DoubleProposal d1 d2)
    (h1 : (k, d1) ∈ (run (init cfg db0) ops).propLog) (h2 : (k, d2) ∈ (run (init cfg db0) ops).propLog) : False := by
  have hm := (run_propInv_with_imports ops _ (init_propInv cfg db0) hs).mono
  have hne : (k, d1) ≠ (k, d2) := by
    intro he; injection he with _ he; exact hconf.2 he
  rcases pairwise_mem_or hm h1 h2 hne with h | h
  · have hlt := h rfl; simp only at hlt; have := hconf.1; omega
  · have hlt := h rfl; simp only at hlt; have := hconf.1; omega

/-- generalisation of `C14` to histories with raw imports that cover what had been released -/
theorem C14_with_imports (n t : ℕ) (ht : n < 2 * t) (cfg : Fin n → Config) (db0 : Fin n → Db) (ops : Fin n → List Op)
    (hs : ∀ i, SafeHist (init (cfg i) (db0 i)) (ops i))
    (key : Fin n → Bytes) (d1 d2 : AttData) (hconf : Slashable (voteOf d1) (voteOf d2)) :
    ¬ (t ≤ (Finset.univ.filter (fun i => (key i, d1) ∈ (run (init (cfg i) (db0 i)) (ops i)).attLog)).card ∧
       t ≤ (Finset.univ.filter (fun i => (key i, d2) ∈ (run (init (cfg i) (db0 i)) (ops i)).attLog)).card) := by
  intro ⟨c1, c2⟩
  have hU : (Finset.univ : Finset (Fin n)).card < 2 * t := by simpa using ht
  obtain ⟨i, hi⟩ := Dkg.quorum_intersect Finset.univ _ _ (Finset.filter_subset _ _) (Finset.filter_subset _ _) t hU c1 c2
  rw [Finset.mem_inter, Finset.mem_filter, Finset.mem_filter] at hi
  exact instance_not_both_with_imports (cfg i) (db0 i) (ops i) (hs i) (key i) d1 d2 hconf hi.1.2 hi.2.2

/-- generalisation of `C14_proposals` -/
theorem C14_proposals_with_imports (n t : ℕ) (ht : n < 2 * t) (cfg : Fin n → Config) (db0 : Fin n → Db) (ops : Fin n → List Op)
    (hs : ∀ i, SafeHist (init (cfg i) (db0 i)) (ops i))
    (key : Fin n → Bytes) (d1 d2 : PropData) (hconf : DoubleProposal d1 d2) :
    ¬ (t ≤ (Finset.univ.filter (fun i => (key i, d1) ∈ (run (init (cfg i) (db0 i)) (ops i)).propLog)).card ∧
       t ≤ (Finset.univ.filter (fun i => (key i, d2) ∈ (run (init (cfg i) (db0 i)) (ops i)).propLog)).card) := by
  intro ⟨c1, c2⟩
  have hU : (Finset.univ : Finset (Fin n)).card < 2 * t := by simpa using ht
  obtain ⟨i, hi⟩ := Dkg.quorum_intersect Finset.univ _ _ (Finset.filter_subset _ _) (Finset.filter_subset _ _) t hU c1 c2
  rw [Finset.mem_inter, Finset.mem_filter, Finset.mem_filter] at hi
  exact instance_not_both_prop_with_imports (cfg i) (db0 i) (ops i) (hs i) (key i) d1 d2 hconf hi.1.2 hi.2.2

/-- one instance never releases both of two slashable attestations for one of its keys -/
theorem instance_not_both (cfg : Config) (db0 : Db) (ops : List Op) (hr : NoRawImport ops) (k : Bytes)
    (d1 d2 : AttData) (hconf : Slashable (voteOf d1) (voteOf d2))
    (h1 : (k, d1) ∈ (run (init cfg db0) ops).attLog) (h2 : (k, d2) ∈ (run (init cfg db0) ops).attLog) : False :=
  instance_not_both_with_imports cfg db0 ops (safeHist_of_noRawImport ops _ hr) k d1 d2 hconf h1 h2

theorem instance_not_both_prop (cfg : Config) (db0 : Db) (ops : List Op) (hr : NoRawImport ops) (k : Bytes)
    (d1 d2 : PropData) (hconf : DoubleProposal d1 d2)
    (h1 : (k, d1) ∈ (run (init cfg db0) ops).propLog) (h2 : (k, d2) ∈ (run (init cfg db0) ops).propLog) : False :=
  instance_not_both_prop_with_imports cfg db0 ops (safeHist_of_noRawImport ops _ hr) k d1 d2 hconf h1 h2

/-- **C14 (attestations).** -/
theorem C14 (n t : ℕ) (ht : n < 2 * t) (cfg : Fin n → Config) (db0 : Fin n → Db) (ops : Fin n → List Op)
    (hr : ∀ i, NoRawImport (ops i))
    (key : Fin n → Bytes) (d1 d2 : AttData) (hconf : Slashable (voteOf d1) (voteOf d2)) :
    ¬ (t ≤ (Finset.univ.filter (fun i => (key i, d1) ∈ (run (init (cfg i) (db0 i)) (ops i)).attLog)).card ∧
       t ≤ (Finset.univ.filter (fun i => (key i, d2) ∈ (run (init (cfg i) (db0 i)) (ops i)).attLog)).card) :=
  C14_with_imports n t ht cfg db0 ops (fun i => safeHist_of_noRawImport (ops i) _ (hr i)) key d1 d2 hconf

/-- **C14 (proposals).** -/
theorem C14_proposals (n t : ℕ) (ht : n < 2 * t) (cfg : Fin n → Config) (db0 : Fin n → Db) (ops : Fin n → List Op)
    (hr : ∀ i, NoRawImport (ops i))
    (key : Fin n → Bytes) (d1 d2 : PropData) (hconf : DoubleProposal d1 d2) :
    ¬ (t ≤ (Finset.univ.filter (fun i => (key i, d1) ∈ (run (init (cfg i) (db0 i)) (ops i)).propLog)).card ∧
       t ≤ (Finset.univ.filter (fun i => (key i, d2) ∈ (run (init (cfg i) (db0 i)) (ops i)).propLog)).card) :=
  C14_proposals_with_imports n t ht cfg db0 ops (fun i => safeHist_of_noRawImport (ops i) _ (hr i)) key d1 d2 hconf

/-- the threshold condition is exactly what generation enforces (n/2 < t with integer division) -/
theorem C14_threshold_from_generation (n t : ℕ) (h : Dkg.generateAccepts n t = true) : n < 2 * t := by
  unfold Dkg.generateAccepts at h
  simp at h
  omega

end Dirk
