/-
  C13 — Invalid or failed key-generation exchanges create no account anywhere.

  On the cluster model: a contribution whose share does not match its vector, whose vector does not
  have exactly threshold entries, or that comes from a peer outside the participant list is refused and
  stores nothing; accounts are created by a successful commit only, a commit needs every listed
  participant's contribution, and the initiator sends commits only after every prepare and execute
  succeeded — so a lost message or a rejected contribution ends in an error with no account on any
  instance.  With vectors of exactly threshold length the commit-time aggregation stays in range (the
  shipped code did not check the length and could index out of range).
-/
import Dirk.Lemmas.DkgLife
import Dirk.Props.KernelsEq

namespace Dirk.Dkg

/-- **C13 (reject).** -/
theorem C13_reject (c : Cluster) (j caller : Nat) (acct : String) (valid : Bool) (vlen : Nat) (s : Session)
    (hs : sessionOf c j acct = some s)
    (hbad : valid = false ∨ vlen ≠ s.threshold ∨ caller ∉ s.participants) :
    (onContribute c j caller acct valid vlen).2 ≠ .ok ∧
    sessionOf (onContribute c j caller acct valid vlen).1 j acct = some s :=
  contribute_rejected_no_change c j caller acct valid vlen s hs hbad

/-- **C13 (only a successful commit creates an account).** -/
theorem C13_accounts_only_by_commit (c : Cluster) (i caller k : Nat) (acct name : String) (t : Nat) (parts : List Nat)
    (valid : Bool) (vlen : Nat) :
    holdsAccount (onPrepare c i caller acct t parts).1 k name = holdsAccount c k name ∧
    holdsAccount (onContribute c i caller acct valid vlen).1 k name = holdsAccount c k name ∧
    holdsAccount (onExecute c i caller acct).1 k name = holdsAccount c k name ∧
    holdsAccount (onAbort c i caller acct).1 k name = holdsAccount c k name ∧
    ((onCommit c i caller acct).2 ≠ .ok → holdsAccount (onCommit c i caller acct).1 k name = holdsAccount c k name) :=
  accounts_only_by_commit c i caller k acct name t parts valid vlen

/-- **C13 (client view).** A generation in which a message is lost or a contribution is rejected
    reports an error and leaves no account (with a single participant no message is exchanged at all). -/
theorem C13_no_account (npeers n t : Nat) (wd ex perm : Bool) (f : GenFault)
    (hf : f = .lost ∨ f = .badContribution) :
    generateOutcome npeers n t wd ex perm f = (false, false) ∨
      (n = 1 ∧ generateOutcome npeers n t wd ex perm f = generateOutcome npeers n t wd ex perm .none) :=
  failed_generation_no_account npeers n t wd ex perm f hf

/-- **C13 (no crash).** Vectors accepted by the fixed handler all have threshold length, so the
    index-wise aggregation at commit stays inside its threshold-sized array. -/
theorem C13_no_crash (t : Nat) (vlens : List Nat) (h : ∀ l ∈ vlens, fixedAccepts true l t true = true) :
    aggregationInRange t vlens = true :=
  fixed_keeps_aggregation_in_range t vlens h

/-- The shipped defect (repaired by a `fix:` commit): the handler accepted a verifying contribution of
    any vector length; with threshold 2 a vector of length 3 was accepted and the aggregation indexed
    out of range. -/
theorem C13_legacy_counterexample : legacyAccepts true 3 2 true = true ∧ aggregationInRange 2 [2, 3] = false :=
  legacy_counterexample

/-- **tie by translation.** What the contribution handler accepts (`fixedAccepts`: the contribution verifies, its
    vector has exactly `threshold` entries, the sender is a listed participant) is the function translated on every
    run from the acceptance conditions of `OnContribute` (services/process/standard/service.go). -/
theorem C13_kernel_is_source (valid : Bool) (vlen threshold : Nat) (listed : Bool) :
    fixedAccepts valid vlen threshold listed = Dirk.Gen.fixedAcceptsGen valid vlen threshold listed :=
  Dirk.fixedAccepts_eq_gen valid vlen threshold listed

end Dirk.Dkg
