/-
  C16 — Key-generation messages are honoured only from peers; shares go to their owner.

  Receiver-handler model (Dirk.Model.Dkg): the caller is known by the id of the configured peer whose
  name equals its authenticated name, 0 if there is none.  For every cluster state, instance, account,
  message content and caller: a caller that is not a configured peer gets `unknown sender` from each of
  the five handlers and the cluster state is unchanged; a contribution reply carries the share computed
  for the authenticated caller's own identifier and no other.
-/
import Dirk.Model.Dkg
import Dirk.Props.KernelsEq
import Dirk.Lemmas.DkgProjection

namespace Dirk.Dkg

/-- **C16 (non-peers are refused and change nothing).** -/
theorem C16_refuse_non_peer (c : Cluster) (i caller : Nat) (acct : String) (t : Nat) (parts : List Nat)
    (valid : Bool) (vlen : Nat) (h : senderId c caller = 0) :
    onPrepare c i caller acct t parts = (c, .unknownSender) ∧
    onExecute c i caller acct = (c, .unknownSender) ∧
    onContribute c i caller acct valid vlen = (c, .unknownSender) ∧
    onCommit c i caller acct = (c, .unknownSender) ∧
    onAbort c i caller acct = (c, .unknownSender) := by
  simp [onPrepare, onExecute, onContribute, onCommit, onAbort, h]

/-- who counts as a peer: exactly the configured ids, and 0 never does -/
theorem senderId_ne_zero_iff (c : Cluster) (caller : Nat) (h0 : 0 ∉ c.peers) :
    senderId c caller ≠ 0 ↔ caller ∈ c.peers := by
  unfold senderId
  by_cases h : c.peers.contains caller
  · simp only [h, ↓reduceIte]
    have hm : caller ∈ c.peers := by simpa using h
    constructor
    · intro _; exact hm
    · intro _ he; exact h0 (he ▸ hm)
  · simp only [h]
    have hm : caller ∉ c.peers := by simpa using h
    simp [hm]

/-- **C16 (the reply's share is the caller's own).** -/
theorem C16_share_owner (s : Session) (caller k : Nat) (h : replyShareFor s caller = some k) : k = caller := by
  unfold replyShareFor at h
  split at h
  · injection h with h; exact h.symm
  · cases h

/-- non-vacuity: a configured peer is honoured -/
example : (onPrepare { insts := [{ id := 1 }], peers := [1, 2], timeout := 10 } 1 2 "DW/a" 2 [1, 2]).2 = .ok := by decide
example : (onPrepare { insts := [{ id := 1 }], peers := [1, 2], timeout := 10 } 1 7 "DW/a" 2 [1, 2]).2 = .unknownSender := by
  decide

/-- **tie by translation.** `senderId` (0 = not a peer) is the loop translated on every run from the Go source of
    `senderID` (handlers/receiver/helpers.go): the id of the configured peer whose name EQUALS the authenticated client
    name exactly, whatever the map iteration order, for any injective naming of the peers. -/
theorem C16_kernel_is_source (c : Cluster) (name : Nat → String) (hinj : ∀ a b, name a = name b → a = b) (caller : Nat) :
    senderId c caller = Dirk.Gen.senderIdGen (c.peers.map (fun i => (i, name i))) (name caller) :=
  Dirk.senderId_eq_gen c name hinj caller

/-- **C16 at history level (what the projection judge checks on the implementation).** From ANY history of handler calls
    and clock ticks, deleting every message whose authenticated caller is not a configured peer changes neither the final
    state of the cluster nor the reply to any remaining message; and each deleted message had been answered
    `unknown sender`. -/
theorem C16_projection (evs : List LifeJudge.Ev) (c : Cluster) :
    (runEv c (evs.filter (fromPeer c.peers))).2 = (runEv c evs).2 ∧
    (runEv c (evs.filter (fromPeer c.peers))).1 = (runEv c evs).1.filter (fun p => fromPeer c.peers p.1) ∧
    (∀ p ∈ (runEv c evs).1, fromPeer c.peers p.1 = false → p.2 = .unknownSender) :=
  ⟨(runEv_projection evs c).1, (runEv_projection evs c).2, runEv_non_peer_replies evs c⟩

/-- **C16 (an accepted peer table names every peer once).** If the table is accepted, no two ids carry the same name — so
    the authenticated name of a caller resolves to at most one participant id, and the share computed for "the caller" is
    the share of exactly one participant. -/
theorem C16_accepted_peers_distinct (eps : List String) (h : peersAccepted eps = true) :
    (eps.filterMap peerNameOf).Nodup ∧ ∀ e ∈ eps, (peerNameOf e).isSome := by
  unfold peersAccepted at h
  simp only [Bool.and_eq_true, List.all_eq_true, decide_eq_true_eq] at h
  exact ⟨h.2, h.1⟩

/-- … and a table with a name under two ids is refused, wherever in the table the two entries stand. -/
theorem C16_duplicate_peer_name_refused (pre mid post : List String) (a b n : String)
    (ha : peerNameOf a = some n) (hb : peerNameOf b = some n) :
    peersAccepted (pre ++ a :: mid ++ b :: post) = false := by
  unfold peersAccepted
  have : ¬ ((pre ++ a :: mid ++ b :: post).filterMap peerNameOf).Nodup := by
    simp only [List.filterMap_append, List.filterMap_cons, ha, hb, List.append_assoc]
    intro hnd
    have h1 := (List.nodup_append.mp hnd).2.1
    simp only [List.cons_append] at h1
    have h2 := (List.nodup_cons.mp h1).1
    exact h2 (by simp)
  rw [Bool.and_eq_false_iff]
  right
  exact decide_eq_false this

-- (no `decide` examples here: kernel reduction does not get through `String.splitOn`; the driver evaluates `peersAccepted`
--  on every table of the peer-table scenario on every run, accepted and refused ones)

end Dirk.Dkg
