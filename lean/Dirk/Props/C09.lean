/-
  C09 — Valid, advancing duties are signed; batches equal one-at-a-time.

  (1) rule-level liveness: against any decodable record, a well-formed request that is above the
      record (target strictly, source weakly; slot strictly) and below 2^63 is APPROVED and recorded;
  (2) for any batch of requests with distinct keys whose records are decodable, the batch path gives,
      position by position, the verdicts of running its entries one at a time;
  (3) `Scatter` splits [0,n) into consecutive, non-empty extents covering every index exactly once,
      for every n > 0 and every GOMAXPROCS > 0.
  The history-level form of (1) ("above everything previously *signed*") additionally needs that the
  record never exceeds what was signed; that holds on fault-free, import-free histories and is what
  the check's judge evaluates on the implementation.
-/
import Dirk.Lemmas.Run
import Dirk.Lemmas.Scatter
import Dirk.Lemmas.Exact
import Dirk.Props.KernelsEq

set_option linter.unusedSimpArgs false

namespace Dirk

/-- **C09 (attestation liveness, rule level).** -/
theorem C09_live_att_rule (db : Db) (pk : Bytes) (r : AttReq) (st : AttState)
    (hf : fetchAtt db pk false = some st)
    (hdom : prefix4 r.domain = domAttester)
    (hord : r.src < r.tgt ∨ (r.src = 0 ∧ r.tgt = 0))
    (hs : r.src ≤ maxI64) (ht : r.tgt ≤ maxI64)
    (habove_t : st.tgt < (r.tgt : Int)) (habove_s : st.src ≤ (r.src : Int)) :
    (onAttest db pk r {}).1 = .approved ∧
    fetchAtt (onAttest db pk r {}).2 pk false = some ⟨(r.src : Int), (r.tgt : Int)⟩ := by
  have hchk : attChecks r st = (.approved, ⟨(r.src : Int), (r.tgt : Int)⟩) := by
    unfold attChecks
    have h1 : ¬ ((r.src ≠ 0 ∨ r.tgt ≠ 0) ∧ r.tgt ≤ r.src) := by omega
    have h2 : ¬ (r.src > maxI64 ∨ r.tgt > maxI64) := by omega
    have h3 : ¬ (st.tgt ≥ 0 ∧ r.tgt ≤ u64 st.tgt) := by
      intro ⟨h0, hh⟩; have := u64_nonneg _ h0; omega
    have h4 : ¬ (st.src ≥ 0 ∧ r.src < u64 st.src) := by
      intro ⟨h0, hh⟩; have := u64_nonneg _ h0; omega
    simp [hdom, h1, h2, h3, h4, i64_small _ hs, i64_small _ ht]
  have hin : InI64 ((r.src : Int)) ∧ InI64 ((r.tgt : Int)) := by
    unfold InI64 maxI64 two63 at *; constructor <;> constructor <;> omega
  unfold onAttest
  simp [Faults.fetchFail, hf, hchk, storeOne, Faults.storeFail]
  exact fetchAtt_put_att_same _ _ ⟨(r.src : Int), (r.tgt : Int)⟩ hin.1 hin.2

/-- **C09 (proposal liveness, rule level).** -/
theorem C09_live_prop_rule (db : Db) (pk : Bytes) (r : PropReq) (st : Int)
    (hf : fetchProp db pk false = some st)
    (hdom : prefix4 r.domain = domProposer) (hs : r.slot ≤ maxI64) (habove : st < (r.slot : Int)) :
    (onPropose db pk r {}).1 = .approved ∧
    fetchProp (onPropose db pk r {}).2 pk false = some (r.slot : Int) := by
  have h2 : ¬ (r.slot > maxI64) := by omega
  have h3 : ¬ (st ≥ 0 ∧ r.slot ≤ u64 st) := by
    intro ⟨h0, hh⟩; have := u64_nonneg _ h0; omega
  have hin : InI64 ((r.slot : Int)) := by
    unfold InI64 maxI64 two63 at *; constructor <;> omega
  unfold onPropose
  simp [hdom, h2, Faults.fetchFail, hf, h3, storeOne, Faults.storeFail, i64_small _ hs]
  exact fetchProp_put_prop_same _ _ _ hin

/-- the entries of a batch submitted one at a time -/
def seqVerdicts (db : Db) : List (Bytes × AttReq) → List Verdict
  | [] => []
  | (k, r) :: rest => (onAttest db k r {}).1 :: seqVerdicts (onAttest db k r {}).2 rest

theorem onAttest_fetch_other (db : Db) (k k' : Bytes) (r : AttReq) (f : Faults) (h : k' ≠ k) :
    fetchAtt (onAttest db k r f).2 k' false = fetchAtt db k' false := by
  rcases onAttest_db_cases db k r f with h1 | ⟨v, h1⟩
  · rw [h1]
  · rw [h1, fetchAtt_put_att_other _ _ _ _ h]

theorem onAttest_nofault_verdict (db : Db) (k : Bytes) (r : AttReq) (st : AttState)
    (hf : fetchAtt db k false = some st) : (onAttest db k r {}).1 = (attChecks r st).1 := by
  unfold onAttest
  simp only [Faults.fetchFail, List.contains_nil, hf]
  split
  · rename_i st' hq; simp [storeOne, Faults.storeFail, hq]
  · rename_i v0 st0 hne hq; simp [hq]

theorem evalBatch_eq_seq (db0 : Db) : ∀ (items : List (Bytes × AttReq)) (db : Db) (i : Nat),
    (items.map (·.1)).Nodup →
    (∀ k ∈ items.map (·.1), fetchAtt db k false = fetchAtt db0 k false) →
    (∀ k ∈ items.map (·.1), (fetchAtt db0 k false).isSome) →
    ∃ evs, evalBatch id db0 {} i items = some evs ∧ evs.map (·.2.2.1) = seqVerdicts db items := by
  intro items
  induction items with
  | nil => intro db i _ _ _; exact ⟨[], rfl, rfl⟩
  | cons it rest ih =>
    intro db i hn hsame hdec
    obtain ⟨k, r⟩ := it
    simp only [List.map_cons, List.nodup_cons] at hn
    have hk0 : (fetchAtt db0 k false).isSome := hdec k (by simp)
    obtain ⟨st, hst⟩ := Option.isSome_iff_exists.mp hk0
    have hkdb : fetchAtt db k false = some st := by rw [hsame k (by simp), hst]
    have hrest := ih (onAttest db k r {}).2 (i + 1) hn.2
      (by
        intro k' hk'
        have hne : k' ≠ k := fun e => hn.1 (e ▸ hk')
        rw [onAttest_fetch_other _ _ _ _ _ hne]
        exact hsame k' (by simp [hk']))
      (by intro k' hk'; exact hdec k' (by simp [hk']))
    obtain ⟨evs, he, hv⟩ := hrest
    refine ⟨(k, r, attChecks (id r) st) :: evs, ?_, ?_⟩
    · simp [evalBatch, Faults.fetchFail, hst, he]
    · simp [seqVerdicts, hv, onAttest_nofault_verdict db k r st hkdb]

/-- **C09 (batch = one at a time).** For requests naming distinct keys whose records are decodable,
    and no injected fault, the batch path returns position by position exactly the verdicts of
    submitting the entries one at a time (each against the state its predecessors left). -/
theorem C09_batch_eq_seq (db : Db) (items : List (Bytes × AttReq)) (hne : items ≠ [])
    (hn : (items.map (·.1)).Nodup) (hdec : ∀ k ∈ items.map (·.1), (fetchAtt db k false).isSome) :
    ∃ evs, (onAttestBatch id db items {}).1 = some evs ∧ evs.map (·.2.2) = seqVerdicts db items := by
  obtain ⟨evs, he, hv⟩ := evalBatch_eq_seq db items db 0 hn (fun _ _ => rfl) hdec
  have hevs : evs ≠ [] := by
    intro h0; subst h0
    cases items with
    | nil => exact hne rfl
    | cons it rest =>
      obtain ⟨k, r⟩ := it
      simp only [evalBatch] at he
      split at he
      · cases he
      · split at he <;> cases he
  refine ⟨evs.map (fun e => (e.1, e.2.1, e.2.2.1)), ?_, ?_⟩
  · unfold onAttestBatch
    simp only [he]
    have : (batchKvs evs).isEmpty = false := by
      cases evs with
      | nil => exact absurd rfl hevs
      | cons _ _ => simp [batchKvs]
    simp [storeMany, this, Faults.storeFail]
  · simp [List.map_map, Function.comp_def, ← hv]

/-- **C09 (scatter).** -/
theorem C09_scatter_partition (n p : Nat) (hn : 0 < n) (hp : 0 < p) :
    (extents n p).flatMap (fun e => List.range' e.1 e.2) = List.range n ∧
    (∀ e ∈ extents n p, 0 < e.2) ∧ (extents n p).length ≤ n :=
  ⟨extents_partition n p hn hp, extents_nonempty n p hn hp, extents_length_le n p hn hp⟩

/-- **C09 (attestation liveness, all clean histories).** After any fault-free history of operations
    from an empty store (signing, restarts, account creation, account and wallet lock / unlock — no live
    import, which the property excludes), a well-formed request from a client that is authorised under the
    configuration as it is then, that advances on everything released so far for its key (and is below
    2^63) is signed. -/
theorem C09_live_att (cfg : Config) (ops : List Op) (hc : ∀ op ∈ ops, op.clean)
    (c : String) (a : Addr) (d : AttData) (acct : Account)
    (hwf : d.wellFormed = true) (hpc : preCheck (run (init cfg []) ops).cfg c a opAttest = .ok acct)
    (hroot : d.signingRoot ≠ none) (hdom : prefix4 (d.domain.getD []) = domAttester)
    (hord : d.src < d.tgt ∨ (d.src = 0 ∧ d.tgt = 0)) (hs : d.src ≤ maxI64) (ht : d.tgt ≤ maxI64)
    (hadv : ∀ e ∈ (run (init cfg []) ops).attLog, e.1 = acct.pubkey → e.2.tgt < d.tgt ∧ e.2.src ≤ d.src) :
    (signAtt (run (init cfg []) ops) c a d {} false).2.res = .succeeded :=
  live_att cfg ops hc c a d acct hwf hpc hroot hdom hord hs ht hadv

/-- **C09 (proposal liveness, all clean histories).** -/
theorem C09_live_prop (cfg : Config) (ops : List Op) (hc : ∀ op ∈ ops, op.clean)
    (c : String) (a : Addr) (d : PropData) (acct : Account)
    (hwf : d.wellFormed = true) (hpc : preCheck (run (init cfg []) ops).cfg c a opPropose = .ok acct)
    (hroot : d.signingRoot ≠ none) (hdom : prefix4 (d.domain.getD []) = domProposer) (hs : d.slot ≤ maxI64)
    (hadv : ∀ e ∈ (run (init cfg []) ops).propLog, e.1 = acct.pubkey → e.2.slot < d.slot) :
    (signProp (run (init cfg []) ops) c a d {} false).2.res = .succeeded :=
  live_prop cfg ops hc c a d acct hwf hpc hroot hdom hs hadv

/-- non-vacuity -/
example : extents 10 3 = [(0, 4), (4, 4), (8, 2)] := by decide
example : seqVerdicts [] [([7], ⟨domAttester, 1, 2⟩), ([8], ⟨domAttester, 3, 3⟩)] = [.approved, .denied] := by decide

/-- **tie by translation.** The extent size the partition theorems are about is, for every batch size that fits an
    int64 and every positive processor count, what the function translated on every run from the Go source of
    `calculateExtentSize` (util/scatter.go; Go `int` arithmetic with truncating division and wrap-around) returns —
    and that Go code neither divides by zero nor overflows there. -/
theorem C09_kernel_is_source (n p : Nat) (hp : 0 < p) (hn : n ≤ maxI64) :
    Gen.extentSizeGen n p = some (extentSize n p : Int) :=
  extentSize_eq_gen n p hp hn

end Dirk
