/-
  C01 — No slashable attestation is ever signed for a key.

  For every configuration, every pre-existing store, every finite history of operations (single and
  batch attestations in any mix, by name or key, keys repeated inside batches, any epochs, any
  domains/roots, injected fetch/store/sign faults with the failed write landed or not, restarts,
  proposals and generic signing in between) and every key: the attestation signatures released for
  that key are strictly increasing in target and non-decreasing in source, hence no two of them are
  a double vote or a surround vote.

  Only property statements live here; helper lemmas are in Dirk/Lemmas.
-/
import Dirk.Lemmas.Run
import Dirk.Spec.Slashing
import Dirk.Props.KernelsEq

namespace Dirk
open Spec

theorem votesFor_pairwise {log : List (Bytes × AttData)} (h : LogMono log) (k : Bytes) :
    (votesFor log k).Pairwise (fun a b => a.tgt < b.tgt ∧ a.src ≤ b.src) := by
  unfold votesFor
  rw [List.pairwise_map]
  have h1 := List.Pairwise.filter (fun e => decide (e.1 = k)) h
  refine List.Pairwise.imp_of_mem ?_ h1
  intro a b ha hb hab
  have hak : a.1 = k := by simpa using (List.mem_filter.mp ha).2
  have hbk : b.1 = k := by simpa using (List.mem_filter.mp hb).2
  exact hab (by rw [hak, hbk])

/-- **C01 (monotone form).** Per key, released attestations strictly increase in target epoch and
    never decrease in source epoch. -/
theorem C01_monotone (cfg : Config) (db0 : Db) (ops : List Op) (k : Bytes) :
    (votesFor (run (init cfg db0) ops).attLog k).Pairwise (fun a b => a.tgt < b.tgt ∧ a.src ≤ b.src) :=
  votesFor_pairwise (run_attInv ops _ (init_attInv cfg db0)).mono k

theorem not_slashable_of_lt {a b : Vote} (h : a.tgt < b.tgt ∧ a.src ≤ b.src) :
    ¬ Slashable a b ∧ ¬ Slashable b a := by
  unfold Slashable DoubleVote Surrounds
  constructor <;> (intro hs; rcases hs with ⟨h1, _⟩ | ⟨h1, h2⟩ | ⟨h1, h2⟩ <;> omega)

/-- **C01.** No two attestation signatures released for one key over the whole lifetime of an
    instance are slashable against each other (double vote or surround, either way round). -/
theorem C01 (cfg : Config) (db0 : Db) (ops : List Op) (k : Bytes) :
    (votesFor (run (init cfg db0) ops).attLog k).Pairwise
      (fun a b => ¬ Slashable a b ∧ ¬ Slashable b a) :=
  (C01_monotone cfg db0 ops k).imp not_slashable_of_lt

/-- index form of C01 -/
theorem C01_index (cfg : Config) (db0 : Db) (ops : List Op) (k : Bytes) (i j : Nat)
    (hi : i < (votesFor (run (init cfg db0) ops).attLog k).length)
    (hj : j < (votesFor (run (init cfg db0) ops).attLog k).length) (hij : i ≠ j) :
    ¬ Slashable ((votesFor (run (init cfg db0) ops).attLog k)[i]) ((votesFor (run (init cfg db0) ops).attLog k)[j]) := by
  have hp := C01 cfg db0 ops k
  rw [List.pairwise_iff_getElem] at hp
  rcases Nat.lt_or_gt_of_ne hij with h | h
  · exact (hp i j hi hj h).1
  · exact (hp j i hj hi h).2

/-- The same statement is **false** of the rule as shipped at the pinned commit (before the
    `fix:` commit): an attestation with target 2^63 is approved, recorded as a negative watermark,
    and a second, different attestation with the same target is approved again. -/
theorem C01_legacy_counterexample :
    ∃ (r1 r2 : AttReq) (st1 st2 : AttState),
      attChecksLegacy r1 ⟨-1, -1⟩ = (.approved, st1) ∧ attChecksLegacy r2 st1 = (.approved, st2) ∧
      r1.tgt = r2.tgt ∧ r1.tgt = two63 := by
  refine ⟨⟨domAttester, 5, two63⟩, ⟨domAttester, 5, two63⟩, ⟨5, -9223372036854775808⟩,
    ⟨5, -9223372036854775808⟩, ?_, ?_, rfl, rfl⟩ <;> decide

/-- the fixed rule refuses that request -/
theorem C01_fixed_refuses : (attChecks ⟨domAttester, 5, two63⟩ ⟨-1, -1⟩).1 = .denied := by decide

/-- non-vacuity: the rule does approve advancing requests (so the logs the theorem speaks about are
    not always empty): from an empty store 1→2 is approved and recorded, then 2→3 is approved. -/
example : (onAttest [] [7] ⟨domAttester, 1, 2⟩ {}).1 = .approved := by decide
example : (onAttest (onAttest [] [7] ⟨domAttester, 1, 2⟩ {}).2 [7] ⟨domAttester, 2, 3⟩ {}).1 = .approved := by
  decide
/-- … and refuses the double vote -/
example : (onAttest (onAttest [] [7] ⟨domAttester, 1, 2⟩ {}).2 [7] ⟨domAttester, 0, 2⟩ {}).1 = .denied := by
  decide

/-- **tie by translation.** The check function the theorems above are about is, for all inputs, the function
    `factx` translates statement by statement from the current Go source of `runSignBeaconAttestationChecks`
    (`Dirk/Gen/Kernels.lean`, regenerated on every run): a change to that Go function changes the generated
    definition and this theorem stops building. -/
theorem C01_kernel_is_source (r : AttReq) (st : AttState) :
    attChecks r st = attWrap (Gen.attChecksGen r.domain r.src r.tgt st.src st.tgt) :=
  attChecks_eq_gen r st

end Dirk
