/-
  C01 — No slashable attestation is ever signed for a key.

  For every configuration, every pre-existing store, every finite history of operations (single and
  batch attestations in any mix, by name or key, keys repeated inside batches, any epochs, any
  domains/roots, injected fetch/store/sign faults with the failed write landed or not, restarts,
  proposals and generic signing in between, accounts created, locked and unlocked at run time, wallet
  lock / unlock, slashing-protection import commands with any file between a stop and a start) and every
  key: the attestation signatures released for that key are strictly increasing in target and
  non-decreasing in source, hence no two of them are a double vote or a surround vote.

  The only operation of `Op` the histories of `C01` exclude (`NoRawImport`) is the raw rules-level import
  `Op.importRec` (`importKey`), which OVERWRITES the record of its key and which dirk reaches only through
  the import command (`Op.importCmd`, `importFile`), which merges raise-only first.  The `…_with_imports`
  theorems generalise to histories that also contain raw imports, each of which covers what had been
  released for its key when it is applied (`SafeHist` / `ImportCovers`, Dirk.Model.Instance; implied by the
  store-level "never lowers" condition `ImportRaises`, Lemmas/OpsExtra.lean).  A raw import below a released
  signature makes the statement false: `C01_lowering_import_counterexample`.

  Only property statements live here; helper lemmas are in Dirk/Lemmas.
-/
import Dirk.Lemmas.Run
import Dirk.Spec.Slashing
import Dirk.Props.KernelsEq
import Dirk.Lemmas.SszBinding

namespace Dirk
open Spec

theorem votesFor_pairwise {log : List (Bytes × AttData)} (h : LogMono log) (k : Bytes) :
    (votesFor log k).Pairwise (fun a b => a.tgt < b.tgt ∧ a.src ≤ b.src) := by
  unfold votesFor
  rw [List.pairwise_map]
  have h1 := List.Pairwise.filter (fun e => decide (e.1 = k)) h
  refine List.Pairwise.imp_of_mem ?_ h1
  intro a b ha hb hab
  have hak : a.1 = k := by simpa using (List.mem_filter.mp ha).2
  have hbk : b.1 = k := by simpa using (List.mem_filter.mp hb).2
  exact hab (by rw [hak, hbk])

/-- generalisation of `C01_monotone` to histories with raw imports that cover what had been released -/
theorem C01_monotone_with_imports (cfg : Config) (db0 : Db) (ops : List Op) (hs : SafeHist (init cfg db0) ops)
    (k : Bytes) :
    (votesFor (run (init cfg db0) ops).attLog k).Pairwise (fun a b => a.tgt < b.tgt ∧ a.src ≤ b.src) :=
  votesFor_pairwise (run_attInv_with_imports ops _ (init_attInv cfg db0) hs).mono k

theorem not_slashable_of_lt {a b : Vote} (h : a.tgt < b.tgt ∧ a.src ≤ b.src) :
    ¬ Slashable a b ∧ ¬ Slashable b a := by
  unfold Slashable DoubleVote Surrounds
  constructor <;> (intro hs; rcases hs with ⟨h1, _⟩ | ⟨h1, h2⟩ | ⟨h1, h2⟩ <;> omega)

/-- generalisation of `C01` to histories with raw imports that cover what had been released -/
theorem C01_with_imports (cfg : Config) (db0 : Db) (ops : List Op) (hs : SafeHist (init cfg db0) ops) (k : Bytes) :
    (votesFor (run (init cfg db0) ops).attLog k).Pairwise
      (fun a b => ¬ Slashable a b ∧ ¬ Slashable b a) :=
  (C01_monotone_with_imports cfg db0 ops hs k).imp not_slashable_of_lt

/-- index form of `C01_with_imports` -/
theorem C01_index_with_imports (cfg : Config) (db0 : Db) (ops : List Op) (hs : SafeHist (init cfg db0) ops)
    (k : Bytes) (i j : Nat)
    (hi : i < (votesFor (run (init cfg db0) ops).attLog k).length)
    (hj : j < (votesFor (run (init cfg db0) ops).attLog k).length) (hij : i ≠ j) :
    ¬ Slashable ((votesFor (run (init cfg db0) ops).attLog k)[i]) ((votesFor (run (init cfg db0) ops).attLog k)[j]) := by
  have hp := C01_with_imports cfg db0 ops hs k
  rw [List.pairwise_iff_getElem] at hp
  rcases Nat.lt_or_gt_of_ne hij with h | h
  · exact (hp i j hi hj h).1
  · exact (hp j i hj hi h).2

/-- **C01 (monotone form).** Per key, released attestations strictly increase in target epoch and
    never decrease in source epoch. -/
theorem C01_monotone (cfg : Config) (db0 : Db) (ops : List Op) (k : Bytes) (h : NoRawImport ops) :
    (votesFor (run (init cfg db0) ops).attLog k).Pairwise (fun a b => a.tgt < b.tgt ∧ a.src ≤ b.src) :=
  C01_monotone_with_imports cfg db0 ops (safeHist_of_noRawImport ops _ h) k

/-- **C01.** No two attestation signatures released for one key over the whole lifetime of an
    instance are slashable against each other (double vote or surround, either way round). -/
theorem C01 (cfg : Config) (db0 : Db) (ops : List Op) (k : Bytes) (h : NoRawImport ops) :
    (votesFor (run (init cfg db0) ops).attLog k).Pairwise
      (fun a b => ¬ Slashable a b ∧ ¬ Slashable b a) :=
  C01_with_imports cfg db0 ops (safeHist_of_noRawImport ops _ h) k

/-- index form of C01 -/
theorem C01_index (cfg : Config) (db0 : Db) (ops : List Op) (k : Bytes) (h : NoRawImport ops) (i j : Nat)
    (hi : i < (votesFor (run (init cfg db0) ops).attLog k).length)
    (hj : j < (votesFor (run (init cfg db0) ops).attLog k).length) (hij : i ≠ j) :
    ¬ Slashable ((votesFor (run (init cfg db0) ops).attLog k)[i]) ((votesFor (run (init cfg db0) ops).attLog k)[j]) :=
  C01_index_with_imports cfg db0 ops (safeHist_of_noRawImport ops _ h) k i j hi hj hij

/-- The same statement is **false** of the rule as shipped at the pinned commit (before the
    `fix:` commit): an attestation with target 2^63 is approved, recorded as a negative watermark,
    and a second, different attestation with the same target is approved again. -/
theorem C01_legacy_counterexample :
    ∃ (r1 r2 : AttReq) (st1 st2 : AttState),
      attChecksLegacy r1 ⟨-1, -1⟩ = (.approved, st1) ∧ attChecksLegacy r2 st1 = (.approved, st2) ∧
      r1.tgt = r2.tgt ∧ r1.tgt = two63 := by
  refine ⟨⟨domAttester, 5, two63⟩, ⟨domAttester, 5, two63⟩, ⟨5, -9223372036854775808⟩,
    ⟨5, -9223372036854775808⟩, ?_, ?_, rfl, rfl⟩ <;> decide

/-- the fixed rule refuses that request -/
theorem C01_fixed_refuses : (attChecks ⟨domAttester, 5, two63⟩ ⟨-1, -1⟩).1 = .denied := by decide

/-- non-vacuity: the rule does approve advancing requests (so the logs the theorem speaks about are
    not always empty): from an empty store 1→2 is approved and recorded, then 2→3 is approved. -/
example : (onAttest [] [7] ⟨domAttester, 1, 2⟩ {}).1 = .approved := by decide
example : (onAttest (onAttest [] [7] ⟨domAttester, 1, 2⟩ {}).2 [7] ⟨domAttester, 2, 3⟩ {}).1 = .approved := by
  decide
/-- … and refuses the double vote -/
example : (onAttest (onAttest [] [7] ⟨domAttester, 1, 2⟩ {}).2 [7] ⟨domAttester, 0, 2⟩ {}).1 = .denied := by
  decide

/-! ### histories with a live import between two signing operations -/

namespace C01ex

def dom : Bytes := [1, 0, 0, 0] ++ List.replicate 28 0
def pk : Bytes := List.replicate 48 7
def acct : Account := { wallet := "w", name := "a", pubkey := pk }
def cfg : Config :=
  { accounts := [acct],
    access := [("c", [{ wallet := .star .any, account := .star .any, ops := ["All"] }])] }
def data (s t : Nat) : AttData :=
  { domain := some dom, slot := 0, cidx := 0, bbr := some [], src := s, srcRoot := some [], tgt := t,
    tgtRoot := some [] }
def att (s t : Nat) : Op := .att "c" { name := "w/a" } (data s t) {}

theorem pc : preCheck cfg "c" { name := "w/a" } opAttest = .ok acct := by decide

theorem root (s t : Nat) : (data s t).signingRoot = some (Ssz.h2 (Ssz.attRoot (data s t).sszData) dom) :=
  att_signingRoot_exists _ _ (by show dom.length = 32; decide)

/-- the store after 3→10 has been signed -/
def db1 : Db := (onAttest [] pk (data 3 10).req {}).2
/-- the instance after 3→10 has been signed -/
def s1 : Inst := { cfg := cfg, db := db1, attLog := [(pk, data 3 10)] }
/-- … and after `r` has then been imported for the key -/
def s2 (r : Protection) : Inst := { cfg := cfg, db := importKey db1 (toBytes48 pk) r, attLog := [(pk, data 3 10)] }

/-- the first attestation 3→10 is signed -/
theorem step1 : (step (init cfg []) (att 3 10)).1 = s1 := by
  have h := signAtt_approved_eq (s := init cfg []) (c := "c") (a := { name := "w/a" }) (d := data 3 10)
    (f := {}) (acct := acct) (db' := db1) (by decide) pc (by decide) (root 3 10)
  show (signAtt (init cfg []) "c" { name := "w/a" } (data 3 10) {} false).1 = s1
  rw [h]; rfl

theorem step2 (r : Protection) : (step s1 (.importRec pk r)).1 = s2 r := rfl

/-- against an imported (3, 12), 4→11 is refused -/
theorem step3_refused :
    step (s2 { src := 3, tgt := 12 }) (att 4 11) = (s2 { src := 3, tgt := 12 }, .one ⟨.denied, none⟩) := by
  have h := signAtt_denied_eq (s := s2 { src := 3, tgt := 12 }) (c := "c") (a := { name := "w/a" })
    (d := data 4 11) (f := {}) (acct := acct) (db' := (s2 { src := 3, tgt := 12 }).db) (by decide) pc (by decide)
  show ((signAtt (s2 { src := 3, tgt := 12 }) "c" { name := "w/a" } (data 4 11) {} false).1,
        Out.one (signAtt (s2 { src := 3, tgt := 12 }) "c" { name := "w/a" } (data 4 11) {} false).2) = _
  rw [h]

/-- against an imported (0, 5), 4→7 is approved and signed -/
theorem step3_signed :
    (step (s2 { src := 0, tgt := 5 }) (att 4 7)).1.attLog = [(pk, data 3 10), (pk, data 4 7)] := by
  have h := signAtt_approved_eq (s := s2 { src := 0, tgt := 5 }) (c := "c") (a := { name := "w/a" })
    (d := data 4 7) (f := {}) (acct := acct)
    (db' := (onAttest (s2 { src := 0, tgt := 5 }).db pk (data 4 7).req {}).2) (by decide) pc (by decide) (root 4 7)
  show (signAtt (s2 { src := 0, tgt := 5 }) "c" { name := "w/a" } (data 4 7) {} false).1.attLog = _
  rw [h]; rfl

theorem run3 (r : Protection) (d : Op) :
    run (init cfg []) [att 3 10, .importRec pk r, d] = (step (s2 r) d).1 := by
  show (step (step (step (init cfg []) (att 3 10)).1 (.importRec pk r)).1 d).1 = _
  rw [step1, step2]

end C01ex

/-- non-vacuity of the import case: a history with an import between two attestations that satisfies the
    hypothesis of `C01_with_imports` (the imported 3→12 covers the released 3→10); the attestation after the
    import, 4→11, is refused and nothing is logged for it. -/
example :
    SafeHist (init C01ex.cfg []) [C01ex.att 3 10, .importRec C01ex.pk { src := 3, tgt := 12 }, C01ex.att 4 11] ∧
    (step (run (init C01ex.cfg []) [C01ex.att 3 10, .importRec C01ex.pk { src := 3, tgt := 12 }]) (C01ex.att 4 11)).2
      = .one ⟨.denied, none⟩ ∧
    (run (init C01ex.cfg []) [C01ex.att 3 10, .importRec C01ex.pk { src := 3, tgt := 12 }, C01ex.att 4 11]).attLog
      = [(C01ex.pk, C01ex.data 3 10)] := by
  refine ⟨⟨trivial, ?_, trivial, trivial⟩, ?_, ?_⟩
  · rw [C01ex.step1]; decide
  · show (step (step (step (init C01ex.cfg []) (C01ex.att 3 10)).1 (.importRec C01ex.pk _)).1 _).2 = _
    rw [C01ex.step1, C01ex.step2, C01ex.step3_refused]
  · rw [C01ex.run3, C01ex.step3_refused]; rfl

/-- a file for the import command that states LESS (source 0, target 5) than what was signed (3→10) -/
def C01ex.lowFile : IFile :=
  { metadata := some ("5", "0x" ++ String.ofList (List.replicate 64 '0')),
    data := [{ pubkey := "0x070707070707070707070707070707070707070707070707070707070707070707070707070707070707070707070707",
               blocks := [], atts := [("0", "5")] }] }

/-- non-vacuity of the import-command case: a history in which the import command is run with a file
    holding lower values than what was signed, between two attestations, is a history `C01` speaks about
    (the command merges raise-only, so no hypothesis on the file is needed). -/
example : NoRawImport [C01ex.att 3 10, .importCmd ("0x" ++ String.ofList (List.replicate 64 '0')) C01ex.lowFile, C01ex.att 4 7] := by
  decide

example :
    (votesFor (run (init C01ex.cfg [])
        [C01ex.att 3 10, .importCmd ("0x" ++ String.ofList (List.replicate 64 '0')) C01ex.lowFile, C01ex.att 4 7]).attLog
      C01ex.pk).Pairwise (fun a b => ¬ Slashable a b ∧ ¬ Slashable b a) :=
  C01 _ _ _ _ (by decide)

/-- **With a raw import below a released signature the statement is false.**  3→10 is signed; a raw import
    (`Op.importRec`, not the import command) then states source 0,
    target 5 for the key (the record is overwritten, not merged); 4→7 is then approved and signed, and
    3→10 surrounds 4→7. -/
theorem C01_lowering_import_counterexample :
    ∃ (cfg : Config) (ops : List Op) (k : Bytes),
      ¬ (votesFor (run (init cfg []) ops).attLog k).Pairwise (fun a b => ¬ Slashable a b ∧ ¬ Slashable b a) := by
  refine ⟨C01ex.cfg, [C01ex.att 3 10, .importRec C01ex.pk { src := 0, tgt := 5 }, C01ex.att 4 7], C01ex.pk, ?_⟩
  rw [C01ex.run3, C01ex.step3_signed]
  decide

/-- … and that history is indeed not safe -/
example : ¬ SafeHist (init C01ex.cfg []) [C01ex.att 3 10, .importRec C01ex.pk { src := 0, tgt := 5 }, C01ex.att 4 7] := by
  intro h
  have := h.2.1
  rw [C01ex.step1] at this
  revert this
  decide

/-- **tie by translation.** The check function the theorems above are about is, for all inputs, the function
    `factx` translates statement by statement from the current Go source of `runSignBeaconAttestationChecks`
    (`Dirk/Gen/Kernels.lean`, regenerated on every run): a change to that Go function changes the generated
    definition and this theorem stops building. -/
theorem C01_kernel_is_source (r : AttReq) (st : AttState) :
    attChecks r st = attWrap (Gen.attChecksGen r.domain r.src r.tgt st.src st.tgt) :=
  attChecks_eq_gen r st

end Dirk
