/-
  C20 — No client request can crash the daemon (partial: runtime memory).

  (1) every panic-capable construct the regenerated inventory finds in the packages client requests reach
      is on the reviewed list (an obligation re-checked against /repo's source on every run);
  (2) the `Domain[0:4]` slicing in the rules cannot go out of bounds for any byte field protobuf decoding
      can produce; (3) the allocation sized by the client's `participants` is bounded by the number of
      configured peers; (4) key-generation messages from non-peers are refused before any processing;
  (5) the handler model returns one response entry per request entry (the per-position arrays are
      index-aligned: C06_shape_*).  Handlers in the Lean model are total functions by construction; what
      the Go runtime can still do (allocator, C library) is probed by the wire engine.
-/
import Dirk.Gen.Facts
import Dirk.Model.Crashes
import Dirk.Model.Handler
import Dirk.Props.C06
import Dirk.Props.C16
import Dirk.Props.KernelsEq

namespace Dirk

/-- **C20 (inventory covered).** -/
theorem C20_sites_covered : ∀ s ∈ Gen.panicSites, s ∈ coveredSites := by
  have h : Gen.panicSites.all (fun s => coveredSites.contains s) = true := by decide +kernel
  intro s hs
  have := List.all_eq_true.mp h s hs
  simpa using this

/-- **C20 (domain slicing is safe).** For every byte field protobuf decoding can produce, reading the
    4-byte type prefix never goes out of bounds. -/
theorem C20_domain_slice_safe (b : WireBytes) (h : b.Inv) : ∃ r, domainPrefix b = .ok r := by
  unfold domainPrefix
  split
  · exact ⟨none, rfl⟩
  · rename_i hne
    have := h.2.2 hne
    unfold slice04
    have : ¬ b.cap < 4 := by omega
    simp [this, Except.map]

/-- **C20 (allocation bounded).** The allocation in `Suitable` never exceeds the number of peers. -/
theorem C20_alloc_bounded (npeers n : Nat) :
    ∃ r, suitableAlloc npeers n = .ok r ∧ ∀ k, r = some k → k ≤ npeers := by
  unfold suitableAlloc
  split
  · exact ⟨none, rfl, by simp⟩
  · exact ⟨some n, rfl, by intro k hk; injection hk with hk; omega⟩

/-- **C20 (key-generation messages from non-peers).** Refused up front, state untouched (from C16). -/
theorem C20_dkg_non_peer (c : Dkg.Cluster) (i caller : Nat) (acct : String) (t : Nat) (parts : List Nat)
    (valid : Bool) (vlen : Nat) (h : Dkg.senderId c caller = 0) :
    Dkg.onPrepare c i caller acct t parts = (c, .unknownSender) ∧
    Dkg.onExecute c i caller acct = (c, .unknownSender) ∧
    Dkg.onContribute c i caller acct valid vlen = (c, .unknownSender) ∧
    Dkg.onCommit c i caller acct = (c, .unknownSender) ∧
    Dkg.onAbort c i caller acct = (c, .unknownSender) :=
  Dkg.C16_refuse_non_peer c i caller acct t parts valid vlen h

/-- **C20 (response shape through the handlers).** One response entry per request entry, one for an
    empty request — so indexing the response by request position is always in range. -/
theorem C20_handlers_shape (s : Inst) (c : String) (items : List (Addr × AttData)) (f : Faults) (sf : List Nat) :
    (hSignAtts s c items f sf).2.length = max 1 items.length := by
  unfold hSignAtts
  simp only
  split
  · rename_i he
    have : items = [] := by simpa using he
    simp [this]
  · rename_i hne
    have hpos : 0 < items.length := by
      cases items with
      | nil => simp at hne
      | cons _ _ => simp
    split
    · simp; omega
    · have := C06_shape_atts s c (items.map (fun it => (it.1.wire, it.2.wire))) f sf
      simp only [List.length_map] at this ⊢
      exact this

/-- The shipped defect (repaired by a `fix:` commit): the allocation happened before the comparison with
    the number of peers; a request for 2^32−1 participants against 3 peers aborts a process that may map
    fewer than 2^32−1 pointer-sized entries. -/
theorem C20_legacy_counterexample : suitableAllocLegacy (2 ^ 31) 3 (2 ^ 32 - 1) = .error .outOfMemory := by
  simp [suitableAllocLegacy]

/-- **tie by translation.** The bound check `C20_alloc_bounded` relies on is the guard translated on every run from the
    Go source of `Suitable` (peers/static/service.go), and it comes BEFORE the allocation. -/
theorem C20_kernel_is_source (npeers n : Nat) : suitableAlloc npeers n = .ok (Gen.suitableAllocGen n npeers) :=
  suitableAlloc_eq_gen npeers n

/-- **C20 / C06 (the batch handlers are the source).** What the gRPC handlers `SignBeaconAttestations` and `Multisign` do around the
    signer — one DENIED response for a nil or empty request; responses created UNKNOWN; the FIRST entry that fails
    identification gets its state and the handler returns without calling the signer; every signer result mapped to its
    response state, the signature copied under SUCCEEDED only — is translated on every run from
    services/api/grpc/handlers/signer/{signbeaconattestations,multisign}.go (factx/handlerbatch.go), and the model handlers
    `hSignAtts` / `hMultisign` are, case by case, those generated functions around `signAtts` / `multisign`
    (`hSignAtts_eq_gen`, `hMultisign_eq_gen` in Props/KernelsEq.lean §18).  Here: the response mapping is the model's `respond`
    for every position, and a signature leaves the handler only under SUCCEEDED. -/
theorem C20_handler_response_is_source (p : Pos) :
    respond p = ⟨p.res, if (Gen.resultToStateGen (resCode p.res)).2 then p.root else none⟩ ∧
    ((Gen.resultToStateGen (resCode p.res)).2 = true ↔ p.res = .succeeded) ∧
    (∀ n, resOfCode n = none → Gen.resultToStateGen n = (stateName .unknown, false)) :=
  ⟨(resultToState_eq_respond p).2.1, (resultToState_eq_respond p).2.2.2.1, (resultToState_eq_respond p).2.2.2.2⟩

end Dirk
