/-
  C17 — Key-generation sessions follow a strict one-per-account lifecycle.

  State machine over the cluster model (Dirk.Model.Dkg) with events prepare / execute / contribute /
  commit / abort / clock advance; for every cluster state, instance, caller and account name: preparing
  again while a generation is active is refused and leaves it intact; execute, contribute, commit and
  abort are refused unless one is active; commit succeeds only once every listed participant has
  contributed; after a successful commit, an abort or the timeout the generation is gone and a new one
  may start; generations for different names do not interfere.
-/
import Dirk.Lemmas.DkgLife
import Dirk.Lemmas.LifeJudge
import Dirk.Props.KernelsEq

namespace Dirk.Dkg

theorem C17_prepare_twice (c : Cluster) (i caller : Nat) (acct : String) (t : Nat) (parts : List Nat) (s : Session)
    (hp : senderId c caller ≠ 0) (hs : sessionOf c i acct = some s) :
    (onPrepare c i caller acct t parts).2 = .refused ∧ sessionOf (onPrepare c i caller acct t parts).1 i acct = some s :=
  prepare_twice c i caller acct t parts s hp hs

theorem C17_requires_active (c : Cluster) (i caller : Nat) (acct : String) (valid : Bool) (vlen : Nat)
    (hs : sessionOf c i acct = none) :
    (onExecute c i caller acct).2 ≠ .ok ∧ (onContribute c i caller acct valid vlen).2 ≠ .ok ∧
    (onCommit c i caller acct).2 ≠ .ok ∧ (onAbort c i caller acct).2 ≠ .ok :=
  requires_active c i caller acct valid vlen hs

/-- gone after a successful commit (which also created the account), after an abort, after the timeout -/
theorem C17_gone_after (c : Cluster) (i caller : Nat) (acct : String) :
    ((onCommit c i caller acct).2 = .ok →
        sessionOf (onCommit c i caller acct).1 i acct = none ∧ holdsAccount (onCommit c i caller acct).1 i acct = true) ∧
    ((onAbort c i caller acct).2 = .ok → sessionOf (onAbort c i caller acct).1 i acct = none) ∧
    (∀ s d, sessionOf c i acct = some s → c.now + d - s.started > c.timeout → sessionOf (tick c d) i acct = none) :=
  ⟨gone_after_commit c i caller acct, gone_after_abort c i caller acct, fun s d hs hd => gone_after_timeout c i acct s d hs hd⟩

theorem C17_restart_allowed (c : Cluster) (i caller : Nat) (acct : String) (t : Nat) (parts : List Nat)
    (hp : senderId c caller ≠ 0) (hi : getInst c i ≠ none) (hs : sessionOf c i acct = none) :
    (onPrepare c i caller acct t parts).2 = .ok ∧
    ∃ s, sessionOf (onPrepare c i caller acct t parts).1 i acct = some s ∧ s.participants = parts ∧ s.threshold = t :=
  restart_allowed c i caller acct t parts hp hi hs

/-- **commit succeeds only once every listed participant has contributed** -/
theorem C17_commit_complete (c : Cluster) (i caller : Nat) (acct : String)
    (h : (onCommit c i caller acct).2 = .ok) :
    ∃ s, sessionOf c i acct = some s ∧ ∀ p ∈ s.participants, p ∈ s.contributed :=
  commit_complete c i caller acct h

theorem C17_independent_names (c : Cluster) (i caller k : Nat) (acct other : String) (t : Nat) (parts : List Nat)
    (hne : other ≠ acct) :
    sessionOf (onPrepare c i caller acct t parts).1 k other = sessionOf c k other ∧
    sessionOf (onCommit c i caller acct).1 k other = sessionOf c k other ∧
    sessionOf (onAbort c i caller acct).1 k other = sessionOf c k other :=
  independent_names c i caller k acct other t parts hne

/-- **the lifecycle judge never raises an alarm on the model.**  `Spec.Life.judge` is the reading of C17
    that the check evaluates on the implementation's replies alone (no prepare accepted while a
    generation for that name is active on that instance, nothing else accepted while none is, names and
    instances independent by construction).  For every event sequence — prepares, executes (with the
    contribution exchanges they trigger), contributions, commits, aborts, clock advances, any callers,
    any names — fed to the model cluster the driver builds, every verdict on the model's own replies is
    "ok": the model satisfies that reading of C17 for all histories, and a verdict other than "ok" on
    the implementation is a behaviour the proven model cannot show. -/
theorem C17_lifecycle_all_histories (ids peers : List Nat) (timeout : Nat) (evs : List LifeJudge.Ev) :
    ∀ v ∈ LifeJudge.runBoth { insts := ids.map (fun i => ({ id := i } : DInst)), peers := peers, timeout := timeout }
      { timeout := timeout, now := 0 } evs, v = "ok" :=
  LifeJudge.judge_sound_driver ids peers timeout evs

/-- The shipped defect (repaired by a `fix:` commit): contributions were accepted from any peer and
    commit compared only counts — with participants {1,3,5} at instance 3, its own entry, a contribution
    from listed peer 1 and one from unlisted peer 2 made three, and the commit went through although 5
    never contributed.  In the fixed model that very event sequence is refused at the commit. -/
theorem C17_legacy_counterexample :
    let c0 : Cluster := { insts := [{ id := 1 }, { id := 2 }, { id := 3 }, { id := 5 }], peers := [1, 2, 3, 5], timeout := 1000 }
    let c1 := (onPrepare c0 3 1 "DW/a" 2 [1, 3, 5]).1
    let c2 := (onPrepare c1 1 1 "DW/a" 2 [1, 3, 5]).1
    let c3 := (onPrepare c2 5 1 "DW/a" 2 [1, 3, 5]).1
    let c4 := (onPrepare c3 2 1 "DW/a" 2 [2, 3]).1
    let c5 := (onExecute c4 2 1 "DW/a").1
    let c6 := (onExecute c5 1 1 "DW/a").1
    (onExecute c4 2 1 "DW/a").2 = .refused ∧ (onCommit c6 3 1 "DW/a").2 = .refused := by
  decide

/-- **tie by translation.** The expiry-on-read of `active` and the completeness guards of `onCommit` are the functions
    translated on every run from the Go source of `getGeneration` (generation.go) and of the checks at the top of
    `OnCommit` (service.go). -/
theorem C17_kernel_is_source (c : Cluster) (x : DInst) (acct : String) (s : Session) :
    active c x acct = Dirk.activeWrap c x acct ∧
    Dirk.commitChecks s = Dirk.Gen.commitAcceptsGen s.contributed.length s.contributed.length s.participants.length
      (s.participants.map (fun p => (s.contributed.contains p, s.contributed.contains p))) :=
  ⟨Dirk.active_eq_gen c x acct, Dirk.commitChecks_eq_gen s⟩

end Dirk.Dkg
