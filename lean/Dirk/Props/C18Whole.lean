/-
  Dirk.Props.C18Whole — C18 completeness in the specification's own terms: every existing account the
  client may access whose NAME MATCHES a requested path (whole-name match of the requested pattern,
  `Spec.pathMatches`) is listed, although the lister anchors the pattern as a string without grouping
  (`^` + pattern + `$`), which can only widen what matches (Dirk.Lemmas.ListerAnchor).
-/
import Dirk.Props.C18
import Dirk.Lemmas.ListerAnchor
import Dirk.Props.KernelsEq

namespace Dirk

/-- **C18 (complete, whole-name reading).** `hshape` is the fact about the string-level parser that the
    lister's anchored string parses to the AST of the pattern with `bol`/`eol` put where `listerAnchor`
    put `^`/`$`; it is decidable and evaluated by the driver for every requested pattern. -/
theorem C18_complete_whole_name (cfg : Config) (client : String) (paths : List String) (a : Account)
    (ha : a ∈ cfg.accounts) (hc : check cfg.access client (a.wallet ++ "/" ++ a.name) opAccess = true)
    (path w pat : String) (hmem : path ∈ paths)
    (hp : walletAndAccount path = some (w, pat)) (hshape : pat ≠ "" → ListerShapeOKGen pat)
    (hm : Spec.pathMatches path a = true) : a ∈ listAccounts cfg client paths :=
  lister_lists_whole_name_match cfg client paths a ha hc path w pat hmem hp hshape hm

/-- the anchoring only widens: a whole-name match of `r` is found by the search for the ungrouped anchoring of `r` -/
theorem C18_anchor_only_widens (r : Re) (w : String) :
    Re.fullMatch r w = true → Re.search (ungroupedAnchor r) w = true :=
  fullMatch_imp_search_ungrouped r w

/-- **C18 (the lister is the source).** For every configuration, client and list of paths, the model's `listAccounts` is the
    path-by-path filter whose predicate is the function translated on every run from the Go source of `ListAccounts`
    (services/lister/standard/listaccounts.go): regex first (absent = every account), then the access check on
    `wallet/account` under "Access account", then the public key, then the rules' answer; the string that is compiled is the
    translated anchoring (`^`/`$` added unless already there) and equals the model's `listerAnchor`; a path is skipped, taken
    whole or taken through the regex exactly as `listerPath` says. -/
theorem C18_kernel_is_source (cfg : Config) (client : String) (paths : List String) :
    (listAccounts cfg client paths = paths.flatMap (fun path =>
      match listerPath path with
      | none => []
      | some (w, re?) =>
        (cfg.accounts.filter (fun a => a.wallet == w)).filter (fun a =>
          Gen.listAccountGen re?.isSome (re?.all (fun r => Re.search r a.name))
            (check cfg.access client (Gen.listCheckedNameFnGen a.wallet a.name) Gen.listActionGen) true true))) ∧
    (∀ s : String, Gen.listAnchorGen s = listerAnchor s) ∧
    (∀ path, listPathGenOf path false false = listPathCode (listerPath path)) ∧
    Gen.listActionGen = opAccess :=
  ⟨listAccounts_eq_gen cfg client paths, listAnchor_eq_model, listPathGenOf_eq_code, list_shape_is_source.2.1⟩

end Dirk
