/-
  Dirk.Props.C08Bind — what a returned signature binds (C08, "valid for exactly the requested data"): the signing
  root determines the attestation data / block header AND the domain, unless one exhibits a SHA-256 collision
  (an explicit disjunct about the model's own SHA-256, never discharged and never assumed away).
  Proved in Dirk.Lemmas.SszBinding on top of the leaf-injectivity theorems of Dirk.Props.C08.
-/
import Dirk.Props.C08
import Dirk.Lemmas.SszBinding

namespace Dirk

/-- **C08 (attestations).** Two well-formed attestation data with equal signing roots (under whatever domains)
    are the same data under the same domain — or the two preimages are a SHA-256 collision. -/
theorem C08_att_root_binds (a b : Ssz.Att) (da db s : Bytes) (ha : a.WF) (hb : b.WF) :
    Ssz.signingRoot (Ssz.attRoot a) da = some s → Ssz.signingRoot (Ssz.attRoot b) db = some s →
    (a = b ∧ da = db) ∨ Sha256Collision :=
  att_signing_binds a b da db s ha hb

/-- **C08 (block headers).** -/
theorem C08_header_root_binds (a b : Ssz.Header) (da db s : Bytes) (ha : a.WF) (hb : b.WF) :
    Ssz.signingRoot (Ssz.headerRoot a) da = some s → Ssz.signingRoot (Ssz.headerRoot b) db = some s →
    (a = b ∧ da = db) ∨ Sha256Collision :=
  header_signing_binds a b da db s ha hb

/-- **C08 (generic).** The signing root of (data root, domain) determines both, or a collision. -/
theorem C08_generic_root_binds (r d r' d' s : Bytes) :
    Ssz.signingRoot r d = some s → Ssz.signingRoot r' d' = some s → (r = r' ∧ d = d') ∨ Sha256Collision :=
  signingRoot_injective_or_collision r d r' d' s

/-- the model's SHA-256 always yields 32 bytes (used for the tree argument) -/
theorem C08_digest_length (m : List UInt8) : (Sha256.hash m).length = 32 := sha256_length m

end Dirk
