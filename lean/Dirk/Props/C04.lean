/-
  C04 — Concurrent requests on a key behave as if processed one at a time (partial: scheduler).

  The lock protocol of `RunRules` is modelled as a transition system with any number of concurrent
  requests (Dirk.Model.Conc).  For every set of requests with duplicate-free key lists and every
  interleaving of their steps:
    * two different requests never own the same key (mutual exclusion);
    * every commit step equals the request's sequential meaning applied atomically to the store as it
      is at that moment (the linearisation point), and no other step changes the store;
    * hence the final store of any execution is the sequential object's result for the requests in the
      order of their commit steps, and each commit lies between the request's first and last step
      (the order is compatible with real time).
  The rule functions are footprint-respecting (they read and write only the records of their own key)
  and the call sequence of a concrete request is an instance of the model's thread program.
  Not covered by proof: Go's mutex and scheduler implement the modelled semantics; real interleavings
  are sampled and steered by the check.
-/
import Dirk.Lemmas.ConcSafety
import Dirk.Lemmas.Run
import Dirk.Model.LockTrace

set_option linter.unusedSimpArgs false

namespace Dirk.Conc

variable {Val : Type}

/-- **C04 (mutual exclusion).** -/
theorem C04_mutual_exclusion (reqs : List (Req Val)) (db0 c0 : Key → Val) (hnd : ∀ r ∈ reqs, r.keys.Nodup)
    (s : CState Val) (hr : Reachable reqs db0 c0 s) (t₁ t₂ : Tid) (x₁ x₂ : TState Val) (k : Key)
    (h₁ : s.ts[t₁]? = some x₁) (h₂ : s.ts[t₂]? = some x₂) (o₁ : owns x₁ k) (o₂ : owns x₂ k) : t₁ = t₂ :=
  mutual_exclusion (inv_reachable reqs db0 c0 hnd s hr) t₁ t₂ x₁ x₂ k h₁ h₂ o₁ o₂

/-- **C04 (atomic commit = linearisation point).** -/
theorem C04_commit_atomic (reqs : List (Req Val)) (db0 c0 : Key → Val) (hnd : ∀ r ∈ reqs, r.keys.Nodup)
    (s s' : CState Val) (hr : Reachable reqs db0 c0 s) (t : Tid) (x : TState Val)
    (hx : s.ts[t]? = some x) (hf : Footprint x.req) (st : Step s t .commit s') :
    s'.db = applyReq x.req s.db ∧ ∀ (t' : Tid) (l : Label) (s'' : CState Val), Step s t' l s'' → l ≠ .commit → s''.db = s.db :=
  ⟨commit_atomic (inv_reachable reqs db0 c0 hnd s hr) hx hf st, fun _ _ _ st' hl => db_unchanged st' hl⟩

/-- **C04 (linearizability).** -/
theorem C04_linearizable (reqs : List (Req Val)) (db0 c0 : Key → Val) (hnd : ∀ r ∈ reqs, r.keys.Nodup)
    (hfp : ∀ r ∈ reqs, Footprint r) (tr : List (Tid × Label)) (s : CState Val)
    (he : Exec (initState reqs db0 c0) tr s) :
    s.db = (commitOrder (initState reqs db0 c0) tr).foldl (fun d r => applyReq r d) db0 :=
  linearizable reqs db0 c0 hnd hfp tr s he

/-- **C04 (compatible with real time).** Each request commits at most once, after its first step and
    before its last; so if request a finished before request b started, a's commit precedes b's. -/
theorem C04_real_time_order (reqs : List (Req Val)) (db0 c0 : Key → Val) (tr : List (Tid × Label)) (s : CState Val)
    (he : Exec (initState reqs db0 c0) tr s) (t : Tid) (i : Nat) (hi : tr[i]? = some (t, .commit)) :
    (∃ j, j < i ∧ tr[j]? = some (t, .pre)) ∧ (∀ j, tr[j]? = some (t, .finish) → i < j) ∧
    (∀ j, tr[j]? = some (t, .commit) → j = i) :=
  commit_between reqs db0 c0 tr s he t i hi

end Dirk.Conc

namespace Dirk

/-- **C04 (footprint of the attestation rule).** It reads and writes only the record of its own key:
    other keys' attestation records and all proposal records are untouched, and its verdict depends on
    the store only through its own key's record. -/
theorem C04_footprint_attest (db : Db) (pk : Bytes) (r : AttReq) (f : Faults) :
    (∀ pk', pk' ≠ pk → fetchAtt (onAttest db pk r f).2 pk' false = fetchAtt db pk' false) ∧
    (∀ pk', fetchProp (onAttest db pk r f).2 pk' false = fetchProp db pk' false) ∧
    (∀ db', fetchAtt db' pk false = fetchAtt db pk false → (onAttest db' pk r f).1 = (onAttest db pk r f).1) := by
  refine ⟨?_, fun pk' => onAttest_prop_frame db pk r f pk', ?_⟩
  · intro pk' hne
    rcases onAttest_db_cases db pk r f with h1 | ⟨v, h1⟩
    · rw [h1]
    · rw [h1, fetchAtt_put_att_other _ _ _ _ hne]
  · intro db' h
    unfold onAttest
    cases hb : f.fetchFail.contains 0 with
    | true => simp [fetchAtt]
    | false =>
      rw [h]
      cases hf : fetchAtt db pk false with
      | none => rfl
      | some st =>
        simp only
        split
        · simp [storeOne]; split <;> rfl
        · rfl

/-- the store accesses inside a request: some reads, then at most one write -/
def ReadsThenWrite (inner : List LTok) : Prop :=
  ∃ n, inner = List.replicate n .fetch ∨ inner = List.replicate n .fetch ++ [.store, .stored]

theorem innerBatch_shape (db : Db) : ∀ ks : List Bytes, ReadsThenWrite (innerBatch db ks) := by
  intro ks
  induction ks with
  | nil => exact ⟨0, Or.inr rfl⟩
  | cons k rest ih =>
    simp only [innerBatch]
    split
    · exact ⟨1, Or.inl rfl⟩
    · obtain ⟨n, h | h⟩ := ih
      · exact ⟨n + 1, Or.inl (by rw [h]; rfl)⟩
      · exact ⟨n + 1, Or.inr (by rw [h]; rfl)⟩

/-- **C04 (a request's call sequence is the model's thread program).** The calls one attestation
    batch makes are: PreLock, one Lock per resolved key in request order, PostLock, reads followed by
    at most one write, one Unlock per key in reverse order — or nothing at all when the request is
    refused before the rules (malformed, unknown/forbidden account, duplicate key). -/
theorem C04_trace_is_protocol (s : Inst) (c : String) (items : List (Addr × AttData)) (lf : Bool) :
    traceAtts s c items lf = [] ∨
    ∃ (keys : List Bytes) (inner : List LTok), traceAtts s c items lf = [.pre] ++ keys.map .lock ++ [.post] ++ inner ++ keys.reverse.map .unlock ∧
      ReadsThenWrite inner := by
  unfold traceAtts
  split
  · left; rfl
  · split
    · left; rfl
    · simp only
      split
      · left; rfl
      · split
        · left; rfl
        · right
          refine ⟨_, _, rfl, ?_⟩
          split
          · unfold innerAtt
            repeat' split
            all_goals first | exact ⟨1, Or.inl rfl⟩ | exact ⟨1, Or.inr rfl⟩
          · exact innerBatch_shape _ _

end Dirk
