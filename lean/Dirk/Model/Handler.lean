/-
  Dirk.Model.Handler — the gRPC signer handlers (services/api/grpc/handlers/signer/*.go) on top of the
  signer model, including what protobuf decoding does to byte fields on the way in.  Core Lean only.
-/
import Dirk.Model.Instance

namespace Dirk

/-- protobuf-go decodes an absent *or empty* proto3 `bytes` field (outside a oneof) as nil -/
def wireBytes : Option Bytes → Option Bytes
  | some [] => none
  | x => x

def AttData.wire (d : AttData) : AttData :=
  { d with domain := wireBytes d.domain, bbr := wireBytes d.bbr, srcRoot := wireBytes d.srcRoot, tgtRoot := wireBytes d.tgtRoot }

def PropData.wire (d : PropData) : PropData :=
  { d with domain := wireBytes d.domain, parentRoot := wireBytes d.parentRoot, stateRoot := wireBytes d.stateRoot,
           bodyRoot := wireBytes d.bodyRoot }

def SignData.wire (d : SignData) : SignData := { domain := wireBytes d.domain, data := wireBytes d.data }

/-- the `id` oneof carries either an account name or a public key (which may be empty but present) -/
def Addr.wire (a : Addr) : Addr :=
  match a.key with
  | some k => { name := "", key := some k }
  | none => a

/-- the handlers' own identification checks: neither name nor key, or a name without a `/` -/
def handlerRejects (a : Addr) : Bool :=
  (a.name.isEmpty && a.key.isNone) || (!a.name.isEmpty && !a.name.contains '/')

/-- state and signature of one response entry: the signature is copied only under SUCCEEDED -/
def respond (p : Pos) : Pos := { res := p.res, root := if p.res = .succeeded then p.root else none }

def hSignAtt (s : Inst) (client : String) (a : Addr) (d : AttData) (f : Faults) (sf : Bool := false) : Inst × Pos :=
  let a := a.wire
  if handlerRejects a then (s, ⟨.denied, none⟩)
  else let r := signAtt s client a d.wire f sf; (r.1, respond r.2)

def hSignProp (s : Inst) (client : String) (a : Addr) (d : PropData) (f : Faults) (sf : Bool := false) : Inst × Pos :=
  let a := a.wire
  if handlerRejects a then (s, ⟨.denied, none⟩)
  else let r := signProp s client a d.wire f sf; (r.1, respond r.2)

def hSignGeneric (s : Inst) (client ip : String) (a : Addr) (d : SignData) (sf : Bool := false)
    (lockStateFail : Bool := false) : Inst × Pos :=
  let a := a.wire
  if handlerRejects a then (s, ⟨.denied, none⟩)
  else let r := signGeneric s client ip a d.wire sf lockStateFail; (r.1, respond r.2)

/-- batch validation: the first entry that fails identification is DENIED, the others stay UNKNOWN -/
def firstRejected (as : List Addr) : Option Nat := as.findIdx? handlerRejects

def hSignAtts (s : Inst) (client : String) (items : List (Addr × AttData)) (f : Faults) (sf : List Nat := []) :
    Inst × List Pos :=
  let items := items.map (fun it => (it.1.wire, it.2.wire))
  if items.isEmpty then (s, [⟨.denied, none⟩]) else
  match firstRejected (items.map (·.1)) with
  | some i => (s, (List.range items.length).map (fun j => if j = i then ⟨.denied, none⟩ else ⟨.unknown, none⟩))
  | none => let r := signAtts s client items f sf; (r.1, r.2.map respond)

/-- `validateMultisignRequests` additionally requires data and domain -/
def firstRejectedSign (items : List (Addr × SignData)) : Option Nat :=
  items.findIdx? (fun it => handlerRejects it.1 || it.2.data.isNone || it.2.domain.isNone)

def hMultisign (s : Inst) (client ip : String) (items : List (Addr × SignData)) (sf : List Nat := [])
    (lockStateFail : Bool := false) : Inst × List Pos :=
  let items := items.map (fun it => (it.1.wire, it.2.wire))
  if items.isEmpty then (s, [⟨.denied, none⟩]) else
  match firstRejectedSign items with
  | some i => (s, (List.range items.length).map (fun j => if j = i then ⟨.denied, none⟩ else ⟨.unknown, none⟩))
  | none => let r := multisign s client ip items sf lockStateFail; (r.1, r.2.map respond)

end Dirk
