/-
  Dirk.Model.Basic — shared primitive definitions of the dirk model (core Lean only).

  Integers: request epochs/slots are `Nat` (< 2^64, guaranteed by the wire format); stored
  watermarks are `Int` (Go `int64`).  `i64`/`u64` are exactly Go's `int64(x)` / `uint64(x)`
  conversions.
-/
namespace Dirk

abbrev Bytes := List UInt8

def two63 : Nat := 9223372036854775808
def two64 : Nat := 18446744073709551616
/-- `math.MaxInt64`. -/
def maxI64 : Nat := 9223372036854775807

/-- Go `int64(x)` for `x : uint64`. -/
def i64 (n : Nat) : Int := if n < two63 then (n : Int) else (n : Int) - (two64 : Int)

/-- Go `uint64(x)` for `x : int64`. -/
def u64 (i : Int) : Nat := if i < 0 then (i + (two64 : Int)).toNat else i.toNat

/-- value is representable as an int64. -/
def InI64 (i : Int) : Prop := -(two63 : Int) ≤ i ∧ i < (two63 : Int)

instance (i : Int) : Decidable (InI64 i) := by unfold InI64; exact inferInstance

/-- rules.Result -/
inductive Verdict where
  | unknown | approved | denied | failed
  deriving DecidableEq, Repr, Inhabited

/-- core.Result -/
inductive Res where
  | unknown | succeeded | denied | failed
  deriving DecidableEq, Repr, Inhabited

def Verdict.toStr : Verdict → String
  | .unknown => "U" | .approved => "A" | .denied => "D" | .failed => "F"

def Res.toStr : Res → String
  | .unknown => "U" | .succeeded => "S" | .denied => "D" | .failed => "F"

/-- little-endian 8-byte encoding of a value < 2^64 -/
def le64 (n : Nat) : Bytes :=
  [ UInt8.ofNat (n % 256), UInt8.ofNat (n / 256 % 256), UInt8.ofNat (n / 65536 % 256),
    UInt8.ofNat (n / 16777216 % 256), UInt8.ofNat (n / 4294967296 % 256),
    UInt8.ofNat (n / 1099511627776 % 256), UInt8.ofNat (n / 281474976710656 % 256),
    UInt8.ofNat (n / 72057594037927936 % 256) ]

/-- little-endian decode of exactly 8 bytes -/
def unle64 : Bytes → Nat
  | [a, b, c, d, e, f, g, h] =>
      a.toNat + 256 * (b.toNat + 256 * (c.toNat + 256 * (d.toNat + 256 * (e.toNat + 256 *
        (f.toNat + 256 * (g.toNat + 256 * h.toNat))))))
  | _ => 0

end Dirk
