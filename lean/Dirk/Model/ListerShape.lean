/-
  Dirk.Model.ListerShape — what the lister's string-level anchoring (`listerAnchor`: `^` + pattern + `$`,
  not grouped, own anchors left alone) does to the AST the parser produces, and the run-time hypotheses
  "the parser really does that for this pattern".  Core Lean only: the driver evaluates the hypotheses,
  Dirk.Lemmas.ListerAnchor proves that the anchoring only widens what matches.
-/
import Dirk.Model.Lister

namespace Dirk

open Re

/-- `bol` inserted at the very beginning of one branch (a left-nested `cat` chain starting from `eps`,
    as `pCat` builds it): the innermost `eps` becomes `cat eps bol`.  For a chain that does not start
    with `eps` (never produced by the parser) the assertion is put in front. -/
def prependBol : Re → Re
  | .eps => .cat .eps .bol
  | .cat a b => .cat (prependBol a) b
  | .none => .cat (.cat .eps .bol) .none
  | .chr ci c => .cat (.cat .eps .bol) (.chr ci c)
  | .any => .cat (.cat .eps .bol) .any
  | .cls ci neg rs => .cat (.cat .eps .bol) (.cls ci neg rs)
  | .bol => .cat (.cat .eps .bol) .bol
  | .eol => .cat (.cat .eps .bol) .eol
  | .alt a b => .cat (.cat .eps .bol) (.alt a b)
  | .star a => .cat (.cat .eps .bol) (.star a)

/-- `bol` in front of the first top-level alternative (what a leading `^` does) -/
def anchorFirst : Re → Re
  | .alt a b => .alt (prependBol a) b
  | r => prependBol r

/-- `eol` behind the last top-level alternative (what a trailing `$` does); `alt` nests to the right -/
def anchorLast : Re → Re
  | .alt a b => .alt a (anchorLast b)
  | r => .cat r .eol

/-- put `bol` in front of the first top-level alternative and `eol` behind the last one, as the parser
    does for `"^" ++ p ++ "$"` -/
def ungroupedAnchor (r : Re) : Re := anchorLast (anchorFirst r)

/-- the AST effect of `listerAnchor pat` on the AST `r` of `pat`, following the same two tests -/
def listerAnchorRe (pat : String) (r : Re) : Re :=
  let r1 := if !pat.startsWith "^" then anchorFirst r else r
  if !(if !pat.startsWith "^" then "^" ++ pat else pat).endsWith "$" then anchorLast r1 else r1

/-- For a pattern WITHOUT own anchors (no leading `^`, no trailing `$`): the parser turns the lister's
    string into the ungrouped-anchored AST of the pattern.  A fact about the string-level parser, to be
    evaluated at run time for the patterns in use; it is false in general for patterns that start with
    `^` or end with `$` (use `ListerShapeOKGen` for those). -/
def ListerShapeOK (pat : String) : Prop :=
  ReParse.parse (listerAnchor pat) = (ReParse.parse pat).map ungroupedAnchor

/-- The same for every pattern, own anchors included: only the assertions `listerAnchor` really adds
    are added to the AST. -/
def ListerShapeOKGen (pat : String) : Prop :=
  ReParse.parse (listerAnchor pat) = (ReParse.parse pat).map (listerAnchorRe pat)

instance (pat : String) : Decidable (ListerShapeOK pat) := by unfold ListerShapeOK; infer_instance
instance (pat : String) : Decidable (ListerShapeOKGen pat) := by unfold ListerShapeOKGen; infer_instance

end Dirk
