/-
  Dirk.Model.Rules — the slashing-protection store, record codec and rule functions
  (rules/standard/*.go), transcribed as pure functions.  Core Lean only.

  Source anchors:
    storage.go               Fetch / Store / BatchStore      → Db.get / Db.put / Db.putMany
    signbeaconattestation.go Encode/Decode, OnSignBeaconAttestation, fetch…State
    signbeaconattestations.go OnSignBeaconAttestations, runSignBeaconAttestationChecks
    signbeaconproposal.go    Encode/Decode, OnSignBeaconProposal
    sign.go                  OnSign
    slashingprotection.go    Export/ImportSlashingProtection
-/
import Dirk.Model.Basic
import Dirk.Model.Gob

namespace Dirk

/-! ## Store -/

/-- The badger key/value store as an association list; the newest binding shadows. -/
abbrev Db := List (Bytes × Bytes)

def Db.get (db : Db) (k : Bytes) : Option Bytes := List.lookup k db
def Db.put (db : Db) (k v : Bytes) : Db := (k, v) :: db
def Db.putMany (db : Db) : List (Bytes × Bytes) → Db
  | [] => db
  | (k, v) :: rest => Db.putMany (db.put k v) rest

/-- Fault plan for one rules-level call (injected through the `verif` hooks). -/
structure Faults where
  /-- indices (0-based, within this call) of `Fetch` calls that return an error other than "not found" -/
  fetchFail : List Nat := []
  /-- the `Store` / `BatchStore` call returns an error -/
  storeFail : Bool := false
  /-- … although the write had been applied (fault raised at hook point "exit") -/
  storeLanded : Bool := false
  /-- signer-level (not a store fault): every account fetched for the request answers `IsUnlocked()` with an
      error (`unlockAccount` in services/signer/standard/helpers.go → the pre-check's result is FAILED).  The rule
      functions below never look at this field. -/
  lockStateFail : Bool := false
  deriving Repr, Inhabited

def Faults.none : Faults := {}

/-! ## Record codec -/

structure AttState where
  src : Int
  tgt : Int
  deriving DecidableEq, Repr, Inhabited

def actionAtt : UInt8 := 2
def actionProp : UInt8 := 3
def attKey (pk : Bytes) : Bytes := pk ++ [actionAtt]
def propKey (pk : Bytes) : Bytes := pk ++ [actionProp]

def encodeAtt (s : AttState) : Bytes := (1 : UInt8) :: (le64 (u64 s.src) ++ le64 (u64 s.tgt))

def decodeAtt (d : Bytes) : Option AttState :=
  match d with
  | [] => none
  | v :: rest =>
    if v = 1 then
      if rest.length = 16 then some ⟨i64 (unle64 (rest.take 8)), i64 (unle64 (rest.drop 8))⟩ else none
    else Gob.decodeAtt d |>.map (fun (p : Int × Int) => ⟨p.1, p.2⟩)

def encodeProp (slot : Int) : Bytes := (1 : UInt8) :: le64 (u64 slot)

def decodeProp (d : Bytes) : Option Int :=
  match d with
  | [] => none
  | v :: rest =>
    if v = 1 then
      if rest.length = 8 then some (i64 (unle64 rest)) else none
    else Gob.decodeProp d

/-- `fetchSignBeaconAttestationState`: `none` = error, "not found" = (−1, −1). -/
def fetchAtt (db : Db) (pk : Bytes) (fail : Bool) : Option AttState :=
  if fail then none else
  match db.get (attKey pk) with
  | none => some ⟨-1, -1⟩
  | some d => decodeAtt d

def fetchProp (db : Db) (pk : Bytes) (fail : Bool) : Option Int :=
  if fail then none else
  match db.get (propKey pk) with
  | none => some (-1)
  | some d => decodeProp d

/-! ## Domains -/

def domAttester : Bytes := [1, 0, 0, 0]
def domProposer : Bytes := [0, 0, 0, 0]
def domExit : Bytes := [4, 0, 0, 0]

/-- `req.Domain[0:4]` on a slice whose backing array is zero-padded to capacity ≥ 4
    (what protobuf decoding produces; see C20 for the capacity obligation). -/
def prefix4 (d : Bytes) : Bytes := (d ++ [0, 0, 0, 0]).take 4

/-! ## Attestations -/

structure AttReq where
  domain : Bytes
  src : Nat
  tgt : Nat
  deriving DecidableEq, Repr, Inhabited

/-- `runSignBeaconAttestationChecks` -/
def attChecks (r : AttReq) (st : AttState) : Verdict × AttState :=
  if prefix4 r.domain ≠ domAttester then (.denied, st)
  else if (r.src ≠ 0 ∨ r.tgt ≠ 0) ∧ r.tgt ≤ r.src then (.denied, st)
  else if r.src > maxI64 ∨ r.tgt > maxI64 then (.denied, st)
  else if st.tgt ≥ 0 ∧ r.tgt ≤ u64 st.tgt then (.denied, st)
  else if st.src ≥ 0 ∧ r.src < u64 st.src then (.denied, st)
  else (.approved, ⟨i64 r.src, i64 r.tgt⟩)

/-- The unfixed check as shipped at the pinned commit (no MaxInt64 guard); kept for the
    counterexample theorems only. -/
def attChecksLegacy (r : AttReq) (st : AttState) : Verdict × AttState :=
  if prefix4 r.domain ≠ domAttester then (.denied, st)
  else if (r.src ≠ 0 ∨ r.tgt ≠ 0) ∧ r.tgt ≤ r.src then (.denied, st)
  else if st.tgt ≥ 0 ∧ r.tgt ≤ u64 st.tgt then (.denied, st)
  else if st.src ≥ 0 ∧ r.src < u64 st.src then (.denied, st)
  else (.approved, ⟨i64 r.src, i64 r.tgt⟩)

/-- result of a store call under a fault plan: (error?, db afterwards) -/
def storeOne (db : Db) (k v : Bytes) (f : Faults) : Bool × Db :=
  if f.storeFail then (false, if f.storeLanded then db.put k v else db) else (true, db.put k v)

def storeMany (db : Db) (kvs : List (Bytes × Bytes)) (f : Faults) : Bool × Db :=
  if kvs.isEmpty then (false, db)       -- BatchStore: "no keys provided"
  else if f.storeFail then (false, if f.storeLanded then db.putMany kvs else db)
  else (true, db.putMany kvs)

/-- `OnSignBeaconAttestation` (single path) -/
def onAttest (db : Db) (pk : Bytes) (r : AttReq) (f : Faults) : Verdict × Db :=
  match fetchAtt db pk (f.fetchFail.contains 0) with
  | none => (.failed, db)
  | some st =>
    match attChecks r st with
    | (.approved, st') =>
      let w := storeOne db (attKey pk) (encodeAtt st') f
      (if w.1 then .approved else .failed, w.2)
    | (v, _) => (v, db)

/-- Fetch and check every item of a batch (`fetchSignBeaconAttestationStates` followed by the check
    loop; the checks are pure, so fetching and checking item by item is the same thing).
    `none` = some fetch failed.  Each item carries an arbitrary payload `α` (the full request). -/
def evalBatch {α : Type} (req : α → AttReq) (db : Db) (f : Faults) :
    Nat → List (Bytes × α) → Option (List (Bytes × α × Verdict × AttState))
  | _, [] => some []
  | i, (pk, a) :: rest =>
    match fetchAtt db pk (f.fetchFail.contains i) with
    | none => none
    | some st =>
      match evalBatch req db f (i + 1) rest with
      | none => none
      | some l => some ((pk, a, attChecks (req a) st) :: l)

/-- the records a batch writes back: every fetched state, approved or not -/
def batchKvs {α : Type} (evs : List (Bytes × α × Verdict × AttState)) : List (Bytes × Bytes) :=
  evs.map (fun e => (attKey e.1, encodeAtt e.2.2.2))

/-- `OnSignBeaconAttestations` (batch path) after its length/nil checks.
    Result `none` = every position FAILED; otherwise the per-item verdicts. -/
def onAttestBatch {α : Type} (req : α → AttReq) (db : Db) (items : List (Bytes × α)) (f : Faults) :
    Option (List (Bytes × α × Verdict)) × Db :=
  match evalBatch req db f 0 items with
  | none => (none, db)
  | some evs =>
    let w := storeMany db (batchKvs evs) f
    (if w.1 then some (evs.map (fun e => (e.1, e.2.1, e.2.2.1))) else none, w.2)

/-! ## Proposals -/

structure PropReq where
  domain : Bytes
  slot : Nat
  deriving DecidableEq, Repr, Inhabited

/-- `OnSignBeaconProposal` -/
def onPropose (db : Db) (pk : Bytes) (r : PropReq) (f : Faults) : Verdict × Db :=
  if prefix4 r.domain ≠ domProposer then (.denied, db)
  else if r.slot > maxI64 then (.denied, db)
  else match fetchProp db pk (f.fetchFail.contains 0) with
  | none => (.failed, db)
  | some st =>
    if st ≥ 0 ∧ r.slot ≤ u64 st then (.denied, db)
    else
      let w := storeOne db (propKey pk) (encodeProp (i64 r.slot)) f
      (if w.1 then .approved else .failed, w.2)

/-- unfixed proposal rule (no MaxInt64 guard), for the counterexample only -/
def onProposeLegacy (db : Db) (pk : Bytes) (r : PropReq) : Verdict × Db :=
  if prefix4 r.domain ≠ domProposer then (.denied, db)
  else match fetchProp db pk false with
  | none => (.failed, db)
  | some st =>
    if st ≥ 0 ∧ r.slot ≤ u64 st then (.denied, db)
    else (.approved, db.put (propKey pk) (encodeProp (i64 r.slot)))

/-! ## Generic signing rule -/

/-- `OnSign`: pure decision on the domain prefix, source IP and admin list. -/
def onSign (adminIPs : List String) (ip : String) (domain : Bytes) : Verdict :=
  if prefix4 domain = domAttester then .denied
  else if prefix4 domain = domProposer then .denied
  else if prefix4 domain = domExit then
    if ip = "" then .denied
    else if adminIPs.contains ip then .approved else .denied
  else .approved

/-! ## Export / rules-level import -/

structure Protection where
  slot : Int := -1
  src : Int := -1
  tgt : Int := -1
  deriving DecidableEq, Repr, Inhabited

/-- distinct public keys (first 48 bytes of each store key), in first-seen order -/
def Db.pubKeys (db : Db) : List Bytes :=
  (db.map (fun e => e.1.take 48)).eraseDups

/-- `ExportSlashingProtection` for one public key; `none` = the export fails (undecodable record). -/
def exportKey (db : Db) (pk : Bytes) : Option Protection :=
  match fetchAtt db pk false, fetchProp db pk false with
  | some a, some p => some { slot := p, src := a.src, tgt := a.tgt }
  | _, _ => none

/-- rules-level `ImportSlashingProtection` for one key: overwrite each supplied field group. -/
def importKey (db : Db) (pk : Bytes) (p : Protection) : Db :=
  let db1 := if p.slot ≠ -1 then db.put (propKey pk) (encodeProp p.slot) else db
  if p.src ≠ -1 then db1.put (attKey pk) (encodeAtt ⟨p.src, p.tgt⟩) else db1

end Dirk
