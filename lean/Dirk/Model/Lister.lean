/-
  Dirk.Model.Lister — services/lister/standard/listaccounts.go and the dynamic account creation
  path (process.OnGenerate with one participant → fetcher.AddAccount).  Core Lean only.
-/
import Dirk.Model.Instance

namespace Dirk

/-- the lister's own anchoring of the account part of a path (case-sensitive, not grouped) -/
def listerAnchor (accountPath : String) : String :=
  let p := if !accountPath.startsWith "^" then "^" ++ accountPath else accountPath
  if !p.endsWith "$" then p ++ "$" else p

/-- `none` = the path is skipped (malformed, empty wallet, regex does not compile);
    `some (wallet, none)` = every account of the wallet; `some (wallet, some r)` = accounts matching r -/
def listerPath (path : String) : Option (String × Option Re) :=
  match walletAndAccount path with
  | none => none
  | some (w, a) =>
    if w.isEmpty then none
    else if a.isEmpty then some (w, none)
    else match ReParse.parse (listerAnchor a) with
      | none => none
      | some r => some (w, some r)

/-- `ListAccounts`: per path, the accounts of that wallet whose name matches and which the client may
    access (the rules' list check always approves) -/
def listAccounts (cfg : Config) (client : String) (paths : List String) : List Account :=
  paths.flatMap (fun path =>
    match listerPath path with
    | none => []
    | some (w, re?) =>
      (cfg.accounts.filter (fun a => a.wallet == w)).filter (fun a =>
        (match re? with
         | none => true
         | some r => Re.search r a.name) &&
        check cfg.access client (a.wallet ++ "/" ++ a.name) opAccess))

/-! `walletExists` and `createAccount` (account creation through dirk, process.OnGenerate with one
    participant → fetcher.AddAccount) live in Dirk.Model.Instance, where `Op.create` uses them. -/

end Dirk
