/-
  Dirk.Model.Conc — the lock protocol of `ruler.RunRules` (services/ruler/golang/runner.go:60-97)
  over the syncmap locker (services/locker/syncmap/service.go), as a small-step transition system
  with any number of concurrent requests.  Core Lean only.

  A request that reaches the locking code has passed the duplicate check, so its key list is
  duplicate-free.  Its program is

      PreLock; Lock k₀; …; Lock kₙ₋₁; PostLock;            -- locking phase, inside the locker-wide mutex
      read k₀; …; read kₙ₋₁; commit;                        -- the rules: fetch each state, one atomic write
      Unlock kₙ₋₁; …; Unlock k₀                             -- deferred unlocks, reverse order

  `commit` is the single `Store` (one key) or `BatchStore` (badger WriteBatch, several keys); a request
  that writes nothing commits the identity.  What a request does to the records of its keys is an
  arbitrary function `f` of the records it read.

  Modelled, not verified: Go's sync.Mutex (mutual exclusion, a blocked Lock proceeds once the mutex
  is free), the goroutine scheduler (any interleaving of enabled steps), badger's atomic writes.
-/
namespace Dirk.Conc

abbrev Key := Nat
abbrev Tid := Nat

/-- a request: its (duplicate-free) keys and what it computes for them from the values it read -/
structure Req (Val : Type) where
  keys : List Key
  f : (Key → Val) → (Key → Val)

inductive PC where
  | idle
  /-- inside PreLock…PostLock, holding the locker-wide mutex, having acquired the first `i` keys -/
  | locking (i : Nat)
  /-- past PostLock, holding all its keys, having read the first `r` of them -/
  | reading (r : Nat)
  /-- after the write, still holding the first `u` keys -/
  | unlocking (u : Nat)
  | done
  deriving DecidableEq, Repr

structure TState (Val : Type) where
  req : Req Val
  pc : PC
  /-- the values read so far (meaningful on the keys already read) -/
  cache : Key → Val

structure CState (Val : Type) where
  ts : List (TState Val)
  /-- holder of the locker-wide mutex (`mapLock`) -/
  global : Option Tid
  /-- holder of each per-key mutex -/
  held : Key → Option Tid
  db : Key → Val

variable {Val : Type}

def setT (ts : List (TState Val)) (t : Tid) (x : TState Val) : List (TState Val) := ts.set t x

/-- the sequential meaning of a request: apply `f` to the current store, on its keys only -/
def applyReq (r : Req Val) (db : Key → Val) : Key → Val :=
  fun k => if k ∈ r.keys then r.f db k else db k

/-- `f` looks only at the records of the request's own keys -/
def Footprint (r : Req Val) : Prop :=
  ∀ d₁ d₂ : Key → Val, (∀ k ∈ r.keys, d₁ k = d₂ k) → ∀ k ∈ r.keys, r.f d₁ k = r.f d₂ k

inductive Label where
  | pre | lock (k : Key) | post | read (k : Key) | commit | unlock (k : Key) | finish
  deriving DecidableEq, Repr

def TState.withPc (x : TState Val) (pc : PC) : TState Val := { x with pc := pc }

def heldSet (h : Key → Option Tid) (k : Key) (v : Option Tid) : Key → Option Tid :=
  fun k' => if k' = k then v else h k'

/-- result states of the individual steps -/
def afterPre (s : CState Val) (t : Tid) (x : TState Val) : CState Val :=
  { s with ts := setT s.ts t (x.withPc (.locking 0)), global := some t }

def afterLock (s : CState Val) (t : Tid) (x : TState Val) (i : Nat) (k : Key) : CState Val :=
  { s with ts := setT s.ts t (x.withPc (.locking (i + 1))), held := heldSet s.held k (some t) }

def afterPost (s : CState Val) (t : Tid) (x : TState Val) : CState Val :=
  { s with ts := setT s.ts t (x.withPc (.reading 0)), global := none }

def TState.withRead (x : TState Val) (r : Nat) (k : Key) (v : Val) : TState Val :=
  { x with pc := .reading (r + 1), cache := fun k' => if k' = k then v else x.cache k' }

def afterRead (s : CState Val) (t : Tid) (x : TState Val) (r : Nat) (k : Key) : CState Val :=
  { s with ts := setT s.ts t (x.withRead r k (s.db k)) }

def afterCommit (s : CState Val) (t : Tid) (x : TState Val) : CState Val :=
  { s with ts := setT s.ts t (x.withPc (.unlocking x.req.keys.length)), db := fun k => if k ∈ x.req.keys then x.req.f x.cache k else s.db k }

def afterUnlock (s : CState Val) (t : Tid) (x : TState Val) (u : Nat) (k : Key) : CState Val :=
  { s with ts := setT s.ts t (x.withPc (.unlocking u)), held := heldSet s.held k none }

def afterFinish (s : CState Val) (t : Tid) (x : TState Val) : CState Val :=
  { s with ts := setT s.ts t (x.withPc .done) }

/-- one step of thread `t` -/
inductive Step : CState Val → Tid → Label → CState Val → Prop where
  | pre {s : CState Val} {t : Tid} {x : TState Val} :
      s.ts[t]? = some x → x.pc = .idle → s.global = none → Step s t .pre (afterPre s t x)
  | lock {s : CState Val} {t : Tid} {x : TState Val} {i : Nat} {k : Key} :
      s.ts[t]? = some x → x.pc = .locking i → x.req.keys[i]? = some k → s.held k = none →
      Step s t (.lock k) (afterLock s t x i k)
  | post {s : CState Val} {t : Tid} {x : TState Val} :
      s.ts[t]? = some x → x.pc = .locking x.req.keys.length → Step s t .post (afterPost s t x)
  | read {s : CState Val} {t : Tid} {x : TState Val} {r : Nat} {k : Key} :
      s.ts[t]? = some x → x.pc = .reading r → x.req.keys[r]? = some k →
      Step s t (.read k) (afterRead s t x r k)
  | commit {s : CState Val} {t : Tid} {x : TState Val} :
      s.ts[t]? = some x → x.pc = .reading x.req.keys.length → Step s t .commit (afterCommit s t x)
  | unlock {s : CState Val} {t : Tid} {x : TState Val} {u : Nat} {k : Key} :
      s.ts[t]? = some x → x.pc = .unlocking (u + 1) → x.req.keys[u]? = some k →
      Step s t (.unlock k) (afterUnlock s t x u k)
  | finish {s : CState Val} {t : Tid} {x : TState Val} :
      s.ts[t]? = some x → x.pc = .unlocking 0 → Step s t .finish (afterFinish s t x)

/-- initial state: every request idle, no lock held -/
def initState (reqs : List (Req Val)) (db0 : Key → Val) (c0 : Key → Val) : CState Val :=
  { ts := reqs.map (fun r => { req := r, pc := .idle, cache := c0 }),
    global := none, held := fun _ => none, db := db0 }

/-- executions: sequences of (thread, label) steps -/
inductive Exec : CState Val → List (Tid × Label) → CState Val → Prop where
  | nil (s : CState Val) : Exec s [] s
  | cons {s s' s'' : CState Val} {t : Tid} {l : Label} {tr : List (Tid × Label)} :
      Step s t l s' → Exec s' tr s'' → Exec s ((t, l) :: tr) s''

def Reachable (reqs : List (Req Val)) (db0 c0 : Key → Val) (s : CState Val) : Prop :=
  ∃ tr, Exec (initState reqs db0 c0) tr s

def AllDone (s : CState Val) : Prop := ∀ x ∈ s.ts, x.pc = .done

/-- the same protocol WITHOUT the locker-wide critical section around the locking phase
    (what the code would be without PreLock/PostLock): used only to show the progress theorem is
    not vacuous — this variant can deadlock. -/
inductive StepNoGlobal : CState Val → Tid → Label → CState Val → Prop where
  | pre {s : CState Val} {t : Tid} {x : TState Val} :
      s.ts[t]? = some x → x.pc = .idle →
      StepNoGlobal s t .pre { s with ts := setT s.ts t (x.withPc (.locking 0)) }
  | lock {s : CState Val} {t : Tid} {x : TState Val} {i : Nat} {k : Key} :
      s.ts[t]? = some x → x.pc = .locking i → x.req.keys[i]? = some k → s.held k = none →
      StepNoGlobal s t (.lock k) (afterLock s t x i k)
  | post {s : CState Val} {t : Tid} {x : TState Val} :
      s.ts[t]? = some x → x.pc = .locking x.req.keys.length →
      StepNoGlobal s t .post { s with ts := setT s.ts t (x.withPc (.reading 0)) }

end Dirk.Conc
