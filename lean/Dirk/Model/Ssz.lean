/-
  Dirk.Model.Ssz — SHA-256 and the SSZ hash-tree-roots dirk signs
  (AttestationData, BeaconBlockHeader, SigningRoot{root, domain}).  Core Lean only.

  Modelled, not verified: dirk uses fastssz / go-eth2-client's generated code and a SHA-256
  implementation; this file re-implements them from the consensus specification and is tied to
  the code by having the real BLS library verify real signatures against *these* roots.
-/
import Dirk.Model.Basic

namespace Dirk.Sha256

def k : Array UInt32 := #[
  0x428a2f98, 0x71374491, 0xb5c0fbcf, 0xe9b5dba5, 0x3956c25b, 0x59f111f1, 0x923f82a4, 0xab1c5ed5,
  0xd807aa98, 0x12835b01, 0x243185be, 0x550c7dc3, 0x72be5d74, 0x80deb1fe, 0x9bdc06a7, 0xc19bf174,
  0xe49b69c1, 0xefbe4786, 0x0fc19dc6, 0x240ca1cc, 0x2de92c6f, 0x4a7484aa, 0x5cb0a9dc, 0x76f988da,
  0x983e5152, 0xa831c66d, 0xb00327c8, 0xbf597fc7, 0xc6e00bf3, 0xd5a79147, 0x06ca6351, 0x14292967,
  0x27b70a85, 0x2e1b2138, 0x4d2c6dfc, 0x53380d13, 0x650a7354, 0x766a0abb, 0x81c2c92e, 0x92722c85,
  0xa2bfe8a1, 0xa81a664b, 0xc24b8b70, 0xc76c51a3, 0xd192e819, 0xd6990624, 0xf40e3585, 0x106aa070,
  0x19a4c116, 0x1e376c08, 0x2748774c, 0x34b0bcb5, 0x391c0cb3, 0x4ed8aa4a, 0x5b9cca4f, 0x682e6ff3,
  0x748f82ee, 0x78a5636f, 0x84c87814, 0x8cc70208, 0x90befffa, 0xa4506ceb, 0xbef9a3f7, 0xc67178f2]

def rotr (x : UInt32) (n : UInt32) : UInt32 := (x >>> n) ||| (x <<< (32 - n))

def h0 : Array UInt32 := #[0x6a09e667, 0xbb67ae85, 0x3c6ef372, 0xa54ff53a, 0x510e527f, 0x9b05688c, 0x1f83d9ab, 0x5be0cd19]

def word (b : Array UInt8) (i : Nat) : UInt32 :=
  ((b[i]!).toUInt32 <<< 24) ||| ((b[i+1]!).toUInt32 <<< 16) ||| ((b[i+2]!).toUInt32 <<< 8) ||| (b[i+3]!).toUInt32

/-- message schedule for the 64-byte block starting at `off` -/
def schedule (b : Array UInt8) (off : Nat) : Array UInt32 := Id.run do
  let mut w : Array UInt32 := Array.mkEmpty 64
  for i in [0:16] do
    w := w.push (word b (off + 4 * i))
  for i in [16:64] do
    let w15 := w[i-15]!
    let w2 := w[i-2]!
    let s0 := rotr w15 7 ^^^ rotr w15 18 ^^^ (w15 >>> 3)
    let s1 := rotr w2 17 ^^^ rotr w2 19 ^^^ (w2 >>> 10)
    w := w.push (w[i-16]! + s0 + w[i-7]! + s1)
  return w

def compress (h : Array UInt32) (w : Array UInt32) : Array UInt32 := Id.run do
  let mut a := h[0]!; let mut b := h[1]!; let mut c := h[2]!; let mut d := h[3]!
  let mut e := h[4]!; let mut f := h[5]!; let mut g := h[6]!; let mut hh := h[7]!
  for i in [0:64] do
    let s1 := rotr e 6 ^^^ rotr e 11 ^^^ rotr e 25
    let ch := (e &&& f) ^^^ ((~~~ e) &&& g)
    let t1 := hh + s1 + ch + k[i]! + w[i]!
    let s0 := rotr a 2 ^^^ rotr a 13 ^^^ rotr a 22
    let mj := (a &&& b) ^^^ (a &&& c) ^^^ (b &&& c)
    let t2 := s0 + mj
    hh := g; g := f; f := e; e := d + t1; d := c; c := b; b := a; a := t1 + t2
  return #[h[0]! + a, h[1]! + b, h[2]! + c, h[3]! + d, h[4]! + e, h[5]! + f, h[6]! + g, h[7]! + hh]

def pad (msg : List UInt8) : Array UInt8 := Id.run do
  let len := msg.length
  let mut b : Array UInt8 := msg.toArray
  b := b.push 0x80
  while b.size % 64 ≠ 56 do
    b := b.push 0
  let bits := len * 8
  for i in [0:8] do
    b := b.push (UInt8.ofNat ((bits >>> (8 * (7 - i))) % 256))
  return b

def hash (msg : List UInt8) : List UInt8 := Id.run do
  let b := pad msg
  let mut h := h0
  for blk in [0:b.size / 64] do
    h := compress h (schedule b (blk * 64))
  let mut out : List UInt8 := []
  for i in [0:8] do
    let x := h[7 - i]!
    out := UInt8.ofNat ((x >>> 24).toNat % 256) :: UInt8.ofNat ((x >>> 16).toNat % 256) ::
           UInt8.ofNat ((x >>> 8).toNat % 256) :: UInt8.ofNat (x.toNat % 256) :: out
  return out

end Dirk.Sha256

namespace Dirk.Ssz

abbrev Bytes := List UInt8

def zero32 : Bytes := List.replicate 32 0

/-- Go `copy(dst[:], src)` into a zeroed `[32]byte` -/
def fit32 (b : Bytes) : Bytes := (b ++ zero32).take 32

def u64leaf (n : Nat) : Bytes := Dirk.le64 n ++ List.replicate 24 0

def h2 (a b : Bytes) : Bytes := Sha256.hash (a ++ b)

/-- merkle root of exactly 8 chunks -/
def merkle8 (c : List Bytes) : Bytes :=
  match c with
  | [a, b, c, d, e, f, g, h] => h2 (h2 (h2 a b) (h2 c d)) (h2 (h2 e f) (h2 g h))
  | _ => zero32

structure Att where
  slot : Nat
  index : Nat
  bbr : Bytes
  srcEpoch : Nat
  srcRoot : Bytes
  tgtEpoch : Nat
  tgtRoot : Bytes
  deriving Repr, Inhabited, DecidableEq

structure Header where
  slot : Nat
  proposer : Nat
  parentRoot : Bytes
  stateRoot : Bytes
  bodyRoot : Bytes
  deriving Repr, Inhabited, DecidableEq

def checkpointRoot (epoch : Nat) (root : Bytes) : Bytes := h2 (u64leaf epoch) (fit32 root)

/-- the leaves of `AttestationData` (before merkleisation) -/
def attLeaves (a : Att) : List Bytes :=
  [u64leaf a.slot, u64leaf a.index, fit32 a.bbr, checkpointRoot a.srcEpoch a.srcRoot,
   checkpointRoot a.tgtEpoch a.tgtRoot, zero32, zero32, zero32]

def attRoot (a : Att) : Bytes := merkle8 (attLeaves a)

def headerLeaves (h : Header) : List Bytes :=
  [u64leaf h.slot, u64leaf h.proposer, fit32 h.parentRoot, fit32 h.stateRoot, fit32 h.bodyRoot,
   zero32, zero32, zero32]

def headerRoot (h : Header) : Bytes := merkle8 (headerLeaves h)

/-- `generateSigningRoot`: both parts must be exactly 32 bytes -/
def signingRoot (root domain : Bytes) : Option Bytes :=
  if root.length ≠ 32 ∨ domain.length ≠ 32 then none else some (h2 root domain)

end Dirk.Ssz
