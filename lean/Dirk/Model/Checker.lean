/-
  Dirk.Model.Checker — services/checker/static: permission compilation (`regexify`,
  `parseAndCheckParameters`) and `Check` transcribed.  Core Lean only.
-/
import Dirk.Model.Regex

namespace Dirk

structure PermEntry where
  path : String
  ops : List String
  deriving Repr, Inhabited, DecidableEq

/-- the ordered entry list handed to the checker for each client -/
abbrev Perms := List (String × List PermEntry)

/-- `e2wallet.WalletAndAccountNames`: `none` = error -/
def walletAndAccount (path : String) : Option (String × String) :=
  if path.isEmpty then none else
  let cs := path.toList
  match cs.idxOf? '/' with
  | none => some (path, "")
  | some i =>
    if i = 0 then none
    else some (String.ofList (cs.take i), String.ofList (cs.drop (i + 1)))

def lowerS (s : String) : String := String.ofList (s.toList.map Re.lowerC)

/-- `strings.EqualFold` (ASCII) -/
def equalFold (a b : String) : Bool := lowerS a == lowerS b

/-- `regexify`: the string transformation applied to wallet and account patterns
    (with the alternation-grouping fix: the name is always wrapped in `^(?:…)$`). -/
def regexify (name : String) : String :=
  let name := if name.isEmpty then ".*" else name
  "(?i)^(?:" ++ name ++ ")$"

/-- `regexify` as shipped at the pinned commit: anchors are not grouped around the name. -/
def regexifyLegacy (name : String) : String :=
  let name := if name.isEmpty then "(?i).*" else name
  let name := if !name.startsWith "^" then "^" ++ name else name
  let name := if !name.endsWith "$" then name ++ "$" else name
  if !name.startsWith "(?i)" then "(?i)" ++ name else name

structure CPath where
  wallet : Re
  account : Re
  ops : List String
  deriving Repr, Inhabited

abbrev Access := List (String × List CPath)

def compileEntry (rx : String → String) (e : PermEntry) : Option CPath :=
  match walletAndAccount e.path with
  | none => none
  | some (w, a) =>
    if w.isEmpty then none else
    match ReParse.parse (rx w), ReParse.parse (rx a) with
    | some rw, some ra => some { wallet := rw, account := ra, ops := e.ops }
    | _, _ => none

def compileEntries (rx : String → String) : List PermEntry → Option (List CPath)
  | [] => some []
  | e :: es =>
    match compileEntry rx e, compileEntries rx es with
    | some c, some cs => some (c :: cs)
    | _, _ => none

/-- `parseAndCheckParameters`: `none` = `New` returns an error -/
def compilePerms (rx : String → String) : Perms → Option Access
  | [] => some []
  | (client, es) :: rest =>
    if client.isEmpty then none
    else if es.isEmpty then none
    else match compileEntries rx es, compilePerms rx rest with
      | some cs, some acc => some ((client, cs) :: acc)
      | _, _ => none

/-- inner loop of `Check`: scan one entry's operation list; `none` = no item bears on `op` -/
def scanOps (op : String) : List String → Option Bool
  | [] => none
  | o :: os =>
    if equalFold o "none" || equalFold o ("~" ++ op) then some false
    else if equalFold o "all" || equalFold o op then some true
    else scanOps op os

/-- outer loop of `Check` -/
def scanPaths (w a op : String) : List CPath → Bool
  | [] => false
  | p :: ps =>
    if Re.search p.wallet w && Re.search p.account a then
      match scanOps op p.ops with
      | some b => b
      | none => scanPaths w a op ps
    else scanPaths w a op ps

/-- `Service.Check`; `client = ""` covers both nil credentials and an empty client name. -/
def check (acc : Access) (client : String) (account : String) (op : String) : Bool :=
  if client.isEmpty then false else
  match walletAndAccount account with
  | none => false
  | some (w, a) =>
    if w.isEmpty then false else
    match acc.lookup client with
    | none => false
    | some paths => scanPaths w a op paths

end Dirk
