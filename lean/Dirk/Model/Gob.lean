/-
  Dirk.Model.Gob — the fragment of Go's `encoding/gob` stream format needed to read the legacy
  (pre-version-byte) slashing-protection records: a type-definition message followed by one value
  message holding a struct of int64 fields (zero fields omitted, field numbers delta-encoded,
  integers sign-folded into gob's variable-length unsigned encoding).  Core Lean only.

  Modelled, not verified: Go's decoder accepts more streams than this (other type names, extra
  type definitions, different field orders); the model assumes the field order of the legacy
  structs (`SourceEpoch, TargetEpoch` / `Slot`), which is what Go's own encoder produced.
-/
import Dirk.Model.Basic

namespace Dirk.Gob

/-- big-endian accumulate -/
def be (acc : Nat) : List UInt8 → Nat
  | [] => acc
  | b :: bs => be (acc * 256 + b.toNat) bs

/-- gob unsigned integer: one byte < 128, or (256 − count) followed by `count` big-endian bytes -/
def readUint : List UInt8 → Option (Nat × List UInt8)
  | [] => none
  | b :: rest =>
    if b.toNat < 128 then some (b.toNat, rest)
    else
      let n := 256 - b.toNat
      if n > 8 ∨ rest.length < n then none
      else some (be 0 (rest.take n), rest.drop n)

/-- gob signed integer: bit 0 of the unsigned value is the complement flag -/
def readInt (bs : List UInt8) : Option (Int × List UInt8) :=
  match readUint bs with
  | none => none
  | some (u, rest) =>
    if u % 2 = 1 then some (-((u / 2 : Nat) : Int) - 1, rest) else some (((u / 2 : Nat) : Int), rest)

/-- read struct fields: `(field number, value)` pairs until the 0 terminator -/
def readFields : (fuel : Nat) → (field : Int) → List UInt8 → Option (List (Int × Int))
  | 0, _, _ => none
  | fuel + 1, field, bs =>
    match readUint bs with
    | none => none
    | some (0, _) => some []
    | some (delta, rest) =>
      match readInt rest with
      | none => none
      | some (v, rest') =>
        (readFields fuel (field + delta) rest').map (fun l => (field + delta, v) :: l)

/-- skip the type-definition message, then read the value message's fields -/
def decodeStruct (d : List UInt8) : Option (List (Int × Int)) :=
  match readUint d with
  | none => none
  | some (len1, rest) =>
    if rest.length < len1 then none else
    match readUint (rest.drop len1) with
    | none => none
    | some (len2, rest2) =>
      if rest2.length ≠ len2 then none else
      match readInt rest2 with           -- type id of the value
      | none => none
      | some (_, body) => readFields (body.length + 1) (-1) body

def field (fs : List (Int × Int)) (i : Int) : Int :=
  match fs.find? (fun p => p.1 == i) with
  | some p => p.2
  | none => 0

def decodeAtt (d : List UInt8) : Option (Int × Int) :=
  (decodeStruct d).map (fun fs => (field fs 0, field fs 1))

def decodeProp (d : List UInt8) : Option Int :=
  (decodeStruct d).map (fun fs => field fs 0)

end Dirk.Gob
