/-
  Dirk.Model.Crashes — the operations in the request path that can panic in Go, made explicit.
  Core Lean only.

  * slicing `Domain[0:4]` panics when the slice's CAPACITY is below 4 (Go re-slices up to capacity);
  * `make([]T, n)` with a request-supplied `n` can exhaust memory;
  * the reviewed list `coveredSites` says, for every panic-capable construct the regenerated inventory
    finds, why it cannot fire on a client request (see the comment on each entry).
-/
import Dirk.Model.Basic

namespace Dirk

inductive Crash where
  | sliceBounds | outOfMemory
  deriving DecidableEq, Repr

/-- a byte slice as the Go runtime sees it: contents and capacity of its backing array -/
structure WireBytes where
  data : Bytes
  cap : Nat
  deriving Repr

/-- what protobuf-go decoding produces for a `bytes` field: nil (no data, capacity 0) or non-empty data
    in a backing array of at least 8 bytes (allocator size class), never shorter than the data -/
def WireBytes.Inv (b : WireBytes) : Prop :=
  b.data.length ≤ b.cap ∧ (b.data = [] → b.cap = 0) ∧ (b.data ≠ [] → 8 ≤ b.cap)

/-- `x[0:4]` -/
def slice04 (b : WireBytes) : Except Crash Bytes :=
  if b.cap < 4 then .error .sliceBounds else .ok ((b.data ++ [0, 0, 0, 0]).take 4)

/-- the rules read `Domain[0:4]` only after the signer refused a nil domain -/
def domainPrefix (b : WireBytes) : Except Crash (Option Bytes) :=
  if b.data = [] then .ok none            -- nil over the wire: refused before the rules
  else (slice04 b).map some

/-- `peers.Suitable(n)` as fixed: the bound is checked before the allocation -/
def suitableAlloc (npeers n : Nat) : Except Crash (Option Nat) :=
  if n > npeers then .ok none else .ok (some n)

/-- … and as shipped at the pinned commit: `make([]*Endpoint, n)` first; an allocation beyond what the
    process may map aborts it -/
def suitableAllocLegacy (memLimitEntries npeers n : Nat) : Except Crash (Option Nat) :=
  if n > memLimitEntries then .error .outOfMemory
  else if n > npeers then .ok none else .ok (some n)

/-- the reviewed panic-capable sites (file:function:kind:expression), each with the reason it cannot
    fire on a client request -/
def coveredSites : List String := [
  -- Domain[0:4]: reached with a non-nil domain only; protobuf gives it capacity >= 8 (C20_domain_slice_safe; probed by the wire engine)
  "rules/standard/sign.go:Service.OnSign:slice:req.Domain[0:4]",
  "rules/standard/signbeaconattestations.go:Service.runSignBeaconAttestationChecks:slice:req.Domain[0:4]",
  "rules/standard/signbeaconproposal.go:Service.OnSignBeaconProposal:slice:req.Domain[0:4]",
  -- record codecs: constant-size buffers, slices guarded by the exact length check of the version-1 branch
  "rules/standard/signbeaconattestation.go:signBeaconAttestationState.Decode:slice:data[1:9]",
  "rules/standard/signbeaconattestation.go:signBeaconAttestationState.Decode:slice:data[9:17]",
  "rules/standard/signbeaconattestation.go:signBeaconAttestationState.Encode:make:make([]byte, 1+8+8)",
  "rules/standard/signbeaconattestation.go:signBeaconAttestationState.Encode:slice:data[1:9]",
  "rules/standard/signbeaconattestation.go:signBeaconAttestationState.Encode:slice:data[9:17]",
  "rules/standard/signbeaconproposal.go:signBeaconProposalState.Decode:slice:data[1:9]",
  "rules/standard/signbeaconproposal.go:signBeaconProposalState.Encode:make:make([]byte, 1+8)",
  "rules/standard/signbeaconproposal.go:signBeaconProposalState.Encode:slice:data[1:9]",
  -- the only server carries TLS credentials (C19 facts), so AuthInfo is always credentials.TLSInfo
  "services/api/grpc/interceptors/clientinfo.go:ClientInfoInterceptor:assert:grpcPeer.AuthInfo.(credentials.TLSInfo)",
  -- the lock map only ever stores *sync.Mutex; Unlock is only deferred after Lock of the same key (C04 traces)
  "services/locker/syncmap/service.go:Service.Lock:assert:lock.(*sync.Mutex)",
  "services/locker/syncmap/service.go:Service.Unlock:assert:lock.(*sync.Mutex)",
  "services/locker/syncmap/service.go:Service.Unlock:panic:panic(\"Attempt to unlock an unknown lock\")",
  -- sized by the client's `participants`, now bounded by the number of peers before the allocation (C20_alloc_bounded)
  "services/peers/static/service.go:Service.Suitable:make:make([]*core.Endpoint, threshold)",
  -- sized by a threshold that OnGenerate bounded by participants <= peers, or that came from an authenticated peer
  "services/process/standard/crypto.go:Service.contribution:make:make([]bls.PublicKey, threshold)",
  "services/process/standard/crypto.go:Service.contribution:make:make([]bls.SecretKey, threshold)",
  "services/process/standard/generate.go:Service.generateDistributed:make:make([]bls.ID, signingThreshold)",
  "services/process/standard/generate.go:Service.generateDistributed:make:make([]bls.Sign, signingThreshold)",
  "services/process/standard/service.go:Service.OnCommit:make:make([]bls.PublicKey, generation.threshold)",
  -- wallet types: generate() is reached for non-distributed wallets opened from the store (nd/hd implement the creator);
  -- storeDistributedKey opens the wallet with distributed.OpenWallet
  "services/process/standard/generate.go:Service.generate:assert:wallet.(e2wtypes.WalletAccountCreator)",
  "services/process/standard/service.go:Service.storeDistributedKey:assert:wallet.(e2wtypes.WalletDistributedAccountImporter)",
  -- sized by the number of entries of the request itself
  "services/signer/standard/multisign.go:Service.Multisign:make:make([]*ruler.RulesData, entries)",
  "services/signer/standard/multisign.go:Service.Multisign:make:make([]e2wtypes.Account, entries)",
  "services/signer/standard/signbeaconattestations.go:Service.SignBeaconAttestations:make:make([]*ruler.RulesData, entries)",
  "services/signer/standard/signbeaconattestations.go:Service.SignBeaconAttestations:make:make([]e2wtypes.Account, entries)",
  -- guarded by the size == 64 check; not on the request path (only HashTreeRoot is used)
  "services/signer/standard/signingroot_encoding.go:SigningRoot.UnmarshalSSZ:slice:buf[0:32]",
  "services/signer/standard/signingroot_encoding.go:SigningRoot.UnmarshalSSZ:slice:buf[32:64]",
  -- an 8-byte little-endian value is always a valid identifier
  "util/bls.go:BLSID:panic:panic(err)",
  -- start-up only
  "util/path.go:ResolvePath:panic:panic(\"could not determine a home directory\")",
  -- workers <= inputLen, which is the batch size of the request itself
  "util/scatter.go:Scatter:make:make([]*ScatterResult, workers)",
  "util/scatter.go:Scatter:make:make(chan *ScatterResult, workers)",
  "util/scatter.go:Scatter:make:make(chan error, workers)"
]

end Dirk
