/-
  Dirk.Model.LockTrace — the sequence of locker and store calls one signing request makes
  (ruler.RunRules + rules), as the sequential model predicts it for a request without store faults
  (`lockStateFail`: the request is refused by the pre-check, before `RunRules`, so it makes no calls at all).
  This is the per-request program of Dirk.Model.Conc instantiated for a concrete request:
  PreLock; Lock k…; PostLock; ⟨fetches; at most one store⟩; Unlock … in reverse.  Core Lean only.
-/
import Dirk.Model.Instance

namespace Dirk

inductive LTok where
  | pre | lock (k : Bytes) | post | fetch | store | stored | unlock (k : Bytes) | sign
  deriving DecidableEq, Repr

/-- the locker calls of `RunRules` around the rules' own store accesses -/
def lockWrap (keys : List Bytes) (inner : List LTok) : List LTok :=
  [.pre] ++ keys.map .lock ++ [.post] ++ inner ++ keys.reverse.map .unlock

/-- store accesses of the single attestation rule -/
def innerAtt (db : Db) (pk : Bytes) (r : AttReq) : List LTok :=
  match fetchAtt db pk false with
  | none => [.fetch]
  | some st => if (attChecks r st).1 = .approved then [.fetch, .store, .stored] else [.fetch]

/-- store accesses of the batch rule: fetch until the first failure, one batch store if all fetched -/
def innerBatch (db : Db) : List Bytes → List LTok
  | [] => [.store, .stored]
  | pk :: rest =>
    match fetchAtt db pk false with
    | none => [.fetch]
    | some _ => .fetch :: innerBatch db rest

def innerProp (db : Db) (pk : Bytes) (r : PropReq) : List LTok :=
  if prefix4 r.domain ≠ domProposer then []
  else if r.slot > maxI64 then []
  else match fetchProp db pk false with
    | none => [.fetch]
    | some st => if st ≥ 0 ∧ r.slot ≤ u64 st then [.fetch] else [.fetch, .store, .stored]

def traceAtt (s : Inst) (c : String) (a : Addr) (d : AttData) (lockStateFail : Bool := false) :
    List LTok :=
  if !d.wellFormed then [] else
  match preCheck s.cfg c a opAttest lockStateFail with
  | .error _ => []
  | .ok acct => lockWrap [toBytes48 acct.pubkey] (innerAtt s.db acct.pubkey d.req)

def traceAtts (s : Inst) (c : String) (items : List (Addr × AttData)) (lockStateFail : Bool := false) :
    List LTok :=
  if items.length = 0 then [] else
  match firstMalformed (items.map (·.2)) with
  | some _ => []
  | none =>
    let pcs := preCheckAll s.cfg c opAttest items lockStateFail
    if pcs.any isErr then [] else
    let keyed := okItems pcs
    match firstDup [] 0 (keyed.map (·.1)) with
    | some _ => []
    | none =>
      lockWrap (keyed.map (fun e => toBytes48 e.1))
        (match keyed with
         | [(k, d)] => innerAtt s.db k d.req
         | _ => innerBatch s.db (keyed.map (·.1)))

def traceProp (s : Inst) (c : String) (a : Addr) (d : PropData) (lockStateFail : Bool := false) :
    List LTok :=
  if !d.wellFormed then [] else
  match preCheck s.cfg c a opPropose lockStateFail with
  | .error _ => []
  | .ok acct => lockWrap [toBytes48 acct.pubkey]
      (innerProp s.db acct.pubkey { domain := d.domain.getD [], slot := d.slot })

def traceSign (s : Inst) (c : String) (a : Addr) (d : SignData) (lockStateFail : Bool := false) :
    List LTok :=
  if !d.wellFormed then [] else
  match preCheck s.cfg c a opSign lockStateFail with
  | .error _ => []
  | .ok acct => lockWrap [toBytes48 acct.pubkey] []

def traceMsign (s : Inst) (c : String) (items : List (Addr × SignData)) (lockStateFail : Bool := false) :
    List LTok :=
  if items.length = 0 then [] else
  match (items.map (·.2)).findIdx? (fun d => !d.wellFormed) with
  | some _ => []
  | none =>
    let pcs := preCheckAll s.cfg c opSign items lockStateFail
    if pcs.any isErr then [] else
    let keyed := okItems pcs
    match firstDup [] 0 (keyed.map (·.1)) with
    | some _ => []
    | none => lockWrap (keyed.map (fun e => toBytes48 e.1)) []

end Dirk
