/-
  Dirk.Model.Instance — one dirk instance at the level of the signer service
  (services/signer/standard + services/ruler/golang + rules/standard + checker + fetcher),
  as a sequential state machine `step : Inst → Op → Inst × Out`.  Core Lean only.

  The instance carries ghost logs of every released signature (what `signRoot` was called on and
  returned), which is what the safety theorems (C01, C02, C05, C14) speak about.

  Besides the signing operations and restarts, `Op` contains the operations of an instance's lifetime
  that change the store without signing (`importCmd`: the slashing-protection import command between a
  stop and a start; `importRec`: the raw rules-level import it ends in, on its own) or
  the configuration (`create`, `setUnlockable`), and wallet lock / unlock (no effect on the state).
-/
import Dirk.Model.Rules
import Dirk.Model.Checker
import Dirk.Model.Ssz
import Dirk.Model.Import

namespace Dirk

structure Account where
  wallet : String
  name : String
  pubkey : Bytes
  /-- unlocked already, or one of the configured passphrases opens it -/
  unlockable : Bool := true
  deriving Repr, Inhabited, DecidableEq

structure Config where
  /-- wallets that exist without (yet) holding accounts -/
  wallets : List String := []
  accounts : List Account := []
  access : Access := []
  adminIPs : List String := []
  deriving Inhabited

/-- how a request addresses its account (`accountName`, `pubKey` of the service API) -/
structure Addr where
  name : String := ""
  key : Option Bytes := none
  deriving Repr, Inhabited, DecidableEq

/-- `bytesutil.ToBytes48` -/
def toBytes48 (b : Bytes) : Bytes := (b ++ List.replicate 48 0).take 48

def opSign := "Sign"
def opAttest := "Sign beacon attestation"
def opPropose := "Sign beacon proposal"
def opAccess := "Access account"
def opCreate := "Create account"
def opLockWallet := "Lock wallet"
def opUnlockWallet := "Unlock wallet"
def opLockAccount := "Lock account"
def opUnlockAccount := "Unlock account"

/-- `fetcher.FetchAccount` -/
def fetchByName (cfg : Config) (path : String) : Option Account :=
  match walletAndAccount path with
  | none => none
  | some (w, a) => cfg.accounts.find? (fun x => x.wallet == w && x.name == a)

/-- `fetcher.FetchAccountByKey` -/
def fetchByKey (cfg : Config) (k : Bytes) : Option Account :=
  cfg.accounts.find? (fun x => toBytes48 x.pubkey == toBytes48 k)

/-- `signer.fetchAccount` -/
def fetchAccount (cfg : Config) (a : Addr) : Option Account :=
  match a.key with
  | none => if a.name.isEmpty then none else fetchByName cfg a.name
  | some k => fetchByKey cfg k

/-- `signer.preCheck`: the resolved account or the failing result.
    `fetchAccount` → `checkAccess` → `unlockAccount`; the latter first asks the account `IsUnlocked()`, and an
    error from THAT call (`lockStateFail`) is FAILED before any passphrase is tried — so also for an account
    whose passphrase is unknown. -/
def preCheck (cfg : Config) (client : String) (a : Addr) (op : String) (lockStateFail : Bool := false) :
    Except Res Account :=
  match fetchAccount cfg a with
  | none => .error .denied
  | some acct =>
    if !check cfg.access client (acct.wallet ++ "/" ++ acct.name) op then .error .denied
    else if lockStateFail then .error .failed
    else if !acct.unlockable then .error .denied
    else .ok acct

/-! ## Request data -/

structure AttData where
  domain : Option Bytes
  slot : Nat
  cidx : Nat
  bbr : Option Bytes
  src : Nat
  srcRoot : Option Bytes
  tgt : Nat
  tgtRoot : Option Bytes
  deriving Repr, Inhabited, DecidableEq

structure PropData where
  domain : Option Bytes
  slot : Nat
  proposer : Nat
  parentRoot : Option Bytes
  stateRoot : Option Bytes
  bodyRoot : Option Bytes
  deriving Repr, Inhabited, DecidableEq

structure SignData where
  domain : Option Bytes
  data : Option Bytes
  deriving Repr, Inhabited, DecidableEq

def AttData.wellFormed (d : AttData) : Bool :=
  d.bbr.isSome && d.domain.isSome && d.srcRoot.isSome && d.tgtRoot.isSome

def AttData.req (d : AttData) : AttReq :=
  { domain := d.domain.getD [], src := d.src, tgt := d.tgt }

def AttData.sszData (d : AttData) : Ssz.Att :=
  { slot := d.slot, index := d.cidx, bbr := d.bbr.getD [], srcEpoch := d.src,
    srcRoot := d.srcRoot.getD [], tgtEpoch := d.tgt, tgtRoot := d.tgtRoot.getD [] }

/-- the 32-byte root that is handed to `account.Sign`; `none` = hashing failed -/
def AttData.signingRoot (d : AttData) : Option Bytes :=
  Ssz.signingRoot (Ssz.attRoot d.sszData) (d.domain.getD [])

def PropData.wellFormed (d : PropData) : Bool :=
  d.domain.isSome && d.parentRoot.isSome && d.stateRoot.isSome && d.bodyRoot.isSome

def PropData.signingRoot (d : PropData) : Option Bytes :=
  let h : Ssz.Header :=
    { slot := d.slot, proposer := d.proposer, parentRoot := d.parentRoot.getD [],
      stateRoot := d.stateRoot.getD [], bodyRoot := d.bodyRoot.getD [] }
  Ssz.signingRoot (Ssz.headerRoot h) (d.domain.getD [])

def SignData.signingRoot (d : SignData) : Option Bytes :=
  if (d.data.getD []).length ≠ 32 then none else Ssz.signingRoot (d.data.getD []) (d.domain.getD [])

/-! ## Instance state -/

structure Inst where
  cfg : Config
  db : Db := []
  /-- ghost: released attestation signatures, oldest first: (public key, data) -/
  attLog : List (Bytes × AttData) := []
  /-- ghost: released proposal signatures -/
  propLog : List (Bytes × PropData) := []
  /-- ghost: released generic signatures -/
  signLog : List (Bytes × SignData) := []
  deriving Inhabited

/-- one position of a response: state and the root that was signed (if any) -/
structure Pos where
  res : Res
  root : Option Bytes := none
  deriving Repr, Inhabited, DecidableEq

def verdictRes : Verdict → Res
  | .approved => .succeeded
  | .denied => .denied
  | .failed => .failed
  | .unknown => .failed

/-! ## Single attestation: `SignBeaconAttestation` -/

def signAtt (s : Inst) (client : String) (a : Addr) (d : AttData) (f : Faults) (signFails : Bool := false) :
    Inst × Pos :=
  if !d.wellFormed then (s, ⟨.denied, none⟩) else
  match preCheck s.cfg client a opAttest f.lockStateFail with
  | .error r => (s, ⟨r, none⟩)
  | .ok acct =>
    -- ruler: assembleMetadata needs a client name (the checker has already required one)
    let (v, db') := onAttest s.db acct.pubkey d.req f
    let s' := { s with db := db' }
    match v with
    | .approved =>
      match d.signingRoot with
      | none => (s', ⟨.failed, none⟩)
      | some root =>
        if signFails then (s', ⟨.failed, none⟩)
        else ({ s' with attLog := s'.attLog ++ [(acct.pubkey, d)] }, ⟨.succeeded, some root⟩)
    | v => (s', ⟨verdictRes v, none⟩)

/-! ## Batch attestations: `SignBeaconAttestations` -/

/-- first index whose data is incomplete (`checkAttestationsData`) -/
def firstMalformed (ds : List AttData) : Option Nat := ds.findIdx? (fun d => !d.wellFormed)

/-- the ruler's duplicate check: index of the first entry whose key was seen before -/
def firstDup : (seen : List Bytes) → (i : Nat) → List Bytes → Option Nat
  | _, _, [] => none
  | seen, i, k :: ks => if seen.contains (toBytes48 k) then some i else firstDup (toBytes48 k :: seen) (i + 1) ks

/-- `preCheck` of every position -/
def preCheckAll {α : Type} (cfg : Config) (client op : String) (items : List (Addr × α))
    (lockStateFail : Bool := false) : List (Except Res (Bytes × α)) :=
  items.map (fun it => match preCheck cfg client it.1 op lockStateFail with
    | .error r => .error r
    | .ok acct => .ok (acct.pubkey, it.2))

def isErr {α : Type} : Except Res α → Bool
  | .error _ => true
  | .ok _ => false

/-- positions reported when some preCheck failed: its result there, UNKNOWN elsewhere.  (Every entry is
    pre-checked before the batch is given up, and the rules are not consulted.  Under `lockStateFail` every
    entry fails its pre-check, so none is UNKNOWN.) -/
def preCheckPositions {α : Type} (pcs : List (Except Res α)) : List Pos :=
  pcs.map (fun p => match p with | .error r => ⟨r, none⟩ | .ok _ => ⟨.unknown, none⟩)

def okItems {α : Type} (pcs : List (Except Res α)) : List α :=
  pcs.filterMap (fun p => match p with | .ok a => some a | .error _ => none)

/-- sign the approved positions of a batch: (response position, released entry) -/
def signEvs (signFails : List Nat) : Nat → List (Bytes × AttData × Verdict) →
    List (Pos × Option (Bytes × AttData))
  | _, [] => []
  | i, (k, d, v) :: rest =>
    (match v with
     | .approved =>
       match d.signingRoot with
       | none => (⟨.failed, none⟩, none)
       | some root => if signFails.contains i then (⟨.failed, none⟩, none)
                      else (⟨.succeeded, some root⟩, some (k, d))
     | v => (⟨verdictRes v, none⟩, none)) :: signEvs signFails (i + 1) rest

/-- the rules call for a batch whose accounts are resolved and whose keys are distinct
    (`RunRules` → `runRules`: fast path for more than one entry, single path for one);
    `none` = every position FAILED -/
def rulesKeyed (db : Db) (keyed : List (Bytes × AttData)) (f : Faults) :
    Option (List (Bytes × AttData × Verdict)) × Db :=
  match keyed with
  | [(k, d)] => let r := onAttest db k d.req f; (some [(k, d, r.1)], r.2)
  | _ => onAttestBatch AttData.req db keyed f

/-- signing after the rules call -/
def finishKeyed (s : Inst) (keyed : List (Bytes × AttData)) (signFails : List Nat)
    (evs? : Option (List (Bytes × AttData × Verdict))) (db' : Db) : Inst × List Pos :=
  match evs? with
  | none => ({ s with db := db' }, keyed.map (fun _ => ⟨.failed, none⟩))
  | some evs =>
    ({ s with db := db', attLog := s.attLog ++ (signEvs signFails 0 evs).filterMap (·.2) },
     (signEvs signFails 0 evs).map (·.1))

def attestKeyed (s : Inst) (keyed : List (Bytes × AttData)) (f : Faults) (signFails : List Nat) :
    Inst × List Pos :=
  finishKeyed s keyed signFails (rulesKeyed s.db keyed f).1 (rulesKeyed s.db keyed f).2

def signAtts (s : Inst) (client : String) (items : List (Addr × AttData)) (f : Faults)
    (signFails : List Nat := []) : Inst × List Pos :=
  let n := items.length
  if n = 0 then (s, [⟨.denied, none⟩]) else
  match firstMalformed (items.map (·.2)) with
  | some i => (s, (List.range n).map (fun j => if j = i then ⟨.denied, none⟩ else ⟨.unknown, none⟩))
  | none =>
    let pcs := preCheckAll s.cfg client opAttest items f.lockStateFail
    if pcs.any isErr then (s, preCheckPositions pcs)
    else
      let keyed := okItems pcs
      match firstDup [] 0 (keyed.map (·.1)) with
      | some _ => (s, items.map (fun _ => ⟨.failed, none⟩))
      | none => attestKeyed s keyed f signFails

/-! ## Proposal: `SignBeaconProposal` -/

def signProp (s : Inst) (client : String) (a : Addr) (d : PropData) (f : Faults) (signFails : Bool := false) :
    Inst × Pos :=
  if !d.wellFormed then (s, ⟨.denied, none⟩) else
  match preCheck s.cfg client a opPropose f.lockStateFail with
  | .error r => (s, ⟨r, none⟩)
  | .ok acct =>
    let (v, db') := onPropose s.db acct.pubkey { domain := d.domain.getD [], slot := d.slot } f
    let s' := { s with db := db' }
    match v with
    | .approved =>
      match d.signingRoot with
      | none => (s', ⟨.failed, none⟩)
      | some root =>
        if signFails then (s', ⟨.failed, none⟩)
        else ({ s' with propLog := s'.propLog ++ [(acct.pubkey, d)] }, ⟨.succeeded, some root⟩)
    | v => (s', ⟨verdictRes v, none⟩)

/-! ## Generic: `SignGeneric` and `Multisign` -/

def SignData.wellFormed (d : SignData) : Bool := d.data.isSome && d.domain.isSome

def signGeneric (s : Inst) (client ip : String) (a : Addr) (d : SignData) (signFails : Bool := false)
    (lockStateFail : Bool := false) : Inst × Pos :=
  if !d.wellFormed then (s, ⟨.denied, none⟩) else
  match preCheck s.cfg client a opSign lockStateFail with
  | .error r => (s, ⟨r, none⟩)
  | .ok acct =>
    match onSign s.cfg.adminIPs ip (d.domain.getD []) with
    | .approved =>
      match d.signingRoot with
      | none => (s, ⟨.failed, none⟩)
      | some root =>
        if signFails then (s, ⟨.failed, none⟩)
        else ({ s with signLog := s.signLog ++ [(acct.pubkey, d)] }, ⟨.succeeded, some root⟩)
    | v => (s, ⟨verdictRes v, none⟩)

/-- rule + signing for each resolved position of a multisign request -/
def signGenerics (adminIPs : List String) (ip : String) (signFails : List Nat) :
    Nat → List (Bytes × SignData) → List (Pos × Option (Bytes × SignData))
  | _, [] => []
  | i, (k, d) :: rest =>
    (match onSign adminIPs ip (d.domain.getD []) with
     | .approved =>
       match d.signingRoot with
       | none => (⟨.failed, none⟩, none)
       | some root => if signFails.contains i then (⟨.failed, none⟩, none)
                      else (⟨.succeeded, some root⟩, some (k, d))
     | v => (⟨verdictRes v, none⟩, none)) :: signGenerics adminIPs ip signFails (i + 1) rest

def multisign (s : Inst) (client ip : String) (items : List (Addr × SignData)) (signFails : List Nat := [])
    (lockStateFail : Bool := false) : Inst × List Pos :=
  let n := items.length
  if n = 0 then (s, [⟨.denied, none⟩]) else
  match (items.map (·.2)).findIdx? (fun d => !d.wellFormed) with
  | some i => (s, (List.range n).map (fun j => if j = i then ⟨.denied, none⟩ else ⟨.unknown, none⟩))
  | none =>
    let pcs := preCheckAll s.cfg client opSign items lockStateFail
    if pcs.any isErr then (s, preCheckPositions pcs)
    else
      let keyed := okItems pcs
      match firstDup [] 0 (keyed.map (·.1)) with
      | some _ => (s, items.map (fun _ => ⟨.failed, none⟩))
      | none =>
        let outs := signGenerics s.cfg.adminIPs ip signFails 0 keyed
        ({ s with signLog := s.signLog ++ outs.filterMap (·.2) }, outs.map (·.1))

/-! ## Configuration changes at run time -/

def walletExists (cfg : Config) (w : String) : Bool :=
  cfg.wallets.contains w || cfg.accounts.any (·.wallet == w)

/-- account creation through dirk with a single participant (a plain account in a
    non-distributed wallet); `none` = refused -/
def createAccount (cfg : Config) (client : String) (path : String) (pubkey : Bytes) : Option Config :=
  match walletAndAccount path with
  | none => none
  | some (w, a) =>
    if !walletExists cfg w then none
    else if a.isEmpty then none
    else if cfg.accounts.any (fun x => x.wallet == w && x.name == a) then none
    else if !check cfg.access client path opCreate then none
    else some { cfg with accounts := cfg.accounts ++ [{ wallet := w, name := a, pubkey := pubkey }] }

/-- the account manager's Lock / Unlock of one account as the signer sees it: the `unlockable` flag of
    the account `wallet/name` (if there is one) becomes `b`; nothing else changes -/
def setUnlockable (cfg : Config) (wallet name : String) (b : Bool) : Config :=
  { cfg with accounts := cfg.accounts.map (fun x =>
      if x.wallet == wallet && x.name == name then { x with unlockable := b } else x) }

/-! ## Operations -/

inductive Op where
  | att (client : String) (a : Addr) (d : AttData) (f : Faults)
  | atts (client : String) (items : List (Addr × AttData)) (f : Faults)
  | prop (client : String) (a : Addr) (d : PropData) (f : Faults)
  /-- (generic requests carry no fault plan in histories: under `lockStateFail`, as under a signing fault, they
      leave the state as it is — `C06_lock_state_fault_sign / _msign`) -/
  | sign (client ip : String) (a : Addr) (d : SignData)
  | msign (client ip : String) (items : List (Addr × SignData))
  /-- clean shutdown and restart, or kill and restart: volatile state is lost, the store is kept -/
  | restart
  /-- rules-level `ImportSlashingProtection` for one key on the live instance: every supplied field group
      (`slot ≠ -1`; `src ≠ -1`) OVERWRITES the stored record of `toBytes48 k` (it is not merged with it) -/
  | importRec (k : Bytes) (r : Protection)
  /-- the import COMMAND: the dirk process is stopped, `dirk --import-slashing-protection` with
      `--genesis-validators-root = gvr` runs on the same storage directory (`importFile`: metadata checks,
      raise-only merge of the file with the existing records, then the rules-level write), and dirk is
      started again.  This is the only way the rules-level import is reached in dirk.  A refused import
      leaves the store as it was. -/
  | importCmd (gvr : String) (f : IFile)
  /-- account creation through dirk (`createAccount`); a refused creation changes nothing -/
  | create (client path : String) (pubkey : Bytes)
  /-- the account manager's Lock (`b = false`) / Unlock (`b = true`) as the signer sees it -/
  | setUnlockable (wallet name : String) (b : Bool)
  /-- wallet manager Lock / Unlock: nothing the signer sees changes -/
  | lockWallet (client wallet : String)
  | unlockWallet (client wallet : String)
  deriving Inhabited

inductive Out where
  | one (p : Pos)
  | many (ps : List Pos)
  | unit
  deriving Inhabited

def step (s : Inst) : Op → Inst × Out
  | .att c a d f => let (s', p) := signAtt s c a d f; (s', .one p)
  | .atts c items f => let (s', ps) := signAtts s c items f; (s', .many ps)
  | .prop c a d f => let (s', p) := signProp s c a d f; (s', .one p)
  | .sign c ip a d => let (s', p) := signGeneric s c ip a d; (s', .one p)
  | .msign c ip items => let (s', ps) := multisign s c ip items; (s', .many ps)
  | .restart => (s, .unit)
  | .importRec k r => ({ s with db := importKey s.db (toBytes48 k) r }, .unit)
  | .importCmd gvr f =>
    (match importFile gvr s.db f with
     | .ok db' => { s with db := db' }
     | .error => s, .unit)
  | .create c path pk =>
    (match createAccount s.cfg c path pk with
     | some cfg' => { s with cfg := cfg' }
     | none => s, .unit)
  | .setUnlockable w n b => ({ s with cfg := setUnlockable s.cfg w n b }, .unit)
  | .lockWallet _ _ => (s, .unit)
  | .unlockWallet _ _ => (s, .unit)

def run (s : Inst) : List Op → Inst
  | [] => s
  | op :: ops => run (step s op).1 ops

/-! ## Imports that keep what was released covered

`importKey` overwrites; an import that states LESS than what the instance has already released for the key
lowers the stored record, and the rules then approve requests that conflict with released signatures.
The safety theorems about histories therefore speak about histories all of whose imports satisfy
`ImportCovers` at the moment they are applied (`SafeHist`); every other operation is unrestricted. -/

/-- the record `r` imported for key `k` is not below anything the instance has released for `k`:
    if the attestation record is overwritten (`r.src ≠ -1`), the new source and target are int64 values at
    least as high as the source and target of every attestation released for `k`; if the proposal record
    is overwritten (`r.slot ≠ -1`), the new slot is an int64 value at least as high as every slot released
    for `k`.  (Nothing is required for keys for which nothing was released.) -/
def ImportCovers (s : Inst) (k : Bytes) (r : Protection) : Prop :=
  (r.src ≠ -1 → ∀ e ∈ s.attLog, e.1 = k →
      InI64 r.src ∧ InI64 r.tgt ∧ (e.2.src : Int) ≤ r.src ∧ (e.2.tgt : Int) ≤ r.tgt) ∧
  (r.slot ≠ -1 → ∀ e ∈ s.propLog, e.1 = k → InI64 r.slot ∧ (e.2.slot : Int) ≤ r.slot)

instance (s : Inst) (k : Bytes) (r : Protection) : Decidable (ImportCovers s k r) := by
  unfold ImportCovers; exact inferInstance

/-- the only operations constrained are imports -/
def Op.safeAt (s : Inst) : Op → Prop
  | .importRec k r => ImportCovers s (toBytes48 k) r
  | _ => True

instance (s : Inst) (op : Op) : Decidable (op.safeAt s) := by
  cases op <;> (unfold Op.safeAt; exact inferInstance)

/-- every import of the history covers what had been released when it is applied -/
def SafeHist (s : Inst) : List Op → Prop
  | [] => True
  | op :: ops => op.safeAt s ∧ SafeHist (step s op).1 ops

instance : (s : Inst) → (ops : List Op) → Decidable (SafeHist s ops)
  | _, [] => isTrue trivial
  | s, op :: ops =>
    have := instDecidableSafeHist (step s op).1 ops
    by unfold SafeHist; exact inferInstance

/-- the raw rules-level import (which dirk reaches only through the merging import command `importCmd`) -/
def Op.isRawImport : Op → Bool
  | .importRec _ _ => true
  | _ => false

/-- a history of signing requests, restarts, import commands, account creations, account and wallet
    lock / unlock — everything except the raw overwriting import -/
def NoRawImport (ops : List Op) : Prop := ∀ op ∈ ops, op.isRawImport = false

instance (ops : List Op) : Decidable (NoRawImport ops) := by unfold NoRawImport; exact inferInstance

end Dirk
