/-
  Dirk.Model.Import — the command-level slashing-protection import and export
  (slashingprotection.go in package main, on top of rules/standard/slashingprotection.go),
  modelled from the parsed interchange file down.  Core Lean only.

  Modelled, not verified: Go's encoding/json (the harness writes well-formed JSON from the same
  structured description both sides receive), viper flag handling.
-/
import Dirk.Model.Rules

namespace Dirk

/-- one `data` entry of an interchange file, fields as the raw strings found in the file -/
structure FileEntry where
  pubkey : String
  blocks : List String                 -- slot
  atts : List (String × String)        -- (source_epoch, target_epoch)
  deriving Repr, Inhabited, DecidableEq

structure IFile where
  /-- `none` = no metadata object -/
  metadata : Option (String × String)      -- (interchange_format_version, genesis_validators_root)
  data : List FileEntry
  deriving Repr, Inhabited

def digitVal (c : Char) : Option Nat := if '0' ≤ c ∧ c ≤ '9' then some (c.toNat - '0'.toNat) else none

def parseDigits : List Char → Nat → Option Nat
  | [], acc => some acc
  | c :: cs, acc => match digitVal c with
    | none => none
    | some d => parseDigits cs (acc * 10 + d)

/-- `strconv.ParseInt(s, 10, 64)`: optional sign, decimal digits only, int64 range -/
def parseInt64 (s : String) : Option Int :=
  let cs := s.toList
  let (neg, ds) := match cs with
    | '-' :: r => (true, r)
    | '+' :: r => (false, r)
    | r => (false, r)
  if ds.isEmpty then none else
  match parseDigits ds 0 with
  | none => none
  | some n =>
    if neg then (if n ≤ two63 then some (-(n : Int)) else none)
    else (if n < two63 then some (n : Int) else none)

def hexVal (c : Char) : Option Nat :=
  if '0' ≤ c ∧ c ≤ '9' then some (c.toNat - '0'.toNat)
  else if 'a' ≤ c ∧ c ≤ 'f' then some (c.toNat - 'a'.toNat + 10)
  else if 'A' ≤ c ∧ c ≤ 'F' then some (c.toNat - 'A'.toNat + 10)
  else none

def hexDecodeL : List Char → Option Bytes
  | [] => some []
  | a :: b :: rest =>
    match hexVal a, hexVal b, hexDecodeL rest with
    | some x, some y, some r => some (UInt8.ofNat (x * 16 + y) :: r)
    | _, _, _ => none
  | _ => none

/-- `hex.DecodeString(strings.TrimPrefix(s, "0x"))` -/
def hexDecode0x (s : String) : Option Bytes :=
  let cs := s.toList
  hexDecodeL (match cs with | '0' :: 'x' :: r => r | r => r)

/-- `copy(key[:], bytes)` into a zeroed `[48]byte` -/
def fit48 (b : Bytes) : Bytes := (b ++ List.replicate 48 0).take 48

/-- highest values of one file entry folded into `p`; `none` = a number does not parse or is negative -/
def foldAtts (p : Protection) : List (String × String) → Option Protection
  | [] => some p
  | (s, t) :: rest =>
    match parseInt64 s with
    | none => none
    | some sv =>
      if sv < 0 then none else
      match parseInt64 t with
      | none => none
      | some tv =>
        if tv < 0 then none else
        foldAtts { p with src := if sv > p.src then sv else p.src, tgt := if tv > p.tgt then tv else p.tgt } rest

def foldBlocks (p : Protection) : List String → Option Protection
  | [] => some p
  | s :: rest =>
    match parseInt64 s with
    | none => none
    | some v => if v < 0 then none else foldBlocks { p with slot := if v > p.slot then v else p.slot } rest

/-- the merged protection per key, in file order; starts from the existing record of the key (or
    from an earlier entry for the same key) and only ever raises a field -/
abbrev PMap := List (Bytes × Protection)

def PMap.get (m : PMap) (k : Bytes) : Option Protection := List.lookup k m
def PMap.set (m : PMap) (k : Bytes) (p : Protection) : PMap := (k, p) :: m

/-- the existing protection of a key as `ExportSlashingProtection` reports it
    (`none` = the key has no record at all) -/
def existingOf (db : Db) (k : Bytes) : Option Protection :=
  if db.pubKeys.contains k then exportKey db k else none

def mergeEntries (db : Db) : PMap → List FileEntry → Option PMap
  | m, [] => some m
  | m, e :: rest =>
    match hexDecode0x e.pubkey with
    | none => none
    | some kb =>
      let k := fit48 kb
      let start : Protection :=
        match m.get k with
        | some p => p
        | none => match existingOf db k with
          | some p => p
          | none => {}
      match foldAtts start e.atts with
      | none => none
      | some p1 =>
        match foldBlocks p1 e.blocks with
        | none => none
        | some p2 => mergeEntries db (m.set k p2) rest

/-- distinct keys of a merged map with their final (newest-binding) values -/
def PMap.final (m : PMap) : List (Bytes × Protection) :=
  (m.map (·.1)).eraseDups.filterMap (fun k => (m.get k).map (fun p => (k, p)))

def importAll (db : Db) : List (Bytes × Protection) → Db
  | [] => db
  | (k, p) :: rest => importAll (importKey db k p) rest

inductive ImportResult where
  | ok (db : Db)
  | error
  deriving Inhabited

/-- is the export of the existing store possible (every record decodable)? -/
def exportable (db : Db) : Bool := db.pubKeys.all (fun k => (exportKey db k).isSome)

/-- `storeSlashingProtection` with `--genesis-validators-root = gvrFlag` -/
def importFile (gvrFlag : String) (db : Db) (f : IFile) : ImportResult :=
  match f.metadata with
  | none => .error
  | some (version, gvr) =>
    if version ≠ "5" then .error
    else if gvrFlag.isEmpty then .error
    else match hexDecode0x gvrFlag with
      | none => .error
      | some b =>
        if b.length ≠ 32 then .error
        else if gvrFlag ≠ gvr then .error
        else if !exportable db then .error
        else match mergeEntries db [] f.data with
          | none => .error
          | some m => .ok (importAll db m.final)

/-- the interchange file `--export-slashing-protection` writes for a store; `none` = export fails -/
def toFile (gvr : String) (db : Db) : Option IFile :=
  if !exportable db then none else
  some { metadata := some ("5", gvr),
         data := db.pubKeys.filterMap (fun k => (exportKey db k).map (fun p =>
           { pubkey := "0x" ++ String.ofList (k.flatMap (fun b =>
               [Nat.digitChar (b.toNat / 16), Nat.digitChar (b.toNat % 16)])),
             blocks := if p.slot ≠ -1 then [toString p.slot] else [],
             atts := if p.src ≠ -1 then [(toString p.src, toString p.tgt)] else [] })) }

/-- the import logic as shipped at the pinned commit (for the counterexample): per key the three
    fields of the file entry are compared *jointly* with the existing record, the entry is dropped
    whole unless it is not older in every field, and a later entry for a key replaces an earlier one -/
def legacyTake (existing : Option Protection) (p : Protection) : Bool :=
  match existing with
  | none => true
  | some e => decide (e.src ≤ p.src) && decide (e.tgt ≤ p.tgt) && decide (e.slot ≤ p.slot)

end Dirk
