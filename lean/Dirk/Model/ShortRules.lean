/-
  A ruler that answers for FEWER requests than the batch holds (fault letter `r<k>`: the list `RunRules` hands back is
  cut to its first `k` verdicts, after the rules ran and wrote their state).  dirk's own ruler never does this; the
  signer is written so that it would not matter: `SignBeaconAttestations` / `Multisign` scatter over
  `len(rulesResults)`, the response positions start as UNKNOWN without a signature, so a position the ruler did not
  speak about is never signed (services/signer/standard/signbeaconattestations.go, multisign.go).

  The definitions repeat `signAtts` / `multisign` (Model/Instance.lean) with the verdict list cut before signing.
  Theorems: Props/C06.lean (`C06_short_rules_*`, `*_of_ge`: with `k ≥` batch size these ARE `signAtts` / `multisign`).
-/
import Dirk.Model.Handler

namespace Dirk

/-- response positions the ruler gave no verdict for: UNKNOWN, no signature -/
def padUnknown (n : Nat) (ps : List Pos) : List Pos :=
  ps ++ List.replicate (n - ps.length) ⟨.unknown, none⟩

/-- signing after a rules call whose result list was cut to `k` entries (`none` = the ruler's list was `n` × FAILED) -/
def finishKeyedShort (s : Inst) (keyed : List (Bytes × AttData)) (signFails : List Nat) (k : Nat)
    (evs? : Option (List (Bytes × AttData × Verdict))) (db' : Db) : Inst × List Pos :=
  match evs? with
  | none => ({ s with db := db' }, padUnknown keyed.length ((keyed.take k).map (fun _ => ⟨.failed, none⟩)))
  | some evs =>
    ({ s with db := db', attLog := s.attLog ++ (signEvs signFails 0 (evs.take k)).filterMap (·.2) },
     padUnknown keyed.length ((signEvs signFails 0 (evs.take k)).map (·.1)))

def attestKeyedShort (s : Inst) (keyed : List (Bytes × AttData)) (f : Faults) (signFails : List Nat) (k : Nat) :
    Inst × List Pos :=
  finishKeyedShort s keyed signFails k (rulesKeyed s.db keyed f).1 (rulesKeyed s.db keyed f).2

def signAttsShort (s : Inst) (client : String) (items : List (Addr × AttData)) (f : Faults)
    (signFails : List Nat) (k : Nat) : Inst × List Pos :=
  let n := items.length
  if n = 0 then (s, [⟨.denied, none⟩]) else
  match firstMalformed (items.map (·.2)) with
  | some i => (s, (List.range n).map (fun j => if j = i then ⟨.denied, none⟩ else ⟨.unknown, none⟩))
  | none =>
    let pcs := preCheckAll s.cfg client opAttest items f.lockStateFail
    if pcs.any isErr then (s, preCheckPositions pcs)
    else
      let keyed := okItems pcs
      match firstDup [] 0 (keyed.map (·.1)) with
      | some _ => (s, padUnknown items.length ((items.take k).map (fun _ => ⟨.failed, none⟩)))   -- the ruler's n × FAILED, cut
      | none => attestKeyedShort s keyed f signFails k

def multisignShort (s : Inst) (client ip : String) (items : List (Addr × SignData)) (signFails : List Nat)
    (lockStateFail : Bool) (k : Nat) : Inst × List Pos :=
  let n := items.length
  if n = 0 then (s, [⟨.denied, none⟩]) else
  match (items.map (·.2)).findIdx? (fun d => !d.wellFormed) with
  | some i => (s, (List.range n).map (fun j => if j = i then ⟨.denied, none⟩ else ⟨.unknown, none⟩))
  | none =>
    let pcs := preCheckAll s.cfg client opSign items lockStateFail
    if pcs.any isErr then (s, preCheckPositions pcs)
    else
      let keyed := okItems pcs
      match firstDup [] 0 (keyed.map (·.1)) with
      | some _ => (s, padUnknown items.length ((items.take k).map (fun _ => ⟨.failed, none⟩)))   -- the ruler's n × FAILED, cut
      | none =>
        let outs := signGenerics s.cfg.adminIPs ip signFails 0 (keyed.take k)
        ({ s with signLog := s.signLog ++ outs.filterMap (·.2) }, padUnknown keyed.length (outs.map (·.1)))

/-! through the gRPC handlers -/

def hSignAttsShort (s : Inst) (client : String) (items : List (Addr × AttData)) (f : Faults) (sf : List Nat)
    (k : Nat) : Inst × List Pos :=
  let items := items.map (fun it => (it.1.wire, it.2.wire))
  if items.isEmpty then (s, [⟨.denied, none⟩]) else
  match firstRejected (items.map (·.1)) with
  | some i => (s, (List.range items.length).map (fun j => if j = i then ⟨.denied, none⟩ else ⟨.unknown, none⟩))
  | none => let r := signAttsShort s client items f sf k; (r.1, r.2.map respond)

def hMultisignShort (s : Inst) (client ip : String) (items : List (Addr × SignData)) (sf : List Nat)
    (lockStateFail : Bool) (k : Nat) : Inst × List Pos :=
  let items := items.map (fun it => (it.1.wire, it.2.wire))
  if items.isEmpty then (s, [⟨.denied, none⟩]) else
  match firstRejectedSign items with
  | some i => (s, (List.range items.length).map (fun j => if j = i then ⟨.denied, none⟩ else ⟨.unknown, none⟩))
  | none => let r := multisignShort s client ip items sf lockStateFail k; (r.1, r.2.map respond)

end Dirk
