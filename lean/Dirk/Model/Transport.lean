/-
  Dirk.Model.Transport — who gets to reach a handler at all: the gRPC server's transport policy
  (services/api/grpc/service.go createServer + interceptors/clientinfo.go).  Core Lean only.

  Modelled, not verified: Go's crypto/tls and crypto/x509 implement the documented ClientAuthType
  semantics (RequireAndVerifyClientCert: the handshake fails unless the client presents a certificate
  that chains to ClientCAs and is within its validity period); gRPC dispatches a method only on an
  established connection.
-/
namespace Dirk.Transport

/-- what a caller brings -/
inductive Cred where
  | plaintext
  | tlsNoCert
  /-- a client certificate: issued by a CA in the server's pool?, currently valid?, subject common name -/
  | cert (trustedIssuer : Bool) (inValidity : Bool) (cn : String)
  deriving DecidableEq, Repr

structure ServerCfg where
  /-- name of the tls.ClientAuthType constant -/
  clientAuth : String
  /-- TLS credentials are installed on the (only) gRPC server -/
  credsInstalled : Bool
  /-- a client-CA pool is configured -/
  clientCAs : Bool
  deriving DecidableEq, Repr

/-- the verified identity a connection carries into the handlers; `none` = the connection (and with it
    every RPC on it) is refused at the transport -/
def handshake (cfg : ServerCfg) : Cred → Option (Option String)
  | .plaintext => if cfg.credsInstalled then none else some none
  | .tlsNoCert =>
    if !cfg.credsInstalled then none
    else if cfg.clientAuth = "tls.NoClientCert" ∨ cfg.clientAuth = "tls.RequestClientCert" ∨ cfg.clientAuth = "tls.VerifyClientCertIfGiven"
      then some none else none
  | .cert trusted valid cn =>
    if !cfg.credsInstalled then none
    else if cfg.clientAuth = "tls.RequireAndVerifyClientCert" ∨ cfg.clientAuth = "tls.VerifyClientCertIfGiven" then
      (if trusted ∧ valid ∧ cfg.clientCAs then some (some cn) else none)
    else if cfg.clientAuth = "tls.NoClientCert" then some none
    else some (some cn)            -- RequestClientCert / RequireAnyClientCert: certificate not verified

/-- an RPC of any registered service is dispatched only on an accepted connection, with the client name
    the interceptor derives from the first verified peer certificate -/
def serve (cfg : ServerCfg) (cred : Cred) : Option (Option String) := handshake cfg cred

end Dirk.Transport
