/-
  Dirk.Model.Dkg — distributed key generation at the level of protocol messages
  (services/process/standard/{service,generate,generation}.go behind
  services/api/grpc/handlers/receiver/*.go).  Core Lean only.

  Cryptography is abstract here: a contribution is `valid` or not and carries the length of its
  verification vector; what the algebra guarantees about valid contributions is proved separately
  over an arbitrary field (Dirk.Lemmas.DkgAlgebra).  Identities: a caller is known by the id of the
  peer whose name equals its authenticated certificate name, 0 = not a peer.

  Modelled, not verified: the herumi BLS library, the wallet stores, the real clock (the model's clock
  advances only by explicit `tick`s), Go's random map iteration order (the model visits participants
  in ascending id order; the check only generates event sequences whose outcome does not depend on it).
-/
namespace Dirk.Dkg

structure Session where
  threshold : Nat
  participants : List Nat
  /-- ids whose share + vector are held (the own one is there from `prepare` on) -/
  contributed : List Nat
  started : Nat
  deriving Repr, DecidableEq, Inhabited

structure DInst where
  id : Nat
  sessions : List (String × Session) := []
  accounts : List String := []
  deriving Repr, Inhabited

structure Cluster where
  insts : List DInst
  /-- configured peer ids (every instance has the same table) -/
  peers : List Nat
  timeout : Nat
  now : Nat := 0
  deriving Repr, Inhabited

inductive Reply where
  | ok | unknownSender | refused
  deriving DecidableEq, Repr, Inhabited

def Reply.toStr : Reply → String
  | .ok => "ok" | .unknownSender => "E:unknownsender" | .refused => "E:refused"

/-- `senderID`: the caller's peer id, 0 if its authenticated name is not a configured peer -/
def senderId (c : Cluster) (caller : Nat) : Nat := if c.peers.contains caller then caller else 0

def getInst (c : Cluster) (i : Nat) : Option DInst := c.insts.find? (·.id == i)

def setInst (c : Cluster) (x : DInst) : Cluster :=
  { c with insts := c.insts.map (fun y => if y.id == x.id then x else y) }

/-- `getGeneration`: the active session, expiring it on read -/
def active (c : Cluster) (x : DInst) (acct : String) : Option Session × DInst :=
  match x.sessions.lookup acct with
  | none => (none, x)
  | some s =>
    if c.now - s.started > c.timeout then (none, { x with sessions := x.sessions.filter (·.1 != acct) })
    else (some s, x)

def putSession (x : DInst) (acct : String) (s : Session) : DInst :=
  { x with sessions := (acct, s) :: x.sessions.filter (·.1 != acct) }

def dropSession (x : DInst) (acct : String) : DInst :=
  { x with sessions := x.sessions.filter (·.1 != acct) }

/-- is the account path in a wallet that can hold distributed accounts? (harness: wallet "DW") -/
def distributedWallet (acct : String) : Bool := acct.startsWith "DW/"

/-! ## handler-level events -/

def onPrepare (c : Cluster) (i caller : Nat) (acct : String) (t : Nat) (parts : List Nat) : Cluster × Reply :=
  if senderId c caller = 0 then (c, .unknownSender) else
  match getInst c i with
  | none => (c, .refused)
  | some x =>
    let (s?, x) := active c x acct
    match s? with
    | some _ => (setInst c x, .refused)                       -- ErrInProgress
    | none =>
      (setInst c (putSession x acct { threshold := t, participants := parts, contributed := [i], started := c.now }), .ok)

/-- `OnContribute` at instance `j` for a contribution from (authenticated) `caller` -/
def onContribute (c : Cluster) (j caller : Nat) (acct : String) (valid : Bool) (vlen : Nat) : Cluster × Reply :=
  if senderId c caller = 0 then (c, .unknownSender) else
  match getInst c j with
  | none => (c, .refused)
  | some x =>
    let (s?, x) := active c x acct
    match s? with
    | none => (setInst c x, .refused)
    | some s =>
      if !valid then (setInst c x, .refused)
      else if vlen ≠ s.threshold then (setInst c x, .refused)            -- fix: vector length
      else if !s.participants.contains caller then (setInst c x, .refused) -- fix: listed participants only
      else
        let s' := { s with contributed := if s.contributed.contains caller then s.contributed else s.contributed ++ [caller] }
        (setInst c (putSession x acct s'), .ok)

/-- one contribution swap initiated by `i` with `j` (inside `OnExecute`) -/
def swap (c : Cluster) (i j : Nat) (acct : String) (si : Session) : Cluster × Bool :=
  if !c.peers.contains j then (c, false) else
  match getInst c j with
  | none => (c, false)
  | some xj =>
    -- what `j` will answer: it needs an active session; remember its threshold for the reply check
    let tj := (active c xj acct).1.map (·.threshold)
    let (c1, r) := onContribute c j i acct true si.threshold
    if r ≠ .ok then (c1, false) else
    match tj with
    | none => (c1, false)
    | some tj =>
      if tj ≠ si.threshold then (c1, false)                               -- fix: reply vector length
      else
        match getInst c1 i with
        | none => (c1, false)
        | some xi =>
          match xi.sessions.lookup acct with
          | none => (c1, false)
          | some s =>
            if s.contributed.contains j then (c1, false)                  -- "duplicate contribution"
            else (setInst c1 (putSession xi acct { s with contributed := s.contributed ++ [j] }), true)

def swaps (acct : String) (i : Nat) (si : Session) : Cluster → List Nat → Cluster × Bool
  | c, [] => (c, true)
  | c, j :: rest =>
    let (c', ok) := swap c i j acct si
    if ok then swaps acct i si c' rest else (c', false)

def insertAsc (x : Nat) : List Nat → List Nat
  | [] => [x]
  | y :: ys => if x ≤ y then x :: y :: ys else y :: insertAsc x ys

def sortAsc (l : List Nat) : List Nat := l.foldr insertAsc []

def onExecute (c : Cluster) (i caller : Nat) (acct : String) : Cluster × Reply :=
  if senderId c caller = 0 then (c, .unknownSender) else
  match getInst c i with
  | none => (c, .refused)
  | some x =>
    let (s?, x) := active c x acct
    let c := setInst c x
    match s? with
    | none => (c, .refused)
    | some s =>
      let higher := sortAsc (s.participants.filter (fun j => j > i)).eraseDups
      let (c', ok) := swaps acct i s c higher
      (c', if ok then .ok else .refused)

def onCommit (c : Cluster) (i caller : Nat) (acct : String) : Cluster × Reply :=
  if senderId c caller = 0 then (c, .unknownSender) else
  match getInst c i with
  | none => (c, .refused)
  | some x =>
    let (s?, x) := active c x acct
    match s? with
    | none => (setInst c x, .refused)
    | some s =>
      if s.contributed.length ≠ s.participants.length then (setInst c x, .refused)
      else if !s.participants.all (fun p => s.contributed.contains p) then (setInst c x, .refused)  -- fix: each listed one
      else if !distributedWallet acct then (setInst c x, .refused)
      else if x.accounts.contains acct then (setInst c x, .refused)
      else (setInst c { (dropSession x acct) with accounts := acct :: x.accounts }, .ok)

def onAbort (c : Cluster) (i caller : Nat) (acct : String) : Cluster × Reply :=
  if senderId c caller = 0 then (c, .unknownSender) else
  match getInst c i with
  | none => (c, .refused)
  | some x =>
    let (s?, x) := active c x acct
    match s? with
    | none => (setInst c x, .refused)
    | some _ => (setInst c (dropSession x acct), .ok)

def tick (c : Cluster) (d : Nat) : Cluster := { c with now := c.now + d }

/-- which share a contribution reply carries: the one computed for the authenticated caller's own
    identifier (`generation.distributionSecrets[senderID]`), nothing if none was computed for it -/
def replyShareFor (s : Session) (caller : Nat) : Option Nat :=
  if s.participants.contains caller then some caller else none

/-- the contribution handler as shipped at the pinned commit: no vector-length check and no
    participant check (for the counterexamples only) -/
def legacyAccepts (valid : Bool) (_vlen _threshold : Nat) (_listed : Bool) : Bool := valid

/-- what the fixed handler accepts -/
def fixedAccepts (valid : Bool) (vlen threshold : Nat) (listed : Bool) : Bool :=
  valid && decide (vlen = threshold) && listed

/-- `OnCommit` aggregates every held vector into a threshold-sized array by index: safe only if no
    held vector is longer than the threshold -/
def aggregationInRange (threshold : Nat) (vlens : List Nat) : Bool := vlens.all (fun l => decide (l ≤ threshold))

/-! ## client-level generation -/

/-- `OnGenerate`'s parameter checks with uint32 arithmetic (`n / 2` is integer division) -/
def generateAccepts (n t : Nat) : Bool := decide (n ≠ 0) && decide (t ≤ n) && !decide (t ≤ n / 2)

/-- faults the routing layer can inject into one generation -/
inductive GenFault where
  | none
  /-- a prepare / execute / contribution message is lost or answered with an error -/
  | lost
  /-- a contribution whose share does not match its vector, or whose vector has the wrong length -/
  | badContribution
  /-- a commit reply is altered (public key or confirmation signature) -/
  | badCommitReply
  /-- no message fault, but a participant other than the initiator already holds an account of that name (left by an
      earlier attempt that committed on some participants only): its commit is refused after the others committed -/
  | heldElsewhere
  deriving DecidableEq, Repr, Inhabited

/-- outcome of a whole generation as seen by the client, and which instances end up holding the
    account: (reported success, every participant holds it) -/
def generateOutcome (npeers n t : Nat) (walletDistributed accountExists permitted : Bool) (f : GenFault) :
    Bool × Bool :=
  if !generateAccepts n t then (false, false)
  else if accountExists then (false, false)
  else if !permitted then (false, false)
  else if n = 1 then (!walletDistributed, !walletDistributed)         -- plain account in a non-distributed wallet
  else if !walletDistributed then (false, false)
  else if n > npeers then (false, false)
  else match f with
    | .none => (true, true)
    | .lost => (false, false)
    | .badContribution => (false, false)
    | .badCommitReply => (false, true)                                  -- detected only after the commits happened
    | .heldElsewhere => (false, true)                                   -- the other participants had already committed

/-! ## The peer table (services/peers/static `New`)

An entry is `name:port`; the table is refused when an entry is malformed (not exactly one colon, port not a number in
1 … 2^32−1) or when two ids carry the same NAME — the name is all that links an authenticated caller to a participant id
(`senderID`), so a name under two ids would make one caller two participants. -/

def peerNameOf (ep : String) : Option String :=
  match ep.splitOn ":" with
  | [n, p] => if p.all Char.isDigit && !p.isEmpty then
                (match p.toNat? with
                 | some k => if 0 < k && k < 4294967296 then some n else none
                 | none => none)
              else none
  | _ => none

def peersAccepted (eps : List String) : Bool :=
  eps.all (fun e => (peerNameOf e).isSome) && decide ((eps.filterMap peerNameOf).Nodup)

end Dirk.Dkg
