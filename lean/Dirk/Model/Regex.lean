/-
  Dirk.Model.Regex — the RE2 fragment used in dirk permission paths and listing paths:
  AST, a total derivative-based matcher with begin/end-of-text assertions, and a parser for the
  fragment the generators use.  Core Lean only.

  Modelled, not verified: Go's `regexp` (RE2) is what runs in dirk; this file re-implements the
  fragment (literals, `.`, classes, groups, `(?:…)`, `(?i)`, `|`, `* + ?` and their lazy forms,
  `^ $`, simple escapes) and is differential-tested against it.  Case folding is ASCII only.
-/
namespace Dirk

inductive Re where
  | none                                            -- ∅
  | eps
  | chr (ci : Bool) (c : Char)
  | any                                             -- `.` : any char except newline
  | cls (ci : Bool) (neg : Bool) (rs : List (Char × Char))
  | bol | eol                                       -- `^` / `$` without (?m): begin / end of text
  | cat (a b : Re) | alt (a b : Re) | star (a : Re)
  deriving Repr, Inhabited, DecidableEq

namespace Re

def lowerC (c : Char) : Char := if 'A' ≤ c ∧ c ≤ 'Z' then Char.ofNat (c.toNat + 32) else c
def upperC (c : Char) : Char := if 'a' ≤ c ∧ c ≤ 'z' then Char.ofNat (c.toNat - 32) else c

def inRanges (rs : List (Char × Char)) (c : Char) : Bool := rs.any (fun r => r.1 ≤ c ∧ c ≤ r.2)

def chrMatch (ci : Bool) (p c : Char) : Bool := if ci then lowerC p == lowerC c else p == c

def clsMatch (ci neg : Bool) (rs : List (Char × Char)) (c : Char) : Bool :=
  let hit := if ci then inRanges rs (lowerC c) || inRanges rs (upperC c) || inRanges rs c
             else inRanges rs c
  if neg then !hit else hit

/-- nullable at a position where `s` = "at start of text" and `e` = "at end of text" -/
def nullable (s e : Bool) : Re → Bool
  | none => false
  | eps => true
  | chr _ _ => false
  | any => false
  | cls _ _ _ => false
  | bol => s
  | eol => e
  | cat a b => nullable s e a && nullable s e b
  | alt a b => nullable s e a || nullable s e b
  | star _ => true

def mkCat : Re → Re → Re
  | none, _ => none
  | _, none => none
  | eps, b => b
  | a, eps => a
  | a, b => cat a b

def mkAlt : Re → Re → Re
  | none, b => b
  | a, none => a
  | a, b => if a = b then a else alt a b

/-- Brzozowski derivative w.r.t. `c`, taken at a position whose "at start" flag is `s`
    (it is never at end: `c` is still to be read). -/
def deriv (s : Bool) (c : Char) : Re → Re
  | none => none
  | eps => none
  | chr ci p => if chrMatch ci p c then eps else none
  | any => if c = '\n' then none else eps
  | cls ci neg rs => if clsMatch ci neg rs c then eps else none
  | bol => none
  | eol => none
  | cat a b =>
    let l := mkCat (deriv s c a) b
    if nullable s false a then mkAlt l (deriv s c b) else l
  | alt a b => mkAlt (deriv s c a) (deriv s c b)
  | star a => mkCat (deriv s c a) (star a)

/-- whole-text match starting at a position with "at start" flag `s` -/
def matchFrom (s : Bool) (r : Re) : List Char → Bool
  | [] => nullable s true r
  | c :: cs => matchFrom false (deriv s c r) cs

/-- the pattern matches the whole text (assertions inside the pattern keep their meaning) -/
def fullMatch (r : Re) (w : String) : Bool := matchFrom true r w.toList

def anyAll : Re := cls false true []

/-- Go `MatchString`: the pattern matches somewhere in the text -/
def search (r : Re) (w : String) : Bool :=
  matchFrom true (cat (star anyAll) (cat r (star anyAll))) w.toList

end Re

/-! ## Parser -/

namespace ReParse

open Re

def digitR : List (Char × Char) := [('0', '9')]
def wordR : List (Char × Char) := [('0', '9'), ('A', 'Z'), ('a', 'z'), ('_', '_')]
def spaceR : List (Char × Char) := [('\t', '\n'), ('\x0c', '\r'), (' ', ' ')]

def isPunct (c : Char) : Bool :=
  c.toNat < 128 && !(c.isAlphanum) && c != '_'

/-- escape outside a class -/
def escape (ci : Bool) (c : Char) : Option Re :=
  if c = 'd' then some (cls false false digitR)
  else if c = 'D' then some (cls false true digitR)
  else if c = 'w' then some (cls false false wordR)
  else if c = 'W' then some (cls false true wordR)
  else if c = 's' then some (cls false false spaceR)
  else if c = 'S' then some (cls false true spaceR)
  else if isPunct c then some (chr ci c)
  else Option.none

/-- class body after `[` / `[^`; `first` = no item read yet (a leading `]` is literal) -/
def classItems : (fuel : Nat) → (first : Bool) → List Char → List (Char × Char) →
    Option (List (Char × Char) × List Char)
  | 0, _, _, _ => Option.none
  | _ + 1, _, [], _ => Option.none
  | fuel + 1, first, c :: rest, acc =>
    if c = ']' ∧ !first then some (acc.reverse, rest)
    else
      -- one class character (possibly escaped)
      let lo? : Option (Char × List Char) :=
        if c = '\\' then
          match rest with
          | e :: r' => if isPunct e then some (e, r') else Option.none
          | [] => Option.none
        else if c = '[' then Option.none            -- no nested / posix classes in the fragment
        else some (c, rest)
      match lo? with
      | Option.none => Option.none
      | some (lo, r1) =>
        match r1 with
        | '-' :: ']' :: _ => classItems fuel false r1 ((lo, lo) :: acc)   -- trailing '-' literal
        | '-' :: h :: r2 =>
          let hi? : Option (Char × List Char) :=
            if h = '\\' then
              match r2 with
              | e :: r3 => if isPunct e then some (e, r3) else Option.none
              | [] => Option.none
            else if h = '[' then Option.none
            else some (h, r2)
          match hi? with
          | Option.none => Option.none
          | some (hi, r3) => if hi < lo then Option.none else classItems fuel false r3 ((lo, hi) :: acc)
        | _ => classItems fuel false r1 ((lo, lo) :: acc)

structure St where
  ci : Bool
  deriving Inhabited

def pRepEnd (a : Re) : List Char → Option (Re × List Char)
  | '?' :: rest =>
    match rest with
    | '*' :: _ => Option.none
    | '+' :: _ => Option.none
    | '?' :: _ => Option.none
    | _ => some (a, rest)
  | '*' :: _ => Option.none
  | '+' :: _ => Option.none
  | rest => some (a, rest)

/-- one optional repetition operator (with optional lazy `?`); a second operator is an error -/
def pRep (a : Re) : List Char → Option (Re × List Char)
  | '*' :: rest => pRepEnd (star a) rest
  | '+' :: rest => pRepEnd (cat a (star a)) rest
  | '?' :: rest => pRepEnd (alt a eps) rest
  | '{' :: _ => Option.none
  | rest => some (a, rest)

mutual
  /-- alternation: returns the expression, the rest, and the (possibly changed) flag state -/
  def pAlt : (fuel : Nat) → St → List Char → Option (Re × List Char × St)
    | 0, _, _ => Option.none
    | fuel + 1, st, cs =>
      match pCat fuel st cs eps with
      | Option.none => Option.none
      | some (a, rest, st') =>
        match rest with
        | '|' :: rest' =>
          match pAlt fuel st' rest' with
          | Option.none => Option.none
          | some (b, rest'', st'') => some (alt a b, rest'', st'')
        | _ => some (a, rest, st')

  /-- concatenation; `acc` is what has been parsed so far in this branch -/
  def pCat : (fuel : Nat) → St → List Char → Re → Option (Re × List Char × St)
    | 0, _, _, _ => Option.none
    | fuel + 1, st, cs, acc =>
      match cs with
      | [] => some (acc, [], st)
      | '|' :: _ => some (acc, cs, st)
      | ')' :: _ => some (acc, cs, st)
      | _ =>
        match pAtom fuel st cs with
        | Option.none => Option.none
        | some (Option.none, rest, st') => pCat fuel st' rest acc       -- a flag group
        | some (some a, rest, st') =>
          match pRep a rest with
          | Option.none => Option.none
          | some (a', rest') => pCat fuel st' rest' (cat acc a')

  /-- one atom; `none` in the first component = a pure flag group `(?i)` -/
  def pAtom : (fuel : Nat) → St → List Char → Option (Option Re × List Char × St)
    | 0, _, _ => Option.none
    | fuel + 1, st, cs =>
      match cs with
      | [] => Option.none
      | '(' :: '?' :: 'i' :: ')' :: rest => some (Option.none, rest, { st with ci := true })
      | '(' :: '?' :: ':' :: rest =>
        match pAlt fuel st rest with
        | some (a, ')' :: rest', _) => some (some a, rest', st)
        | _ => Option.none
      | '(' :: '?' :: _ => Option.none
      | '(' :: rest =>
        match pAlt fuel st rest with
        | some (a, ')' :: rest', _) => some (some a, rest', st)
        | _ => Option.none
      | '[' :: '^' :: rest =>
        match classItems (rest.length + 1) true rest [] with
        | some (rs, rest') => some (some (cls st.ci true rs), rest', st)
        | Option.none => Option.none
      | '[' :: rest =>
        match classItems (rest.length + 1) true rest [] with
        | some (rs, rest') => some (some (cls st.ci false rs), rest', st)
        | Option.none => Option.none
      | '.' :: rest => some (some any, rest, st)
      | '^' :: rest => some (some bol, rest, st)
      | '$' :: rest => some (some eol, rest, st)
      | '\\' :: e :: rest =>
        match escape st.ci e with
        | some a => some (some a, rest, st)
        | Option.none => Option.none
      | '\\' :: [] => Option.none
      | '*' :: _ => Option.none
      | '+' :: _ => Option.none
      | '?' :: _ => Option.none
      | '{' :: _ => Option.none           -- counted repetition not in the fragment
      | c :: rest => some (some (chr st.ci c), rest, st)
end


/-- `regexp.Compile`: `none` = compile error (or outside the modelled fragment) -/
def parse (s : String) : Option Re :=
  let cs := s.toList
  match pAlt (4 * cs.length + 8) { ci := false } cs with
  | some (r, [], _) => some r
  | _ => Option.none

end ReParse

end Dirk
