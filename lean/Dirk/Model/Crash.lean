/-
  Dirk.Model.Crash — signing at micro-step granularity with crashes.  Core Lean only.

  One request is: ⟨lookup, permission, unlock⟩ → rules (fetch, check, store; under the key lock, atomic
  by C04) → APPROVED → hash → sign (release) → reply.  `Inst.step` performs everything up to and
  including approval and appends the approved entries to `attLog` / `propLog`; here those entries are
  first only *in flight* (approved, recorded, not yet signed): a separate `sign` micro-step releases
  one of them, in any order and interleaved with other requests (the key lock is released before
  signing), and a `crash` micro-step — possible between any two micro-steps — discards everything
  volatile (the in-flight requests) and keeps exactly the store.

  Modelled, not verified: that a store call which returned survives the crash (badger with
  SyncWrites; probed by the check through the open store's options and the syscall trace), and
  badger's own recovery.
-/
import Dirk.Model.Instance

namespace Dirk

structure MState where
  inst : Inst
  /-- approved and recorded, signature not yet produced -/
  inflightAtt : List (Bytes × AttData) := []
  inflightProp : List (Bytes × PropData) := []
  /-- signatures actually produced (handed to the caller or lost in a crash after signing) -/
  releasedAtt : List (Bytes × AttData) := []
  releasedProp : List (Bytes × PropData) := []

inductive MStep : MState → MState → Prop where
  /-- a request runs up to its rules verdict; what it approved becomes in-flight.  Operations that do not
      sign (account creation, lock / unlock, the import command, the raw rules-level import) are requests
      too, unrestricted except for the raw import `Op.importRec`, which is only considered when it covers
      what the instance has approved so far for its key (`Op.safeAt`, i.e. `ImportCovers`): `importKey`
      overwrites, so a raw import below that lowers the record whatever the crash behaviour is. -/
  | request (m : MState) (op : Op) : op.safeAt m.inst →
      MStep m { m with inst := (step m.inst op).1,
                       inflightAtt := m.inflightAtt ++ ((step m.inst op).1.attLog.drop m.inst.attLog.length),
                       inflightProp := m.inflightProp ++ ((step m.inst op).1.propLog.drop m.inst.propLog.length) }
  /-- an in-flight attestation is signed -/
  | signAtt (m : MState) (e : Bytes × AttData) : e ∈ m.inflightAtt →
      MStep m { m with inflightAtt := m.inflightAtt.erase e, releasedAtt := m.releasedAtt ++ [e] }
  | signProp (m : MState) (e : Bytes × PropData) : e ∈ m.inflightProp →
      MStep m { m with inflightProp := m.inflightProp.erase e, releasedProp := m.releasedProp ++ [e] }
  /-- the process dies and is restarted on the same storage directory -/
  | crash (m : MState) : MStep m { m with inflightAtt := [], inflightProp := [] }

inductive MReach (cfg : Config) (db0 : Db) : MState → Prop where
  | init : MReach cfg db0 { inst := { cfg := cfg, db := db0 } }
  | step {m m' : MState} : MReach cfg db0 m → MStep m m' → MReach cfg db0 m'

end Dirk
