/-
  Dirk.Model.Scatter — util/scatter.go: how `Scatter` splits `n` items over workers given
  GOMAXPROCS = `p`.  Core Lean only.
-/
namespace Dirk

/-- `calculateExtentSize(items)` with `runtime.GOMAXPROCS(0) = p` -/
def extentSize (n p : Nat) : Nat :=
  let e := n / p
  if e = 0 then 1 else if n % e > 0 then e + 1 else e

/-- number of workers `Scatter` starts -/
def workers (n p : Nat) : Nat :=
  let e := extentSize n p
  if n % e ≠ 0 then n / e + 1 else n / e

/-- the `(offset, entries)` pairs handed to the work function, in worker order -/
def extents (n p : Nat) : List (Nat × Nat) :=
  let e := extentSize n p
  (List.range (workers n p)).map (fun w => (w * e, if w * e + e > n then n - w * e else e))

end Dirk
