/-
  Dirk.Spec.Perms — what the permission configuration means (C07), stated without the mechanism:
  scan the client's entries in order; within each entry whose wallet and account patterns match the
  WHOLE wallet / account name case-insensitively, scan its operation list in order; the first item
  that bears on the operation decides; nothing bears ⇒ refuse.  Core Lean only.
-/
import Dirk.Model.Checker

namespace Dirk.Spec

/-- the pattern (a regular expression; empty = anything) matches the whole name, ignoring case -/
def patMatches (pat name : String) : Bool :=
  match ReParse.parse ("(?i)" ++ (if pat.isEmpty then ".*" else pat)) with
  | some r => Re.fullMatch r name
  | none => false

def entryMatches (e : PermEntry) (w a : String) : Bool :=
  match walletAndAccount e.path with
  | some (pw, pa) => patMatches pw w && patMatches pa a
  | none => false

/-- does a permission item bear on `op`, and which way -/
def bearing (op : String) (item : String) : Option Bool :=
  if equalFold item "none" || equalFold item ("~" ++ op) then some false
  else if equalFold item "all" || equalFold item op then some true
  else none

/-- the decision of the first bearing item of a list of items -/
def firstOf (op : String) (items : List String) : Bool :=
  match items.filterMap (bearing op) with
  | [] => false
  | b :: _ => b

/-- **the specification of a permission decision** -/
def firstBearing (perms : Perms) (client account op : String) : Bool :=
  if client.isEmpty then false else
  match walletAndAccount account with
  | none => false
  | some (w, a) =>
    if w.isEmpty then false else
    match perms.lookup client with
    | none => false
    | some es => firstOf op ((es.filter (fun e => entryMatches e w a)).flatMap (·.ops))

end Dirk.Spec
