/-
  Dirk.Spec.Lifecycle — what C17 says about the replies of one instance, independent of the mechanism:
  a judge that reads the sequence of (message, instance, account name, accepted?) and the clock advances,
  keeps per (instance, name) the start time of the generation the replies themselves imply, and flags

    * a prepare accepted while a generation for that name is active on that instance;
    * an execute / contribute / commit / abort accepted while none is active (never prepared, ended by a
      successful commit or abort, or timed out).

  Names are independent by construction: the judge state of one (instance, name) is only touched by
  events for that pair, so anything that makes another name's generation disappear shows up as one of
  the two flags on the next message for it.
-/
namespace Dirk.Spec.Life

inductive Msg where
  | prepare | execute | contribute | commit | abort
  deriving DecidableEq, Repr, Inhabited

structure JState where
  timeout : Nat := 0
  now : Nat := 0
  /-- (instance, name) ↦ start time of the generation implied by the accepted messages so far -/
  started : List ((Nat × String) × Nat) := []
  deriving Repr, Inhabited

def isActive (j : JState) (k : Nat × String) : Bool :=
  match j.started.lookup k with
  | some s => decide (j.now - s ≤ j.timeout)
  | none => false

def clear (j : JState) (k : Nat × String) : JState :=
  { j with started := j.started.filter (fun e => e.1 != k) }

def start (j : JState) (k : Nat × String) : JState :=
  { (clear j k) with started := (k, j.now) :: (clear j k).started }

def advance (j : JState) (ms : Nat) : JState := { j with now := j.now + ms }

/-- one reply: new judge state and the verdict -/
def judge (j : JState) (m : Msg) (i : Nat) (name : String) (accepted : Bool) : JState × String :=
  let k := (i, name)
  if !accepted then (j, "ok") else
  match m with
  | .prepare => if isActive j k then (j, "PREPARE-ACCEPTED-WHILE-ACTIVE") else (start j k, "ok")
  | .execute | .contribute => if isActive j k then (j, "ok") else (j, "ACCEPTED-WITHOUT-ACTIVE-GENERATION")
  | .commit | .abort => if isActive j k then (clear j k, "ok") else (j, "ACCEPTED-WITHOUT-ACTIVE-GENERATION")

end Dirk.Spec.Life
