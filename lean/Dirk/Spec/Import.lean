/-
  Dirk.Spec.Import — what a successful import must guarantee (C10), stated on observable data:
  the protection exported before, the file, and the protection exported after.  Core Lean only.
-/
import Dirk.Model.Import

namespace Dirk.Spec

def maxI (a b : Int) : Int := if a ≥ b then a else b

/-- all values of one dimension that the file states for key `k` (entries whose decoded public key,
    fitted to 48 bytes, is `k`); unparsable numbers contribute nothing -/
def fileSlots (f : IFile) (k : Bytes) : List Int :=
  (f.data.filter (fun e => (hexDecode0x e.pubkey).map fit48 == some k)).flatMap
    (fun e => e.blocks.filterMap parseInt64)

def fileSources (f : IFile) (k : Bytes) : List Int :=
  (f.data.filter (fun e => (hexDecode0x e.pubkey).map fit48 == some k)).flatMap
    (fun e => e.atts.filterMap (fun p => parseInt64 p.1))

def fileTargets (f : IFile) (k : Bytes) : List Int :=
  (f.data.filter (fun e => (hexDecode0x e.pubkey).map fit48 == some k)).flatMap
    (fun e => e.atts.filterMap (fun p => parseInt64 p.2))

/-- after a successful import, for key `k`: every field is at least what it was before and at least
    every value the file states (−1 = nothing recorded) -/
def importProtects (f : IFile) (k : Bytes) (before after : Protection) : Bool :=
  decide (after.slot ≥ before.slot) && decide (after.src ≥ before.src) && decide (after.tgt ≥ before.tgt) &&
  (fileSlots f k).all (fun v => decide (after.slot ≥ v)) &&
  (fileSources f k).all (fun v => decide (after.src ≥ v)) &&
  (fileTargets f k).all (fun v => decide (after.tgt ≥ v))

/-- a failed import changes nothing -/
def importUnchanged (before after : Protection) : Bool := before == after

end Dirk.Spec
