/-
  Dirk.Spec.Listing — what a listing may and must contain (C18), in terms of the permission
  specification firstBearing and whole-name matching of the requested paths.  Core Lean only.
-/
import Dirk.Spec.Perms
import Dirk.Model.Instance

namespace Dirk.Spec

/-- the wallet part of a requested path (`none` = malformed path) -/
def pathWallet (path : String) : Option String := (walletAndAccount path).map (·.1)

/-- soundness side: an entry `wallet/name` may appear only if it is an existing account, the client has
    the access permission for it, and its wallet is one of the requested wallets -/
def mayList (perms : Perms) (accts : List Account) (client : String) (paths : List String) (entry : String) : Bool :=
  accts.any (fun a => a.wallet ++ "/" ++ a.name == entry) &&
  firstBearing perms client entry opAccess &&
  paths.any (fun p => match walletAndAccount entry, pathWallet p with
    | some (w, _), some pw => pw == w
    | _, _ => false)

/-- case-sensitive whole-name match of a requested account pattern (empty = every account) -/
def pathMatches (path : String) (a : Account) : Bool :=
  match walletAndAccount path with
  | none => false
  | some (w, pat) =>
    w == a.wallet && !w.isEmpty &&
    (pat.isEmpty || (match ReParse.parse pat with
      | some r => Re.fullMatch r a.name
      | none => false))

/-- completeness side: an account the client may access whose name matches one of the requested paths
    must appear -/
def mustList (perms : Perms) (client : String) (paths : List String) (a : Account) : Bool :=
  firstBearing perms client (a.wallet ++ "/" ++ a.name) opAccess && paths.any (fun p => pathMatches p a)

end Dirk.Spec
