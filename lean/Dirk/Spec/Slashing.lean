/-
  Dirk.Spec.Slashing — what "slashable" means (Ethereum consensus rules), stated without reference
  to dirk's mechanism.  Core Lean only.
-/
import Dirk.Model.Instance

namespace Dirk.Spec

/-- what an attestation signature commits to, as far as slashing is concerned -/
structure Vote where
  src : Nat
  tgt : Nat
  /-- everything that was signed (data root); two votes are "different" iff this differs -/
  data : AttData
  deriving DecidableEq, Repr

def DoubleVote (a b : Vote) : Prop := a.tgt = b.tgt ∧ a ≠ b
def Surrounds (a b : Vote) : Prop := a.src < b.src ∧ b.tgt < a.tgt
def Slashable (a b : Vote) : Prop := DoubleVote a b ∨ Surrounds a b ∨ Surrounds b a

instance (a b : Vote) : Decidable (Slashable a b) := by
  unfold Slashable DoubleVote Surrounds; exact inferInstance

def voteOf (d : AttData) : Vote := { src := d.src, tgt := d.tgt, data := d }

/-- the attestation signatures released for key `k`, oldest first -/
def votesFor (log : List (Bytes × AttData)) (k : Bytes) : List Vote :=
  (log.filter (fun e => e.1 = k)).map (fun e => voteOf e.2)

/-- two different proposals at one slot -/
def DoubleProposal (a b : PropData) : Prop := a.slot = b.slot ∧ a ≠ b

instance (a b : PropData) : Decidable (DoubleProposal a b) := by
  unfold DoubleProposal; exact inferInstance

def proposalsFor (log : List (Bytes × PropData)) (k : Bytes) : List PropData :=
  (log.filter (fun e => e.1 = k)).map (·.2)

end Dirk.Spec
