/-
  Dirk.Lemmas.Dom — an approval by the attestation / proposal rule implies the matching domain type;
  lifted to the released logs of every reachable state.
-/
import Dirk.Lemmas.Run

namespace Dirk

theorem onAttest_approved_dom {db : Db} {pk : Bytes} {r : AttReq} {f : Faults}
    (h : (onAttest db pk r f).1 = .approved) : prefix4 r.domain = domAttester := by
  unfold onAttest at h
  split at h
  · cases h
  · split at h
    · rename_i hchk
      exact (attChecks_approved hchk).2.2.2.2.2.1
    · rename_i v0 st0 hne hq
      exact absurd h hne

theorem onAttestBatch_approved_dom {α : Type} (req : α → AttReq) {db : Db} {items : List (Bytes × α)}
    {f : Faults} {evs : List (Bytes × α × Verdict)}
    (h : (onAttestBatch req db items f).1 = some evs) :
    ∀ e ∈ evs, e.2.2 = .approved → prefix4 (req e.2.1).domain = domAttester := by
  unfold onAttestBatch at h
  split at h
  · cases h
  · rename_i evs0 hev
    obtain ⟨_, hspec⟩ := evalBatch_spec req db f items 0 evs0 hev
    simp only at h
    split at h
    · injection h with h; subst h
      intro e he happ
      obtain ⟨e0, he0, hee⟩ := List.mem_map.mp he
      subst hee
      obtain ⟨st, _, hchk⟩ := hspec e0 he0
      have hchk' : attChecks (req e0.2.1) st = (.approved, e0.2.2.2) := by
        rw [hchk]; simp only at happ; rw [← happ]
      exact (attChecks_approved hchk').2.2.2.2.2.1
    · cases h

theorem rulesKeyed_approved_dom {db : Db} {keyed : List (Bytes × AttData)} {f : Faults}
    {evs : List (Bytes × AttData × Verdict)} (h : (rulesKeyed db keyed f).1 = some evs) :
    ∀ e ∈ evs, e.2.2 = .approved → prefix4 (e.2.1.domain.getD []) = domAttester := by
  unfold rulesKeyed at h
  split at h
  · rename_i k d
    simp only at h
    injection h with h; subst h
    intro e he happ
    simp at he; subst he
    exact onAttest_approved_dom happ
  · exact onAttestBatch_approved_dom AttData.req h

theorem onPropose_approved_dom {db : Db} {pk : Bytes} {r : PropReq} {f : Faults}
    (h : (onPropose db pk r f).1 = .approved) : prefix4 r.domain = domProposer := by
  rcases hon : onPropose db pk r f with ⟨v, db'⟩
  rw [hon] at h
  simp only at h
  exact ((onPropose_inv hon).2 h).2.2.1

structure DomInv (s : Inst) : Prop where
  att : ∀ e ∈ s.attLog, prefix4 (e.2.domain.getD []) = domAttester
  prop : ∀ e ∈ s.propLog, prefix4 (e.2.domain.getD []) = domProposer

theorem signAtt_domInv {s : Inst} (h : DomInv s) (c : String) (a : Addr) (d : AttData) (f : Faults)
    (sf : Bool) : DomInv (signAtt s c a d f sf).1 := by
  unfold signAtt
  split
  · exact h
  · split
    · exact h
    · rename_i acct _
      have hd := @onAttest_approved_dom s.db acct.pubkey d.req f
      rcases hon : onAttest s.db acct.pubkey d.req f with ⟨v, db'⟩
      rw [hon] at hd
      simp only at hd ⊢
      split
      · split
        · exact ⟨h.att, h.prop⟩
        · split
          · exact ⟨h.att, h.prop⟩
          · refine ⟨?_, h.prop⟩
            intro e he
            simp only at he
            rcases List.mem_append.mp he with h1 | h1
            · exact h.att e h1
            · simp at h1; subst h1; exact hd rfl
      · exact ⟨h.att, h.prop⟩

theorem signAtts_domInv {s : Inst} (h : DomInv s) (c : String) (items : List (Addr × AttData))
    (f : Faults) (sf : List Nat) : DomInv (signAtts s c items f sf).1 := by
  unfold signAtts
  simp only
  split
  · exact h
  · split
    · exact h
    · split
      · exact h
      · split
        · exact h
        · unfold attestKeyed finishKeyed
          split
          · exact ⟨h.att, h.prop⟩
          · rename_i evs hev
            refine ⟨?_, h.prop⟩
            intro e he
            simp only at he
            rcases List.mem_append.mp he with h1 | h1
            · exact h.att e h1
            · have hm := signEvs_released sf evs 0 e h1
              exact rulesKeyed_approved_dom hev _ hm rfl

theorem signProp_domInv {s : Inst} (h : DomInv s) (c : String) (a : Addr) (d : PropData) (f : Faults)
    (sf : Bool) : DomInv (signProp s c a d f sf).1 := by
  unfold signProp
  split
  · exact h
  · split
    · exact h
    · rename_i acct _
      have hd := @onPropose_approved_dom s.db acct.pubkey { domain := d.domain.getD [], slot := d.slot } f
      rcases hon : onPropose s.db acct.pubkey { domain := d.domain.getD [], slot := d.slot } f with ⟨v, db'⟩
      rw [hon] at hd
      simp only at hd ⊢
      split
      · split
        · exact ⟨h.att, h.prop⟩
        · split
          · exact ⟨h.att, h.prop⟩
          · refine ⟨h.att, ?_⟩
            intro e he
            simp only at he
            rcases List.mem_append.mp he with h1 | h1
            · exact h.prop e h1
            · simp at h1; subst h1; exact hd rfl
      · exact ⟨h.att, h.prop⟩

theorem step_domInv (s : Inst) (op : Op) (h : DomInv s) : DomInv (step s op).1 := by
  cases op with
  | att c a d f => exact signAtt_domInv h c a d f false
  | atts c items f => exact signAtts_domInv h c items f []
  | prop c a d f => exact signProp_domInv h c a d f false
  | sign c ip a d =>
    have fr := signGeneric_frame s c ip a d false false
    exact ⟨by simp only [step]; rw [fr.2.1]; exact h.att, by simp only [step]; rw [fr.2.2]; exact h.prop⟩
  | msign c ip items =>
    have fr := multisign_frame s c ip items [] false
    exact ⟨by simp only [step]; rw [fr.2.1]; exact h.att, by simp only [step]; rw [fr.2.2]; exact h.prop⟩
  | restart => exact h
  | importRec k r => exact ⟨h.att, h.prop⟩
  | importCmd gvr f =>
    have fr := step_importCmd_frame s gvr f
    exact ⟨by rw [fr.2.1]; exact h.att, by rw [fr.2.2.1]; exact h.prop⟩
  | create c p pk =>
    have fr := step_create_frame s c p pk
    exact ⟨by rw [fr.2.1]; exact h.att, by rw [fr.2.2.1]; exact h.prop⟩
  | setUnlockable w n b => exact ⟨h.att, h.prop⟩
  | lockWallet c w => exact h
  | unlockWallet c w => exact h

theorem run_domInv (ops : List Op) : ∀ (s : Inst), DomInv s → DomInv (run s ops) := by
  induction ops with
  | nil => intro s h; exact h
  | cons op rest ih => intro s h; exact ih _ (step_domInv s op h)

end Dirk
