/-
  Dirk.Lemmas.AttInv — the instance-level invariant behind C01 (and C03, C09, C14):
  every released attestation is covered by its key's stored record, and per key the released
  attestations are strictly increasing in target and non-decreasing in source.
-/
import Dirk.Lemmas.AttRules
import Dirk.Model.Instance

namespace Dirk

def VoteLt (a b : AttData) : Prop := a.tgt < b.tgt ∧ a.src ≤ b.src

def LogMono (log : List (Bytes × AttData)) : Prop :=
  log.Pairwise (fun a b => a.1 = b.1 → VoteLt a.2 b.2)

structure AttInv (s : Inst) : Prop where
  covered : ∀ e ∈ s.attLog, Covers s.db e.1 e.2.src e.2.tgt
  mono : LogMono s.attLog

theorem logMono_append {log new : List (Bytes × AttData)} (h : LogMono log)
    (hnew : (new.map (·.1)).Nodup)
    (hcross : ∀ a ∈ log, ∀ b ∈ new, a.1 = b.1 → VoteLt a.2 b.2) : LogMono (log ++ new) := by
  unfold LogMono
  rw [List.pairwise_append]
  refine ⟨h, ?_, hcross⟩
  have : new.Pairwise (fun a b => a.1 ≠ b.1) := by
    have := hnew
    unfold List.Nodup at this
    rw [List.pairwise_map] at this
    exact this
  exact this.imp (fun hne heq => absurd heq hne)

/-- generic preservation: the db keeps all coverage facts, and the new entries are approved-like -/
theorem attInv_extend {s : Inst} (hinv : AttInv s) (db' : Db) (new : List (Bytes × AttData))
    (hkeep : ∀ pk' s' t', Covers s.db pk' s' t' → Covers db' pk' s' t')
    (hnd : (new.map (·.1)).Nodup)
    (hnew : ∀ e ∈ new, Covers db' e.1 e.2.src e.2.tgt ∧
              ∀ s' t', Covers s.db e.1 s' t' → t' < e.2.tgt ∧ s' ≤ e.2.src) :
    AttInv { s with db := db', attLog := s.attLog ++ new } := by
  constructor
  · intro e he
    simp only at he ⊢
    rcases List.mem_append.mp he with h | h
    · exact hkeep _ _ _ (hinv.covered e h)
    · exact (hnew e h).1
  · simp only
    refine logMono_append hinv.mono hnd ?_
    intro a ha b hb hab
    have hc := hinv.covered a ha
    rw [hab] at hc
    exact (hnew b hb).2 _ _ hc

theorem attInv_db_only {s : Inst} (hinv : AttInv s) (db' : Db)
    (hkeep : ∀ pk' s' t', Covers s.db pk' s' t' → Covers db' pk' s' t') :
    AttInv { s with db := db' } := by
  have := attInv_extend hinv db' [] hkeep (by simp) (by simp)
  simpa using this

/-! ### single attestation -/

theorem signAtt_inv {s : Inst} (hinv : AttInv s) (c : String) (a : Addr) (d : AttData) (f : Faults)
    (sf : Bool) : AttInv (signAtt s c a d f sf).1 := by
  unfold signAtt
  split
  · exact hinv
  · split
    · exact hinv
    · rename_i acct _
      rcases hon : onAttest s.db acct.pubkey d.req f with ⟨v, db'⟩
      obtain ⟨hkeep, happ⟩ := onAttest_inv hon
      simp only
      split
      · obtain ⟨hcov, _, _, hlt⟩ := happ rfl
        split
        · exact attInv_db_only hinv db' hkeep
        · split
          · exact attInv_db_only hinv db' hkeep
          · have := attInv_extend hinv db' [(acct.pubkey, d)] hkeep (by simp)
              (by intro e he; simp at he; subst he; exact ⟨hcov, hlt⟩)
            simpa using this
      · exact attInv_db_only hinv db' hkeep

/-! ### batches -/

theorem signEvs_released (sf : List Nat) :
    ∀ (evs : List (Bytes × AttData × Verdict)) (i : Nat),
      ∀ x ∈ (signEvs sf i evs).filterMap (·.2), (x.1, x.2, Verdict.approved) ∈ evs := by
  intro evs
  induction evs with
  | nil => intro i x hx; simp [signEvs] at hx
  | cons e rest ih =>
    intro i x hx
    obtain ⟨k, d, v⟩ := e
    simp only [signEvs, List.filterMap_cons] at hx
    split at hx
    · exact List.mem_cons_of_mem _ (ih (i + 1) x hx)
    · rename_i y hy
      rcases List.mem_cons.mp hx with rfl | hx
      · -- the head released something: it must have been approved
        cases v <;> simp at hy
        · split at hy
          · simp at hy
          · split at hy
            · simp at hy
            · simp at hy; subst hy; simp
      · exact List.mem_cons_of_mem _ (ih (i + 1) x hx)

theorem signEvs_keys_sublist (sf : List Nat) :
    ∀ (evs : List (Bytes × AttData × Verdict)) (i : Nat),
      List.Sublist (((signEvs sf i evs).filterMap (·.2)).map (·.1)) (evs.map (·.1)) := by
  intro evs
  induction evs with
  | nil => intro i; simp [signEvs]
  | cons e rest ih =>
    intro i
    obtain ⟨k, d, v⟩ := e
    simp only [signEvs, List.filterMap_cons, List.map_cons]
    split
    · exact List.Sublist.cons _ (ih (i + 1))
    · rename_i y hy
      have hk : y.1 = k := by
        cases v <;> simp at hy
        · split at hy
          · simp at hy
          · split at hy
            · simp at hy
            · simp at hy; subst hy; rfl
      simp only [List.map_cons, hk]
      exact List.Sublist.cons_cons _ (ih (i + 1))

theorem finishKeyed_inv {s : Inst} (hinv : AttInv s) (keyed : List (Bytes × AttData)) (sf : List Nat)
    (hn : (keyed.map (·.1)).Nodup)
    (evs? : Option (List (Bytes × AttData × Verdict))) (db' : Db)
    (hkeep : ∀ pk' s' t', Covers s.db pk' s' t' → Covers db' pk' s' t')
    (hev : ∀ evs, evs? = some evs → evs.map (·.1) = keyed.map (·.1) ∧
         ∀ e ∈ evs, e.2.2 = .approved → Covers db' e.1 e.2.1.src e.2.1.tgt ∧
           ∀ s' t', Covers s.db e.1 s' t' → t' < e.2.1.tgt ∧ s' ≤ e.2.1.src) :
    AttInv (finishKeyed s keyed sf evs? db').1 := by
  unfold finishKeyed
  cases evs? with
  | none => exact attInv_db_only hinv db' hkeep
  | some evs =>
    obtain ⟨hkeys, happ⟩ := hev evs rfl
    simp only
    refine attInv_extend hinv db' _ hkeep ?_ ?_
    · exact (signEvs_keys_sublist sf evs 0).nodup (by rw [hkeys]; exact hn)
    · intro x hx
      have hm := signEvs_released sf evs 0 x hx
      exact happ _ hm rfl

theorem rulesKeyed_inv {db : Db} (keyed : List (Bytes × AttData)) (f : Faults)
    (hn : (keyed.map (·.1)).Nodup) :
    (∀ pk' s' t', Covers db pk' s' t' → Covers (rulesKeyed db keyed f).2 pk' s' t') ∧
    (∀ evs, (rulesKeyed db keyed f).1 = some evs → evs.map (·.1) = keyed.map (·.1) ∧
         ∀ e ∈ evs, e.2.2 = .approved → Covers (rulesKeyed db keyed f).2 e.1 e.2.1.src e.2.1.tgt ∧
           e.2.1.src ≤ maxI64 ∧ e.2.1.tgt ≤ maxI64 ∧
           ∀ s' t', Covers db e.1 s' t' → t' < e.2.1.tgt ∧ s' ≤ e.2.1.src) := by
  unfold rulesKeyed
  split
  · rename_i k d
    rcases hon : onAttest db k d.req f with ⟨v, db'⟩
    obtain ⟨hkeep, happ⟩ := onAttest_inv hon
    simp only
    refine ⟨hkeep, ?_⟩
    intro evs he
    injection he with he; subst he
    refine ⟨by simp, ?_⟩
    intro e hm hv
    simp at hm; subst hm
    simp only at hv
    exact happ hv
  · rcases hob : onAttestBatch AttData.req db keyed f with ⟨res, db'⟩
    obtain ⟨hkeep, hres⟩ := onAttestBatch_inv AttData.req hn hob
    exact ⟨hkeep, hres⟩

theorem attestKeyed_inv {s : Inst} (hinv : AttInv s) (keyed : List (Bytes × AttData)) (f : Faults)
    (sf : List Nat) (hn : (keyed.map (·.1)).Nodup) : AttInv (attestKeyed s keyed f sf).1 := by
  unfold attestKeyed
  obtain ⟨hkeep, hev⟩ := rulesKeyed_inv (db := s.db) keyed f hn
  refine finishKeyed_inv hinv keyed sf hn _ _ hkeep ?_
  intro evs he
  obtain ⟨hk, ha⟩ := hev evs he
  refine ⟨hk, ?_⟩
  intro e hm hv
  obtain ⟨hc, _, _, hlt⟩ := ha e hm hv
  exact ⟨hc, hlt⟩

theorem firstDup_none_nodup : ∀ (ks : List Bytes) (seen : List Bytes) (i : Nat),
    firstDup seen i ks = none → (ks.map toBytes48).Nodup ∧ ∀ k ∈ ks, toBytes48 k ∉ seen := by
  intro ks
  induction ks with
  | nil => intro seen i _; simp
  | cons k rest ih =>
    intro seen i h
    simp only [firstDup] at h
    split at h
    · cases h
    · rename_i hc
      obtain ⟨h1, h2⟩ := ih _ _ h
      have hc' : toBytes48 k ∉ seen := by simpa using hc
      constructor
      · simp only [List.map_cons, List.nodup_cons]
        refine ⟨?_, h1⟩
        intro hm
        obtain ⟨x, hx, hxe⟩ := List.mem_map.mp hm
        have := h2 x hx
        rw [hxe] at this
        exact this (List.mem_cons_self)
      · intro x hx
        rcases List.mem_cons.mp hx with rfl | hx
        · exact hc'
        · exact fun hm => h2 x hx (List.mem_cons_of_mem _ hm)

theorem nodup_of_map_nodup {α β : Type} (g : α → β) : ∀ (l : List α), (l.map g).Nodup → l.Nodup := by
  intro l
  induction l with
  | nil => simp
  | cons a rest ih =>
    simp only [List.map_cons, List.nodup_cons]
    intro ⟨h1, h2⟩
    exact ⟨fun hm => h1 (List.mem_map.mpr ⟨a, hm, rfl⟩), ih h2⟩

theorem signAtts_inv {s : Inst} (hinv : AttInv s) (c : String) (items : List (Addr × AttData))
    (f : Faults) (sf : List Nat) : AttInv (signAtts s c items f sf).1 := by
  unfold signAtts
  simp only
  split
  · exact hinv
  · split
    · exact hinv
    · split
      · exact hinv
      · split
        · exact hinv
        · rename_i hd
          have := (firstDup_none_nodup _ _ _ hd).1
          rw [List.map_map] at this
          have hn := nodup_of_map_nodup _ _ this
          exact attestKeyed_inv hinv _ f sf (by simpa using nodup_of_map_nodup _ _ (by simpa using this))

end Dirk
