/-
  Dirk.Lemmas.Scatter — `Scatter`'s extents partition `0..n-1`.  Core Lean only.
-/
import Dirk.Model.Scatter

namespace Dirk

theorem extentSize_pos (n p : Nat) : 0 < extentSize n p := by
  unfold extentSize
  simp only
  generalize n / p = e
  split
  · omega
  · split <;> omega

/-- size of chunk `i` when splitting `n` items into chunks of `e` -/
private theorem chunk_size_eq (n e i : Nat) :
    (if i * e + e > n then n - i * e else e) = min e (n - i * e) := by
  generalize i * e = a
  split <;> omega

/-- the first `k` chunks of size `e` cover exactly `0 .. min (k*e) n - 1` -/
private theorem chunks_prefix (n e k : Nat) :
    (List.range k).flatMap (fun i => List.range' (i * e) (if i * e + e > n then n - i * e else e))
      = List.range (min (k * e) n) := by
  induction k with
  | zero => simp
  | succ k ih =>
    rw [List.range_succ, List.flatMap_append, ih]
    simp only [List.flatMap_cons, List.flatMap_nil, List.append_nil]
    rw [chunk_size_eq, Nat.succ_mul]
    generalize k * e = a
    rw [List.range_eq_range']
    by_cases h : a ≤ n
    · have h1 : min a n = a := by omega
      rw [h1]
      have h2 : List.range' a (min e (n - a)) = List.range' (0 + 1 * a) (min e (n - a)) := by
        simp
      rw [h2, List.range'_append, List.range_eq_range']
      congr 1
      omega
    · have h1 : min e (n - a) = 0 := by omega
      have h2 : min a n = min (a + e) n := by omega
      rw [h1, h2]
      simp [List.range_eq_range']

private theorem workers_mul_ge (n e : Nat) (he : 0 < e) :
    n ≤ (if n % e ≠ 0 then n / e + 1 else n / e) * e := by
  have h := Nat.div_add_mod n e
  have hlt := Nat.mod_lt n he
  rw [Nat.mul_comm] at h
  split
  · rw [Nat.succ_mul]; omega
  · omega

/-- general chunking lemma -/
theorem chunks_cover (n e : Nat) (he : 0 < e) :
    (List.range (if n % e ≠ 0 then n / e + 1 else n / e)).flatMap
        (fun i => List.range' (i * e) (if i * e + e > n then n - i * e else e))
      = List.range n := by
  rw [chunks_prefix, Nat.min_eq_right (workers_mul_ge n e he)]

/-- every worker index starts strictly inside `0..n-1` -/
private theorem worker_offset_lt (n e i : Nat) (he : 0 < e)
    (hi : i < (if n % e ≠ 0 then n / e + 1 else n / e)) : i * e < n := by
  have h := Nat.div_add_mod n e
  rw [Nat.mul_comm] at h
  split at hi
  · have : i * e ≤ (n / e) * e := Nat.mul_le_mul_right e (by omega)
    omega
  · have : (i + 1) * e ≤ (n / e) * e := Nat.mul_le_mul_right e (by omega)
    rw [Nat.succ_mul] at this
    omega

-- `hn`/`hp` are kept in the statements for the callers; the proofs do not need them
set_option linter.unusedVariables false

/-- the extents are consecutive, disjoint, non-empty and cover exactly the indices 0..n-1, in order -/
theorem extents_partition (n p : Nat) (hn : 0 < n) (hp : 0 < p) :
    (extents n p).flatMap (fun e => List.range' e.1 e.2) = List.range n := by
  unfold extents workers
  simp only [List.flatMap_map]
  exact chunks_cover n (extentSize n p) (extentSize_pos n p)

theorem extents_nonempty (n p : Nat) (hn : 0 < n) (hp : 0 < p) : ∀ e ∈ extents n p, 0 < e.2 := by
  intro x hx
  unfold extents workers at hx
  simp only [List.mem_map, List.mem_range] at hx
  obtain ⟨i, hi, rfl⟩ := hx
  have he := extentSize_pos n p
  have hlt := worker_offset_lt n (extentSize n p) i he hi
  simp only
  split <;> omega

theorem extents_length_le (n p : Nat) (hn : 0 < n) (hp : 0 < p) : (extents n p).length ≤ n := by
  unfold extents workers
  simp only [List.length_map, List.length_range]
  have he := extentSize_pos n p
  generalize extentSize n p = e at he
  have h := Nat.div_add_mod n e
  have hle : n / e ≤ n := Nat.div_le_self n e
  split
  · rename_i hmod
    -- e ≥ 2 here, since n % 1 = 0
    have he2 : 2 ≤ e := by
      rcases Nat.lt_or_ge e 2 with h2 | h2
      · have : e = 1 := by omega
        subst this
        exact absurd (Nat.mod_one n) hmod
      · exact h2
    have : 2 * (n / e) ≤ e * (n / e) := Nat.mul_le_mul_right _ he2
    omega
  · exact hle

end Dirk
