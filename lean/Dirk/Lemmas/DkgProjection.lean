/-
  Dirk.Lemmas.DkgProjection — C16 at history level: messages whose authenticated caller is not a
  configured peer can be deleted from ANY history of the message-level model (Dirk.Model.Dkg) without
  changing the final cluster state or the reply to any remaining event.  Core Lean only.
-/
import Dirk.Lemmas.LifeJudge

namespace Dirk.Dkg

open Dirk.LifeJudge

/-- one event on the model: new cluster and the reply (a clock tick replies ok) -/
def stepEv (c : Cluster) : Ev → Cluster × Reply
  | .prepare i caller acct t parts => onPrepare c i caller acct t parts
  | .execute i caller acct => onExecute c i caller acct
  | .contribute i caller acct valid vlen => onContribute c i caller acct valid vlen
  | .commit i caller acct => onCommit c i caller acct
  | .abort i caller acct => onAbort c i caller acct
  | .tick d => (tick c d, .ok)

/-- a run: every event paired with the reply it got, and the final cluster -/
def runEv : Cluster → List Ev → List (Ev × Reply) × Cluster
  | c, [] => ([], c)
  | c, e :: es => ((e, (stepEv c e).2) :: (runEv (stepEv c e).1 es).1, (runEv (stepEv c e).1 es).2)

end Dirk.Dkg

/-- the authenticated caller of an event (a tick has none) -/
def Dirk.LifeJudge.Ev.caller : Dirk.LifeJudge.Ev → Option Nat
  | .prepare _ caller _ _ _ => some caller
  | .execute _ caller _ => some caller
  | .contribute _ caller _ _ _ => some caller
  | .commit _ caller _ => some caller
  | .abort _ caller _ => some caller
  | .tick _ => none

namespace Dirk.Dkg

open Dirk.LifeJudge

/-- does the event come from a configured peer (ticks count as such)? depends on the peer table only -/
def fromPeer (peers : List Nat) (e : Ev) : Bool :=
  match e.caller with
  | none => true
  | some k => peers.contains k

/-! ## no handler changes the peer table -/

theorem onPrepare_peers (c : Cluster) (i caller : Nat) (acct : String) (t : Nat) (parts : List Nat) :
    (onPrepare c i caller acct t parts).1.peers = c.peers := by
  by_cases hp : senderId c caller = 0
  · simp only [onPrepare, hp, if_true]
  · cases hi : getInst c i with
    | none => simp only [onPrepare, hp, if_false, hi]
    | some x =>
      rw [onPrepare_eq acct t parts hp hi]
      split <;> rfl

theorem onContribute_peers (c : Cluster) (j caller : Nat) (acct : String) (valid : Bool) (vlen : Nat) :
    (onContribute c j caller acct valid vlen).1.peers = c.peers := by
  by_cases hp : senderId c caller = 0
  · simp only [onContribute, hp, if_true]
  · cases hi : getInst c j with
    | none => simp only [onContribute, hp, if_false, hi]
    | some x =>
      rw [onContribute_eq acct valid vlen hp hi]
      split
      · rfl
      · split
        · rfl
        · split
          · rfl
          · split <;> rfl

theorem swap_peers (c : Cluster) (i j : Nat) (acct : String) (si : Session) :
    (swap c i j acct si).1.peers = c.peers := by
  unfold swap
  split
  · rfl
  · split
    · rfl
    · have h1 := onContribute_peers c j i acct true si.threshold
      rcases hoc : onContribute c j i acct true si.threshold with ⟨c1, r⟩
      rw [hoc] at h1
      simp only at h1 ⊢
      split
      · exact h1
      · split
        · exact h1
        · split
          · exact h1
          · split
            · exact h1
            · split
              · exact h1
              · split
                · exact h1
                · exact h1

theorem swaps_peers (acct : String) (i : Nat) (si : Session) (l : List Nat) :
    ∀ c, (swaps acct i si c l).1.peers = c.peers := by
  induction l with
  | nil => intro c; rfl
  | cons j rest ih =>
    intro c
    have h1 := swap_peers c i j acct si
    unfold swaps
    rcases hsw : swap c i j acct si with ⟨c', ok⟩
    rw [hsw] at h1
    simp only at h1 ⊢
    cases ok with
    | false => exact h1
    | true => exact (ih c').trans h1

theorem onExecute_peers (c : Cluster) (i caller : Nat) (acct : String) :
    (onExecute c i caller acct).1.peers = c.peers := by
  by_cases hp : senderId c caller = 0
  · simp only [onExecute, hp, if_true]
  · cases hi : getInst c i with
    | none => simp only [onExecute, hp, if_false, hi]
    | some x =>
      rw [onExecute_eq acct hp hi]
      split
      · rfl
      · exact swaps_peers acct i _ _ _

theorem onCommit_peers (c : Cluster) (i caller : Nat) (acct : String) :
    (onCommit c i caller acct).1.peers = c.peers := by
  by_cases hp : senderId c caller = 0
  · simp only [onCommit, hp, if_true]
  · cases hi : getInst c i with
    | none => simp only [onCommit, hp, if_false, hi]
    | some x =>
      rw [onCommit_eq acct hp hi]
      split
      · rfl
      · split
        · rfl
        · split
          · rfl
          · split
            · rfl
            · split <;> rfl

theorem onAbort_peers (c : Cluster) (i caller : Nat) (acct : String) :
    (onAbort c i caller acct).1.peers = c.peers := by
  by_cases hp : senderId c caller = 0
  · simp only [onAbort, hp, if_true]
  · cases hi : getInst c i with
    | none => simp only [onAbort, hp, if_false, hi]
    | some x =>
      rw [onAbort_eq acct hp hi]
      split <;> rfl

/-- no event changes the peer table -/
theorem stepEv_peers (c : Cluster) (e : Ev) : (stepEv c e).1.peers = c.peers := by
  cases e with
  | prepare i caller acct t parts => exact onPrepare_peers c i caller acct t parts
  | execute i caller acct => exact onExecute_peers c i caller acct
  | contribute i caller acct valid vlen => exact onContribute_peers c i caller acct valid vlen
  | commit i caller acct => exact onCommit_peers c i caller acct
  | abort i caller acct => exact onAbort_peers c i caller acct
  | tick d => rfl

/-! ## an event from a non-peer is refused and changes nothing -/

theorem senderId_of_not_peer (c : Cluster) (k : Nat) (h : c.peers.contains k = false) : senderId c k = 0 := by
  simp only [senderId, h, Bool.false_eq_true, if_false]

theorem stepEv_non_peer (c : Cluster) (e : Ev) (h : fromPeer c.peers e = false) :
    stepEv c e = (c, .unknownSender) := by
  cases e with
  | prepare i caller acct t parts =>
    have h0 := senderId_of_not_peer c caller h
    simp only [stepEv, onPrepare, h0, if_true]
  | execute i caller acct =>
    have h0 := senderId_of_not_peer c caller h
    simp only [stepEv, onExecute, h0, if_true]
  | contribute i caller acct valid vlen =>
    have h0 := senderId_of_not_peer c caller h
    simp only [stepEv, onContribute, h0, if_true]
  | commit i caller acct =>
    have h0 := senderId_of_not_peer c caller h
    simp only [stepEv, onCommit, h0, if_true]
  | abort i caller acct =>
    have h0 := senderId_of_not_peer c caller h
    simp only [stepEv, onAbort, h0, if_true]
  | tick d => cases h

/-! ## history level -/

/-- **C16 at history level.**  Deleting every message whose caller is not a configured peer from any
    history changes neither the final cluster state nor the reply to any remaining event. -/
theorem runEv_projection (evs : List Ev) (c : Cluster) :
    (runEv c (evs.filter (fromPeer c.peers))).2 = (runEv c evs).2 ∧
    (runEv c (evs.filter (fromPeer c.peers))).1 = (runEv c evs).1.filter (fun p => fromPeer c.peers p.1) := by
  induction evs generalizing c with
  | nil => exact ⟨rfl, rfl⟩
  | cons e es ih =>
    cases hf : fromPeer c.peers e with
    | true =>
      have ih' := ih (stepEv c e).1
      rw [stepEv_peers] at ih'
      rw [List.filter_cons_of_pos hf]
      simp only [runEv]
      rw [List.filter_cons_of_pos (by exact hf)]
      exact ⟨ih'.1, by rw [ih'.2]⟩
    | false =>
      have ih' := ih c
      rw [List.filter_cons_of_neg (by simp only [hf, Bool.false_eq_true, not_false_eq_true])]
      simp only [runEv, stepEv_non_peer c e hf]
      rw [List.filter_cons_of_neg (by simp only [hf, Bool.false_eq_true, not_false_eq_true])]
      exact ih'

/-- every event of a run that came from a non-peer was answered `unknownSender` -/
theorem runEv_non_peer_replies (evs : List Ev) (c : Cluster) :
    ∀ p ∈ (runEv c evs).1, fromPeer c.peers p.1 = false → p.2 = .unknownSender := by
  induction evs generalizing c with
  | nil => intro p hp; simp only [runEv, List.not_mem_nil] at hp
  | cons e es ih =>
    intro p hp hf
    simp only [runEv, List.mem_cons] at hp
    rcases hp with hp | hp
    · subst hp
      simp only at hf ⊢
      rw [stepEv_non_peer c e hf]
    · have := ih (stepEv c e).1 p hp
      rw [stepEv_peers] at this
      exact this hf

/-! ## not vacuous -/

/-- a concrete cluster with peers `[1, 2]`; the history has a prepare from peer 2 (accepted), a commit
    from caller 7 (not a peer, `unknownSender`) and an abort from peer 2 (accepted): the filtered history
    has two events, the same replies for them and ends in the same cluster -/
example :
    let c0 : Cluster := { insts := [{ id := 1 }, { id := 2 }], peers := [1, 2], timeout := 10 }
    let evs : List Ev := [.prepare 1 2 "DW/a" 2 [1, 2], .commit 1 7 "DW/a", .abort 1 2 "DW/a"]
    (evs.filter (fromPeer c0.peers)).length = 2 ∧
      (runEv c0 evs).1.map (·.2) = [.ok, .unknownSender, .ok] ∧
      (runEv c0 (evs.filter (fromPeer c0.peers))).1.map (·.2) = [.ok, .ok] ∧
      (runEv c0 (evs.filter (fromPeer c0.peers))).2 = (runEv c0 evs).2 := by
  refine ⟨by decide, by decide, by decide, ?_⟩
  exact (runEv_projection _ _).1

end Dirk.Dkg

/-
#print axioms Dirk.Dkg.stepEv_peers
  'Dirk.Dkg.stepEv_peers' depends on axioms: [propext, Classical.choice, Quot.sound]
#print axioms Dirk.Dkg.stepEv_non_peer
  'Dirk.Dkg.stepEv_non_peer' depends on axioms: [propext, Classical.choice, Quot.sound]
#print axioms Dirk.Dkg.runEv_projection
  'Dirk.Dkg.runEv_projection' depends on axioms: [propext, Classical.choice, Quot.sound]
#print axioms Dirk.Dkg.runEv_non_peer_replies
  'Dirk.Dkg.runEv_non_peer_replies' depends on axioms: [propext, Classical.choice, Quot.sound]
-/
