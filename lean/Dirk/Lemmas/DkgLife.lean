/-
  Dirk.Lemmas.DkgLife — lifecycle of a key generation in the message-level model (Dirk.Model.Dkg):
  at most one active generation per account name and instance; every other message needs an active
  one; commit / abort / timeout end it; afterwards a new one may start; commit needs every listed
  participant's contribution; rejected contributions store nothing; accounts come from commits only;
  different names do not interfere.  Core Lean only.
-/
import Dirk.Model.Dkg

namespace Dirk.Dkg

/-- instance ids are pairwise distinct -/
def Cluster.WF (c : Cluster) : Prop := (c.insts.map (·.id)).Nodup

/-- the generation instance `i` considers active for `acct` right now -/
def sessionOf (c : Cluster) (i : Nat) (acct : String) : Option Session :=
  match getInst c i with
  | none => none
  | some x => (active c x acct).1

def holdsAccount (c : Cluster) (i : Nat) (acct : String) : Bool :=
  match getInst c i with
  | none => false
  | some x => x.accounts.contains acct

/-! ## instances -/

theorem getInst_id {c : Cluster} {i : Nat} {x : DInst} (h : getInst c i = some x) : x.id = i := by
  unfold getInst at h
  have := List.find?_some h
  simpa using this

theorem find_set (l : List DInst) (x' : DInst) (k : Nat) :
    (l.map (fun y => if y.id == x'.id then x' else y)).find? (·.id == k) =
      if k = x'.id then (l.find? (·.id == k)).map (fun _ => x') else l.find? (·.id == k) := by
  induction l with
  | nil => simp
  | cons y ys ih =>
    simp only [List.map_cons, List.find?_cons]
    rw [ih]
    by_cases hy : y.id = x'.id
    · have b1 : (y.id == x'.id) = true := by simp [hy]
      by_cases hk : k = x'.id
      · simp [b1, hk]
      · have b2 : (x'.id == k) = false := by simp; exact fun h => hk h.symm
        have b3 : (y.id == k) = false := by simp [hy]; exact fun h => hk h.symm
        simp [b1, b2, b3, hk]
    · have b1 : (y.id == x'.id) = false := by simp [hy]
      by_cases hk : k = x'.id
      · simp [b1, hk]
      · by_cases hyk : y.id = k
        · have b3 : (y.id == k) = true := by simp [hyk]
          simp [b1, b3, hk]
        · have b3 : (y.id == k) = false := by simp [hyk]
          simp [b1, b3, hk]

theorem getInst_setInst (c : Cluster) (x' : DInst) (k : Nat) :
    getInst (setInst c x') k =
      if k = x'.id then (getInst c k).map (fun _ => x') else getInst c k := by
  unfold getInst setInst
  exact find_set c.insts x' k

theorem getInst_setInst_self {c : Cluster} {x x' : DInst} (h : getInst c x'.id = some x) :
    getInst (setInst c x') x'.id = some x' := by
  rw [getInst_setInst]; simp [h]

theorem getInst_setInst_ne (c : Cluster) (x' : DInst) {k : Nat} (h : k ≠ x'.id) :
    getInst (setInst c x') k = getInst c k := by
  rw [getInst_setInst]; simp [h]

@[simp] theorem setInst_peers (c : Cluster) (x : DInst) : (setInst c x).peers = c.peers := rfl
@[simp] theorem setInst_timeout (c : Cluster) (x : DInst) : (setInst c x).timeout = c.timeout := rfl
@[simp] theorem setInst_now (c : Cluster) (x : DInst) : (setInst c x).now = c.now := rfl

theorem setInst_ids (c : Cluster) (x : DInst) :
    (setInst c x).insts.map (·.id) = c.insts.map (·.id) := by
  unfold setInst
  simp only [List.map_map]
  apply List.map_congr_left
  intro y _
  simp only [Function.comp]
  by_cases h : y.id = x.id <;> simp [h]

theorem setInst_WF (c : Cluster) (x : DInst) (h : c.WF) : (setInst c x).WF := by
  unfold Cluster.WF at *
  rw [setInst_ids]; exact h

@[simp] theorem senderId_setInst (c : Cluster) (x : DInst) (k : Nat) : senderId (setInst c x) k = senderId c k := rfl

@[simp] theorem active_setInst (c : Cluster) (y x : DInst) (nm : String) : active (setInst c y) x nm = active c x nm := rfl

/-! ## sessions of one instance -/

theorem lookup_filter_ne (l : List (String × Session)) (acct nm : String) :
    (l.filter (·.1 != acct)).lookup nm = if nm = acct then none else l.lookup nm := by
  induction l with
  | nil => simp [List.lookup]
  | cons p l ih =>
    obtain ⟨a, s⟩ := p
    by_cases ha : a = acct
    · subst ha
      have : ((a, s).1 != a) = false := by simp
      rw [List.filter_cons_of_neg (by simp), ih]
      by_cases hn : nm = a
      · simp [hn]
      · have : (nm == a) = false := by simp [hn]
        simp [hn, List.lookup_cons, this]
    · rw [List.filter_cons_of_pos (by simp [ha])]
      by_cases hn : nm = acct
      · subst hn
        have : (nm == a) = false := by simp; exact fun h => ha h.symm
        simp [List.lookup_cons, this, ih]
      · by_cases hna : nm = a
        · have : (nm == a) = true := by simp [hna]
          simp [List.lookup_cons, this, hn]
        · have : (nm == a) = false := by simp [hna]
          simp [List.lookup_cons, this, hn, ih]

/-- what `active` reports, as a function of the stored entry -/
theorem active_fst (c : Cluster) (x : DInst) (nm : String) :
    (active c x nm).1 =
      match x.sessions.lookup nm with
      | none => none
      | some s => if c.now - s.started > c.timeout then none else some s := by
  unfold active
  cases h : x.sessions.lookup nm with
  | none => rfl
  | some s =>
    simp only
    split <;> rfl

theorem active_snd_id (c : Cluster) (x : DInst) (nm : String) : (active c x nm).2.id = x.id := by
  unfold active
  split
  · rfl
  · split <;> rfl

theorem active_snd_accounts (c : Cluster) (x : DInst) (nm : String) :
    (active c x nm).2.accounts = x.accounts := by
  unfold active
  split
  · rfl
  · split <;> rfl

/-- expiry on read does not change what any name reads as -/
theorem active_active (c : Cluster) (x : DInst) (acct nm : String) :
    (active c (active c x acct).2 nm).1 = (active c x nm).1 := by
  rw [active_fst, active_fst c x nm]
  unfold active
  cases hs : x.sessions.lookup acct with
  | none => rfl
  | some s =>
    simp only
    by_cases hexp : c.now - s.started > c.timeout
    · simp only [hexp, if_true, lookup_filter_ne]
      by_cases hn : nm = acct
      · subst hn
        simp [hs, hexp]
      · simp [hn]
    · simp only [hexp, if_false]

theorem active_putSession (c : Cluster) (x : DInst) (acct nm : String) (s : Session) :
    (active c (putSession x acct s) nm).1 =
      if nm = acct then (if c.now - s.started > c.timeout then none else some s)
      else (active c x nm).1 := by
  rw [active_fst, active_fst c x nm]
  unfold putSession
  by_cases hn : nm = acct
  · subst hn
    simp
  · have : (nm == acct) = false := by simp [hn]
    simp [List.lookup_cons, this, hn, lookup_filter_ne]

theorem active_dropSession (c : Cluster) (x : DInst) (acct nm : String) :
    (active c (dropSession x acct) nm).1 = if nm = acct then none else (active c x nm).1 := by
  rw [active_fst, active_fst c x nm]
  unfold dropSession
  by_cases hn : nm = acct
  · subst hn
    simp [lookup_filter_ne]
  · simp [hn, lookup_filter_ne]

theorem active_accounts_irrel (c : Cluster) (x : DInst) (l : List String) (nm : String) :
    (active c { x with accounts := l } nm).1 = (active c x nm).1 := by
  rw [active_fst, active_fst c x nm]

/-! ## the per-instance views after writing one instance back -/

theorem sessionOf_setInst {c : Cluster} {i : Nat} {x x' : DInst} (hi : getInst c i = some x)
    (hid : x'.id = i) (k : Nat) (nm : String) :
    sessionOf (setInst c x') k nm = if k = i then (active c x' nm).1 else sessionOf c k nm := by
  unfold sessionOf
  rw [getInst_setInst, hid]
  by_cases hk : k = i
  · subst hk
    simp [hi]
  · simp [hk]

theorem holdsAccount_setInst {c : Cluster} {i : Nat} {x x' : DInst} (hi : getInst c i = some x)
    (hid : x'.id = i) (k : Nat) (nm : String) :
    holdsAccount (setInst c x') k nm = if k = i then x'.accounts.contains nm else holdsAccount c k nm := by
  unfold holdsAccount
  rw [getInst_setInst, hid]
  by_cases hk : k = i
  · subst hk
    simp [hi]
  · simp [hk]

/-- writing back an instance that reads the same for `nm` changes nothing for `nm` -/
theorem sessionOf_setInst_same {c : Cluster} {i : Nat} {x x' : DInst} (hi : getInst c i = some x)
    (hid : x'.id = i) (nm : String) (hv : (active c x' nm).1 = (active c x nm).1) (k : Nat) :
    sessionOf (setInst c x') k nm = sessionOf c k nm := by
  rw [sessionOf_setInst hi hid]
  by_cases hk : k = i
  · subst hk
    simp [sessionOf, hi, hv]
  · simp [hk]

theorem holdsAccount_setInst_same {c : Cluster} {i : Nat} {x x' : DInst} (hi : getInst c i = some x)
    (hid : x'.id = i) (hacc : x'.accounts = x.accounts) (k : Nat) (nm : String) :
    holdsAccount (setInst c x') k nm = holdsAccount c k nm := by
  rw [holdsAccount_setInst hi hid]
  by_cases hk : k = i
  · subst hk
    simp [holdsAccount, hi, hacc]
  · simp [hk]

/-- the key fact: writing the expiry-cleaned instance back changes no view -/
theorem sessionOf_setInst_active {c : Cluster} {i : Nat} {x : DInst} (hi : getInst c i = some x)
    (acct : String) (k : Nat) (nm : String) :
    sessionOf (setInst c (active c x acct).2) k nm = sessionOf c k nm :=
  sessionOf_setInst_same hi ((active_snd_id c x acct).trans (getInst_id hi)) nm (active_active c x acct nm) k

theorem sessionOf_some {c : Cluster} {i : Nat} {acct : String} {s : Session} (hs : sessionOf c i acct = some s) :
    ∃ x, getInst c i = some x ∧ (active c x acct).1 = some s := by
  unfold sessionOf at hs
  cases h : getInst c i with
  | none => simp [h] at hs
  | some x => exact ⟨x, rfl, by simpa [h] using hs⟩

theorem sessionOf_eq {c : Cluster} {i : Nat} {x : DInst} (hi : getInst c i = some x) (acct : String) :
    sessionOf c i acct = (active c x acct).1 := by
  simp [sessionOf, hi]

theorem holdsAccount_eq {c : Cluster} {i : Nat} {x : DInst} (hi : getInst c i = some x) (acct : String) :
    holdsAccount c i acct = x.accounts.contains acct := by
  simp [holdsAccount, hi]

theorem active_fst_congr (c : Cluster) (x y : DInst) (nm : String) (h : x.sessions = y.sessions) :
    (active c x nm).1 = (active c y nm).1 := by
  rw [active_fst, active_fst c y nm, h]

/-! ## the handlers, unfolded for a configured caller and an existing instance -/

theorem onPrepare_eq {c : Cluster} {i caller : Nat} {x : DInst} (acct : String) (t : Nat) (parts : List Nat)
    (hp : senderId c caller ≠ 0) (hi : getInst c i = some x) :
    onPrepare c i caller acct t parts =
      match (active c x acct).1 with
      | some _ => (setInst c (active c x acct).2, .refused)
      | none => (setInst c (putSession (active c x acct).2 acct
          { threshold := t, participants := parts, contributed := [i], started := c.now }), .ok) := by
  simp only [onPrepare, hp, if_false, hi]
  rcases active c x acct with ⟨s?, x'⟩
  rfl

theorem onContribute_eq {c : Cluster} {j caller : Nat} {x : DInst} (acct : String) (valid : Bool) (vlen : Nat)
    (hp : senderId c caller ≠ 0) (hi : getInst c j = some x) :
    onContribute c j caller acct valid vlen =
      match (active c x acct).1 with
      | none => (setInst c (active c x acct).2, .refused)
      | some s =>
        if !valid then (setInst c (active c x acct).2, .refused)
        else if vlen ≠ s.threshold then (setInst c (active c x acct).2, .refused)
        else if !s.participants.contains caller then (setInst c (active c x acct).2, .refused)
        else (setInst c (putSession (active c x acct).2 acct
          { s with contributed := if s.contributed.contains caller then s.contributed else s.contributed ++ [caller] }), .ok) := by
  simp only [onContribute, hp, if_false, hi]
  rcases active c x acct with ⟨s?, x'⟩
  rfl

theorem onExecute_eq {c : Cluster} {i caller : Nat} {x : DInst} (acct : String)
    (hp : senderId c caller ≠ 0) (hi : getInst c i = some x) :
    onExecute c i caller acct =
      match (active c x acct).1 with
      | none => (setInst c (active c x acct).2, .refused)
      | some s =>
        ((swaps acct i s (setInst c (active c x acct).2)
            (sortAsc (s.participants.filter (fun j => j > i)).eraseDups)).1,
         if (swaps acct i s (setInst c (active c x acct).2)
            (sortAsc (s.participants.filter (fun j => j > i)).eraseDups)).2 then .ok else .refused) := by
  simp only [onExecute, hp, if_false, hi]
  rcases active c x acct with ⟨s?, x'⟩
  cases s? <;> rfl

theorem onCommit_eq {c : Cluster} {i caller : Nat} {x : DInst} (acct : String)
    (hp : senderId c caller ≠ 0) (hi : getInst c i = some x) :
    onCommit c i caller acct =
      match (active c x acct).1 with
      | none => (setInst c (active c x acct).2, .refused)
      | some s =>
        if s.contributed.length ≠ s.participants.length then (setInst c (active c x acct).2, .refused)
        else if !s.participants.all (fun p => s.contributed.contains p) then (setInst c (active c x acct).2, .refused)
        else if !distributedWallet acct then (setInst c (active c x acct).2, .refused)
        else if (active c x acct).2.accounts.contains acct then (setInst c (active c x acct).2, .refused)
        else (setInst c { (dropSession (active c x acct).2 acct) with accounts := acct :: (active c x acct).2.accounts }, .ok) := by
  simp only [onCommit, hp, if_false, hi]
  rcases active c x acct with ⟨s?, x'⟩
  rfl

theorem onAbort_eq {c : Cluster} {i caller : Nat} {x : DInst} (acct : String)
    (hp : senderId c caller ≠ 0) (hi : getInst c i = some x) :
    onAbort c i caller acct =
      match (active c x acct).1 with
      | none => (setInst c (active c x acct).2, .refused)
      | some _ => (setInst c (dropSession (active c x acct).2 acct), .ok) := by
  simp only [onAbort, hp, if_false, hi]
  rcases active c x acct with ⟨s?, x'⟩
  rfl

/-! ## lifecycle -/

/-- preparing again while a generation is active is refused and leaves it intact -/
theorem prepare_twice (c : Cluster) (i caller : Nat) (acct : String) (t : Nat) (parts : List Nat) (s : Session)
    (hp : senderId c caller ≠ 0) (hs : sessionOf c i acct = some s) :
    (onPrepare c i caller acct t parts).2 = .refused ∧
      sessionOf (onPrepare c i caller acct t parts).1 i acct = some s := by
  obtain ⟨x, hi, hv⟩ := sessionOf_some hs
  rw [onPrepare_eq acct t parts hp hi, hv]
  refine ⟨rfl, ?_⟩
  show sessionOf (setInst c (active c x acct).2) i acct = some s
  rw [sessionOf_setInst_active hi]; exact hs

/-- execute, contribute, commit and abort are refused unless a generation is active -/
theorem requires_active (c : Cluster) (i caller : Nat) (acct : String) (valid : Bool) (vlen : Nat)
    (hs : sessionOf c i acct = none) :
    (onExecute c i caller acct).2 ≠ .ok ∧ (onContribute c i caller acct valid vlen).2 ≠ .ok ∧
    (onCommit c i caller acct).2 ≠ .ok ∧ (onAbort c i caller acct).2 ≠ .ok := by
  by_cases hp : senderId c caller = 0
  · simp [onExecute, onContribute, onCommit, onAbort, hp]
  · cases hi : getInst c i with
    | none => simp [onExecute, onContribute, onCommit, onAbort, hp, hi]
    | some x =>
      have hv : (active c x acct).1 = none := by rw [← sessionOf_eq hi]; exact hs
      rw [onExecute_eq acct hp hi, onContribute_eq acct valid vlen hp hi, onCommit_eq acct hp hi,
        onAbort_eq acct hp hi, hv]
      simp

/-- a handler that answered `ok` had a configured caller and an existing instance -/
theorem commit_ok_inv {c : Cluster} {i caller : Nat} {acct : String} (h : (onCommit c i caller acct).2 = .ok) :
    senderId c caller ≠ 0 ∧ ∃ x, getInst c i = some x := by
  by_cases hp : senderId c caller = 0
  · simp [onCommit, hp] at h
  · refine ⟨hp, ?_⟩
    cases hi : getInst c i with
    | none => simp [onCommit, hp, hi] at h
    | some x => exact ⟨x, rfl⟩

theorem abort_ok_inv {c : Cluster} {i caller : Nat} {acct : String} (h : (onAbort c i caller acct).2 = .ok) :
    senderId c caller ≠ 0 ∧ ∃ x, getInst c i = some x := by
  by_cases hp : senderId c caller = 0
  · simp [onAbort, hp] at h
  · refine ⟨hp, ?_⟩
    cases hi : getInst c i with
    | none => simp [onAbort, hp, hi] at h
    | some x => exact ⟨x, rfl⟩

/-- the instance a successful commit writes back -/
def commitInst (y : DInst) (acct : String) : DInst :=
  { (dropSession y acct) with accounts := acct :: y.accounts }

/-- what a successful commit saw and wrote -/
theorem commit_ok_spec {c : Cluster} {i caller : Nat} {acct : String} (h : (onCommit c i caller acct).2 = .ok) :
    ∃ x s, getInst c i = some x ∧ (active c x acct).1 = some s ∧
      (∀ p ∈ s.participants, p ∈ s.contributed) ∧
      (onCommit c i caller acct).1 = setInst c (commitInst (active c x acct).2 acct) := by
  obtain ⟨hp, x, hi⟩ := commit_ok_inv h
  rw [onCommit_eq acct hp hi] at h ⊢
  cases hv : (active c x acct).1 with
  | none => rw [hv] at h; simp at h
  | some s =>
    rw [hv] at h
    simp only at h ⊢
    refine ⟨x, s, hi, hv, ?_, ?_⟩
    · split at h
      · simp at h
      · split at h
        · simp at h
        · rename_i hall
          simpa using hall
    · split at h
      · simp at h
      · split at h
        · simp at h
        · split at h
          · simp at h
          · split at h
            · simp at h
            · rename_i h1 h2 h3 h4
              simp only [h1, h2, h3, h4, if_false]
              rfl

/-- after a successful commit the generation is gone and the account exists -/
theorem gone_after_commit (c : Cluster) (i caller : Nat) (acct : String)
    (h : (onCommit c i caller acct).2 = .ok) :
    sessionOf (onCommit c i caller acct).1 i acct = none ∧
      holdsAccount (onCommit c i caller acct).1 i acct = true := by
  obtain ⟨x, s, hi, _, _, hc⟩ := commit_ok_spec h
  rw [hc]
  have hid : (active c x acct).2.id = i := (active_snd_id c x acct).trans (getInst_id hi)
  constructor
  · rw [sessionOf_setInst (x' := commitInst (active c x acct).2 acct) hi hid, if_pos rfl]
    rw [active_fst_congr c (commitInst (active c x acct).2 acct) (dropSession (active c x acct).2 acct) acct rfl,
      active_dropSession, if_pos rfl]
  · rw [holdsAccount_setInst (x' := commitInst (active c x acct).2 acct) hi hid, if_pos rfl]
    simp [commitInst]

/-- after a successful abort the generation is gone -/
theorem gone_after_abort (c : Cluster) (i caller : Nat) (acct : String)
    (h : (onAbort c i caller acct).2 = .ok) : sessionOf (onAbort c i caller acct).1 i acct = none := by
  obtain ⟨hp, x, hi⟩ := abort_ok_inv h
  rw [onAbort_eq acct hp hi] at h ⊢
  have hid : (active c x acct).2.id = i := (active_snd_id c x acct).trans (getInst_id hi)
  cases hv : (active c x acct).1 with
  | none => rw [hv] at h; simp at h
  | some s =>
    show sessionOf (setInst c (dropSession (active c x acct).2 acct)) i acct = none
    rw [sessionOf_setInst (x' := dropSession (active c x acct).2 acct) hi hid, if_pos rfl,
      active_dropSession, if_pos rfl]

@[simp] theorem getInst_tick (c : Cluster) (d i : Nat) : getInst (tick c d) i = getInst c i := rfl

/-- … and after the configured timeout -/
theorem gone_after_timeout (c : Cluster) (i : Nat) (acct : String) (s : Session) (d : Nat)
    (hs : sessionOf c i acct = some s) (hd : c.now + d - s.started > c.timeout) :
    sessionOf (tick c d) i acct = none := by
  obtain ⟨x, hi, hv⟩ := sessionOf_some hs
  have hi' : getInst (tick c d) i = some x := hi
  rw [sessionOf_eq hi', active_fst]
  rw [active_fst] at hv
  cases hl : x.sessions.lookup acct with
  | none => rfl
  | some s' =>
    rw [hl] at hv
    simp only at hv ⊢
    split at hv
    · cases hv
    · injection hv with hv
      subst hv
      show (if c.now + d - s'.started > c.timeout then none else some s') = none
      rw [if_pos hd]

/-- once gone, a new generation for that name may start -/
theorem restart_allowed (c : Cluster) (i caller : Nat) (acct : String) (t : Nat) (parts : List Nat)
    (hp : senderId c caller ≠ 0) (hi : getInst c i ≠ none) (hs : sessionOf c i acct = none) :
    (onPrepare c i caller acct t parts).2 = .ok ∧
    ∃ s, sessionOf (onPrepare c i caller acct t parts).1 i acct = some s ∧ s.participants = parts ∧
      s.threshold = t := by
  cases hx : getInst c i with
  | none => exact absurd hx hi
  | some x =>
    have hv : (active c x acct).1 = none := by rw [← sessionOf_eq hx]; exact hs
    have hid : (active c x acct).2.id = i := (active_snd_id c x acct).trans (getInst_id hx)
    rw [onPrepare_eq acct t parts hp hx, hv]
    refine ⟨rfl, ⟨{ threshold := t, participants := parts, contributed := [i], started := c.now }, ?_, rfl, rfl⟩⟩
    show sessionOf (setInst c (putSession (active c x acct).2 acct
      { threshold := t, participants := parts, contributed := [i], started := c.now })) i acct = _
    rw [sessionOf_setInst (x' := putSession (active c x acct).2 acct _) hx hid, if_pos rfl,
      active_putSession, if_pos rfl]
    simp

/-- commit succeeds only once every listed participant has contributed -/
theorem commit_complete (c : Cluster) (i caller : Nat) (acct : String)
    (h : (onCommit c i caller acct).2 = .ok) :
    ∃ s, sessionOf c i acct = some s ∧ ∀ p ∈ s.participants, p ∈ s.contributed := by
  obtain ⟨x, s, hi, hv, hall, _⟩ := commit_ok_spec h
  exact ⟨s, by rw [sessionOf_eq hi]; exact hv, hall⟩

/-- a rejected contribution (bad share, wrong vector length, unlisted sender) stores nothing -/
theorem contribute_rejected_no_change (c : Cluster) (j caller : Nat) (acct : String) (valid : Bool) (vlen : Nat)
    (s : Session) (hs : sessionOf c j acct = some s)
    (hbad : valid = false ∨ vlen ≠ s.threshold ∨ caller ∉ s.participants) :
    (onContribute c j caller acct valid vlen).2 ≠ .ok ∧
      sessionOf (onContribute c j caller acct valid vlen).1 j acct = some s := by
  by_cases hp : senderId c caller = 0
  · simp [onContribute, hp, hs]
  · obtain ⟨x, hi, hv⟩ := sessionOf_some hs
    have he : onContribute c j caller acct valid vlen = (setInst c (active c x acct).2, .refused) := by
      rw [onContribute_eq acct valid vlen hp hi, hv]
      rcases hbad with hb | hb | hb
      · simp [hb]
      · simp [hb]
      · simp [hb]
    rw [he]
    refine ⟨by simp, ?_⟩
    show sessionOf (setInst c (active c x acct).2) j acct = some s
    rw [sessionOf_setInst_active hi]; exact hs

/-! ## what an event on `acct` leaves alone: every account list and every other name's generation -/

/-- `c'` holds the same accounts as `c` and reads the same for every name other than `acct` -/
def Pres (acct : String) (c c' : Cluster) : Prop :=
  (∀ k name, holdsAccount c' k name = holdsAccount c k name) ∧
  (∀ k nm, nm ≠ acct → sessionOf c' k nm = sessionOf c k nm)

theorem Pres.refl (acct : String) (c : Cluster) : Pres acct c c := ⟨fun _ _ => rfl, fun _ _ _ => rfl⟩

theorem Pres.trans {acct : String} {c c' c'' : Cluster} (h : Pres acct c c') (h' : Pres acct c' c'') :
    Pres acct c c'' :=
  ⟨fun k name => (h'.1 k name).trans (h.1 k name), fun k nm hn => (h'.2 k nm hn).trans (h.2 k nm hn)⟩

theorem pres_setInst {acct : String} {c : Cluster} {i : Nat} {x : DInst} (x' : DInst)
    (hi : getInst c i = some x) (hid : x'.id = i) (hacc : x'.accounts = x.accounts)
    (hv : ∀ nm, nm ≠ acct → (active c x' nm).1 = (active c x nm).1) : Pres acct c (setInst c x') :=
  ⟨fun k name => holdsAccount_setInst_same hi hid hacc k name,
   fun k nm hn => sessionOf_setInst_same hi hid nm (hv nm hn) k⟩

theorem pres_clean {c : Cluster} {i : Nat} {x : DInst} (acct : String) (hi : getInst c i = some x) :
    Pres acct c (setInst c (active c x acct).2) :=
  pres_setInst _ hi ((active_snd_id c x acct).trans (getInst_id hi)) (active_snd_accounts c x acct)
    (fun nm _ => active_active c x acct nm)

theorem pres_put {c : Cluster} {i : Nat} {x : DInst} (acct : String) (s : Session) (hi : getInst c i = some x) :
    Pres acct c (setInst c (putSession (active c x acct).2 acct s)) :=
  pres_setInst _ hi ((active_snd_id c x acct).trans (getInst_id hi)) (active_snd_accounts c x acct)
    (fun nm hn => by rw [active_putSession, if_neg hn, active_active])

theorem pres_drop {c : Cluster} {i : Nat} {x : DInst} (acct : String) (hi : getInst c i = some x) :
    Pres acct c (setInst c (dropSession (active c x acct).2 acct)) :=
  pres_setInst _ hi ((active_snd_id c x acct).trans (getInst_id hi)) (active_snd_accounts c x acct)
    (fun nm hn => by rw [active_dropSession, if_neg hn, active_active])

theorem prepare_pres (c : Cluster) (i caller : Nat) (acct : String) (t : Nat) (parts : List Nat) :
    Pres acct c (onPrepare c i caller acct t parts).1 := by
  by_cases hp : senderId c caller = 0
  · simp only [onPrepare, hp, if_true]; exact Pres.refl _ _
  · cases hi : getInst c i with
    | none => simp only [onPrepare, hp, if_false, hi]; exact Pres.refl _ _
    | some x =>
      rw [onPrepare_eq acct t parts hp hi]
      cases (active c x acct).1 with
      | none => exact pres_put acct _ hi
      | some s => exact pres_clean acct hi

theorem contribute_pres (c : Cluster) (j caller : Nat) (acct : String) (valid : Bool) (vlen : Nat) :
    Pres acct c (onContribute c j caller acct valid vlen).1 := by
  by_cases hp : senderId c caller = 0
  · simp only [onContribute, hp, if_true]; exact Pres.refl _ _
  · cases hi : getInst c j with
    | none => simp only [onContribute, hp, if_false, hi]; exact Pres.refl _ _
    | some x =>
      rw [onContribute_eq acct valid vlen hp hi]
      cases (active c x acct).1 with
      | none => exact pres_clean acct hi
      | some s =>
        simp only
        split
        · exact pres_clean acct hi
        · split
          · exact pres_clean acct hi
          · split
            · exact pres_clean acct hi
            · exact pres_put acct _ hi

theorem abort_pres (c : Cluster) (i caller : Nat) (acct : String) :
    Pres acct c (onAbort c i caller acct).1 := by
  by_cases hp : senderId c caller = 0
  · simp only [onAbort, hp, if_true]; exact Pres.refl _ _
  · cases hi : getInst c i with
    | none => simp only [onAbort, hp, if_false, hi]; exact Pres.refl _ _
    | some x =>
      rw [onAbort_eq acct hp hi]
      cases (active c x acct).1 with
      | none => exact pres_clean acct hi
      | some s => exact pres_drop acct hi

theorem commit_pres (c : Cluster) (i caller : Nat) (acct : String) (h : (onCommit c i caller acct).2 ≠ .ok) :
    Pres acct c (onCommit c i caller acct).1 := by
  by_cases hp : senderId c caller = 0
  · simp only [onCommit, hp, if_true]; exact Pres.refl _ _
  · cases hi : getInst c i with
    | none => simp only [onCommit, hp, if_false, hi]; exact Pres.refl _ _
    | some x =>
      rw [onCommit_eq acct hp hi] at h ⊢
      cases hv : (active c x acct).1 with
      | none => exact pres_clean acct hi
      | some s =>
        rw [hv] at h
        simp only at h ⊢
        split
        · exact pres_clean acct hi
        · split
          · exact pres_clean acct hi
          · split
            · exact pres_clean acct hi
            · split
              · exact pres_clean acct hi
              · rename_i h1 h2 h3 h4
                rw [if_neg h1, if_neg h2, if_neg h3, if_neg h4] at h
                exact absurd rfl h

theorem swap_pres (c : Cluster) (i j : Nat) (acct : String) (si : Session) :
    Pres acct c (swap c i j acct si).1 := by
  unfold swap
  split
  · exact Pres.refl _ _
  · split
    · exact Pres.refl _ _
    · have h1 := contribute_pres c j i acct true si.threshold
      rcases hoc : onContribute c j i acct true si.threshold with ⟨c1, r⟩
      rw [hoc] at h1
      simp only
      split
      · exact h1
      · split
        · exact h1
        · split
          · exact h1
          · split
            · exact h1
            · rename_i xi hxi
              split
              · exact h1
              · split
                · exact h1
                · have hid : xi.id = i := getInst_id hxi
                  refine h1.trans (pres_setInst _ hxi (by exact hid) (by rfl) ?_)
                  intro nm hn
                  rw [active_putSession, if_neg hn]

theorem swaps_pres (acct : String) (i : Nat) (si : Session) (l : List Nat) :
    ∀ c, Pres acct c (swaps acct i si c l).1 := by
  induction l with
  | nil => intro c; exact Pres.refl _ _
  | cons j rest ih =>
    intro c
    have h1 := swap_pres c i j acct si
    unfold swaps
    rcases hsw : swap c i j acct si with ⟨c', ok⟩
    rw [hsw] at h1
    simp only
    cases ok with
    | false => exact h1
    | true => exact h1.trans (ih c')

theorem execute_pres (c : Cluster) (i caller : Nat) (acct : String) :
    Pres acct c (onExecute c i caller acct).1 := by
  by_cases hp : senderId c caller = 0
  · simp only [onExecute, hp, if_true]; exact Pres.refl _ _
  · cases hi : getInst c i with
    | none => simp only [onExecute, hp, if_false, hi]; exact Pres.refl _ _
    | some x =>
      rw [onExecute_eq acct hp hi]
      cases (active c x acct).1 with
      | none => exact pres_clean acct hi
      | some s => exact (pres_clean acct hi).trans (swaps_pres acct i s _ _)

/-- accounts are created by a successful commit only -/
theorem accounts_only_by_commit (c : Cluster) (i caller k : Nat) (acct name : String) (t : Nat) (parts : List Nat)
    (valid : Bool) (vlen : Nat) :
    holdsAccount (onPrepare c i caller acct t parts).1 k name = holdsAccount c k name ∧
    holdsAccount (onContribute c i caller acct valid vlen).1 k name = holdsAccount c k name ∧
    holdsAccount (onExecute c i caller acct).1 k name = holdsAccount c k name ∧
    holdsAccount (onAbort c i caller acct).1 k name = holdsAccount c k name ∧
    ((onCommit c i caller acct).2 ≠ .ok →
      holdsAccount (onCommit c i caller acct).1 k name = holdsAccount c k name) :=
  ⟨(prepare_pres c i caller acct t parts).1 k name, (contribute_pres c i caller acct valid vlen).1 k name,
   (execute_pres c i caller acct).1 k name, (abort_pres c i caller acct).1 k name,
   fun h => (commit_pres c i caller acct h).1 k name⟩

/-- a commit, successful or not, leaves every other name's generation alone -/
theorem commit_other (c : Cluster) (i caller k : Nat) (acct other : String) (hne : other ≠ acct) :
    sessionOf (onCommit c i caller acct).1 k other = sessionOf c k other := by
  by_cases h : (onCommit c i caller acct).2 = .ok
  · obtain ⟨x, s, hi, _, _, hc⟩ := commit_ok_spec h
    rw [hc]
    refine sessionOf_setInst_same (x' := commitInst (active c x acct).2 acct) hi
      ((active_snd_id c x acct).trans (getInst_id hi)) other ?_ k
    rw [active_fst_congr c (commitInst (active c x acct).2 acct) (dropSession (active c x acct).2 acct) other rfl,
      active_dropSession, if_neg hne, active_active]
  · exact (commit_pres c i caller acct h).2 k other hne

/-- generations for different account names do not interfere (single-instance events) -/
theorem independent_names (c : Cluster) (i caller k : Nat) (acct other : String) (t : Nat) (parts : List Nat)
    (hne : other ≠ acct) :
    sessionOf (onPrepare c i caller acct t parts).1 k other = sessionOf c k other ∧
    sessionOf (onCommit c i caller acct).1 k other = sessionOf c k other ∧
    sessionOf (onAbort c i caller acct).1 k other = sessionOf c k other :=
  ⟨(prepare_pres c i caller acct t parts).2 k other hne, commit_other c i caller k acct other hne,
   (abort_pres c i caller acct).2 k other hne⟩

/-- … nor do the multi-instance ones: contributions and the whole execute exchange -/
theorem independent_names_exchange (c : Cluster) (i caller k : Nat) (acct other : String) (valid : Bool)
    (vlen : Nat) (hne : other ≠ acct) :
    sessionOf (onContribute c i caller acct valid vlen).1 k other = sessionOf c k other ∧
    sessionOf (onExecute c i caller acct).1 k other = sessionOf c k other :=
  ⟨(contribute_pres c i caller acct valid vlen).2 k other hne, (execute_pres c i caller acct).2 k other hne⟩

/-! ## client-level generation and the contribution checks -/

theorem generateAccepts_iff (n t : Nat) : generateAccepts n t = true ↔ (1 ≤ n ∧ n < 2 * t ∧ t ≤ n) := by
  simp only [generateAccepts, Bool.and_eq_true, Bool.not_eq_true', decide_eq_true_eq, decide_eq_false_iff_not]
  omega

/-- a lost message or a bad contribution means no success is reported and not every participant holds
    the account — except for `n = 1`, where no protocol message is exchanged and the fault is moot -/
theorem failed_generation_no_account (npeers n t : Nat) (wd ex perm : Bool) (f : GenFault)
    (hf : f = .lost ∨ f = .badContribution) :
    generateOutcome npeers n t wd ex perm f = (false, false) ∨
      (n = 1 ∧ generateOutcome npeers n t wd ex perm f = generateOutcome npeers n t wd ex perm .none) := by
  unfold generateOutcome
  by_cases h1 : (!generateAccepts n t) = true
  · simp [h1]
  · by_cases h2 : ex = true
    · simp [h2]
    · by_cases h3 : (!perm) = true
      · simp [h3]
      · by_cases h4 : n = 1
        · right; exact ⟨h4, by simp [h4]⟩
        · left
          rcases hf with hf | hf <;> subst hf <;> simp [h1, h2, h3, h4]

theorem fixed_rejects_wrong_length (valid : Bool) (vlen t : Nat) (listed : Bool) (h : vlen ≠ t) :
    fixedAccepts valid vlen t listed = false := by
  simp [fixedAccepts, h]

theorem fixed_keeps_aggregation_in_range (t : Nat) (vlens : List Nat)
    (h : ∀ l ∈ vlens, fixedAccepts true l t true = true) : aggregationInRange t vlens = true := by
  simp only [aggregationInRange, List.all_eq_true, decide_eq_true_eq]
  intro l hl
  have := h l hl
  simp [fixedAccepts] at this
  omega

theorem legacy_counterexample : legacyAccepts true 3 2 true = true ∧ aggregationInRange 2 [2, 3] = false := by
  decide

end Dirk.Dkg
