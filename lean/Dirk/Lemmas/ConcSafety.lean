/-
  Dirk.Lemmas.ConcSafety — safety of the lock protocol modelled in Dirk.Model.Conc:
  an inductive invariant (`Inv`), mutual exclusion per key, atomicity of every commit step
  (the linearisation point), linearizability of every execution with respect to the sequential
  meaning `applyReq` in commit order, and the real-time-order facts about commit steps
  (`commit_between`).  Core Lean only.
-/
import Dirk.Model.Conc
namespace Dirk.Conc
variable {Val : Type}

theorem get_setT {ts : List (TState Val)} {t : Tid} {x : TState Val} (h : ts[t]? = some x)
    (y : TState Val) (t' : Tid) :
    (setT ts t y)[t']? = if t' = t then some y else ts[t']? := by
  have hlt : t < ts.length := by
    rcases List.getElem?_eq_some_iff.mp h with ⟨hl, _⟩; exact hl
  unfold setT
  rw [List.getElem?_set]
  by_cases e : t' = t
  · subst e; simp [hlt]
  · have e' : ¬ t = t' := fun q => e q.symm
    simp [e, e']

theorem nodup_getElem?_inj {l : List Key} (hn : l.Nodup) {i j : Nat} {k : Key}
    (hi : l[i]? = some k) (hj : l[j]? = some k) : i = j := by
  rcases List.getElem?_eq_some_iff.mp hi with ⟨hil, hie⟩
  rcases List.getElem?_eq_some_iff.mp hj with ⟨hjl, hje⟩
  have hp := List.pairwise_iff_getElem.mp (List.nodup_iff_pairwise_ne.mp hn)
  rcases Nat.lt_trichotomy i j with h | h | h
  · exact absurd (hie.trans hje.symm) (hp i j hil hjl h)
  · exact h
  · exact absurd (hje.trans hie.symm) (hp j i hjl hil h)

theorem mem_take_iff {l : List Key} {i : Nat} {k : Key} :
    k ∈ l.take i ↔ ∃ j, j < i ∧ l[j]? = some k := by
  rw [List.mem_iff_getElem?]
  constructor
  · rintro ⟨j, hj⟩
    rw [List.getElem?_take] at hj
    by_cases h : j < i
    · rw [if_pos h] at hj; exact ⟨j, h, hj⟩
    · rw [if_neg h] at hj; cases hj
  · rintro ⟨j, h, hj⟩
    exact ⟨j, by rw [List.getElem?_take, if_pos h]; exact hj⟩

theorem not_mem_take_of_nodup {l : List Key} (hn : l.Nodup) {i : Nat} {k : Key}
    (hi : l[i]? = some k) : k ∉ l.take i := by
  intro h
  rcases mem_take_iff.mp h with ⟨j, hlt, hj⟩
  have := nodup_getElem?_inj hn hi hj
  omega

theorem mem_take_succ {l : List Key} {i : Nat} {k0 : Key} (hi : l[i]? = some k0) (k : Key) :
    k ∈ l.take (i + 1) ↔ k ∈ l.take i ∨ k = k0 := by
  rw [List.take_add_one, hi]; simp

theorem lt_length_of_getElem? {l : List Key} {i : Nat} {k : Key} (hi : l[i]? = some k) :
    i < l.length := by
  rcases List.getElem?_eq_some_iff.mp hi with ⟨hl, _⟩; exact hl

/-- which keys a thread owns in a given program state -/
def owns (x : TState Val) (k : Key) : Prop :=
  match x.pc with
  | .locking i => k ∈ x.req.keys.take i
  | .reading _ => k ∈ x.req.keys
  | .unlocking u => k ∈ x.req.keys.take u
  | _ => False

/-- the invariant -/
structure Inv (s : CState Val) : Prop where
  wf : ∀ (t : Tid) (x : TState Val), s.ts[t]? = some x → x.req.keys.Nodup ∧
        (∀ i, x.pc = .locking i → i ≤ x.req.keys.length) ∧
        (∀ r, x.pc = .reading r → r ≤ x.req.keys.length) ∧
        (∀ u, x.pc = .unlocking u → u ≤ x.req.keys.length)
  held_iff : ∀ (k : Key) (t : Tid), s.held k = some t ↔ ∃ x, s.ts[t]? = some x ∧ owns x k
  global_iff : ∀ (t : Tid), s.global = some t ↔ ∃ x i, s.ts[t]? = some x ∧ x.pc = .locking i
  cache_ok : ∀ (t : Tid) (x : TState Val) (r : Nat), s.ts[t]? = some x → x.pc = .reading r →
        ∀ j, j < r → ∀ k, x.req.keys[j]? = some k → x.cache k = s.db k

theorem inv_init (reqs : List (Req Val)) (db0 c0 : Key → Val) (hnd : ∀ r ∈ reqs, r.keys.Nodup) :
    Inv (initState reqs db0 c0) := by
  have hget : ∀ (t : Tid) (x : TState Val), (initState reqs db0 c0).ts[t]? = some x →
      x.pc = .idle ∧ x.req ∈ reqs := by
    intro t x h
    simp only [initState, List.getElem?_map] at h
    cases hr : reqs[t]? with
    | none => rw [hr] at h; cases h
    | some r =>
      rw [hr] at h
      simp at h
      subst h
      exact ⟨rfl, List.mem_of_getElem? hr⟩
  constructor
  · intro t x h
    rcases hget t x h with ⟨hpc, hm⟩
    refine ⟨hnd _ hm, ?_, ?_, ?_⟩ <;> intro i hi <;> rw [hpc] at hi <;> cases hi
  · intro k t
    constructor
    · intro h; simp [initState] at h
    · rintro ⟨x, hx, ho⟩
      rcases hget t x hx with ⟨hpc, _⟩
      simp [owns, hpc] at ho
  · intro t
    constructor
    · intro h; simp [initState] at h
    · rintro ⟨x, i, hx, hi⟩
      rcases hget t x hx with ⟨hpc, _⟩
      rw [hpc] at hi; cases hi
  · intro t x r hx hr
    rcases hget t x hx with ⟨hpc, _⟩
    rw [hpc] at hr; cases hr

/-! ### generic preservation lemmas for an update of one thread -/

theorem held_self {s : CState Val} (h : Inv s) {t : Tid} {x : TState Val} (hx : s.ts[t]? = some x)
    (k : Key) : s.held k = some t ↔ owns x k := by
  rw [h.held_iff]
  constructor
  · rintro ⟨x', hx', o⟩
    rw [hx] at hx'; cases hx'; exact o
  · intro o; exact ⟨x, hx, o⟩

theorem global_self {s : CState Val} (h : Inv s) {t : Tid} {x : TState Val} (hx : s.ts[t]? = some x) :
    s.global = some t ↔ ∃ i, x.pc = .locking i := by
  rw [h.global_iff]
  constructor
  · rintro ⟨x', i, hx', o⟩
    rw [hx] at hx'; cases hx'; exact ⟨i, o⟩
  · rintro ⟨i, o⟩; exact ⟨x, i, hx, o⟩

theorem wf_setT {s : CState Val} (h : Inv s) {t : Tid} {x y : TState Val} (hx : s.ts[t]? = some x)
    (hreq : y.req = x.req)
    (h1 : ∀ i, y.pc = .locking i → i ≤ x.req.keys.length)
    (h2 : ∀ r, y.pc = .reading r → r ≤ x.req.keys.length)
    (h3 : ∀ u, y.pc = .unlocking u → u ≤ x.req.keys.length) :
    ∀ (t' : Tid) (x' : TState Val), (setT s.ts t y)[t']? = some x' → x'.req.keys.Nodup ∧
        (∀ i, x'.pc = .locking i → i ≤ x'.req.keys.length) ∧
        (∀ r, x'.pc = .reading r → r ≤ x'.req.keys.length) ∧
        (∀ u, x'.pc = .unlocking u → u ≤ x'.req.keys.length) := by
  intro t' x' h'
  rw [get_setT hx] at h'
  by_cases e : t' = t
  · rw [if_pos e] at h'; cases h'
    rw [hreq]
    exact ⟨(h.wf t x hx).1, h1, h2, h3⟩
  · rw [if_neg e] at h'; exact h.wf t' x' h'

theorem held_setT {s : CState Val} (h : Inv s) {t : Tid} {x y : TState Val} (hx : s.ts[t]? = some x)
    (hd' : Key → Option Tid)
    (ht : ∀ k, hd' k = some t ↔ owns y k)
    (ho : ∀ k t', t' ≠ t → (hd' k = some t' ↔ s.held k = some t')) :
    ∀ (k : Key) (t' : Tid), hd' k = some t' ↔ ∃ x', (setT s.ts t y)[t']? = some x' ∧ owns x' k := by
  intro k t'
  by_cases e : t' = t
  · subst e
    rw [ht, get_setT hx, if_pos rfl]
    constructor
    · intro o; exact ⟨y, rfl, o⟩
    · rintro ⟨x', hx', o⟩; cases hx'; exact o
  · rw [ho k t' e, h.held_iff, get_setT hx, if_neg e]

theorem global_setT {s : CState Val} (h : Inv s) {t : Tid} {x y : TState Val} (hx : s.ts[t]? = some x)
    (g' : Option Tid)
    (ht : g' = some t ↔ ∃ i, y.pc = .locking i)
    (ho : ∀ t', t' ≠ t → (g' = some t' ↔ s.global = some t')) :
    ∀ (t' : Tid), g' = some t' ↔ ∃ x' i, (setT s.ts t y)[t']? = some x' ∧ x'.pc = .locking i := by
  intro t'
  by_cases e : t' = t
  · subst e
    rw [ht, get_setT hx, if_pos rfl]
    constructor
    · rintro ⟨i, o⟩; exact ⟨y, i, rfl, o⟩
    · rintro ⟨x', i, hx', o⟩; cases hx'; exact ⟨i, o⟩
  · rw [ho t' e, h.global_iff, get_setT hx, if_neg e]

theorem cache_setT {s : CState Val} (h : Inv s) {t : Tid} {x y : TState Val} (hx : s.ts[t]? = some x)
    (db' : Key → Val)
    (hother : ∀ (t' : Tid) (x' : TState Val) (r : Nat), t' ≠ t → s.ts[t']? = some x' →
        x'.pc = .reading r → ∀ j, j < r → ∀ k, x'.req.keys[j]? = some k → s.db k = db' k)
    (hy : ∀ r, y.pc = .reading r → ∀ j, j < r → ∀ k, y.req.keys[j]? = some k → y.cache k = db' k) :
    ∀ (t' : Tid) (x' : TState Val) (r : Nat), (setT s.ts t y)[t']? = some x' → x'.pc = .reading r →
        ∀ j, j < r → ∀ k, x'.req.keys[j]? = some k → x'.cache k = db' k := by
  intro t' x' r h' hr j hj k hk
  rw [get_setT hx] at h'
  by_cases e : t' = t
  · rw [if_pos e] at h'; cases h'
    exact hy r hr j hj k hk
  · rw [if_neg e] at h'
    rw [h.cache_ok t' x' r h' hr j hj k hk]
    exact hother t' x' r e h' hr j hj k hk

theorem owns_locking {x : TState Val} {i : Nat} (hpc : x.pc = .locking i) (k : Key) :
    owns x k ↔ k ∈ x.req.keys.take i := by unfold owns; rw [hpc]
theorem owns_reading {x : TState Val} {r : Nat} (hpc : x.pc = .reading r) (k : Key) :
    owns x k ↔ k ∈ x.req.keys := by unfold owns; rw [hpc]
theorem owns_unlocking {x : TState Val} {u : Nat} (hpc : x.pc = .unlocking u) (k : Key) :
    owns x k ↔ k ∈ x.req.keys.take u := by unfold owns; rw [hpc]
theorem owns_idle {x : TState Val} (hpc : x.pc = .idle) (k : Key) : ¬ owns x k := by
  unfold owns; rw [hpc]; exact id
theorem owns_done {x : TState Val} (hpc : x.pc = .done) (k : Key) : ¬ owns x k := by
  unfold owns; rw [hpc]; exact id

/-- a thread not in its locking phase does not hold the locker-wide mutex -/
theorem global_ne_of_not_locking {s : CState Val} (h : Inv s) {t : Tid} {x : TState Val}
    (hx : s.ts[t]? = some x) (hn : ∀ i, x.pc ≠ .locking i) : ¬ s.global = some t := by
  rw [global_self h hx]; rintro ⟨i, o⟩; exact hn i o

theorem inv_step {s s' : CState Val} {t : Tid} {l : Label} (h : Inv s) (st : Step s t l s') :
    Inv s' := by
  cases st
  case pre x hx hpc hg =>
    have hy : (x.withPc (.locking 0)).pc = .locking 0 := rfl
    refine ⟨wf_setT h hx rfl ?_ ?_ ?_, held_setT h hx s.held ?_ ?_, global_setT h hx (some t) ?_ ?_,
      cache_setT h hx s.db ?_ ?_⟩
    · intro i e; rw [hy] at e; cases e; exact Nat.zero_le _
    · intro i e; rw [hy] at e; cases e
    · intro i e; rw [hy] at e; cases e
    · intro k
      rw [held_self h hx, owns_locking hy]
      simp [owns_idle hpc]
    · intro k t' _; exact Iff.rfl
    · simp [hy]
    · intro t' e; simp only [hg, Option.some.injEq]
      exact ⟨fun q => absurd q.symm e, fun q => by cases q⟩
    · intros; rfl
    · intro r e; rw [hy] at e; cases e
  case lock x i k0 hx hpc hk hfree =>
    have hy : (x.withPc (.locking (i + 1))).pc = .locking (i + 1) := rfl
    refine ⟨wf_setT h hx rfl ?_ ?_ ?_, held_setT h hx (heldSet s.held k0 (some t)) ?_ ?_,
      global_setT h hx s.global ?_ ?_, cache_setT h hx s.db ?_ ?_⟩
    · intro j e; rw [hy] at e; cases e; exact lt_length_of_getElem? hk
    · intro j e; rw [hy] at e; cases e
    · intro j e; rw [hy] at e; cases e
    · intro k
      rw [owns_locking hy]
      show _ ↔ k ∈ x.req.keys.take (i + 1)
      rw [mem_take_succ hk]
      unfold heldSet
      by_cases e : k = k0
      · simp [e]
      · rw [if_neg e, held_self h hx, owns_locking hpc]; simp [e]
    · intro k t' e
      unfold heldSet
      by_cases e2 : k = k0
      · subst e2; rw [if_pos rfl, hfree]
        constructor
        · intro q; cases q; exact absurd rfl e
        · intro q; cases q
      · rw [if_neg e2]
    · rw [global_self h hx]
      exact ⟨fun _ => ⟨_, hy⟩, fun _ => ⟨_, hpc⟩⟩
    · intro t' _; exact Iff.rfl
    · intros; rfl
    · intro r e; rw [hy] at e; cases e
  case post x hx hpc =>
    have hy : (x.withPc (.reading 0)).pc = .reading 0 := rfl
    refine ⟨wf_setT h hx rfl ?_ ?_ ?_, held_setT h hx s.held ?_ ?_,
      global_setT h hx none ?_ ?_, cache_setT h hx s.db ?_ ?_⟩
    · intro j e; rw [hy] at e; cases e
    · intro j e; rw [hy] at e; cases e; exact Nat.zero_le _
    · intro j e; rw [hy] at e; cases e
    · intro k
      rw [held_self h hx, owns_locking hpc, owns_reading hy, List.take_length]; rfl
    · intro k t' _; exact Iff.rfl
    · constructor
      · intro q; cases q
      · rintro ⟨j, e⟩; rw [hy] at e; cases e
    · intro t' e
      have hgl : s.global = some t := (global_self h hx).mpr ⟨_, hpc⟩
      rw [hgl]
      constructor
      · intro q; cases q
      · intro q; cases q; exact absurd rfl e
    · intros; rfl
    · intro r e j hj; rw [hy] at e; cases e; exact absurd hj (Nat.not_lt_zero _)
  case read x r k0 hx hpc hk =>
    have hy : (x.withRead r k0 (s.db k0)).pc = .reading (r + 1) := rfl
    have hng : ¬ s.global = some t :=
      global_ne_of_not_locking h hx (fun j e => by rw [hpc] at e; cases e)
    refine ⟨wf_setT h hx rfl ?_ ?_ ?_, held_setT h hx s.held ?_ ?_,
      global_setT h hx s.global ?_ ?_, cache_setT h hx s.db ?_ ?_⟩
    · intro j e; rw [hy] at e; cases e
    · intro j e; rw [hy] at e; cases e; exact lt_length_of_getElem? hk
    · intro j e; rw [hy] at e; cases e
    · intro k
      rw [held_self h hx, owns_reading hpc, owns_reading hy]; rfl
    · intro k t' _; exact Iff.rfl
    · constructor
      · intro q; exact absurd q hng
      · rintro ⟨j, e⟩; rw [hy] at e; cases e
    · intro t' _; exact Iff.rfl
    · intros; rfl
    · intro r' e j hj k hkj
      rw [hy] at e; cases e
      show (if k = k0 then s.db k0 else x.cache k) = s.db k
      by_cases e2 : k = k0
      · rw [if_pos e2, e2]
      · rw [if_neg e2]
        have hkj' : x.req.keys[j]? = some k := hkj
        have hjr : j ≠ r := by
          intro q; subst q; rw [hk] at hkj'; cases hkj'; exact e2 rfl
        exact h.cache_ok t x r hx hpc j (by omega) k hkj'
  case commit x hx hpc =>
    have hy : (x.withPc (.unlocking x.req.keys.length)).pc = .unlocking x.req.keys.length := rfl
    have hng : ¬ s.global = some t :=
      global_ne_of_not_locking h hx (fun j e => by rw [hpc] at e; cases e)
    refine ⟨wf_setT h hx rfl ?_ ?_ ?_, held_setT h hx s.held ?_ ?_,
      global_setT h hx s.global ?_ ?_,
      cache_setT h hx (fun k => if k ∈ x.req.keys then x.req.f x.cache k else s.db k) ?_ ?_⟩
    · intro j e; rw [hy] at e; cases e
    · intro j e; rw [hy] at e; cases e
    · intro j e; rw [hy] at e; cases e; exact Nat.le_refl _
    · intro k
      rw [held_self h hx, owns_reading hpc, owns_unlocking hy]
      show _ ↔ k ∈ x.req.keys.take x.req.keys.length
      rw [List.take_length]
    · intro k t' _; exact Iff.rfl
    · constructor
      · intro q; exact absurd q hng
      · rintro ⟨j, e⟩; rw [hy] at e; cases e
    · intro t' _; exact Iff.rfl
    · intro t' x' r' e hx' hr' j hj k hkj
      have hnot : k ∉ x.req.keys := by
        intro hm
        have h1 : s.held k = some t := (held_self h hx k).mpr ((owns_reading hpc k).mpr hm)
        have h2 : s.held k = some t' :=
          (held_self h hx' k).mpr ((owns_reading hr' k).mpr (List.mem_of_getElem? hkj))
        rw [h1] at h2; cases h2; exact e rfl
      show s.db k = if k ∈ x.req.keys then x.req.f x.cache k else s.db k
      rw [if_neg hnot]
    · intro r e; rw [hy] at e; cases e
  case unlock x u k0 hx hpc hk =>
    have hy : (x.withPc (.unlocking u)).pc = .unlocking u := rfl
    have hng : ¬ s.global = some t :=
      global_ne_of_not_locking h hx (fun j e => by rw [hpc] at e; cases e)
    have hnd : x.req.keys.Nodup := (h.wf t x hx).1
    refine ⟨wf_setT h hx rfl ?_ ?_ ?_, held_setT h hx (heldSet s.held k0 none) ?_ ?_,
      global_setT h hx s.global ?_ ?_, cache_setT h hx s.db ?_ ?_⟩
    · intro j e; rw [hy] at e; cases e
    · intro j e; rw [hy] at e; cases e
    · intro j e; rw [hy] at e; cases e; exact Nat.le_of_lt (lt_length_of_getElem? hk)
    · intro k
      rw [owns_unlocking hy]
      show _ ↔ k ∈ x.req.keys.take u
      unfold heldSet
      by_cases e : k = k0
      · subst e; rw [if_pos rfl]
        constructor
        · intro q; cases q
        · intro q; exact absurd q (not_mem_take_of_nodup hnd hk)
      · rw [if_neg e, held_self h hx, owns_unlocking hpc, mem_take_succ hk]; simp [e]
    · intro k t' e
      unfold heldSet
      by_cases e2 : k = k0
      · subst e2; rw [if_pos rfl]
        have h1 : s.held k = some t :=
          (held_self h hx k).mpr ((owns_unlocking hpc k).mpr
            ((mem_take_succ hk k).mpr (Or.inr rfl)))
        rw [h1]
        constructor
        · intro q; cases q
        · intro q; cases q; exact absurd rfl e
      · rw [if_neg e2]
    · constructor
      · intro q; exact absurd q hng
      · rintro ⟨j, e⟩; rw [hy] at e; cases e
    · intro t' _; exact Iff.rfl
    · intros; rfl
    · intro r e; rw [hy] at e; cases e
  case finish x hx hpc =>
    have hy : (x.withPc .done).pc = .done := rfl
    have hng : ¬ s.global = some t :=
      global_ne_of_not_locking h hx (fun j e => by rw [hpc] at e; cases e)
    refine ⟨wf_setT h hx rfl ?_ ?_ ?_, held_setT h hx s.held ?_ ?_,
      global_setT h hx s.global ?_ ?_, cache_setT h hx s.db ?_ ?_⟩
    · intro j e; rw [hy] at e; cases e
    · intro j e; rw [hy] at e; cases e
    · intro j e; rw [hy] at e; cases e
    · intro k
      rw [held_self h hx, owns_unlocking hpc]
      simp [owns_done hy]
    · intro k t' _; exact Iff.rfl
    · constructor
      · intro q; exact absurd q hng
      · rintro ⟨j, e⟩; rw [hy] at e; cases e
    · intro t' _; exact Iff.rfl
    · intros; rfl
    · intro r e; rw [hy] at e; cases e

theorem inv_exec {s s' : CState Val} {tr : List (Tid × Label)} (h : Inv s) (he : Exec s tr s') :
    Inv s' := by
  induction he with
  | nil _ => exact h
  | cons st _ ih => exact ih (inv_step h st)

theorem inv_reachable (reqs : List (Req Val)) (db0 c0 : Key → Val) (hnd : ∀ r ∈ reqs, r.keys.Nodup)
    (s : CState Val) (hr : Reachable reqs db0 c0 s) : Inv s := by
  rcases hr with ⟨tr, he⟩
  exact inv_exec (inv_init reqs db0 c0 hnd) he

/-- mutual exclusion: two different threads never own the same key -/
theorem mutual_exclusion {s : CState Val} (h : Inv s) (t₁ t₂ : Tid) (x₁ x₂ : TState Val) (k : Key)
    (h₁ : s.ts[t₁]? = some x₁) (h₂ : s.ts[t₂]? = some x₂) (o₁ : owns x₁ k) (o₂ : owns x₂ k) :
    t₁ = t₂ := by
  have a := (held_self h h₁ k).mpr o₁
  have b := (held_self h h₂ k).mpr o₂
  rw [a] at b; cases b; rfl

/-- only commit steps change the store … -/
theorem db_unchanged {s s' : CState Val} {t : Tid} {l : Label} (st : Step s t l s')
    (hl : l ≠ .commit) : s'.db = s.db := by
  cases st <;> first | rfl | exact absurd rfl hl

/-- … and a commit step is exactly the request's sequential meaning applied atomically to the store
    as it is at that moment (this is the linearisation point) -/
theorem commit_atomic {s s' : CState Val} {t : Tid} {x : TState Val} (h : Inv s)
    (hx : s.ts[t]? = some x) (hf : Footprint x.req) (st : Step s t .commit s') :
    s'.db = applyReq x.req s.db := by
  cases st
  case commit x' hx' hpc =>
    rw [hx] at hx'; cases hx'
    funext k
    show (if k ∈ x.req.keys then x.req.f x.cache k else s.db k) = applyReq x.req s.db k
    unfold applyReq
    by_cases hm : k ∈ x.req.keys
    · rw [if_pos hm, if_pos hm]
      apply hf _ _ _ k hm
      intro k' hk'
      rcases List.mem_iff_getElem?.mp hk' with ⟨j, hj⟩
      exact h.cache_ok t x _ hx hpc j (lt_length_of_getElem? hj) k' hj
    · rw [if_neg hm, if_neg hm]

/-- the request of a thread never changes -/
theorem req_stable {s s' : CState Val} {t : Tid} {l : Label} (st : Step s t l s') (t' : Tid) :
    (s'.ts[t']?).map (·.req) = (s.ts[t']?).map (·.req) := by
  have key : ∀ {x y : TState Val}, s.ts[t]? = some x → y.req = x.req →
      ((setT s.ts t y)[t']?).map (·.req) = (s.ts[t']?).map (·.req) := by
    intro x y hx hr
    rw [get_setT hx]
    by_cases e : t' = t
    · subst e; rw [if_pos rfl, hx]; simp [hr]
    · rw [if_neg e]
  cases st
  case pre hx _ _ => exact key hx rfl
  case lock hx _ _ _ => exact key hx rfl
  case post hx _ => exact key hx rfl
  case read hx _ _ => exact key hx rfl
  case commit hx _ => exact key hx rfl
  case unlock hx _ _ => exact key hx rfl
  case finish hx _ => exact key hx rfl

theorem req_stable_exec {s s' : CState Val} {tr : List (Tid × Label)} (he : Exec s tr s') (t' : Tid) :
    (s'.ts[t']?).map (·.req) = (s.ts[t']?).map (·.req) := by
  induction he with
  | nil _ => rfl
  | cons st _ ih => rw [ih, req_stable st]

/-- the requests in the order of their commit steps -/
def commitOrder (s0 : CState Val) (tr : List (Tid × Label)) : List (Req Val) :=
  tr.filterMap (fun p => if p.2 = .commit then (s0.ts[p.1]?).map (·.req) else none)

theorem commitOrder_congr {s s' : CState Val}
    (hs : ∀ t' : Tid, (s'.ts[t']?).map (·.req) = (s.ts[t']?).map (·.req)) (tr : List (Tid × Label)) :
    commitOrder s' tr = commitOrder s tr := by
  unfold commitOrder
  congr 1
  funext p
  rw [hs]

/-- linearizability from an arbitrary state satisfying the invariant -/
theorem linearizable_from {s s' : CState Val} {tr : List (Tid × Label)} (he : Exec s tr s')
    (h : Inv s) (hfp : ∀ (t : Tid) (x : TState Val), s.ts[t]? = some x → Footprint x.req) :
    s'.db = (commitOrder s tr).foldl (fun d r => applyReq r d) s.db := by
  induction he with
  | nil _ => rfl
  | @cons s s1 s2 t l tr st _ ih =>
    have hfp1 : ∀ (t' : Tid) (x' : TState Val), s1.ts[t']? = some x' → Footprint x'.req := by
      intro t' x' hx'
      have hs := req_stable st t'
      rw [hx'] at hs
      cases hq : s.ts[t']? with
      | none => rw [hq] at hs; cases hs
      | some x0 =>
        rw [hq] at hs
        simp at hs
        rw [hs]; exact hfp t' x0 hq
    rw [ih (inv_step h st) hfp1, commitOrder_congr (req_stable st)]
    by_cases hl : l = .commit
    · subst hl
      have hx : ∃ x, s.ts[t]? = some x := by
        cases st
        all_goals exact ⟨_, by assumption⟩
      rcases hx with ⟨x, hx⟩
      rw [commit_atomic h hx (hfp t x hx) st]
      simp [commitOrder, hx]
    · rw [db_unchanged st hl]
      simp [commitOrder, hl]

/-- linearizability: after any execution from the initial state the store is what the sequential
    object produces for the requests that committed, in commit order -/
theorem linearizable (reqs : List (Req Val)) (db0 c0 : Key → Val) (hnd : ∀ r ∈ reqs, r.keys.Nodup)
    (hfp : ∀ r ∈ reqs, Footprint r) (tr : List (Tid × Label)) (s : CState Val)
    (he : Exec (initState reqs db0 c0) tr s) :
    s.db = (commitOrder (initState reqs db0 c0) tr).foldl (fun d r => applyReq r d) db0 := by
  refine linearizable_from he (inv_init reqs db0 c0 hnd) ?_
  intro t x hx
  simp only [initState, List.getElem?_map] at hx
  cases hr : reqs[t]? with
  | none => rw [hr] at hx; cases hx
  | some r =>
    rw [hr] at hx
    simp at hx
    subst hx
    exact hfp r (List.mem_of_getElem? hr)

/-! ### real-time order: the phases of a thread only move forward -/

/-- the phase of a program counter -/
def PC.rank : PC → Nat
  | .idle => 0 | .locking _ => 1 | .reading _ => 2 | .unlocking _ => 3 | .done => 4

/-- the phase of thread `t` in state `s` (0 for a thread that does not exist) -/
def rankOf (s : CState Val) (t : Tid) : Nat :=
  match s.ts[t]? with
  | some x => x.pc.rank
  | none => 0

/-- the phase a thread is in before / after taking a step with the given label -/
def Label.before : Label → Nat
  | .pre => 0 | .lock _ => 1 | .post => 1 | .read _ => 2 | .commit => 2 | .unlock _ => 3 | .finish => 3
def Label.after : Label → Nat
  | .pre => 1 | .lock _ => 1 | .post => 2 | .read _ => 2 | .commit => 3 | .unlock _ => 3 | .finish => 4

theorem rankOf_setT {s : CState Val} {t : Tid} {x : TState Val} (hx : s.ts[t]? = some x)
    (s' : CState Val) (y : TState Val) (hs : s'.ts = setT s.ts t y) (t' : Tid) :
    rankOf s' t' = if t' = t then y.pc.rank else rankOf s t' := by
  unfold rankOf
  rw [hs, get_setT hx]
  by_cases e : t' = t
  · rw [if_pos e, if_pos e]
  · rw [if_neg e, if_neg e]

theorem step_rank {s s' : CState Val} {t : Tid} {l : Label} (st : Step s t l s') :
    rankOf s t = l.before ∧ rankOf s' t = l.after ∧ ∀ t', t' ≠ t → rankOf s' t' = rankOf s t' := by
  have key : ∀ {x y : TState Val} {s' : CState Val} {b a : Nat}, s.ts[t]? = some x →
      s'.ts = setT s.ts t y → x.pc.rank = b → y.pc.rank = a →
      rankOf s t = b ∧ rankOf s' t = a ∧ ∀ t', t' ≠ t → rankOf s' t' = rankOf s t' := by
    intro x y s' b a hx hs hb ha
    refine ⟨?_, ?_, ?_⟩
    · unfold rankOf; rw [hx]; exact hb
    · rw [rankOf_setT hx s' y hs, if_pos rfl]; exact ha
    · intro t' e; rw [rankOf_setT hx s' y hs, if_neg e]
  cases st
  case pre hx hpc _ => exact key hx rfl (by rw [hpc]; rfl) rfl
  case lock hx hpc _ _ => exact key hx rfl (by rw [hpc]; rfl) rfl
  case post hx hpc => exact key hx rfl (by rw [hpc]; rfl) rfl
  case read hx hpc _ => exact key hx rfl (by rw [hpc]; rfl) rfl
  case commit hx hpc => exact key hx rfl (by rw [hpc]; rfl) rfl
  case unlock hx hpc _ => exact key hx rfl (by rw [hpc]; rfl) rfl
  case finish hx hpc => exact key hx rfl (by rw [hpc]; rfl) rfl

theorem Label.before_le_after (l : Label) : l.before ≤ l.after := by
  cases l <;> simp [Label.before, Label.after]

theorem step_rank_mono {s s' : CState Val} {t : Tid} {l : Label} (st : Step s t l s') (t' : Tid) :
    rankOf s t' ≤ rankOf s' t' := by
  rcases step_rank st with ⟨hb, ha, ho⟩
  by_cases e : t' = t
  · subst e; rw [hb, ha]; exact l.before_le_after
  · rw [ho t' e]; exact Nat.le_refl _

/-- a step of `t` labelled `l` later in an execution finds `t` at least as far as it is now -/
theorem exec_rank_le {s s' : CState Val} {tr : List (Tid × Label)} (he : Exec s tr s')
    (t : Tid) (l : Label) (i : Nat) (hi : tr[i]? = some (t, l)) : rankOf s t ≤ l.before := by
  induction he generalizing i with
  | nil _ => simp at hi
  | @cons s s1 s2 t0 l0 tr st _ ih =>
    cases i with
    | zero =>
      simp at hi
      rcases hi with ⟨rfl, rfl⟩
      rw [(step_rank st).1]; exact Nat.le_refl _
    | succ i =>
      simp at hi
      exact Nat.le_trans (step_rank_mono st t) (ih i hi)

/-- two steps of the same thread: the earlier one's after-phase is at most the later one's before-phase -/
theorem exec_order {s s' : CState Val} {tr : List (Tid × Label)} (he : Exec s tr s')
    (t : Tid) (l l' : Label) (j i : Nat) (hji : j < i) (hj : tr[j]? = some (t, l))
    (hi : tr[i]? = some (t, l')) : l.after ≤ l'.before := by
  induction he generalizing i j with
  | nil _ => simp at hi
  | @cons s s1 s2 t0 l0 tr st he' ih =>
    cases i with
    | zero => exact absurd hji (Nat.not_lt_zero _)
    | succ i =>
      simp at hi
      cases j with
      | zero =>
        simp at hj
        rcases hj with ⟨rfl, rfl⟩
        rw [← (step_rank st).2.1]
        exact exec_rank_le he' _ l' i hi
      | succ j =>
        simp at hj
        exact ih j i (by omega) hj hi

/-- a step beyond the idle phase is preceded by the thread's `pre` step -/
theorem exec_pre_before {s s' : CState Val} {tr : List (Tid × Label)} (he : Exec s tr s')
    (t : Tid) (l : Label) (i : Nat) (hi : tr[i]? = some (t, l)) (h0 : rankOf s t = 0)
    (hl : 1 ≤ l.before) : ∃ j, j < i ∧ tr[j]? = some (t, .pre) := by
  induction he generalizing i with
  | nil _ => simp at hi
  | @cons s s1 s2 t0 l0 tr st he' ih =>
    rcases step_rank st with ⟨hb, ha, ho⟩
    cases i with
    | zero =>
      simp at hi
      rcases hi with ⟨rfl, rfl⟩
      rw [hb] at h0; omega
    | succ i =>
      simp at hi
      by_cases e : t = t0
      · subst e
        rw [hb] at h0
        have : l0 = .pre := by
          cases l0 <;> first | rfl | (simp [Label.before] at h0)
        subst this
        exact ⟨0, by omega, by simp⟩
      · have h1 : rankOf s1 t = 0 := by rw [ho t e]; exact h0
        rcases ih i hi h1 with ⟨j, hj, hjt⟩
        exact ⟨j + 1, by omega, by simpa using hjt⟩

theorem rankOf_init (reqs : List (Req Val)) (db0 c0 : Key → Val) (t : Tid) :
    rankOf (initState reqs db0 c0) t = 0 := by
  unfold rankOf
  simp only [initState, List.getElem?_map]
  cases reqs[t]? <;> rfl

/-- each thread commits at most once in any execution, and its commit lies after its `pre` step and
    before its `finish` step -/
theorem commit_between (reqs : List (Req Val)) (db0 c0 : Key → Val) (tr : List (Tid × Label))
    (s : CState Val) (he : Exec (initState reqs db0 c0) tr s) (t : Tid) (i : Nat)
    (hi : tr[i]? = some (t, .commit)) :
    (∃ j, j < i ∧ tr[j]? = some (t, .pre)) ∧ (∀ j, tr[j]? = some (t, .finish) → i < j) ∧
    (∀ j, tr[j]? = some (t, .commit) → j = i) := by
  refine ⟨exec_pre_before he t .commit i hi (rankOf_init reqs db0 c0 t) (by decide), ?_, ?_⟩
  · intro j hj
    rcases Nat.lt_trichotomy j i with h | h | h
    · exact absurd (exec_order he t .finish .commit j i h hj hi) (by decide)
    · subst h; rw [hi] at hj; cases hj
    · exact h
  · intro j hj
    rcases Nat.lt_trichotomy j i with h | h | h
    · exact absurd (exec_order he t .commit .commit j i h hj hi) (by decide)
    · exact h
    · exact absurd (exec_order he t .commit .commit i j h hi hj) (by decide)

end Dirk.Conc
