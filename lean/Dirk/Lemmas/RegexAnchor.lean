/-
  Dirk.Lemmas.RegexAnchor — an unanchored search (`Re.search`, Go's `MatchString`) for `^r$` is a
  whole-text match of `r`, for every `r : Re`.

  Contents: a positional denotational semantics `Matches`, correctness of the derivative matcher
  (`matchFrom_iff`, through the simplifying constructors `mkCat` / `mkAlt`), and the anchoring argument.
-/
import Dirk.Model.Regex

namespace Dirk
namespace Re

/-- `Matches s r u v`: at a position whose "at start of text" flag is `s`, `r` consumes exactly `u`
    and leaves `v` as the rest of the text. -/
inductive Matches : Bool → Re → List Char → List Char → Prop
  | eps {s v} : Matches s eps [] v
  | chr {s ci p c v} : chrMatch ci p c = true → Matches s (chr ci p) [c] v
  | any {s c v} : c ≠ '\n' → Matches s any [c] v
  | cls {s ci neg rs c v} : clsMatch ci neg rs c = true → Matches s (cls ci neg rs) [c] v
  | bol {v} : Matches true bol [] v
  | eol {s} : Matches s eol [] []
  | cat {s a b u1 u2 v} : Matches s a u1 (u2 ++ v) → Matches (s && u1.isEmpty) b u2 v →
      Matches s (cat a b) (u1 ++ u2) v
  | altL {s a b u v} : Matches s a u v → Matches s (alt a b) u v
  | altR {s a b u v} : Matches s b u v → Matches s (alt a b) u v
  | starNil {s a v} : Matches s (star a) [] v
  | starCons {s a u1 u2 v} : Matches s a u1 (u2 ++ v) → Matches (s && u1.isEmpty) (star a) u2 v →
      Matches s (star a) (u1 ++ u2) v

/-! ## Inversion lemmas -/

theorem matches_none {s u v} : ¬ Matches s none u v := by
  intro h; cases h

theorem matches_eps {s u v} : Matches s eps u v ↔ u = [] := by
  constructor
  · intro h; cases h; rfl
  · intro h; subst h; exact .eps

theorem matches_chr {s ci p u v} :
    Matches s (chr ci p) u v ↔ ∃ c, u = [c] ∧ chrMatch ci p c = true := by
  constructor
  · intro h; cases h with | chr h => exact ⟨_, rfl, h⟩
  · rintro ⟨c, rfl, h⟩; exact .chr h

theorem matches_any {s u v} : Matches s any u v ↔ ∃ c, u = [c] ∧ c ≠ '\n' := by
  constructor
  · intro h; cases h with | any h => exact ⟨_, rfl, h⟩
  · rintro ⟨c, rfl, h⟩; exact .any h

theorem matches_cls {s ci neg rs u v} :
    Matches s (cls ci neg rs) u v ↔ ∃ c, u = [c] ∧ clsMatch ci neg rs c = true := by
  constructor
  · intro h; cases h with | cls h => exact ⟨_, rfl, h⟩
  · rintro ⟨c, rfl, h⟩; exact .cls h

theorem matches_bol {s u v} : Matches s bol u v ↔ s = true ∧ u = [] := by
  constructor
  · intro h; cases h; exact ⟨rfl, rfl⟩
  · rintro ⟨rfl, rfl⟩; exact .bol

theorem matches_eol {s u v} : Matches s eol u v ↔ u = [] ∧ v = [] := by
  constructor
  · intro h; cases h; exact ⟨rfl, rfl⟩
  · rintro ⟨rfl, rfl⟩; exact .eol

theorem matches_cat {s a b u v} :
    Matches s (cat a b) u v ↔
      ∃ u1 u2, u = u1 ++ u2 ∧ Matches s a u1 (u2 ++ v) ∧ Matches (s && u1.isEmpty) b u2 v := by
  constructor
  · intro h; cases h with | cat h1 h2 => exact ⟨_, _, rfl, h1, h2⟩
  · rintro ⟨u1, u2, rfl, h1, h2⟩; exact .cat h1 h2

theorem matches_alt {s a b u v} :
    Matches s (alt a b) u v ↔ Matches s a u v ∨ Matches s b u v := by
  constructor
  · intro h
    cases h with
    | altL h => exact .inl h
    | altR h => exact .inr h
  · rintro (h | h)
    · exact .altL h
    · exact .altR h

theorem matches_star {s a u v} :
    Matches s (star a) u v ↔
      u = [] ∨ ∃ u1 u2, u = u1 ++ u2 ∧ Matches s a u1 (u2 ++ v) ∧
        Matches (s && u1.isEmpty) (star a) u2 v := by
  constructor
  · intro h
    cases h with
    | starNil => exact .inl rfl
    | starCons h1 h2 => exact .inr ⟨_, _, rfl, h1, h2⟩
  · rintro (rfl | ⟨u1, u2, rfl, h1, h2⟩)
    · exact .starNil
    · exact .starCons h1 h2

/-- A non-empty star match starts with a non-empty iteration. -/
theorem matches_star_cons_aux {s r w v} (h : Matches s r w v) :
    ∀ a c u, r = star a → w = c :: u →
      ∃ u1 u2, u = u1 ++ u2 ∧ Matches s a (c :: u1) (u2 ++ v) ∧ Matches false (star a) u2 v := by
  induction h with
  | eps => intro a c u hr; cases hr
  | chr _ => intro a c u hr; cases hr
  | any _ => intro a c u hr; cases hr
  | cls _ => intro a c u hr; cases hr
  | bol => intro a c u hr; cases hr
  | eol => intro a c u hr; cases hr
  | cat _ _ _ _ => intro a c u hr; cases hr
  | altL _ _ => intro a c u hr; cases hr
  | altR _ _ => intro a c u hr; cases hr
  | starNil => intro a c u _ hw; cases hw
  | @starCons s a' u1 u2 v h1 h2 _ ih2 =>
    intro a c u hr hw
    cases hr
    cases u1 with
    | nil =>
      simp only [List.nil_append] at hw
      simp only [List.isEmpty_nil, Bool.and_true] at h2 ih2
      exact ih2 _ c u rfl hw
    | cons d u1' =>
      simp only [List.cons_append, List.cons.injEq] at hw
      obtain ⟨rfl, rfl⟩ := hw
      simp only [List.isEmpty_cons, Bool.and_false] at h2
      exact ⟨u1', u2, rfl, h1, h2⟩

theorem matches_star_cons {s a c u v} :
    Matches s (star a) (c :: u) v ↔
      ∃ u1 u2, u = u1 ++ u2 ∧ Matches s a (c :: u1) (u2 ++ v) ∧ Matches false (star a) u2 v := by
  constructor
  · intro h; exact matches_star_cons_aux h a c u rfl rfl
  · rintro ⟨u1, u2, rfl, h1, h2⟩
    have : Matches s (star a) ((c :: u1) ++ u2) v :=
      .starCons h1 (by simpa only [List.isEmpty_cons, Bool.and_false] using h2)
    simpa only [List.cons_append] using this

/-! ## The simplifying constructors -/

theorem matches_mkCat {s a b u v} : Matches s (mkCat a b) u v ↔ Matches s (cat a b) u v := by
  unfold mkCat
  split
  · -- none, _
    constructor
    · intro h; exact absurd h matches_none
    · intro h
      obtain ⟨_, _, _, h1, _⟩ := matches_cat.1 h
      exact absurd h1 matches_none
  · -- _, none
    constructor
    · intro h; exact absurd h matches_none
    · intro h
      obtain ⟨_, _, _, _, h2⟩ := matches_cat.1 h
      exact absurd h2 matches_none
  · -- eps, b
    constructor
    · intro h
      refine matches_cat.2 ⟨[], u, rfl, .eps, ?_⟩
      simpa only [List.isEmpty_nil, Bool.and_true] using h
    · intro h
      obtain ⟨u1, u2, rfl, h1, h2⟩ := matches_cat.1 h
      have := matches_eps.1 h1
      subst this
      simpa only [List.isEmpty_nil, Bool.and_true, List.nil_append] using h2
  · -- a, eps
    constructor
    · intro h
      refine matches_cat.2 ⟨u, [], (List.append_nil u).symm, ?_, .eps⟩
      simpa only [List.nil_append] using h
    · intro h
      obtain ⟨u1, u2, rfl, h1, h2⟩ := matches_cat.1 h
      have := matches_eps.1 h2
      subst this
      simpa only [List.nil_append, List.append_nil] using h1
  · exact Iff.rfl

theorem matches_mkAlt {s a b u v} : Matches s (mkAlt a b) u v ↔ Matches s (alt a b) u v := by
  unfold mkAlt
  split
  · -- none, b
    rw [matches_alt]
    constructor
    · intro h; exact .inr h
    · rintro (h | h)
      · exact absurd h matches_none
      · exact h
  · -- a, none
    rw [matches_alt]
    constructor
    · intro h; exact .inl h
    · rintro (h | h)
      · exact h
      · exact absurd h matches_none
  · split
    · next heq =>
      subst heq
      rw [matches_alt]
      exact ⟨.inl, fun h => h.elim id id⟩
    · exact Iff.rfl

/-! ## Correctness of `nullable` and `deriv` -/

theorem nullable_iff {s r v} : nullable s v.isEmpty r = true ↔ Matches s r [] v := by
  induction r generalizing s with
  | none => simp only [nullable, Bool.false_eq_true, false_iff]; exact matches_none
  | eps => simp only [nullable, true_iff]; exact .eps
  | chr ci c =>
    simp only [nullable, Bool.false_eq_true, false_iff, matches_chr]
    rintro ⟨c, h, _⟩; cases h
  | any =>
    simp only [nullable, Bool.false_eq_true, false_iff, matches_any]
    rintro ⟨c, h, _⟩; cases h
  | cls ci neg rs =>
    simp only [nullable, Bool.false_eq_true, false_iff, matches_cls]
    rintro ⟨c, h, _⟩; cases h
  | bol => simp only [nullable, matches_bol, and_true]
  | eol => simp only [nullable, matches_eol, true_and, List.isEmpty_iff]
  | cat a b iha ihb =>
    simp only [nullable, Bool.and_eq_true, matches_cat]
    constructor
    · rintro ⟨h1, h2⟩
      refine ⟨[], [], rfl, ?_, ?_⟩
      · simpa only [List.nil_append] using iha.1 h1
      · simpa only [List.isEmpty_nil, Bool.and_true] using ihb.1 h2
    · rintro ⟨u1, u2, h, h1, h2⟩
      have hu := List.append_eq_nil_iff.1 h.symm
      obtain ⟨rfl, rfl⟩ := hu
      simp only [List.nil_append] at h1
      simp only [List.isEmpty_nil, Bool.and_true] at h2
      exact ⟨iha.2 h1, ihb.2 h2⟩
  | alt a b iha ihb =>
    simp only [nullable, Bool.or_eq_true, matches_alt, iha, ihb]
  | star a _ =>
    simp only [nullable, true_iff]; exact .starNil

theorem nullable_false_iff {s r c v} : nullable s false r = true ↔ Matches s r [] (c :: v) := by
  have := @nullable_iff s r (c :: v)
  simpa only [List.isEmpty_cons] using this

theorem deriv_iff {s c r u v} : Matches false (deriv s c r) u v ↔ Matches s r (c :: u) v := by
  induction r generalizing u v with
  | none =>
    simp only [deriv]
    exact ⟨fun h => absurd h matches_none, fun h => absurd h matches_none⟩
  | eps =>
    simp only [deriv, matches_eps]
    exact ⟨fun h => absurd h matches_none, fun h => by cases h⟩
  | chr ci p =>
    simp only [deriv, matches_chr]
    constructor
    · intro h
      split at h
      · next hm =>
        have := matches_eps.1 h
        subst this
        exact ⟨c, rfl, hm⟩
      · exact absurd h matches_none
    · rintro ⟨d, hd, hm⟩
      simp only [List.cons.injEq] at hd
      obtain ⟨rfl, rfl⟩ := hd
      rw [if_pos hm]; exact .eps
  | any =>
    simp only [deriv, matches_any]
    constructor
    · intro h
      split at h
      · exact absurd h matches_none
      · next hm =>
        have := matches_eps.1 h
        subst this
        exact ⟨c, rfl, hm⟩
    · rintro ⟨d, hd, hm⟩
      simp only [List.cons.injEq] at hd
      obtain ⟨rfl, rfl⟩ := hd
      rw [if_neg hm]; exact .eps
  | cls ci neg rs =>
    simp only [deriv, matches_cls]
    constructor
    · intro h
      split at h
      · next hm =>
        have := matches_eps.1 h
        subst this
        exact ⟨c, rfl, hm⟩
      · exact absurd h matches_none
    · rintro ⟨d, hd, hm⟩
      simp only [List.cons.injEq] at hd
      obtain ⟨rfl, rfl⟩ := hd
      rw [if_pos hm]; exact .eps
  | bol =>
    simp only [deriv, matches_bol]
    exact ⟨fun h => absurd h matches_none, fun h => by cases h.2⟩
  | eol =>
    simp only [deriv, matches_eol]
    exact ⟨fun h => absurd h matches_none, fun h => by cases h.1⟩
  | cat a b iha ihb =>
    -- semantic content of the two possible summands
    have hL : Matches false (mkCat (deriv s c a) b) u v ↔
        ∃ u1 u2, u = u1 ++ u2 ∧ Matches s a (c :: u1) (u2 ++ v) ∧ Matches false b u2 v := by
      rw [matches_mkCat, matches_cat]
      constructor
      · rintro ⟨u1, u2, rfl, h1, h2⟩
        exact ⟨u1, u2, rfl, iha.1 h1, by simpa only [Bool.false_and] using h2⟩
      · rintro ⟨u1, u2, rfl, h1, h2⟩
        exact ⟨u1, u2, rfl, iha.2 h1, by simpa only [Bool.false_and] using h2⟩
    have hR : Matches s (cat a b) (c :: u) v ↔
        (Matches s a [] (c :: u ++ v) ∧ Matches s b (c :: u) v) ∨
        ∃ u1 u2, u = u1 ++ u2 ∧ Matches s a (c :: u1) (u2 ++ v) ∧ Matches false b u2 v := by
      rw [matches_cat]
      constructor
      · rintro ⟨w1, w2, hw, h1, h2⟩
        cases w1 with
        | nil =>
          simp only [List.nil_append] at hw
          subst hw
          simp only [List.isEmpty_nil, Bool.and_true] at h2
          exact .inl ⟨h1, h2⟩
        | cons d w1' =>
          simp only [List.cons_append, List.cons.injEq] at hw
          obtain ⟨rfl, rfl⟩ := hw
          simp only [List.isEmpty_cons, Bool.and_false] at h2
          exact .inr ⟨w1', w2, rfl, h1, h2⟩
      · rintro (⟨h1, h2⟩ | ⟨u1, u2, rfl, h1, h2⟩)
        · exact ⟨[], c :: u, rfl, h1, by simpa only [List.isEmpty_nil, Bool.and_true] using h2⟩
        · exact ⟨c :: u1, u2, rfl, h1, by simpa only [List.isEmpty_cons, Bool.and_false] using h2⟩
    simp only [deriv]
    rw [hR]
    by_cases hn : nullable s false a = true
    · rw [if_pos hn, matches_mkAlt, matches_alt, hL, ihb]
      have hn' : Matches s a [] (c :: u ++ v) := nullable_false_iff.1 hn
      constructor
      · rintro (h | h)
        · exact .inr h
        · exact .inl ⟨hn', h⟩
      · rintro (⟨_, h⟩ | h)
        · exact .inr h
        · exact .inl h
    · rw [if_neg hn, hL]
      constructor
      · intro h; exact .inr h
      · rintro (⟨h, _⟩ | h)
        · exact absurd (nullable_false_iff.2 h) hn
        · exact h
  | alt a b iha ihb =>
    simp only [deriv]
    rw [matches_mkAlt, matches_alt, matches_alt, iha, ihb]
  | star a iha =>
    simp only [deriv]
    rw [matches_mkCat, matches_cat, matches_star_cons]
    constructor
    · rintro ⟨u1, u2, rfl, h1, h2⟩
      exact ⟨u1, u2, rfl, iha.1 h1, by simpa only [Bool.false_and] using h2⟩
    · rintro ⟨u1, u2, rfl, h1, h2⟩
      exact ⟨u1, u2, rfl, iha.2 h1, by simpa only [Bool.false_and] using h2⟩

/-- The derivative matcher decides the denotational semantics. -/
theorem matchFrom_iff {s r cs} : matchFrom s r cs = true ↔ Matches s r cs [] := by
  induction cs generalizing s r with
  | nil =>
    simp only [matchFrom]
    exact @nullable_iff s r []
  | cons c cs ih =>
    simp only [matchFrom]
    rw [ih, deriv_iff]

/-! ## Anchoring -/

theorem matches_anyAll_star (u : List Char) : ∀ {s v}, Matches s (star anyAll) u v := by
  induction u with
  | nil => intro s v; exact .starNil
  | cons c u ih =>
    intro s v
    have h1 : Matches s anyAll [c] (u ++ v) := .cls (by simp [clsMatch, inRanges])
    exact .starCons (u1 := [c]) h1 ih

/-- What `search` means denotationally: `r` matches some infix of the text, and it is at the start
    of the text iff the skipped prefix is empty. -/
theorem search_iff {r : Re} {w : String} :
    search r w = true ↔
      ∃ u1 u2 u3, w.toList = u1 ++ (u2 ++ u3) ∧ Matches u1.isEmpty r u2 u3 := by
  unfold search
  rw [matchFrom_iff, matches_cat]
  constructor
  · rintro ⟨u1, u23, hw, _, h⟩
    obtain ⟨u2, u3, rfl, h2, _⟩ := matches_cat.1 h
    refine ⟨u1, u2, u3, hw, ?_⟩
    simpa only [Bool.true_and, List.append_nil] using h2
  · rintro ⟨u1, u2, u3, hw, h⟩
    refine ⟨u1, u2 ++ u3, hw, matches_anyAll_star _, ?_⟩
    refine matches_cat.2 ⟨u2, u3, rfl, ?_, matches_anyAll_star _⟩
    simpa only [Bool.true_and, List.append_nil] using h

theorem fullMatch_iff {r : Re} {w : String} : fullMatch r w = true ↔ Matches true r w.toList [] := by
  unfold fullMatch; exact matchFrom_iff

/-- `^r$` matches an infix `u` with rest `v` at flag `s` iff it is the whole text. -/
theorem matches_anchored {s r u v} :
    Matches s (cat bol (cat r eol)) u v ↔ s = true ∧ v = [] ∧ Matches true r u [] := by
  rw [matches_cat]
  constructor
  · rintro ⟨u1, u2, rfl, h1, h2⟩
    obtain ⟨rfl, rfl⟩ := matches_bol.1 h1
    obtain ⟨u3, u4, rfl, h3, h4⟩ := matches_cat.1 h2
    obtain ⟨rfl, rfl⟩ := matches_eol.1 h4
    refine ⟨rfl, rfl, ?_⟩
    simpa only [List.isEmpty_nil, Bool.and_true, List.nil_append, List.append_nil] using h3
  · rintro ⟨rfl, rfl, h⟩
    refine ⟨[], u, rfl, .bol, ?_⟩
    refine matches_cat.2 ⟨u, [], (List.append_nil u).symm, ?_, .eol⟩
    simpa only [List.isEmpty_nil, Bool.and_true, List.nil_append, List.append_nil] using h

/-- Main theorem: an unanchored search for `^r$` is a whole-text match of `r`. -/
theorem search_anchored (r : Re) (w : String) :
    Re.search (Re.cat Re.bol (Re.cat r Re.eol)) w = Re.fullMatch r w := by
  rw [Bool.eq_iff_iff, search_iff, fullMatch_iff]
  constructor
  · rintro ⟨u1, u2, u3, hw, h⟩
    obtain ⟨h1, rfl, h3⟩ := matches_anchored.1 h
    have : u1 = [] := List.isEmpty_iff.1 h1
    subst this
    simpa only [hw, List.nil_append, List.append_nil] using h3
  · intro h
    exact ⟨[], w.toList, [], by simp only [List.nil_append, List.append_nil],
      matches_anchored.2 ⟨rfl, rfl, h⟩⟩

/-- The search is a genuine whole-name test on a non-trivial pattern: `^(a|b)c$` finds `"bc"`, and the
    statement also covers the rejecting direction (`"xbc"` contains `bc` but is not found). -/
example : Re.search (Re.cat Re.bol (Re.cat (Re.cat (Re.alt (Re.chr false 'a') (Re.chr false 'b'))
    (Re.chr false 'c')) Re.eol)) "bc" = true := by
  rw [search_anchored]; rfl

/-! ## The shape produced by `ReParse.parse`

`ReParse.parse "(?i)^(?:ab|c)$"` evaluates to
`some (cat (cat (cat eps bol) r) eol)` with
`r = alt (cat (cat eps (chr true 'a')) (chr true 'b')) (cat eps (chr true 'c'))`, and
`ReParse.parse "(?i)ab|c"` evaluates to `some r` for the same `r`: `pCat` folds the atoms to the left
starting from `eps` (it uses `cat`, not `mkCat`). -/

/-- The AST `ReParse.parse` builds for `^(?:…)$` around the AST `r` of the group body. -/
def anch (r : Re) : Re := cat (cat (cat eps bol) r) eol

theorem matches_anch {s r u v} :
    Matches s (anch r) u v ↔ Matches s (cat bol (cat r eol)) u v := by
  unfold anch
  rw [matches_anchored, matches_cat]
  constructor
  · rintro ⟨u1, u2, rfl, h1, h2⟩
    obtain ⟨rfl, rfl⟩ := matches_eol.1 h2
    obtain ⟨u3, u4, rfl, h3, h4⟩ := matches_cat.1 h1
    obtain ⟨u5, u6, rfl, h5, h6⟩ := matches_cat.1 h3
    have := matches_eps.1 h5
    subst this
    obtain ⟨h7, rfl⟩ := matches_bol.1 h6
    simp only [List.isEmpty_nil, Bool.and_true] at h7
    subst h7
    refine ⟨rfl, rfl, ?_⟩
    simpa only [List.isEmpty_nil, Bool.and_true, List.nil_append, List.append_nil] using h4
  · rintro ⟨rfl, rfl, h⟩
    refine ⟨u, [], (List.append_nil u).symm, ?_, .eol⟩
    refine matches_cat.2 ⟨[], u, rfl, ?_, ?_⟩
    · exact matches_cat.2 ⟨[], [], rfl, .eps, .bol⟩
    · simpa only [List.isEmpty_nil, Bool.and_true, List.nil_append, List.append_nil] using h

/-- Semantically equal patterns give equal searches. -/
theorem search_congr {a b : Re} (h : ∀ s u v, Matches s a u v ↔ Matches s b u v) (w : String) :
    search a w = search b w := by
  rw [Bool.eq_iff_iff, search_iff, search_iff]
  constructor
  · rintro ⟨u1, u2, u3, hw, hm⟩; exact ⟨u1, u2, u3, hw, (h _ _ _).1 hm⟩
  · rintro ⟨u1, u2, u3, hw, hm⟩; exact ⟨u1, u2, u3, hw, (h _ _ _).2 hm⟩

/-- `search_anchored` for exactly the AST the parser produces for an anchored pattern. -/
theorem search_anchored_parsed_shape (r : Re) (w : String) :
    Re.search (Re.cat (Re.cat (Re.cat Re.eps Re.bol) r) Re.eol) w = Re.fullMatch r w := by
  rw [← search_anchored]
  exact search_congr (fun _ _ _ => matches_anch) w

example : Re.search (anch (Re.alt (Re.cat (Re.cat Re.eps (Re.chr true 'a')) (Re.chr true 'b'))
    (Re.cat Re.eps (Re.chr true 'c')))) "Ab" = true := by
  unfold anch; rw [search_anchored_parsed_shape]; rfl

/-- The permission check (path regex against the name, action regex against the action), both compiled
    from anchored patterns, is a pair of whole-string matches. -/
theorem cmatch_anchored (rw ra : Re) (w a : String) :
    (Re.search (anch rw) w && Re.search (anch ra) a) = (Re.fullMatch rw w && Re.fullMatch ra a) := by
  unfold anch
  rw [search_anchored_parsed_shape, search_anchored_parsed_shape]

example : (Re.search (anch (Re.cat (Re.chr false 'w') (Re.star Re.any))) "w1" &&
    Re.search (anch (Re.alt (Re.chr false 's') (Re.chr false 'u'))) "s") = true := by
  rw [cmatch_anchored]; rfl

end Re
end Dirk

section
open Dirk Re
#print axioms Dirk.Re.matchFrom_iff
#print axioms Dirk.Re.search_anchored
#print axioms Dirk.Re.search_anchored_parsed_shape
#print axioms Dirk.Re.cmatch_anchored
end
