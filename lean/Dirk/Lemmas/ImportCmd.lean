/-
  Dirk.Lemmas.ImportCmd — the import COMMAND as an operation of an instance's lifetime (`Op.importCmd`:
  stop, `dirk --import-slashing-protection`, start).  The command merges the file raise-only with the
  existing records before the rules-level write (C10), so — unlike the raw `Op.importRec` — it preserves
  `AttInv` and `PropInv` without any condition on the file.

  * every decodable record holds int64 values (`rangeOK_any`: the hypothesis `RangeOK` of the C10
    theorems holds of every store);
  * a successful command never lowers the attestation record or the proposal record of ANY key, each
    record on its own (the C10 statement is about keys both of whose records decode);
  * hence `step_importCmd_attInv`, `step_importCmd_propInv`.
-/
import Dirk.Lemmas.OpsExtra

namespace Dirk

/-! ## every decodable record is in int64 range -/

theorem Gob.be_lt : ∀ (bs : List UInt8) (acc : Nat), Gob.be acc bs < (acc + 1) * 256 ^ bs.length
  | [], acc => by simp [Gob.be]
  | b :: bs, acc => by
    have ih := Gob.be_lt bs (acc * 256 + b.toNat)
    have hb : b.toNat < 256 := b.toNat_lt
    have h1 : (acc * 256 + b.toNat + 1) * 256 ^ bs.length ≤ ((acc + 1) * 256) * 256 ^ bs.length :=
      Nat.mul_le_mul_right _ (by omega)
    have h2 : ((acc + 1) * 256) * 256 ^ bs.length = (acc + 1) * 256 ^ (bs.length + 1) := by
      rw [Nat.mul_assoc, Nat.pow_succ, Nat.mul_comm 256]
    simp only [Gob.be, List.length_cons]
    omega

theorem Gob.readUint_lt {bs rest : List UInt8} {u : Nat} (h : Gob.readUint bs = some (u, rest)) :
    u < two64 := by
  unfold Gob.readUint at h
  split at h
  · cases h
  · rename_i b r
    split at h
    · injection h with h; injection h with h1 _; subst h1; unfold two64; omega
    · simp only at h
      split at h
      · cases h
      · rename_i hn
        injection h with h; injection h with h1 _; subst h1
        have hb := Gob.be_lt (r.take (256 - b.toNat)) 0
        have hl : (r.take (256 - b.toNat)).length ≤ 8 := by
          rw [List.length_take]; omega
        have hp : 256 ^ (r.take (256 - b.toNat)).length ≤ 256 ^ 8 := Nat.pow_le_pow_right (by omega) hl
        have e : (256 : Nat) ^ 8 = 18446744073709551616 := by decide
        unfold two64; omega

theorem Gob.readInt_inI64 {bs rest : List UInt8} {v : Int} (h : Gob.readInt bs = some (v, rest)) :
    InI64 v := by
  unfold Gob.readInt at h
  split at h
  · cases h
  · rename_i u r hu
    have := Gob.readUint_lt hu
    unfold two64 at this
    split at h <;> (injection h with h; injection h with h1 _; subst h1; unfold InI64 two63; omega)

theorem Gob.readFields_inI64 : ∀ (fuel : Nat) (field : Int) (bs : List UInt8) (l : List (Int × Int)),
    Gob.readFields fuel field bs = some l → ∀ p ∈ l, InI64 p.2 := by
  intro fuel
  induction fuel with
  | zero => intro field bs l h; simp [Gob.readFields] at h
  | succ n ih =>
    intro field bs l h
    unfold Gob.readFields at h
    split at h
    · cases h
    · injection h with h; subst h; intro p hp; cases hp
    · split at h
      · cases h
      · rename_i v rest' hv
        cases hr : Gob.readFields n _ rest' with
        | none => rw [hr] at h; simp at h
        | some l' =>
          rw [hr] at h
          simp only [Option.map_some, Option.some.injEq] at h
          subst h
          intro p hp
          rcases List.mem_cons.mp hp with rfl | hp
          · exact Gob.readInt_inI64 hv
          · exact ih _ _ _ hr p hp

theorem Gob.decodeStruct_inI64 {d : List UInt8} {fs : List (Int × Int)} (h : Gob.decodeStruct d = some fs) :
    ∀ p ∈ fs, InI64 p.2 := by
  unfold Gob.decodeStruct at h
  split at h
  · cases h
  · split at h
    · cases h
    · split at h
      · cases h
      · split at h
        · cases h
        · split at h
          · cases h
          · exact Gob.readFields_inI64 _ _ _ _ h

theorem Gob.field_inI64 {fs : List (Int × Int)} (h : ∀ p ∈ fs, InI64 p.2) (i : Int) : InI64 (Gob.field fs i) := by
  unfold Gob.field
  split
  · rename_i p hp; exact h p (List.mem_of_find?_eq_some hp)
  · unfold InI64 two63; omega

theorem unle64_lt (bs : Bytes) : unle64 bs < two64 := by
  unfold unle64 two64
  split
  · rename_i a b c d e f g h
    have := a.toNat_lt; have := b.toNat_lt; have := c.toNat_lt; have := d.toNat_lt
    have := e.toNat_lt; have := f.toNat_lt; have := g.toNat_lt; have := h.toNat_lt
    omega
  · omega

theorem decodeAtt_inI64 {d : Bytes} {st : AttState} (h : decodeAtt d = some st) :
    InI64 st.src ∧ InI64 st.tgt := by
  cases d with
  | nil => simp [decodeAtt] at h
  | cons v rest =>
    simp only [decodeAtt] at h
    split at h
    · split at h
      · injection h with h; subst h
        exact ⟨i64_inI64 _ (unle64_lt _), i64_inI64 _ (unle64_lt _)⟩
      · cases h
    · cases hg : Gob.decodeAtt (v :: rest) with
      | none => rw [hg] at h; simp at h
      | some p =>
        rw [hg] at h
        simp only [Option.map_some, Option.some.injEq] at h
        subst h
        unfold Gob.decodeAtt at hg
        cases hs : Gob.decodeStruct (v :: rest) with
        | none => rw [hs] at hg; simp at hg
        | some fs =>
          rw [hs] at hg
          simp only [Option.map_some, Option.some.injEq] at hg
          subst hg
          exact ⟨Gob.field_inI64 (Gob.decodeStruct_inI64 hs) 0, Gob.field_inI64 (Gob.decodeStruct_inI64 hs) 1⟩

theorem decodeProp_inI64 {d : Bytes} {v : Int} (h : decodeProp d = some v) : InI64 v := by
  cases d with
  | nil => simp [decodeProp] at h
  | cons x rest =>
    simp only [decodeProp] at h
    split at h
    · split at h
      · injection h with h; subst h; exact i64_inI64 _ (unle64_lt _)
      · cases h
    · unfold Gob.decodeProp at h
      cases hs : Gob.decodeStruct (x :: rest) with
      | none => rw [hs] at h; simp at h
      | some fs =>
        rw [hs] at h
        simp only [Option.map_some, Option.some.injEq] at h
        subst h
        exact Gob.field_inI64 (Gob.decodeStruct_inI64 hs) 0

theorem fetchAtt_inI64 {db : Db} {k : Bytes} {st : AttState} (h : fetchAtt db k false = some st) :
    InI64 st.src ∧ InI64 st.tgt := by
  unfold fetchAtt at h
  simp only [Bool.false_eq_true, ↓reduceIte] at h
  split at h
  · injection h with h; subst h; unfold InI64 two63; simp only; omega
  · exact decodeAtt_inI64 h

theorem fetchProp_inI64 {db : Db} {k : Bytes} {v : Int} (h : fetchProp db k false = some v) : InI64 v := by
  unfold fetchProp at h
  simp only [Bool.false_eq_true, ↓reduceIte] at h
  split at h
  · injection h with h; subst h; unfold InI64 two63; omega
  · exact decodeProp_inI64 h

theorem exportKey_some {db : Db} {k : Bytes} {q : Protection} (h : exportKey db k = some q) :
    fetchAtt db k false = some ⟨q.src, q.tgt⟩ ∧ fetchProp db k false = some q.slot := by
  unfold exportKey at h
  split at h
  · rename_i a p ha hp
    injection h with h; subst h
    exact ⟨ha, hp⟩
  · cases h

/-- the range hypothesis of the C10 theorems holds of every store -/
theorem rangeOK_any (db : Db) : RangeOK db := by
  intro k p h
  obtain ⟨ha, hp⟩ := exportKey_some h
  have := fetchAtt_inI64 ha
  exact ⟨fetchProp_inI64 hp, this.1, this.2⟩

/-! ## the command touches only the keys of the file, which are 48 bytes long -/

theorem fetchAtt_importAll_notin (L : List (Bytes × Protection)) : ∀ (db : Db) (k : Bytes),
    k ∉ L.map (·.1) → fetchAtt (importAll db L) k false = fetchAtt db k false := by
  induction L with
  | nil => intro db k _; rfl
  | cons kp rest ih =>
    intro db k hk
    obtain ⟨k0, p⟩ := kp
    simp only [List.map_cons, List.mem_cons, not_or] at hk
    simp only [importAll]
    rw [ih _ _ hk.2, fetchAtt_importKey_other _ _ _ _ hk.1]

theorem fetchProp_importAll_notin (L : List (Bytes × Protection)) : ∀ (db : Db) (k : Bytes),
    k ∉ L.map (·.1) → fetchProp (importAll db L) k false = fetchProp db k false := by
  induction L with
  | nil => intro db k _; rfl
  | cons kp rest ih =>
    intro db k hk
    obtain ⟨k0, p⟩ := kp
    simp only [List.map_cons, List.mem_cons, not_or] at hk
    simp only [importAll]
    rw [ih _ _ hk.2, fetchProp_importKey_other _ _ _ _ hk.1]

theorem mergeEntries_keys48 (db : Db) (es : List FileEntry) : ∀ (m m' : PMap),
    mergeEntries db m es = some m' → (∀ k p, m.get k = some p → k.length = 48) →
    ∀ k p, m'.get k = some p → k.length = 48 := by
  induction es with
  | nil =>
    intro m m' h hm
    simp only [mergeEntries, Option.some.injEq] at h
    subst h; exact hm
  | cons e rest ih =>
    intro m m' h hm
    obtain ⟨kb, p1, p2, _, _, _, hrest⟩ := mergeEntries_cons db m m' e rest h
    apply ih _ _ hrest
    intro k p hp
    by_cases hk : k = fit48 kb
    · rw [hk]; exact fit48_length kb
    · rw [pget_set_other _ _ _ _ hk] at hp
      exact hm k p hp

/-- for a key the command writes, both records of the key decoded before (the command refuses to run on
    a store it cannot export) and neither is lower afterwards -/
theorem importFile_written_key {gvr : String} {db db' : Db} {f : IFile} (h : importFile gvr db f = .ok db')
    {m : PMap} (hex : exportable db = true) (hm : mergeEntries db [] f.data = some m)
    {k : Bytes} (hk : k ∈ m.final.map (·.1)) :
    ∃ q q', exportKey db k = some q ∧ exportKey db' k = some q' ∧ ProtGe q' q := by
  obtain ⟨kp, hkp, rfl⟩ := List.mem_map.mp hk
  have hget := mem_final_get m kp hkp
  have hlen : kp.1.length = 48 :=
    mergeEntries_keys48 db f.data [] m hm (by intro k p hp; simp [PMap.get] at hp) kp.1 kp.2 hget
  obtain ⟨q, hq, _⟩ := existing_or_default db hex kp.1 hlen
  obtain ⟨q', hq', hge⟩ := import_never_lowers gvr db db' f (rangeOK_any db) h kp.1 q hq
  exact ⟨q, q', hq, hq', hge⟩

/-- **the import command never lowers an attestation record**, whatever the other record of the key is -/
theorem importFile_att_never_lowers {gvr : String} {db db' : Db} {f : IFile}
    (h : importFile gvr db f = .ok db') (k : Bytes) (st : AttState) (h0 : fetchAtt db k false = some st) :
    ∃ st', fetchAtt db' k false = some st' ∧ st.src ≤ st'.src ∧ st.tgt ≤ st'.tgt := by
  obtain ⟨v, g, m, _, _, _, hex, hm, hdb⟩ := importFile_ok gvr db db' f h
  by_cases hk : k ∈ m.final.map (·.1)
  · obtain ⟨q, q', hq, hq', hge⟩ := importFile_written_key h hex hm hk
    have h1 := (exportKey_some hq).1
    rw [h0] at h1
    injection h1 with h1
    subst h1
    refine ⟨⟨q'.src, q'.tgt⟩, (exportKey_some hq').1, ?_, ?_⟩ <;> (unfold ProtGe at hge; simp only; omega)
  · exact ⟨st, by rw [hdb, fetchAtt_importAll_notin _ _ _ hk]; exact h0, Int.le_refl _, Int.le_refl _⟩

/-- **the import command never lowers a proposal record** -/
theorem importFile_prop_never_lowers {gvr : String} {db db' : Db} {f : IFile}
    (h : importFile gvr db f = .ok db') (k : Bytes) (v0 : Int) (h0 : fetchProp db k false = some v0) :
    ∃ v', fetchProp db' k false = some v' ∧ v0 ≤ v' := by
  obtain ⟨v, g, m, _, _, _, hex, hm, hdb⟩ := importFile_ok gvr db db' f h
  by_cases hk : k ∈ m.final.map (·.1)
  · obtain ⟨q, q', hq, hq', hge⟩ := importFile_written_key h hex hm hk
    have h1 := (exportKey_some hq).2
    rw [h0] at h1
    injection h1 with h1
    subst h1
    refine ⟨q'.slot, (exportKey_some hq').2, ?_⟩
    unfold ProtGe at hge; omega
  · exact ⟨v0, by rw [hdb, fetchProp_importAll_notin _ _ _ hk]; exact h0, Int.le_refl _⟩

theorem importFile_covers {gvr : String} {db db' : Db} {f : IFile} (h : importFile gvr db f = .ok db')
    (k : Bytes) (s t : Nat) (hc : Covers db k s t) : Covers db' k s t := by
  obtain ⟨st, h0, _, _, hs, ht⟩ := hc
  obtain ⟨st', h1, h2, h3⟩ := importFile_att_never_lowers h k st h0
  have := fetchAtt_inI64 h1
  exact ⟨st', h1, this.1, this.2, by omega, by omega⟩

theorem importFile_pcovers {gvr : String} {db db' : Db} {f : IFile} (h : importFile gvr db f = .ok db')
    (k : Bytes) (n : Nat) (hc : PCovers db k n) : PCovers db' k n := by
  obtain ⟨v0, h0, _, hn⟩ := hc
  obtain ⟨v', h1, h2⟩ := importFile_prop_never_lowers h k v0 h0
  exact ⟨v', h1, fetchProp_inI64 h1, by omega⟩

/-! ## the operation -/

theorem step_importCmd_frame (s : Inst) (gvr : String) (f : IFile) :
    (step s (.importCmd gvr f)).1.cfg = s.cfg ∧ (step s (.importCmd gvr f)).1.attLog = s.attLog ∧
    (step s (.importCmd gvr f)).1.propLog = s.propLog ∧ (step s (.importCmd gvr f)).1.signLog = s.signLog := by
  simp only [step]
  split <;> exact ⟨rfl, rfl, rfl, rfl⟩

theorem step_importCmd_db (s : Inst) (gvr : String) (f : IFile) :
    (step s (.importCmd gvr f)).1 = s ∨
    ∃ db', importFile gvr s.db f = .ok db' ∧ (step s (.importCmd gvr f)).1 = { s with db := db' } := by
  simp only [step]
  split
  · rename_i db' h; exact Or.inr ⟨db', h, rfl⟩
  · exact Or.inl rfl

/-- the import command keeps the attestation invariant, for every file and every flag -/
theorem step_importCmd_attInv {s : Inst} (h : AttInv s) (gvr : String) (f : IFile) :
    AttInv (step s (.importCmd gvr f)).1 := by
  rcases step_importCmd_db s gvr f with e | ⟨db', hok, e⟩
  · rw [e]; exact h
  · rw [e]; exact attInv_db_only h db' (fun k s' t' hc => importFile_covers hok k s' t' hc)

theorem step_importCmd_propInv {s : Inst} (h : PropInv s) (gvr : String) (f : IFile) :
    PropInv (step s (.importCmd gvr f)).1 := by
  rcases step_importCmd_db s gvr f with e | ⟨db', hok, e⟩
  · rw [e]; exact h
  · rw [e]; exact propInv_db_only h db' (fun k n hc => importFile_pcovers hok k n hc)

end Dirk
