/-
  Dirk.Lemmas.LifeJudge — the lifecycle judge (Dirk.Spec.Lifecycle) never fires on the message-level
  model (Dirk.Model.Dkg): run any list of events on a cluster that starts without generations, feed
  the model's own replies to the judge, and every verdict is "ok".  Core Lean only.

  Invariant: for every instance id `i` and name `a`, the start time of the generation the model
  considers active for `a` at `i` (`mstart`) equals the start time the judge holds for `(i, a)`
  provided it has not expired (`jstart`).  Expired entries may stay behind on either side; they
  never revive because the clock only moves forward (`live_live`).
-/
import Dirk.Model.Dkg
import Dirk.Spec.Lifecycle
import Dirk.Lemmas.DkgLife

namespace Dirk.LifeJudge

open Dirk.Dkg Dirk.Spec.Life

/-! ## expiry of a start time -/

/-- keep a start time only while it has not expired -/
def live (now timeout : Nat) : Option Nat → Option Nat
  | some s => if now - s ≤ timeout then some s else none
  | none => none

/-- expired stays expired: filtering at an earlier time first changes nothing -/
theorem live_live (n d t : Nat) (o : Option Nat) : live (n + d) t (live n t o) = live (n + d) t o := by
  cases o with
  | none => rfl
  | some s =>
    by_cases h : n - s ≤ t
    · simp only [live, h, if_true]
    · have h' : ¬ (n + d - s ≤ t) := by omega
      simp only [live, h, h', if_false]

/-! ## the model side: start time of the active generation -/

/-- start time of the generation instance `i` considers active for `a` -/
def mstart (c : Cluster) (i : Nat) (a : String) : Option Nat := (sessionOf c i a).map (·.started)

/-- start time of the stored entry, expired or not -/
def raw (c : Cluster) (i : Nat) (a : String) : Option Nat :=
  match getInst c i with
  | none => none
  | some x => (x.sessions.lookup a).map (·.started)

theorem mstart_eq_live (c : Cluster) (i : Nat) (a : String) :
    mstart c i a = live c.now c.timeout (raw c i a) := by
  unfold mstart raw sessionOf
  cases hg : getInst c i with
  | none => rfl
  | some x =>
    simp only [active_fst]
    cases hl : x.sessions.lookup a with
    | none => rfl
    | some s =>
      by_cases h : c.now - s.started > c.timeout
      · have h' : ¬ (c.now - s.started ≤ c.timeout) := by omega
        simp only [h, if_true, Option.map, live, h', if_false]
      · have h' : c.now - s.started ≤ c.timeout := by omega
        simp only [h, if_false, Option.map, live, h', if_true]

theorem mstart_tick (c : Cluster) (d i : Nat) (a : String) :
    mstart (tick c d) i a = live (c.now + d) c.timeout (mstart c i a) := by
  rw [mstart_eq_live, mstart_eq_live, live_live]
  rfl

/-- `c'` has the same clock and every (instance, name) reads the same start time -/
structure Same (c c' : Cluster) : Prop where
  now : c'.now = c.now
  timeout : c'.timeout = c.timeout
  start : ∀ k nm, mstart c' k nm = mstart c k nm

theorem Same.refl (c : Cluster) : Same c c := ⟨rfl, rfl, fun _ _ => rfl⟩

theorem Same.trans {c c' c'' : Cluster} (h : Same c c') (h' : Same c' c'') : Same c c'' :=
  ⟨h'.now.trans h.now, h'.timeout.trans h.timeout, fun k nm => (h'.start k nm).trans (h.start k nm)⟩

/-- `c'` has the same clock and reads the same everywhere except `v` for `(i, acct)` -/
structure Upd (c c' : Cluster) (i : Nat) (acct : String) (v : Option Nat) : Prop where
  now : c'.now = c.now
  timeout : c'.timeout = c.timeout
  start : ∀ k nm, mstart c' k nm = if k = i ∧ nm = acct then v else mstart c k nm

theorem mstart_setInst {c : Cluster} {i : Nat} {x x' : DInst} (hi : getInst c i = some x) (hid : x'.id = i)
    (k : Nat) (nm : String) :
    mstart (setInst c x') k nm = if k = i then ((active c x' nm).1).map (·.started) else mstart c k nm := by
  unfold mstart
  rw [sessionOf_setInst hi hid]
  split <;> rfl

theorem mstart_of_inst {c : Cluster} {i : Nat} {x : DInst} (hi : getInst c i = some x) (nm : String) :
    mstart c i nm = ((active c x nm).1).map (·.started) := by
  unfold mstart
  rw [sessionOf_eq hi]

theorem same_setInst {c : Cluster} {i : Nat} {x : DInst} (x' : DInst) (hi : getInst c i = some x) (hid : x'.id = i)
    (hv : ∀ nm, ((active c x' nm).1).map (·.started) = ((active c x nm).1).map (·.started)) :
    Same c (setInst c x') := by
  refine ⟨rfl, rfl, fun k nm => ?_⟩
  rw [mstart_setInst hi hid]
  by_cases hk : k = i
  · subst hk
    rw [if_pos rfl, hv, mstart_of_inst hi]
  · rw [if_neg hk]

theorem same_clean {c : Cluster} {i : Nat} {x : DInst} (acct : String) (hi : getInst c i = some x) :
    Same c (setInst c (active c x acct).2) :=
  same_setInst _ hi ((active_snd_id c x acct).trans (getInst_id hi))
    (fun nm => by rw [active_active])

/-- what `active` returning a session means -/
theorem active_some {c : Cluster} {x : DInst} {acct : String} {s : Session} (h : (active c x acct).1 = some s) :
    x.sessions.lookup acct = some s ∧ (active c x acct).2 = x := by
  unfold active at h ⊢
  cases hl : x.sessions.lookup acct with
  | none => rw [hl] at h; cases h
  | some s' =>
    rw [hl] at h
    simp only at h ⊢
    by_cases he : c.now - s'.started > c.timeout
    · rw [if_pos he] at h; cases h
    · rw [if_neg he] at h ⊢
      cases h
      exact ⟨rfl, rfl⟩

/-- overwriting a stored entry by one with the same start time changes no start time -/
theorem same_put_raw {c : Cluster} {i : Nat} {x : DInst} {acct : String} {s : Session} (s' : Session)
    (hi : getInst c i = some x) (hl : x.sessions.lookup acct = some s) (hs : s'.started = s.started) :
    Same c (setInst c (putSession x acct s')) := by
  have hid0 : x.id = i := getInst_id hi
  have hid : (putSession x acct s').id = i := hid0
  refine same_setInst _ hi hid ?_
  intro nm
  rw [active_putSession]
  by_cases hn : nm = acct
  · subst hn
    rw [if_pos rfl, active_fst, hl]
    simp only [hs]
    split
    · rfl
    · simp only [Option.map, hs]
  · rw [if_neg hn]

/-! ## the handlers that never start or end a generation -/

theorem contribute_same (c : Cluster) (j caller : Nat) (acct : String) (valid : Bool) (vlen : Nat) :
    Same c (onContribute c j caller acct valid vlen).1 := by
  by_cases hp : senderId c caller = 0
  · simp only [onContribute, hp, if_true]; exact Same.refl _
  · cases hi : getInst c j with
    | none => simp only [onContribute, hp, if_false, hi]; exact Same.refl _
    | some x =>
      rw [onContribute_eq acct valid vlen hp hi]
      cases hv : (active c x acct).1 with
      | none => exact same_clean acct hi
      | some s =>
        simp only
        split
        · exact same_clean acct hi
        · split
          · exact same_clean acct hi
          · split
            · exact same_clean acct hi
            · obtain ⟨hl, hx⟩ := active_some hv
              rw [hx]
              exact same_put_raw _ hi hl rfl

theorem swap_same (c : Cluster) (i j : Nat) (acct : String) (si : Session) :
    Same c (swap c i j acct si).1 := by
  unfold swap
  split
  · exact Same.refl _
  · split
    · exact Same.refl _
    · have h1 := contribute_same c j i acct true si.threshold
      rcases hoc : onContribute c j i acct true si.threshold with ⟨c1, r⟩
      rw [hoc] at h1
      simp only
      split
      · exact h1
      · split
        · exact h1
        · split
          · exact h1
          · split
            · exact h1
            · rename_i xi hxi
              split
              · exact h1
              · split
                · exact h1
                · rename_i s hs _
                  exact h1.trans (same_put_raw _ hxi hs rfl)

theorem swaps_same (acct : String) (i : Nat) (si : Session) (l : List Nat) :
    ∀ c, Same c (swaps acct i si c l).1 := by
  induction l with
  | nil => intro c; exact Same.refl _
  | cons j rest ih =>
    intro c
    have h1 := swap_same c i j acct si
    unfold swaps
    rcases hsw : swap c i j acct si with ⟨c', ok⟩
    rw [hsw] at h1
    simp only
    cases ok with
    | false => exact h1
    | true => exact h1.trans (ih c')

theorem execute_same (c : Cluster) (i caller : Nat) (acct : String) :
    Same c (onExecute c i caller acct).1 := by
  by_cases hp : senderId c caller = 0
  · simp only [onExecute, hp, if_true]; exact Same.refl _
  · cases hi : getInst c i with
    | none => simp only [onExecute, hp, if_false, hi]; exact Same.refl _
    | some x =>
      rw [onExecute_eq acct hp hi]
      cases (active c x acct).1 with
      | none => exact same_clean acct hi
      | some s => exact (same_clean acct hi).trans (swaps_same acct i s _ _)

/-- an accepted execute / contribute found an active generation -/
theorem accepted_needs_active (c : Cluster) (i caller : Nat) (acct : String) (valid : Bool) (vlen : Nat) :
    ((onExecute c i caller acct).2 = .ok → (mstart c i acct).isSome = true) ∧
    ((onContribute c i caller acct valid vlen).2 = .ok → (mstart c i acct).isSome = true) ∧
    ((onCommit c i caller acct).2 = .ok → (mstart c i acct).isSome = true) ∧
    ((onAbort c i caller acct).2 = .ok → (mstart c i acct).isSome = true) := by
  cases hs : sessionOf c i acct with
  | none =>
    obtain ⟨h1, h2, h3, h4⟩ := requires_active c i caller acct valid vlen hs
    exact ⟨fun h => absurd h h1, fun h => absurd h h2, fun h => absurd h h3, fun h => absurd h h4⟩
  | some s =>
    have : (mstart c i acct).isSome = true := by simp [mstart, hs]
    exact ⟨fun _ => this, fun _ => this, fun _ => this, fun _ => this⟩

/-! ## the handlers that start or end one -/

theorem prepare_spec (c : Cluster) (i caller : Nat) (acct : String) (t : Nat) (parts : List Nat) :
    ((onPrepare c i caller acct t parts).2 ≠ .ok ∧ Same c (onPrepare c i caller acct t parts).1) ∨
    ((onPrepare c i caller acct t parts).2 = .ok ∧ mstart c i acct = none ∧
      Upd c (onPrepare c i caller acct t parts).1 i acct (some c.now)) := by
  by_cases hp : senderId c caller = 0
  · left
    simp only [onPrepare, hp, if_true]
    exact ⟨by simp, Same.refl _⟩
  · cases hi : getInst c i with
    | none =>
      left
      simp only [onPrepare, hp, if_false, hi]
      exact ⟨by simp, Same.refl _⟩
    | some x =>
      rw [onPrepare_eq acct t parts hp hi]
      cases hv : (active c x acct).1 with
      | some s => left; exact ⟨by simp, same_clean acct hi⟩
      | none =>
        right
        have hid : (active c x acct).2.id = i := (active_snd_id c x acct).trans (getInst_id hi)
        refine ⟨rfl, by rw [mstart_of_inst hi, hv]; rfl, rfl, rfl, fun k nm => ?_⟩
        show mstart (setInst c (putSession (active c x acct).2 acct _)) k nm = _
        rw [mstart_setInst (x' := putSession (active c x acct).2 acct _) hi hid, active_putSession]
        by_cases hk : k = i
        · subst hk
          by_cases hn : nm = acct
          · subst hn
            simp
          · simp only [hn, if_false, and_false, if_true]
            rw [active_active, mstart_of_inst hi]
        · simp only [hk, if_false, false_and]

theorem drop_upd {c : Cluster} {i : Nat} {x : DInst} (acct : String) (x' : DInst) (hi : getInst c i = some x)
    (hid : x'.id = i) (hs : x'.sessions = (dropSession (active c x acct).2 acct).sessions) :
    Upd c (setInst c x') i acct none := by
  refine ⟨rfl, rfl, fun k nm => ?_⟩
  rw [mstart_setInst hi hid, active_fst_congr c x' (dropSession (active c x acct).2 acct) nm hs,
    active_dropSession]
  by_cases hk : k = i
  · subst hk
    by_cases hn : nm = acct
    · subst hn
      simp
    · simp only [hn, if_false, and_false, if_true]
      rw [active_active, mstart_of_inst hi]
  · simp only [hk, if_false, false_and]

theorem commit_spec (c : Cluster) (i caller : Nat) (acct : String) :
    ((onCommit c i caller acct).2 ≠ .ok ∧ Same c (onCommit c i caller acct).1) ∨
    ((onCommit c i caller acct).2 = .ok ∧ Upd c (onCommit c i caller acct).1 i acct none) := by
  by_cases h : (onCommit c i caller acct).2 = .ok
  · right
    refine ⟨h, ?_⟩
    obtain ⟨x, s, hi, _, _, hc⟩ := commit_ok_spec h
    rw [hc]
    exact drop_upd acct _ hi ((active_snd_id c x acct).trans (getInst_id hi)) rfl
  · left
    refine ⟨h, ?_⟩
    by_cases hp : senderId c caller = 0
    · simp only [onCommit, hp, if_true]; exact Same.refl _
    · cases hi : getInst c i with
      | none => simp only [onCommit, hp, if_false, hi]; exact Same.refl _
      | some x =>
        rw [onCommit_eq acct hp hi] at h ⊢
        cases hv : (active c x acct).1 with
        | none => exact same_clean acct hi
        | some s =>
          rw [hv] at h
          simp only at h ⊢
          split
          · exact same_clean acct hi
          · split
            · exact same_clean acct hi
            · split
              · exact same_clean acct hi
              · split
                · exact same_clean acct hi
                · rename_i h1 h2 h3 h4
                  rw [if_neg h1, if_neg h2, if_neg h3, if_neg h4] at h
                  exact absurd rfl h

theorem abort_spec (c : Cluster) (i caller : Nat) (acct : String) :
    ((onAbort c i caller acct).2 ≠ .ok ∧ Same c (onAbort c i caller acct).1) ∨
    ((onAbort c i caller acct).2 = .ok ∧ Upd c (onAbort c i caller acct).1 i acct none) := by
  by_cases hp : senderId c caller = 0
  · left
    simp only [onAbort, hp, if_true]
    exact ⟨by simp, Same.refl _⟩
  · cases hi : getInst c i with
    | none =>
      left
      simp only [onAbort, hp, if_false, hi]
      exact ⟨by simp, Same.refl _⟩
    | some x =>
      rw [onAbort_eq acct hp hi]
      cases hv : (active c x acct).1 with
      | none => left; exact ⟨by simp, same_clean acct hi⟩
      | some s =>
        right
        exact ⟨rfl, drop_upd acct _ hi ((active_snd_id c x acct).trans (getInst_id hi)) rfl⟩

/-! ## the judge side -/

/-- start time the judge holds for `k`, if not expired -/
def jstart (j : JState) (k : Nat × String) : Option Nat := live j.now j.timeout (j.started.lookup k)

theorem isActive_eq (j : JState) (k : Nat × String) : isActive j k = (jstart j k).isSome := by
  unfold isActive jstart
  cases j.started.lookup k with
  | none => rfl
  | some s =>
    by_cases h : j.now - s ≤ j.timeout
    · simp only [live, h, if_true, decide_true, Option.isSome]
    · simp only [live, h, if_false, decide_false, Option.isSome]

theorem lookup_filter_key {α β : Type} [BEq α] [LawfulBEq α] [DecidableEq α] (l : List (α × β)) (k k' : α) :
    (l.filter (fun e => e.1 != k)).lookup k' = if k' = k then none else l.lookup k' := by
  induction l with
  | nil => simp [List.lookup]
  | cons p l ih =>
    obtain ⟨a, s⟩ := p
    by_cases ha : a = k
    · subst ha
      rw [List.filter_cons_of_neg (by simp), ih]
      by_cases hn : k' = a
      · simp [hn]
      · have : (k' == a) = false := by simp [hn]
        simp [hn, List.lookup_cons, this]
    · rw [List.filter_cons_of_pos (by simp [ha])]
      by_cases hn : k' = k
      · subst hn
        have : (k' == a) = false := by simp; exact fun h => ha h.symm
        simp [List.lookup_cons, this, ih]
      · by_cases hna : k' = a
        · have : (k' == a) = true := by simp [hna]
          simp [List.lookup_cons, this, hn]
        · have : (k' == a) = false := by simp [hna]
          simp [List.lookup_cons, this, hn, ih]

theorem jstart_clear (j : JState) (k k' : Nat × String) :
    jstart (clear j k) k' = if k' = k then none else jstart j k' := by
  unfold jstart clear
  simp only [lookup_filter_key]
  by_cases h : k' = k
  · simp only [h, if_true, live]
  · simp only [h, if_false]

theorem jstart_start (j : JState) (k k' : Nat × String) :
    jstart (start j k) k' = if k' = k then some j.now else jstart j k' := by
  unfold jstart start clear
  simp only [List.lookup_cons, lookup_filter_key]
  by_cases h : k' = k
  · subst h
    simp [live]
  · have : (k' == k) = false := by simp [h]
    simp only [this, h, if_false]

theorem jstart_advance (j : JState) (d : Nat) (k : Nat × String) :
    jstart (advance j d) k = live (j.now + d) j.timeout (jstart j k) := by
  unfold jstart advance
  simp only [live_live]

theorem judge_rejected (j : JState) (m : Msg) (i : Nat) (a : String) : judge j m i a false = (j, "ok") := by
  simp [judge]

theorem judge_prepare (j : JState) (i : Nat) (a : String) (h : isActive j (i, a) = false) :
    judge j .prepare i a true = (start j (i, a), "ok") := by
  simp [judge, h]

theorem judge_execute (j : JState) (i : Nat) (a : String) (h : isActive j (i, a) = true) :
    judge j .execute i a true = (j, "ok") := by
  simp [judge, h]

theorem judge_contribute (j : JState) (i : Nat) (a : String) (h : isActive j (i, a) = true) :
    judge j .contribute i a true = (j, "ok") := by
  simp [judge, h]

theorem judge_commit (j : JState) (i : Nat) (a : String) (h : isActive j (i, a) = true) :
    judge j .commit i a true = (clear j (i, a), "ok") := by
  simp [judge, h]

theorem judge_abort (j : JState) (i : Nat) (a : String) (h : isActive j (i, a) = true) :
    judge j .abort i a true = (clear j (i, a), "ok") := by
  simp [judge, h]

/-! ## model and judge side by side -/

/-- the judge and the model agree on the clock and on every live start time -/
structure Inv (c : Cluster) (j : JState) : Prop where
  now : j.now = c.now
  timeout : j.timeout = c.timeout
  agree : ∀ i a, jstart j (i, a) = mstart c i a

theorem Inv.same {c c' : Cluster} {j : JState} (h : Inv c j) (hs : Same c c') : Inv c' j :=
  ⟨h.now.trans hs.now.symm, h.timeout.trans hs.timeout.symm, fun i a => (h.agree i a).trans (hs.start i a).symm⟩

theorem Inv.isActive {c : Cluster} {j : JState} (h : Inv c j) (i : Nat) (a : String) :
    isActive j (i, a) = (mstart c i a).isSome := by
  rw [isActive_eq, h.agree]

theorem Inv.started {c c' : Cluster} {j : JState} {i : Nat} {a : String} (h : Inv c j)
    (hu : Upd c c' i a (some c.now)) : Inv c' (start j (i, a)) := by
  refine ⟨h.now.trans hu.now.symm, h.timeout.trans hu.timeout.symm, fun i' a' => ?_⟩
  rw [jstart_start, hu.start, h.agree, h.now]
  simp only [Prod.mk.injEq]

theorem Inv.cleared {c c' : Cluster} {j : JState} {i : Nat} {a : String} (h : Inv c j)
    (hu : Upd c c' i a none) : Inv c' (clear j (i, a)) := by
  refine ⟨h.now.trans hu.now.symm, h.timeout.trans hu.timeout.symm, fun i' a' => ?_⟩
  rw [jstart_clear, hu.start, h.agree]
  simp only [Prod.mk.injEq]

theorem Inv.tick {c : Cluster} {j : JState} (h : Inv c j) (d : Nat) : Inv (tick c d) (advance j d) := by
  refine ⟨?_, h.timeout, fun i a => ?_⟩
  · show j.now + d = c.now + d
    rw [h.now]
  · rw [jstart_advance, mstart_tick, h.agree, h.now, h.timeout]

/-- events of a run: the five handler calls and clock advances -/
inductive Ev where
  | prepare (i caller : Nat) (acct : String) (t : Nat) (parts : List Nat)
  | execute (i caller : Nat) (acct : String)
  | contribute (i caller : Nat) (acct : String) (valid : Bool) (vlen : Nat)
  | commit (i caller : Nat) (acct : String)
  | abort (i caller : Nat) (acct : String)
  | tick (d : Nat)
  deriving Repr, Inhabited

/-- what the harness tells the judge: was the reply `ok`? -/
def accepted (r : Reply) : Bool := r == .ok

/-- one step of model + judge: the model handles the event, the judge reads the model's reply;
    returns the new cluster, the new judge state and the verdict -/
def stepBoth (c : Cluster) (j : JState) : Ev → Cluster × JState × String
  | .prepare i caller acct t parts =>
    ((onPrepare c i caller acct t parts).1,
      judge j .prepare i acct (accepted (onPrepare c i caller acct t parts).2))
  | .execute i caller acct =>
    ((onExecute c i caller acct).1, judge j .execute i acct (accepted (onExecute c i caller acct).2))
  | .contribute i caller acct valid vlen =>
    ((onContribute c i caller acct valid vlen).1,
      judge j .contribute i acct (accepted (onContribute c i caller acct valid vlen).2))
  | .commit i caller acct =>
    ((onCommit c i caller acct).1, judge j .commit i acct (accepted (onCommit c i caller acct).2))
  | .abort i caller acct =>
    ((onAbort c i caller acct).1, judge j .abort i acct (accepted (onAbort c i caller acct).2))
  | .tick d => (tick c d, advance j d, "ok")

/-- the verdicts of a whole run -/
def runBoth : Cluster → JState → List Ev → List String
  | _, _, [] => []
  | c, j, e :: es => (stepBoth c j e).2.2 :: runBoth (stepBoth c j e).1 (stepBoth c j e).2.1 es

theorem accepted_of_ok {r : Reply} (h : r = .ok) : accepted r = true := by
  subst h; rfl

theorem accepted_of_not_ok {r : Reply} (h : r ≠ .ok) : accepted r = false := by
  cases r <;> first | rfl | exact absurd rfl h

/-- `accepted` is what the driver feeds the judge (`acc == "ok"` on the reply string) -/
theorem accepted_eq_toStr (r : Reply) : accepted r = (r.toStr == "ok") := by
  cases r <;> simp [accepted, Reply.toStr]

/-- one step keeps the invariant and the verdict is "ok" -/
theorem step_sound {c : Cluster} {j : JState} (h : Inv c j) (e : Ev) :
    Inv (stepBoth c j e).1 (stepBoth c j e).2.1 ∧ (stepBoth c j e).2.2 = "ok" := by
  cases e with
  | prepare i caller acct t parts =>
    simp only [stepBoth]
    rcases prepare_spec c i caller acct t parts with ⟨hr, hs⟩ | ⟨hr, hn, hu⟩
    · rw [accepted_of_not_ok hr, judge_rejected]
      exact ⟨h.same hs, rfl⟩
    · rw [accepted_of_ok hr, judge_prepare j i acct (by rw [h.isActive, hn]; rfl)]
      exact ⟨h.started hu, rfl⟩
  | execute i caller acct =>
    simp only [stepBoth]
    have hs := execute_same c i caller acct
    by_cases hr : (onExecute c i caller acct).2 = .ok
    · have ha := (accepted_needs_active c i caller acct true 0).1 hr
      rw [accepted_of_ok hr, judge_execute j i acct (by rw [h.isActive, ha])]
      exact ⟨h.same hs, rfl⟩
    · rw [accepted_of_not_ok hr, judge_rejected]
      exact ⟨h.same hs, rfl⟩
  | contribute i caller acct valid vlen =>
    simp only [stepBoth]
    have hs := contribute_same c i caller acct valid vlen
    by_cases hr : (onContribute c i caller acct valid vlen).2 = .ok
    · have ha := (accepted_needs_active c i caller acct valid vlen).2.1 hr
      rw [accepted_of_ok hr, judge_contribute j i acct (by rw [h.isActive, ha])]
      exact ⟨h.same hs, rfl⟩
    · rw [accepted_of_not_ok hr, judge_rejected]
      exact ⟨h.same hs, rfl⟩
  | commit i caller acct =>
    simp only [stepBoth]
    rcases commit_spec c i caller acct with ⟨hr, hs⟩ | ⟨hr, hu⟩
    · rw [accepted_of_not_ok hr, judge_rejected]
      exact ⟨h.same hs, rfl⟩
    · have ha := (accepted_needs_active c i caller acct true 0).2.2.1 hr
      rw [accepted_of_ok hr, judge_commit j i acct (by rw [h.isActive, ha])]
      exact ⟨h.cleared hu, rfl⟩
  | abort i caller acct =>
    simp only [stepBoth]
    rcases abort_spec c i caller acct with ⟨hr, hs⟩ | ⟨hr, hu⟩
    · rw [accepted_of_not_ok hr, judge_rejected]
      exact ⟨h.same hs, rfl⟩
    · have ha := (accepted_needs_active c i caller acct true 0).2.2.2 hr
      rw [accepted_of_ok hr, judge_abort j i acct (by rw [h.isActive, ha])]
      exact ⟨h.cleared hu, rfl⟩
  | tick d => exact ⟨h.tick d, rfl⟩

/-- from any state where judge and model agree, every verdict of every run is "ok" -/
theorem run_sound (evs : List Ev) : ∀ (c : Cluster) (j : JState), Inv c j → ∀ v ∈ runBoth c j evs, v = "ok" := by
  induction evs with
  | nil => intro c j _ v hv; simp [runBoth] at hv
  | cons e es ih =>
    intro c j h v hv
    obtain ⟨hi, hok⟩ := step_sound h e
    simp only [runBoth, List.mem_cons] at hv
    rcases hv with hv | hv
    · rw [hv, hok]
    · exact ih _ _ hi v hv

/-- a cluster without generations agrees with the fresh judge -/
theorem inv_init (c0 : Cluster) (hfresh : ∀ x ∈ c0.insts, x.sessions = []) :
    Inv c0 { timeout := c0.timeout, now := c0.now } := by
  refine ⟨rfl, rfl, fun i a => ?_⟩
  rw [mstart_eq_live]
  unfold jstart raw
  cases hg : getInst c0 i with
  | none => rfl
  | some x =>
    have hx : x ∈ c0.insts := by
      unfold getInst at hg
      exact List.mem_of_find?_eq_some hg
    simp only [hfresh x hx]
    rfl

/-- the judge is sound with respect to the model: whatever events are run on a cluster that starts
    without generations, every verdict on the model's own replies is "ok".  (Distinct instance ids
    are not needed: `getInst` / `setInst` act on the first instance with a given id in either case.) -/
theorem judge_sound' (c0 : Cluster) (evs : List Ev) (hfresh : ∀ x ∈ c0.insts, x.sessions = []) :
    ∀ v ∈ runBoth c0 { timeout := c0.timeout, now := c0.now } evs, v = "ok" :=
  run_sound evs c0 _ (inv_init c0 hfresh)

/-- the statement as requested (`hnodup` is not used) -/
theorem judge_sound (c0 : Cluster) (evs : List Ev)
    (hfresh : ∀ x ∈ c0.insts, x.sessions = []) (_hnodup : (c0.insts.map (·.id)).Nodup) :
    ∀ v ∈ runBoth c0 { timeout := c0.timeout, now := c0.now } evs, v = "ok" :=
  judge_sound' c0 evs hfresh

/-- the clusters the driver builds (`insts := ids.map (fun i => {id := i})`) start without generations -/
theorem driver_init_fresh (ids peers : List Nat) (timeout : Nat) :
    ∀ x ∈ ({ insts := ids.map (fun i => ({ id := i } : DInst)), peers := peers, timeout := timeout } : Cluster).insts,
      x.sessions = [] := by
  intro x hx
  simp only [List.mem_map] at hx
  obtain ⟨i, _, rfl⟩ := hx
  rfl

theorem driver_init_nodup (ids peers : List Nat) (timeout : Nat) (h : ids.Nodup) :
    (({ insts := ids.map (fun i => ({ id := i } : DInst)), peers := peers, timeout := timeout } : Cluster).insts.map
      (·.id)).Nodup := by
  simp only [List.map_map]
  have : ((fun x : DInst => x.id) ∘ fun i => ({ id := i } : DInst)) = id := rfl
  rw [this, List.map_id]
  exact h

/-- soundness for every cluster the driver builds -/
theorem judge_sound_driver (ids peers : List Nat) (timeout : Nat) (evs : List Ev) :
    ∀ v ∈ runBoth { insts := ids.map (fun i => ({ id := i } : DInst)), peers := peers, timeout := timeout }
      { timeout := timeout, now := 0 } evs, v = "ok" :=
  judge_sound' _ evs (driver_init_fresh ids peers timeout)

/-- the hypotheses hold on a concrete cluster (the one of the C17 check) … -/
example :
    let c0 : Cluster := { insts := [{ id := 1 }, { id := 2 }, { id := 3 }, { id := 5 }], peers := [1, 2, 3, 5], timeout := 1000 }
    (∀ x ∈ c0.insts, x.sessions = []) ∧ (c0.insts.map (·.id)).Nodup := by
  refine ⟨driver_init_fresh [1, 2, 3, 5] [1, 2, 3, 5] 1000, ?_⟩
  decide

/-- … and the statement is not vacuous there: the model does accept messages, so the judge's
    `accepted` branches are exercised (replies are `Reply` values, no string comparison involved) -/
example :
    let c0 : Cluster := { insts := [{ id := 1 }, { id := 2 }], peers := [1, 2], timeout := 10 }
    accepted (onPrepare c0 1 2 "DW/a" 2 [1, 2]).2 = true ∧
      accepted (onAbort (onPrepare c0 1 2 "DW/a" 2 [1, 2]).1 1 2 "DW/a").2 = true ∧
      accepted (onAbort c0 1 2 "DW/a").2 = false := by
  decide

end Dirk.LifeJudge
