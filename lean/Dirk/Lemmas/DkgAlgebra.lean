/-
  Dirk.Lemmas.DkgAlgebra — the algebra behind Feldman-VSS distributed key generation and threshold
  recovery, over an arbitrary field `F` (scalar field) and an arbitrary `F`-module `G` (the curve
  group written additively).
-/
import Mathlib.LinearAlgebra.Lagrange

namespace Dirk.Dkg

open Polynomial BigOperators

variable {F : Type*} [Field F] {G : Type*} [AddCommGroup G] [Module F G]

/-- the value a receiver computes from a commitment vector `c` (length `t`) at point `x` -/
def evalCommit (t : ℕ) (c : ℕ → G) (x : F) : G := ∑ k ∈ Finset.range t, x ^ k • c k

/-- a share `f(x)` verifies against the commitments `coeff k • g` of its polynomial -/
theorem verify_single (g : G) (f : F[X]) (t : ℕ) (hf : f.natDegree < t) (x : F) :
    evalCommit t (fun k => f.coeff k • g) x = f.eval x • g := by
  unfold evalCommit
  rw [eval_eq_sum_range' hf, Finset.sum_smul]
  refine Finset.sum_congr rfl fun k _ => ?_
  rw [smul_smul, mul_comm]

/-- aggregated share vs aggregated verification vector, for any finite set of participants -/
theorem share_consistent {ι : Type*} (P : Finset ι) (f : ι → F[X]) (t : ℕ)
    (hf : ∀ i ∈ P, (f i).natDegree < t) (g : G) (x : F) :
    evalCommit t (fun k => ∑ i ∈ P, (f i).coeff k • g) x = (∑ i ∈ P, (f i).eval x) • g := by
  rw [Finset.sum_smul]
  unfold evalCommit
  simp only [Finset.smul_sum]
  rw [Finset.sum_comm]
  refine Finset.sum_congr rfl fun i hi => ?_
  rw [← verify_single g (f i) t (hf i hi) x]
  rfl

/-- the first entry of the aggregated vector is the group public key -/
theorem group_key {ι : Type*} (P : Finset ι) (f : ι → F[X]) (g : G) :
    (∑ i ∈ P, (f i).coeff 0 • g) = (∑ i ∈ P, (f i).eval 0) • g := by
  rw [Finset.sum_smul]
  refine Finset.sum_congr rfl fun i _ => ?_
  rw [coeff_zero_eq_eval_zero]

/- `Lagrange.basis` is defined through `Finset.erase`, hence needs decidable equality on the index
   type, here `F` itself (identifiers are field elements). Stated with an arbitrary instance. -/
variable [DecidableEq F]

/-- interpolation at `0` written as a weighted sum of the values -/
theorem eval_zero_interpolate (T : Finset F) (r : F → F) :
    (Lagrange.interpolate T id r).eval 0 = ∑ j ∈ T, (Lagrange.basis T id j).eval 0 * r j := by
  rw [Lagrange.interpolate_apply, eval_finsetSum]
  refine Finset.sum_congr rfl fun j _ => ?_
  rw [eval_mul, eval_C, mul_comm]

/-- the scalar version: the recovered secret itself -/
theorem recover_scalar (p : F[X]) (t : ℕ) (hp : p.natDegree < t) (T : Finset F) (hT : T.card = t) :
    ∑ j ∈ T, (Lagrange.basis T id j).eval 0 * p.eval j = p.eval 0 := by
  have hdeg : p.degree < T.card := by
    rw [hT]
    exact lt_of_le_of_lt degree_le_natDegree (by exact_mod_cast hp)
  have h := Lagrange.eq_interpolate (s := T) (v := id) Function.injective_id.injOn hdeg
  rw [← eval_zero_interpolate T (fun j => p.eval j)]
  exact congrArg (eval 0) h.symm

/-- non-vacuity: `p = 3 + 2X` shared to identifiers `1, 2` (threshold 2) recovers `3` -/
example :
    ∑ j ∈ ({1, 2} : Finset ℚ),
        (Lagrange.basis ({1, 2} : Finset ℚ) id j).eval 0 * (C 3 + C 2 * X : ℚ[X]).eval j = 3 := by
  have hdeg : (C 3 + C 2 * X : ℚ[X]).natDegree < 2 := by
    have : (C 3 + C 2 * X : ℚ[X]).natDegree ≤ 1 := by
      rw [add_comm]; exact natDegree_linear_le
    omega
  have hcard : ({1, 2} : Finset ℚ).card = 2 := by
    rw [Finset.card_pair]; norm_num
  rw [recover_scalar _ 2 hdeg _ hcard]
  simp

/-- any `t` distinct identifiers recover the group secret applied to any point `h`
    (threshold signature recovery): Lagrange interpolation at 0 -/
theorem recover {ι : Type*} (P : Finset ι) (f : ι → F[X]) (t : ℕ)
    (hf : ∀ i ∈ P, (f i).natDegree < t) (T : Finset F) (hT : T.card = t) (h : G) :
    ∑ j ∈ T, (Lagrange.basis T id j).eval 0 • ((∑ i ∈ P, (f i).eval j) • h)
      = (∑ i ∈ P, (f i).eval 0) • h := by
  simp only [Finset.sum_smul, Finset.smul_sum, smul_smul]
  rw [Finset.sum_comm]
  refine Finset.sum_congr rfl fun i hi => ?_
  rw [← Finset.sum_smul, recover_scalar (f i) t (hf i hi) T hT]

/-- fewer than threshold do not recover: with t-1 non-zero identifiers and a polynomial of degree
    exactly t-1, interpolation at 0 misses the secret -/
theorem fewer_fail (p : F[X]) (T : Finset F) (h0 : ∀ x ∈ T, x ≠ 0) (hdeg : p.natDegree = T.card)
    (hp : p ≠ 0) :
    ∑ j ∈ T, (Lagrange.basis T id j).eval 0 * p.eval j ≠ p.eval 0 := by
  set q : F[X] := Lagrange.interpolate T id (fun j => p.eval j) with hq
  have hinj : Set.InjOn (id : F → F) (T : Set F) := Function.injective_id.injOn
  have hqdeg : q.degree < T.card := Lagrange.degree_interpolate_lt _ hinj
  have hpdeg : p.degree = T.card := by
    rw [degree_eq_natDegree hp, hdeg]
  have hqp : q.degree < p.degree := by rw [hpdeg]; exact hqdeg
  have hlc : p.leadingCoeff ≠ 0 := leadingCoeff_ne_zero.mpr hp
  -- `p - q` and `lc(p) * nodal` agree
  have hkey : p - q = C p.leadingCoeff * Lagrange.nodal T id := by
    refine eq_of_degree_le_of_eval_finset_eq T ?_ ?_ ?_ ?_
    · rw [degree_sub_eq_left_of_degree_lt hqp, hpdeg]
    · rw [degree_sub_eq_left_of_degree_lt hqp, hpdeg, degree_C_mul hlc, Lagrange.degree_nodal]
    · rw [leadingCoeff_sub_of_degree_lt hqp, leadingCoeff_mul, leadingCoeff_C,
        Lagrange.nodal_monic.leadingCoeff, mul_one]
    · intro x hx
      rw [eval_sub, eval_mul, hq]
      have h1 := Lagrange.eval_interpolate_at_node (fun j => p.eval j) hinj hx
      have h2 := Lagrange.eval_nodal_at_node (v := (id : F → F)) hx
      simp only [id] at h1 h2
      rw [h1, h2]
      simp
  have hval : p.eval 0 - q.eval 0 = p.leadingCoeff * ∏ x ∈ T, (0 - x) := by
    have := congrArg (eval 0) hkey
    rw [eval_sub, eval_mul, eval_C, Lagrange.eval_nodal] at this
    simpa using this
  have hprod : (∏ x ∈ T, (0 - x) : F) ≠ 0 := by
    rw [Finset.prod_ne_zero_iff]
    intro x hx
    rw [zero_sub]
    exact neg_ne_zero.mpr (h0 x hx)
  rw [← eval_zero_interpolate T (fun j => p.eval j), ← hq]
  intro hcontra
  rw [hcontra, sub_self] at hval
  exact mul_ne_zero hlc hprod hval.symm

/-- aggregation does not depend on the order in which contributions arrive -/
theorem aggregate_perm {α : Type*} (l l' : List α) (hperm : l.Perm l') (v : α → G) :
    (l.map v).sum = (l'.map v).sum :=
  (hperm.map v).sum_eq

/-- two quorums of size ≥ t among n participants intersect when 2t > n -/
theorem quorum_intersect {α : Type*} [DecidableEq α] (U S₁ S₂ : Finset α) (h₁ : S₁ ⊆ U)
    (h₂ : S₂ ⊆ U) (t : ℕ) (ht : U.card < 2 * t) (c₁ : t ≤ S₁.card) (c₂ : t ≤ S₂.card) :
    (S₁ ∩ S₂).Nonempty := by
  have hu : (S₁ ∪ S₂).card ≤ U.card := Finset.card_le_card (Finset.union_subset h₁ h₂)
  have hc := Finset.card_union_add_card_inter S₁ S₂
  rw [← Finset.card_pos]
  omega

end Dirk.Dkg
