/-
  Dirk.Lemmas.ConcProgress — liveness of the lock protocol modelled in Dirk.Model.Conc:
  deadlock-freedom (`progress`), termination (`measure_decreases`, `exec_length_le`), completion
  (`completes`), and a witness that without the locker-wide critical section the protocol can
  deadlock (`needs_global`).  Core Lean only.
-/
import Dirk.Lemmas.ConcSafety
namespace Dirk.Conc
variable {Val : Type}

/-- **progress**: in every state satisfying the invariant, unless every request is done, some thread
    can take a step (no combination of requests leaves requests waiting on each other forever) -/
theorem progress {s : CState Val} (h : Inv s) (hnd : ¬ AllDone s) : ∃ t l s', Step s t l s' := by
  by_cases hU : ∃ (t : Tid) (x : TState Val) (u : Nat), s.ts[t]? = some x ∧ x.pc = .unlocking u
  · rcases hU with ⟨t, x, u, hx, hpc⟩
    cases u with
    | zero => exact ⟨t, _, _, Step.finish hx hpc⟩
    | succ u =>
      have hle := (h.wf t x hx).2.2.2 _ hpc
      have hlt : u < x.req.keys.length := by omega
      exact ⟨t, _, _, Step.unlock hx hpc (List.getElem?_eq_getElem hlt)⟩
  by_cases hR : ∃ (t : Tid) (x : TState Val) (r : Nat), s.ts[t]? = some x ∧ x.pc = .reading r
  · rcases hR with ⟨t, x, r, hx, hpc⟩
    have hle := (h.wf t x hx).2.2.1 _ hpc
    by_cases e : r = x.req.keys.length
    · subst e; exact ⟨t, _, _, Step.commit hx hpc⟩
    · have hlt : r < x.req.keys.length := by omega
      exact ⟨t, _, _, Step.read hx hpc (List.getElem?_eq_getElem hlt)⟩
  cases hg : s.global with
  | some t =>
    rcases (h.global_iff t).mp hg with ⟨x, i, hx, hpc⟩
    have hle := (h.wf t x hx).2.1 _ hpc
    by_cases e : i = x.req.keys.length
    · subst e; exact ⟨t, _, _, Step.post hx hpc⟩
    · have hlt : i < x.req.keys.length := by omega
      have hk : x.req.keys[i]? = some (x.req.keys[i]) := List.getElem?_eq_getElem hlt
      cases hh : s.held (x.req.keys[i]) with
      | none => exact ⟨t, _, _, Step.lock hx hpc hk hh⟩
      | some t' =>
        exfalso
        rcases (h.held_iff _ t').mp hh with ⟨x', hx', ho⟩
        cases hpc' : x'.pc with
        | idle => exact owns_idle hpc' _ ho
        | done => exact owns_done hpc' _ ho
        | reading r => exact hR ⟨t', x', r, hx', hpc'⟩
        | unlocking u => exact hU ⟨t', x', u, hx', hpc'⟩
        | locking i' =>
          have hg' : s.global = some t' := (h.global_iff t').mpr ⟨x', i', hx', hpc'⟩
          rw [hg] at hg'; cases hg'
          rw [hx] at hx'; cases hx'
          rw [hpc] at hpc'; cases hpc'
          exact not_mem_take_of_nodup (h.wf t x hx).1 hk ((owns_locking hpc _).mp ho)
  | none =>
    have hex : ∃ x, x ∈ s.ts ∧ x.pc ≠ .done :=
      Classical.byContradiction (fun hn => hnd (fun x hx =>
        Classical.byContradiction (fun hd => hn ⟨x, hx, hd⟩)))
    rcases hex with ⟨x, hm, hd⟩
    rcases List.mem_iff_getElem?.mp hm with ⟨t, hx⟩
    cases hpc : x.pc with
    | idle => exact ⟨t, _, _, Step.pre hx hpc hg⟩
    | done => exact absurd hpc hd
    | reading r => exact absurd ⟨t, x, r, hx, hpc⟩ hR
    | unlocking u => exact absurd ⟨t, x, u, hx, hpc⟩ hU
    | locking i =>
      have hg' : s.global = some t := (h.global_iff t).mpr ⟨x, i, hx, hpc⟩
      rw [hg] at hg'; cases hg'

/-- remaining work of one thread -/
def remaining (x : TState Val) : Nat :=
  match x.pc with
  | .idle => 3 * x.req.keys.length + 4
  | .locking i => 3 * x.req.keys.length + 3 - i
  | .reading r => 2 * x.req.keys.length + 2 - r
  | .unlocking u => u + 1
  | .done => 0

def measure (s : CState Val) : Nat := (s.ts.map remaining).sum

theorem sum_map_set {α : Type} (f : α → Nat) : ∀ (l : List α) (t : Nat) (x y : α), l[t]? = some x →
    ((l.set t y).map f).sum + f x = (l.map f).sum + f y
  | [], t, x, y, h => by simp at h
  | a :: l, 0, x, y, h => by
    simp at h; subst h
    simp only [List.set_cons_zero, List.map_cons, List.sum_cons]; omega
  | a :: l, t + 1, x, y, h => by
    have h' : l[t]? = some x := by simpa using h
    have ih := sum_map_set f l t x y h'
    simp only [List.set_cons_succ, List.map_cons, List.sum_cons]; omega

theorem measure_setT {s s' : CState Val} {t : Tid} {x y : TState Val} (hx : s.ts[t]? = some x)
    (hs : s'.ts = setT s.ts t y) (hlt : remaining y < remaining x) : measure s' < measure s := by
  have := sum_map_set remaining s.ts t x y hx
  unfold measure
  rw [hs]; unfold setT
  omega

set_option linter.unusedVariables false in
/-- **termination**: every step strictly decreases the measure, so every execution is finite
    and, by `progress`, every maximal execution ends with all requests done
    (the range facts needed come from the step's own guards, so the invariant is not actually used) -/
theorem measure_decreases {s s' : CState Val} {t : Tid} {l : Label} (h : Inv s) (st : Step s t l s') :
    measure s' < measure s := by
  cases st
  case pre x hx hpc hg =>
    refine measure_setT hx rfl ?_
    show 3 * x.req.keys.length + 3 - 0 < remaining x
    unfold remaining; rw [hpc]; show _ < 3 * x.req.keys.length + 4; omega
  case lock x i k hx hpc hk hfree =>
    have := lt_length_of_getElem? hk
    refine measure_setT hx rfl ?_
    show 3 * x.req.keys.length + 3 - (i + 1) < remaining x
    unfold remaining; rw [hpc]; show _ < 3 * x.req.keys.length + 3 - i; omega
  case post x hx hpc =>
    refine measure_setT hx rfl ?_
    show 2 * x.req.keys.length + 2 - 0 < remaining x
    unfold remaining; rw [hpc]
    show _ < 3 * x.req.keys.length + 3 - x.req.keys.length; omega
  case read x r k hx hpc hk =>
    have := lt_length_of_getElem? hk
    refine measure_setT hx rfl ?_
    show 2 * x.req.keys.length + 2 - (r + 1) < remaining x
    unfold remaining; rw [hpc]; show _ < 2 * x.req.keys.length + 2 - r; omega
  case commit x hx hpc =>
    refine measure_setT hx rfl ?_
    show x.req.keys.length + 1 < remaining x
    unfold remaining; rw [hpc]
    show _ < 2 * x.req.keys.length + 2 - x.req.keys.length; omega
  case unlock x u k hx hpc hk =>
    refine measure_setT hx rfl ?_
    show u + 1 < remaining x
    unfold remaining; rw [hpc]; show _ < u + 1 + 1; omega
  case finish x hx hpc =>
    refine measure_setT hx rfl ?_
    show 0 < remaining x
    unfold remaining; rw [hpc]; show _ < 0 + 1; omega

theorem exec_length_le {s s' : CState Val} {tr : List (Tid × Label)} (h : Inv s) (he : Exec s tr s') :
    tr.length + measure s' ≤ measure s := by
  induction he with
  | nil _ => simp
  | cons st _ ih =>
    have h1 := measure_decreases h st
    have h2 := ih (inv_step h st)
    simp only [List.length_cons]; omega

theorem completes_of_inv : ∀ (n : Nat) (s : CState Val), Inv s → measure s ≤ n →
    ∃ tr s', Exec s tr s' ∧ AllDone s' := by
  intro n
  induction n with
  | zero =>
    intro s h hm
    by_cases hd : AllDone s
    · exact ⟨[], s, Exec.nil s, hd⟩
    · rcases progress h hd with ⟨t, l, s1, st⟩
      have := measure_decreases h st
      omega
  | succ n ih =>
    intro s h hm
    by_cases hd : AllDone s
    · exact ⟨[], s, Exec.nil s, hd⟩
    · rcases progress h hd with ⟨t, l, s1, st⟩
      have hlt := measure_decreases h st
      rcases ih s1 (inv_step h st) (by omega) with ⟨tr, s2, he, hd2⟩
      exact ⟨(t, l) :: tr, s2, Exec.cons st he, hd2⟩

/-- **completion**: from any reachable state there is an execution reaching AllDone -/
theorem completes (reqs : List (Req Val)) (db0 c0 : Key → Val) (hnd : ∀ r ∈ reqs, r.keys.Nodup)
    (s : CState Val) (hr : Reachable reqs db0 c0 s) : ∃ tr s', Exec s tr s' ∧ AllDone s' :=
  completes_of_inv (measure s) s (inv_reachable reqs db0 c0 hnd s hr) (Nat.le_refl _)

/-! ### the locker-wide critical section is needed -/

/-- executions of the variant without the locker-wide critical section -/
inductive ExecNoGlobal : CState Val → List (Tid × Label) → CState Val → Prop where
  | nil (s : CState Val) : ExecNoGlobal s [] s
  | cons {s s' s'' : CState Val} {t : Tid} {l : Label} {tr : List (Tid × Label)} :
      StepNoGlobal s t l s' → ExecNoGlobal s' tr s'' → ExecNoGlobal s ((t, l) :: tr) s''

/-- the deadlocked state: request 0 (keys [0,1]) holds key 0, request 1 (keys [1,0]) holds key 1 -/
def deadState : CState Unit :=
  { ts := [⟨⟨[0, 1], id⟩, .locking 1, fun _ => ()⟩, ⟨⟨[1, 0], id⟩, .locking 1, fun _ => ()⟩],
    global := none,
    held := heldSet (heldSet (fun _ => none) 0 (some 0)) 1 (some 1),
    db := fun _ => () }

theorem deadState_ts {t : Tid} {x : TState Unit} (h : deadState.ts[t]? = some x) :
    (x.req.keys = [0, 1] ∨ x.req.keys = [1, 0]) ∧ x.pc = .locking 1 := by
  match t, h with
  | 0, h =>
    have : x = ⟨⟨[0, 1], id⟩, .locking 1, fun _ => ()⟩ := by
      simp [deadState] at h; exact h.symm
    subst this; exact ⟨Or.inl rfl, rfl⟩
  | 1, h =>
    have : x = ⟨⟨[1, 0], id⟩, .locking 1, fun _ => ()⟩ := by
      simp [deadState] at h; exact h.symm
    subst this; exact ⟨Or.inr rfl, rfl⟩
  | t + 2, h => simp [deadState] at h

/-- two requests with keys [0,1] and [1,0]: under `StepNoGlobal` (no PreLock/PostLock mutex) there is
    a reachable state in which neither is done and no step is possible -/
theorem needs_global : ∃ (s : CState Unit),
    (∃ tr : List (Tid × Label),
      ExecNoGlobal (initState [⟨[0, 1], id⟩, ⟨[1, 0], id⟩] (fun _ => ()) (fun _ => ())) tr s) ∧
    ¬ AllDone s ∧ ¬ ∃ t l s', StepNoGlobal s t l s' := by
  refine ⟨deadState, ⟨[(0, .pre), (0, .lock 0), (1, .pre), (1, .lock 1)], ?_⟩, ?_, ?_⟩
  · refine ExecNoGlobal.cons
      (StepNoGlobal.pre (t := 0) (x := ⟨⟨[0, 1], id⟩, .idle, fun _ => ()⟩) rfl rfl) ?_
    refine ExecNoGlobal.cons
      (StepNoGlobal.lock (t := 0) (x := ⟨⟨[0, 1], id⟩, .locking 0, fun _ => ()⟩) (i := 0) (k := 0)
        rfl rfl rfl rfl) ?_
    refine ExecNoGlobal.cons
      (StepNoGlobal.pre (t := 1) (x := ⟨⟨[1, 0], id⟩, .idle, fun _ => ()⟩) rfl rfl) ?_
    refine ExecNoGlobal.cons
      (StepNoGlobal.lock (t := 1) (x := ⟨⟨[1, 0], id⟩, .locking 0, fun _ => ()⟩) (i := 0) (k := 1)
        rfl rfl rfl rfl) ?_
    exact ExecNoGlobal.nil _
  · intro h
    have := h ⟨⟨[0, 1], id⟩, .locking 1, fun _ => ()⟩ (List.Mem.head _)
    cases this
  · rintro ⟨t, l, s', st⟩
    cases st
    case pre x hx hpc =>
      rw [(deadState_ts hx).2] at hpc; cases hpc
    case lock x i k hx hpc hk hfree =>
      rcases deadState_ts hx with ⟨hkeys, hpc'⟩
      rw [hpc'] at hpc; cases hpc
      rcases hkeys with e | e
      · rw [e] at hk; cases hk
        simp [deadState, heldSet] at hfree
      · rw [e] at hk; cases hk
        simp [deadState, heldSet] at hfree
    case post x hx hpc =>
      rcases deadState_ts hx with ⟨hkeys, hpc'⟩
      rw [hpc'] at hpc
      rcases hkeys with e | e <;> rw [e] at hpc <;> cases hpc

end Dirk.Conc
