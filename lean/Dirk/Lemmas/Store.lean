/-
  Dirk.Lemmas.Store — facts about the store model and record fetches.
-/
import Dirk.Lemmas.Codec

namespace Dirk

theorem get_put_same (db : Db) (k v : Bytes) : (db.put k v).get k = some v := by
  simp [Db.put, Db.get]

theorem get_put_other (db : Db) (k k' v : Bytes) (h : k' ≠ k) : (db.put k v).get k' = db.get k' := by
  have : (k' == k) = false := by simpa using h
  simp [Db.put, Db.get, List.lookup, this]

theorem attKey_inj {a b : Bytes} (h : attKey a = attKey b) : a = b := by
  unfold attKey at h
  exact List.append_cancel_right h

theorem propKey_inj {a b : Bytes} (h : propKey a = propKey b) : a = b := by
  unfold propKey at h
  exact List.append_cancel_right h

theorem attKey_ne_propKey (a b : Bytes) : attKey a ≠ propKey b := by
  intro h
  unfold attKey propKey at h
  have := congrArg List.getLast? h
  simp [actionAtt, actionProp] at this

theorem get_putMany_notin (db : Db) (kvs : List (Bytes × Bytes)) (k : Bytes)
    (h : k ∉ kvs.map (·.1)) : (db.putMany kvs).get k = db.get k := by
  induction kvs generalizing db with
  | nil => rfl
  | cons kv rest ih =>
    obtain ⟨k0, v0⟩ := kv
    simp only [List.map_cons, List.mem_cons, not_or] at h
    simp only [Db.putMany]
    rw [ih _ h.2, get_put_other _ _ _ _ h.1]

theorem get_putMany_mem (db : Db) (kvs : List (Bytes × Bytes)) (k v : Bytes)
    (hn : (kvs.map (·.1)).Nodup) (hm : (k, v) ∈ kvs) : (db.putMany kvs).get k = some v := by
  induction kvs generalizing db with
  | nil => cases hm
  | cons kv rest ih =>
    obtain ⟨k0, v0⟩ := kv
    simp only [List.map_cons, List.nodup_cons] at hn
    simp only [Db.putMany]
    rcases List.mem_cons.mp hm with heq | hin
    · injection heq with h1 h2
      subst h1; subst h2
      rw [get_putMany_notin _ _ _ hn.1, get_put_same]
    · exact ih _ hn.2 hin

/-! fetches -/

theorem fetchAtt_put_att_same (db : Db) (pk : Bytes) (st : AttState)
    (hs : InI64 st.src) (ht : InI64 st.tgt) :
    fetchAtt (db.put (attKey pk) (encodeAtt st)) pk false = some st := by
  simp [fetchAtt, get_put_same, decodeAtt_encodeAtt st hs ht]

theorem fetchAtt_put_att_other (db : Db) (pk pk' v : Bytes) (h : pk' ≠ pk) :
    fetchAtt (db.put (attKey pk) v) pk' false = fetchAtt db pk' false := by
  have : attKey pk' ≠ attKey pk := fun e => h (attKey_inj e)
  simp [fetchAtt, get_put_other _ _ _ _ this]

theorem fetchAtt_put_prop (db : Db) (pk pk' v : Bytes) :
    fetchAtt (db.put (propKey pk) v) pk' false = fetchAtt db pk' false := by
  simp [fetchAtt, get_put_other _ _ _ _ (attKey_ne_propKey pk' pk)]

theorem fetchProp_put_prop_same (db : Db) (pk : Bytes) (s : Int) (hs : InI64 s) :
    fetchProp (db.put (propKey pk) (encodeProp s)) pk false = some s := by
  simp [fetchProp, get_put_same, decodeProp_encodeProp s hs]

theorem fetchProp_put_prop_other (db : Db) (pk pk' v : Bytes) (h : pk' ≠ pk) :
    fetchProp (db.put (propKey pk) v) pk' false = fetchProp db pk' false := by
  have : propKey pk' ≠ propKey pk := fun e => h (propKey_inj e)
  simp [fetchProp, get_put_other _ _ _ _ this]

theorem fetchProp_put_att (db : Db) (pk pk' v : Bytes) :
    fetchProp (db.put (attKey pk) v) pk' false = fetchProp db pk' false := by
  have : propKey pk' ≠ attKey pk := fun e => attKey_ne_propKey pk pk' e.symm
  simp [fetchProp, get_put_other _ _ _ _ this]

theorem fetchAtt_fail_true (db : Db) (pk : Bytes) : fetchAtt db pk true = none := by
  simp [fetchAtt]

theorem fetchAtt_some_false {db : Db} {pk : Bytes} {b : Bool} {st : AttState}
    (h : fetchAtt db pk b = some st) : fetchAtt db pk false = some st := by
  cases b with
  | false => exact h
  | true => simp [fetchAtt] at h

theorem fetchProp_some_false {db : Db} {pk : Bytes} {b : Bool} {st : Int}
    (h : fetchProp db pk b = some st) : fetchProp db pk false = some st := by
  cases b with
  | false => exact h
  | true => simp [fetchProp] at h

end Dirk
