/-
  Dirk.Lemmas.Run — the invariants of AttInv / PropInv hold in every reachable instance state.

  `run_attInv` / `run_propInv`: every history without the raw rules-level import (`NoRawImport`): signing,
  restarts, import commands, account creation, account and wallet lock / unlock.
  `…_with_imports`: generalisation to histories that also contain raw imports (`Op.importRec`), each of
  which covers what had been released for its key when it is applied (`SafeHist`, Dirk.Model.Instance).
  The raw import overwrites, so with an import below a released signature the statements are false
  (Props/C01.lean `C01_lowering_import_counterexample`).
-/
import Dirk.Lemmas.PropInv
import Dirk.Lemmas.OpsExtra
import Dirk.Lemmas.ImportCmd

namespace Dirk

/-- a freshly started instance on an arbitrary pre-existing store (e.g. records written by an older
    version, or imported) that has not released anything yet -/
def init (cfg : Config) (db0 : Db) : Inst := { cfg := cfg, db := db0 }

theorem signGeneric_frame (s : Inst) (c ip : String) (a : Addr) (d : SignData) (sf lf : Bool) :
    (signGeneric s c ip a d sf lf).1.db = s.db ∧ (signGeneric s c ip a d sf lf).1.attLog = s.attLog ∧
    (signGeneric s c ip a d sf lf).1.propLog = s.propLog := by
  unfold signGeneric
  repeat' split
  all_goals simp

theorem multisign_frame (s : Inst) (c ip : String) (items : List (Addr × SignData)) (sf : List Nat) (lf : Bool) :
    (multisign s c ip items sf lf).1.db = s.db ∧ (multisign s c ip items sf lf).1.attLog = s.attLog ∧
    (multisign s c ip items sf lf).1.propLog = s.propLog := by
  unfold multisign
  simp only
  repeat' split
  all_goals simp

theorem attInv_of_frame {s s' : Inst} (h : AttInv s) (h1 : s'.db = s.db) (h2 : s'.attLog = s.attLog) :
    AttInv s' :=
  ⟨by rw [h1, h2]; exact h.covered, by rw [h2]; exact h.mono⟩

theorem propInv_of_frame {s s' : Inst} (h : PropInv s) (h1 : s'.db = s.db) (h2 : s'.propLog = s.propLog) :
    PropInv s' :=
  ⟨by rw [h1, h2]; exact h.covered, by rw [h2]; exact h.mono⟩

theorem step_attInv_with_imports (s : Inst) (op : Op) (h : AttInv s) (hs : op.safeAt s) :
    AttInv (step s op).1 := by
  cases op with
  | att c a d f => exact signAtt_inv h c a d f false
  | atts c items f => exact signAtts_inv h c items f []
  | prop c a d f => exact signProp_attInv h c a d f false
  | sign c ip a d => exact attInv_of_frame h (signGeneric_frame s c ip a d false false).1 (signGeneric_frame s c ip a d false false).2.1
  | msign c ip items => exact attInv_of_frame h (multisign_frame s c ip items [] false).1 (multisign_frame s c ip items [] false).2.1
  | restart => exact h
  | importRec k r => exact importKey_attInv h (toBytes48 k) r hs
  | importCmd gvr f => exact step_importCmd_attInv h gvr f
  | create c p pk => exact attInv_of_frame h (step_create_frame s c p pk).1 (step_create_frame s c p pk).2.1
  | setUnlockable w n b => exact attInv_of_frame h rfl rfl
  | lockWallet c w => exact h
  | unlockWallet c w => exact h

theorem step_propInv_with_imports (s : Inst) (op : Op) (h : PropInv s) (hs : op.safeAt s) :
    PropInv (step s op).1 := by
  cases op with
  | att c a d f => exact signAtt_propInv h c a d f false
  | atts c items f => exact signAtts_propInv h c items f []
  | prop c a d f => exact signProp_propInv h c a d f false
  | sign c ip a d => exact propInv_of_frame h (signGeneric_frame s c ip a d false false).1 (signGeneric_frame s c ip a d false false).2.2
  | msign c ip items => exact propInv_of_frame h (multisign_frame s c ip items [] false).1 (multisign_frame s c ip items [] false).2.2
  | restart => exact h
  | importRec k r => exact importKey_propInv h (toBytes48 k) r hs
  | importCmd gvr f => exact step_importCmd_propInv h gvr f
  | create c p pk => exact propInv_of_frame h (step_create_frame s c p pk).1 (step_create_frame s c p pk).2.2.1
  | setUnlockable w n b => exact propInv_of_frame h rfl rfl
  | lockWallet c w => exact h
  | unlockWallet c w => exact h

theorem run_attInv_with_imports (ops : List Op) : ∀ (s : Inst), AttInv s → SafeHist s ops → AttInv (run s ops) := by
  induction ops with
  | nil => intro s h _; exact h
  | cons op rest ih => intro s h hs; exact ih _ (step_attInv_with_imports s op h hs.1) hs.2

theorem run_propInv_with_imports (ops : List Op) : ∀ (s : Inst), PropInv s → SafeHist s ops → PropInv (run s ops) := by
  induction ops with
  | nil => intro s h _; exact h
  | cons op rest ih => intro s h hs; exact ih _ (step_propInv_with_imports s op h hs.1) hs.2

theorem safeAt_of_not_raw {s : Inst} {op : Op} (h : op.isRawImport = false) : op.safeAt s := by
  cases op <;> simp [Op.isRawImport] at h <;> trivial

theorem step_attInv (s : Inst) (op : Op) (h : AttInv s) (hr : op.isRawImport = false) : AttInv (step s op).1 :=
  step_attInv_with_imports s op h (safeAt_of_not_raw hr)

theorem step_propInv (s : Inst) (op : Op) (h : PropInv s) (hr : op.isRawImport = false) : PropInv (step s op).1 :=
  step_propInv_with_imports s op h (safeAt_of_not_raw hr)

theorem run_attInv (ops : List Op) (s : Inst) (h : AttInv s) (hr : NoRawImport ops) : AttInv (run s ops) :=
  run_attInv_with_imports ops s h (safeHist_of_noRawImport ops s hr)

theorem run_propInv (ops : List Op) (s : Inst) (h : PropInv s) (hr : NoRawImport ops) : PropInv (run s ops) :=
  run_propInv_with_imports ops s h (safeHist_of_noRawImport ops s hr)

theorem init_attInv (cfg : Config) (db0 : Db) : AttInv (init cfg db0) :=
  ⟨by simp [init], by simp [init, LogMono]⟩

theorem init_propInv (cfg : Config) (db0 : Db) : PropInv (init cfg db0) :=
  ⟨by simp [init], by simp [init, PLogMono]⟩

end Dirk
