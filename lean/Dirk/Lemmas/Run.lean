/-
  Dirk.Lemmas.Run — the invariants of AttInv / PropInv hold in every reachable instance state.
-/
import Dirk.Lemmas.PropInv

namespace Dirk

/-- a freshly started instance on an arbitrary pre-existing store (e.g. records written by an older
    version, or imported) that has not released anything yet -/
def init (cfg : Config) (db0 : Db) : Inst := { cfg := cfg, db := db0 }

theorem signGeneric_frame (s : Inst) (c ip : String) (a : Addr) (d : SignData) (sf : Bool) :
    (signGeneric s c ip a d sf).1.db = s.db ∧ (signGeneric s c ip a d sf).1.attLog = s.attLog ∧
    (signGeneric s c ip a d sf).1.propLog = s.propLog := by
  unfold signGeneric
  repeat' split
  all_goals simp

theorem multisign_frame (s : Inst) (c ip : String) (items : List (Addr × SignData)) (sf : List Nat) :
    (multisign s c ip items sf).1.db = s.db ∧ (multisign s c ip items sf).1.attLog = s.attLog ∧
    (multisign s c ip items sf).1.propLog = s.propLog := by
  unfold multisign
  simp only
  repeat' split
  all_goals simp

theorem attInv_of_frame {s s' : Inst} (h : AttInv s) (h1 : s'.db = s.db) (h2 : s'.attLog = s.attLog) :
    AttInv s' :=
  ⟨by rw [h1, h2]; exact h.covered, by rw [h2]; exact h.mono⟩

theorem propInv_of_frame {s s' : Inst} (h : PropInv s) (h1 : s'.db = s.db) (h2 : s'.propLog = s.propLog) :
    PropInv s' :=
  ⟨by rw [h1, h2]; exact h.covered, by rw [h2]; exact h.mono⟩

theorem step_attInv (s : Inst) (op : Op) (h : AttInv s) : AttInv (step s op).1 := by
  cases op with
  | att c a d f => exact signAtt_inv h c a d f false
  | atts c items f => exact signAtts_inv h c items f []
  | prop c a d f => exact signProp_attInv h c a d f false
  | sign c ip a d => exact attInv_of_frame h (signGeneric_frame s c ip a d false).1 (signGeneric_frame s c ip a d false).2.1
  | msign c ip items => exact attInv_of_frame h (multisign_frame s c ip items []).1 (multisign_frame s c ip items []).2.1
  | restart => exact h

theorem step_propInv (s : Inst) (op : Op) (h : PropInv s) : PropInv (step s op).1 := by
  cases op with
  | att c a d f => exact signAtt_propInv h c a d f false
  | atts c items f => exact signAtts_propInv h c items f []
  | prop c a d f => exact signProp_propInv h c a d f false
  | sign c ip a d => exact propInv_of_frame h (signGeneric_frame s c ip a d false).1 (signGeneric_frame s c ip a d false).2.2
  | msign c ip items => exact propInv_of_frame h (multisign_frame s c ip items []).1 (multisign_frame s c ip items []).2.2
  | restart => exact h

theorem run_attInv (ops : List Op) : ∀ (s : Inst), AttInv s → AttInv (run s ops) := by
  induction ops with
  | nil => intro s h; exact h
  | cons op rest ih => intro s h; exact ih _ (step_attInv s op h)

theorem run_propInv (ops : List Op) : ∀ (s : Inst), PropInv s → PropInv (run s ops) := by
  induction ops with
  | nil => intro s h; exact h
  | cons op rest ih => intro s h; exact ih _ (step_propInv s op h)

theorem init_attInv (cfg : Config) (db0 : Db) : AttInv (init cfg db0) :=
  ⟨by simp [init], by simp [init, LogMono]⟩

theorem init_propInv (cfg : Config) (db0 : Db) : PropInv (init cfg db0) :=
  ⟨by simp [init], by simp [init, PLogMono]⟩

end Dirk
