import Dirk.Lemmas.PermsRefine
namespace Dirk
open Spec

#eval ReParse.parse (regexify "w1")
#eval (ReParse.parse ("(?i)" ++ rxBody "w1")).map Re.anch
#eval compilePerms regexify [("c1", [⟨"w1/a.*", ["~sign", "all"]⟩]), ("c2", [⟨"w", ["none"]⟩])]

example : ShapeOK "w" := by
  unfold ShapeOK
  rfl
