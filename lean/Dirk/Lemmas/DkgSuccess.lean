/-
  Dirk.Lemmas.DkgSuccess — a fault-free key generation succeeds on the message-level model
  (Dirk.Model.Dkg): prepare at every participant, execute at every participant in ANY order, commit
  at every participant; every reply is `ok`, after the executes every participant holds every
  participant's contribution exactly once, and after the commits every participant holds the account
  and no generation for it remains.  Core Lean only.
-/
import Dirk.Model.Dkg
import Dirk.Lemmas.DkgLife

namespace Dirk.Dkg

/-! ## running one handler at a list of instances -/

/-- run `f` at every instance of the list in turn, collecting the replies -/
def runAll (f : Cluster → Nat → Cluster × Reply) : Cluster → List Nat → Cluster × List Reply
  | c, [] => (c, [])
  | c, i :: rest => ((runAll f (f c i).1 rest).1, (f c i).2 :: (runAll f (f c i).1 rest).2)

def prepareAll (c : Cluster) (caller : Nat) (acct : String) (t : Nat) (parts : List Nat) (l : List Nat) :
    Cluster × List Reply :=
  runAll (fun c i => onPrepare c i caller acct t parts) c l

def executeAll (c : Cluster) (caller : Nat) (acct : String) (l : List Nat) : Cluster × List Reply :=
  runAll (fun c i => onExecute c i caller acct) c l

def commitAll (c : Cluster) (caller : Nat) (acct : String) (l : List Nat) : Cluster × List Reply :=
  runAll (fun c i => onCommit c i caller acct) c l

/-! ## lists: `eraseDups` and `sortAsc` on duplicate-free lists -/

theorem eraseDups_of_nodup : ∀ {l : List Nat}, l.Nodup → l.eraseDups = l
  | [], _ => rfl
  | a :: as, h => by
    have hd := List.nodup_cons.mp h
    have hf : as.filter (fun b => !b == a) = as := by
      apply List.filter_eq_self.mpr
      intro b hb
      have : b ≠ a := fun e => hd.1 (e ▸ hb)
      simp [this]
    rw [List.eraseDups_cons, hf, eraseDups_of_nodup hd.2]

theorem mem_insertAsc (x : Nat) (l : List Nat) (k : Nat) : k ∈ insertAsc x l ↔ k = x ∨ k ∈ l := by
  induction l with
  | nil => simp [insertAsc]
  | cons y ys ih =>
    unfold insertAsc
    split
    · simp
    · simp only [List.mem_cons, ih]
      constructor
      · rintro (h | h | h)
        · exact Or.inr (Or.inl h)
        · exact Or.inl h
        · exact Or.inr (Or.inr h)
      · rintro (h | h | h)
        · exact Or.inr (Or.inl h)
        · exact Or.inl h
        · exact Or.inr (Or.inr h)

theorem nodup_insertAsc (x : Nat) (l : List Nat) (hx : x ∉ l) (hl : l.Nodup) : (insertAsc x l).Nodup := by
  induction l with
  | nil => simp [insertAsc]
  | cons y ys ih =>
    have hd := List.nodup_cons.mp hl
    unfold insertAsc
    split
    · exact List.nodup_cons.mpr ⟨hx, hl⟩
    · refine List.nodup_cons.mpr ⟨?_, ih (fun h => hx (List.mem_cons_of_mem _ h)) hd.2⟩
      intro hy
      rcases (mem_insertAsc x ys y).mp hy with h | h
      · exact hx (h ▸ List.mem_cons_self)
      · exact hd.1 h

theorem mem_sortAsc (l : List Nat) (k : Nat) : k ∈ sortAsc l ↔ k ∈ l := by
  induction l with
  | nil => simp [sortAsc]
  | cons y ys ih =>
    show k ∈ insertAsc y (sortAsc ys) ↔ _
    rw [mem_insertAsc, ih]; simp

theorem nodup_sortAsc (l : List Nat) (hl : l.Nodup) : (sortAsc l).Nodup := by
  induction l with
  | nil => simp [sortAsc]
  | cons y ys ih =>
    have hd := List.nodup_cons.mp hl
    show (insertAsc y (sortAsc ys)).Nodup
    exact nodup_insertAsc y _ (fun h => hd.1 ((mem_sortAsc ys y).mp h)) (ih hd.2)

/-- the list of higher participants `onExecute` walks through -/
def higher (parts : List Nat) (i : Nat) : List Nat :=
  sortAsc (parts.filter (fun j => j > i)).eraseDups

theorem mem_higher (parts : List Nat) (i k : Nat) : k ∈ higher parts i ↔ k ∈ parts ∧ i < k := by
  unfold higher
  rw [mem_sortAsc, List.mem_eraseDups, List.mem_filter]
  simp

theorem nodup_higher (parts : List Nat) (i : Nat) (h : parts.Nodup) : (higher parts i).Nodup := by
  unfold higher
  have hf : (parts.filter (fun j => j > i)).Nodup := h.filter _
  rw [eraseDups_of_nodup hf]
  exact nodup_sortAsc _ hf

/-! ## what one instance shows for `acct` -/

/-- the stored generation for `acct` and whether the account is held; `none` if there is no such
    instance -/
def view (c : Cluster) (acct : String) (i : Nat) : Option (Option Session × Bool) :=
  (getInst c i).map (fun x => (x.sessions.lookup acct, x.accounts.contains acct))

/-- same peer table, clock and timeout -/
def SameEnv (c c' : Cluster) : Prop := c'.peers = c.peers ∧ c'.now = c.now ∧ c'.timeout = c.timeout

theorem SameEnv.refl (c : Cluster) : SameEnv c c := ⟨rfl, rfl, rfl⟩

theorem SameEnv.trans {c c' c'' : Cluster} (h : SameEnv c c') (h' : SameEnv c' c'') : SameEnv c c'' :=
  ⟨h'.1.trans h.1, h'.2.1.trans h.2.1, h'.2.2.trans h.2.2⟩

theorem sameEnv_setInst (c : Cluster) (x : DInst) : SameEnv c (setInst c x) := ⟨rfl, rfl, rfl⟩

theorem view_some {c : Cluster} {acct : String} {i : Nat} {o : Option Session} {b : Bool}
    (h : view c acct i = some (o, b)) :
    ∃ x, getInst c i = some x ∧ x.sessions.lookup acct = o ∧ x.accounts.contains acct = b := by
  unfold view at h
  cases hx : getInst c i with
  | none => rw [hx] at h; cases h
  | some x =>
    rw [hx] at h
    simp only [Option.map_some, Option.some.injEq, Prod.mk.injEq] at h
    exact ⟨x, rfl, h.1, h.2⟩

/-- writing `x'` over the instance `i` -/
theorem view_setInst {c : Cluster} {i : Nat} {x : DInst} (acct : String) (x' : DInst)
    (hi : getInst c i = some x) (hid : x'.id = i) (k : Nat) :
    view (setInst c x') acct k =
      if k = i then some (x'.sessions.lookup acct, x'.accounts.contains acct) else view c acct k := by
  unfold view
  rw [getInst_setInst, hid]
  by_cases hk : k = i
  · subst hk; simp [hi]
  · simp [hk]

theorem active_live {c : Cluster} {x : DInst} {acct : String} {s : Session}
    (h : x.sessions.lookup acct = some s) (hs : s.started = c.now) : active c x acct = (some s, x) := by
  unfold active
  rw [h]
  simp [hs]

theorem active_absent {c : Cluster} {x : DInst} {acct : String}
    (h : x.sessions.lookup acct = none) : active c x acct = (none, x) := by
  unfold active
  rw [h]

theorem lookup_putSession (x : DInst) (acct : String) (s : Session) :
    (putSession x acct s).sessions.lookup acct = some s := by
  simp [putSession]

theorem senderId_of_peer {c : Cluster} {i : Nat} (hp : c.peers.contains i = true) (hz : i ≠ 0) :
    senderId c i ≠ 0 := by
  unfold senderId
  rw [if_pos hp]; exact hz

/-! ## single steps -/

theorem prepare_step {c : Cluster} {i caller : Nat} {acct : String} (t : Nat) (parts : List Nat)
    (hp : senderId c caller ≠ 0) (hv : view c acct i = some (none, false)) :
    (onPrepare c i caller acct t parts).2 = .ok ∧
    view (onPrepare c i caller acct t parts).1 acct i =
      some (some { threshold := t, participants := parts, contributed := [i], started := c.now }, false) ∧
    (∀ k, k ≠ i → view (onPrepare c i caller acct t parts).1 acct k = view c acct k) ∧
    SameEnv c (onPrepare c i caller acct t parts).1 := by
  obtain ⟨x, hi, hl, ha⟩ := view_some hv
  have hid : x.id = i := getInst_id hi
  rw [onPrepare_eq acct t parts hp hi, active_absent hl]
  refine ⟨rfl, ?_, ?_, sameEnv_setInst _ _⟩
  · show view (setInst c (putSession x acct _)) acct i = _
    rw [view_setInst acct _ hi (by exact hid), if_pos rfl, lookup_putSession]
    exact congrArg (fun b => some (_, b)) ha
  · intro k hk
    show view (setInst c (putSession x acct _)) acct k = _
    rw [view_setInst acct _ hi (by exact hid), if_neg hk]

theorem swap_spec {c : Cluster} {i j : Nat} {acct : String} {si s_i s_j : Session} {b_i b_j : Bool}
    (hpj : c.peers.contains j = true) (hsi : senderId c i ≠ 0)
    (hvj : view c acct j = some (some s_j, b_j)) (hnj : s_j.started = c.now)
    (htj : s_j.threshold = si.threshold) (hmem : s_j.participants.contains i = true)
    (hvi : view c acct i = some (some s_i, b_i)) (hne : i ≠ j)
    (hnc : s_i.contributed.contains j = false) :
    (swap c i j acct si).2 = true ∧
    view (swap c i j acct si).1 acct i =
      some (some { s_i with contributed := s_i.contributed ++ [j] }, b_i) ∧
    view (swap c i j acct si).1 acct j =
      some (some { s_j with contributed :=
        (if s_j.contributed.contains i then s_j.contributed else s_j.contributed ++ [i]) }, b_j) ∧
    (∀ k, k ≠ i → k ≠ j → view (swap c i j acct si).1 acct k = view c acct k) ∧
    SameEnv c (swap c i j acct si).1 := by
  obtain ⟨xj, hj, hlj, haj⟩ := view_some hvj
  obtain ⟨xi, hi, hli, hai⟩ := view_some hvi
  have hidj : xj.id = j := getInst_id hj
  have hidi : xi.id = i := getInst_id hi
  have hoc : onContribute c j i acct true si.threshold =
      (setInst c (putSession xj acct { s_j with contributed :=
        (if s_j.contributed.contains i then s_j.contributed else s_j.contributed ++ [i]) }), .ok) := by
    rw [onContribute_eq acct true _ hsi hj, active_live hlj hnj]
    simp only [Bool.not_true, Bool.false_eq_true, if_false, htj, ne_eq, not_true_eq_false, hmem]
  have hi1 : getInst (setInst c (putSession xj acct { s_j with contributed :=
        (if s_j.contributed.contains i then s_j.contributed else s_j.contributed ++ [i]) })) i = some xi := by
    rw [getInst_setInst_ne]
    · exact hi
    · show i ≠ xj.id
      rw [hidj]; exact hne
  generalize hc1 : setInst c (putSession xj acct { s_j with contributed :=
        (if s_j.contributed.contains i then s_j.contributed else s_j.contributed ++ [i]) }) = c1 at hoc hi1
  have he : swap c i j acct si =
      (setInst c1 (putSession xi acct { s_i with contributed := s_i.contributed ++ [j] }), true) := by
    unfold swap
    simp only [hpj, hj, hoc, active_live hlj hnj, Bool.not_true, Bool.false_eq_true, if_false, ne_eq,
      not_true_eq_false, Option.map_some, htj, hi1, hli, hnc]
  rw [he]
  subst hc1
  refine ⟨rfl, ?_, ?_, ?_, (sameEnv_setInst _ _).trans (sameEnv_setInst _ _)⟩
  · show view (setInst _ (putSession xi acct _)) acct i = _
    rw [view_setInst acct _ hi1 (by exact hidi), if_pos rfl, lookup_putSession]
    exact congrArg (fun b => some (_, b)) hai
  · show view (setInst _ (putSession xi acct _)) acct j = _
    rw [view_setInst acct _ hi1 (by exact hidi), if_neg (Ne.symm hne),
      view_setInst acct _ hj (by exact hidj), if_pos rfl, lookup_putSession]
    exact congrArg (fun b => some (_, b)) haj
  · intro k hki hkj
    show view (setInst _ (putSession xi acct _)) acct k = _
    rw [view_setInst acct _ hi1 (by exact hidi), if_neg hki,
      view_setInst acct _ hj (by exact hidj), if_neg hkj]

/-! ## the execute phase -/

/-- every participant is a configured peer, has a live generation for `acct` with the expected
    parameters, does not hold the account yet, and holds — exactly once each — its own contribution
    and those of the `k` with `R i k` -/
def Inv (acct : String) (t : Nat) (parts : List Nat) (c : Cluster) (R : Nat → Nat → Prop) : Prop :=
  (∀ i ∈ parts, c.peers.contains i = true) ∧
  ∀ i ∈ parts, ∃ s, view c acct i = some (some s, false) ∧ s.threshold = t ∧ s.participants = parts ∧
    s.started = c.now ∧ s.contributed.Nodup ∧ ∀ k, k ∈ s.contributed ↔ (k = i ∨ R i k)

theorem Inv.congr {acct : String} {t : Nat} {parts : List Nat} {c : Cluster} {R R' : Nat → Nat → Prop}
    (h : Inv acct t parts c R) (hR : ∀ a b, R a b ↔ R' a b) : Inv acct t parts c R' := by
  refine ⟨h.1, ?_⟩
  intro i hi
  obtain ⟨s, hv, ht, hp, hn, hd, hm⟩ := h.2 i hi
  exact ⟨s, hv, ht, hp, hn, hd, fun k => by rw [hm k, hR i k]⟩

theorem Inv.of_view {acct : String} {t : Nat} {parts : List Nat} {c c' : Cluster} {R : Nat → Nat → Prop}
    (h : Inv acct t parts c R) (hv : ∀ k, view c' acct k = view c acct k) (he : SameEnv c c') :
    Inv acct t parts c' R := by
  refine ⟨fun i hi => by rw [he.1]; exact h.1 i hi, ?_⟩
  intro i hi
  obtain ⟨s, hv', ht, hp, hn, hd, hm⟩ := h.2 i hi
  exact ⟨s, (hv i).trans hv', ht, hp, hn.trans he.2.1.symm, hd, hm⟩

theorem nodup_snoc {l : List Nat} {a : Nat} (hl : l.Nodup) (ha : a ∉ l) : (l ++ [a]).Nodup := by
  rw [List.nodup_append]
  refine ⟨hl, by simp, ?_⟩
  intro x hx y hy
  rw [List.mem_singleton] at hy
  subst hy
  exact fun e => ha (e ▸ hx)

theorem swap_inv {acct : String} {t : Nat} {parts : List Nat} {c : Cluster} {R : Nat → Nat → Prop}
    {i j : Nat} {si : Session} (h : Inv acct t parts c R) (hi : i ∈ parts) (hj : j ∈ parts)
    (hz : i ≠ 0) (hne : i ≠ j) (hR : ¬ R i j) (hsi : si.threshold = t) :
    (swap c i j acct si).2 = true ∧
    Inv acct t parts (swap c i j acct si).1 (fun a b => R a b ∨ (a = i ∧ b = j) ∨ (a = j ∧ b = i)) := by
  obtain ⟨s_i, hvi, hti, hpi, hni, hdi, hmi⟩ := h.2 i hi
  obtain ⟨s_j, hvj, htj, hpj, hnj, hdj, hmj⟩ := h.2 j hj
  have hnm : j ∉ s_i.contributed := by
    intro hm
    rcases (hmi j).mp hm with e | e
    · exact hne e.symm
    · exact hR e
  have hnc : s_i.contributed.contains j = false := by simpa using hnm
  have hmem : s_j.participants.contains i = true := by rw [hpj]; simpa using hi
  obtain ⟨hok, h1, h2, h3, he⟩ := swap_spec (si := si) (h.1 j hj) (senderId_of_peer (h.1 i hi) hz)
    hvj hnj (htj.trans hsi.symm) hmem hvi hne hnc
  refine ⟨hok, fun k hk => by rw [he.1]; exact h.1 k hk, ?_⟩
  intro k hk
  by_cases hki : k = i
  · subst hki
    refine ⟨_, h1, hti, hpi, hni.trans he.2.1.symm, nodup_snoc hdi hnm, ?_⟩
    intro k'
    simp only [List.mem_append, List.mem_singleton, hmi k']
    grind
  · by_cases hkj : k = j
    · subst hkj
      refine ⟨_, h2, htj, hpj, hnj.trans he.2.1.symm, ?_, ?_⟩
      · show (if s_j.contributed.contains i = true then s_j.contributed else s_j.contributed ++ [i]).Nodup
        split
        · exact hdj
        · rename_i hc
          exact nodup_snoc hdj (by simpa using hc)
      · intro k'
        show k' ∈ (if s_j.contributed.contains i = true then s_j.contributed else s_j.contributed ++ [i]) ↔ _
        split
        · rename_i hc
          have hc' : i ∈ s_j.contributed := by simpa using hc
          rw [hmj k']
          have := (hmj i).mp hc'
          grind
        · simp only [List.mem_append, List.mem_singleton, hmj k']
          grind
    · obtain ⟨s, hv, ht, hp, hn, hd, hm⟩ := h.2 k hk
      refine ⟨s, (h3 k hki hkj).trans hv, ht, hp, hn.trans he.2.1.symm, hd, ?_⟩
      intro k'
      rw [hm k']
      grind

theorem swaps_inv {acct : String} {t : Nat} {parts : List Nat} {i : Nat} {si : Session}
    (hi : i ∈ parts) (hz : i ≠ 0) (hsi : si.threshold = t) (L : List Nat) :
    ∀ (c : Cluster) (R : Nat → Nat → Prop), Inv acct t parts c R → L.Nodup →
      (∀ j ∈ L, j ∈ parts ∧ i ≠ j ∧ ¬ R i j) →
      (swaps acct i si c L).2 = true ∧
      Inv acct t parts (swaps acct i si c L).1 (fun a b => R a b ∨ (a = i ∧ b ∈ L) ∨ (b = i ∧ a ∈ L)) := by
  induction L with
  | nil =>
    intro c R h _ _
    exact ⟨rfl, h.congr (by simp)⟩
  | cons j rest ih =>
    intro c R h hnd hL
    have hd := List.nodup_cons.mp hnd
    obtain ⟨hj, hne, hR⟩ := hL j List.mem_cons_self
    obtain ⟨hok, h1⟩ := swap_inv h hi hj hz hne hR hsi
    unfold swaps
    rcases hsw : swap c i j acct si with ⟨c', ok⟩
    rw [hsw] at hok h1
    simp only at hok h1 ⊢
    subst hok
    simp only [if_true]
    have hL' : ∀ j' ∈ rest, j' ∈ parts ∧ i ≠ j' ∧
        ¬ ((fun a b => R a b ∨ (a = i ∧ b = j) ∨ (a = j ∧ b = i)) i j') := by
      intro j' hj'
      obtain ⟨a, b, d⟩ := hL j' (List.mem_cons_of_mem _ hj')
      refine ⟨a, b, ?_⟩
      have : j' ≠ j := fun e => hd.1 (e ▸ hj')
      simp only [true_and, not_or]
      exact ⟨d, this, fun e => hne e.1⟩
    obtain ⟨hok2, h2⟩ := ih c' _ h1 hd.2 hL'
    refine ⟨hok2, h2.congr ?_⟩
    intro a b
    simp only [List.mem_cons]
    grind

theorem view_setInst_self {c : Cluster} {i : Nat} {x : DInst} (acct : String) (hi : getInst c i = some x)
    (k : Nat) : view (setInst c x) acct k = view c acct k := by
  rw [view_setInst acct x hi (getInst_id hi)]
  split
  · rename_i hk
    subst hk
    simp [view, hi]
  · rfl

theorem execute_step {acct : String} {t : Nat} {parts : List Nat} {c : Cluster} {R : Nat → Nat → Prop}
    {i caller : Nat} (h : Inv acct t parts c R) (hnd : parts.Nodup) (hi : i ∈ parts) (hz : i ≠ 0)
    (hp : senderId c caller ≠ 0) (hR : ∀ j ∈ parts, i < j → ¬ R i j) :
    (onExecute c i caller acct).2 = .ok ∧
    Inv acct t parts (onExecute c i caller acct).1
      (fun a b => R a b ∨ (a = i ∧ b ∈ parts ∧ i < b) ∨ (b = i ∧ a ∈ parts ∧ i < a)) := by
  obtain ⟨s, hv, ht, hps, hn, hd, hm⟩ := h.2 i hi
  obtain ⟨x, hx, hl, ha⟩ := view_some hv
  have h0 : Inv acct t parts (setInst c x) R :=
    h.of_view (view_setInst_self acct hx) (sameEnv_setInst _ _)
  obtain ⟨hok, h1⟩ := swaps_inv (si := s) hi hz ht (higher parts i) (setInst c x) R h0
    (nodup_higher parts i hnd) (by
      intro j hj
      rw [mem_higher] at hj
      exact ⟨hj.1, Nat.ne_of_lt hj.2, hR j hj.1 hj.2⟩)
  rw [onExecute_eq acct hp hx, active_live hl hn]
  simp only [hps]
  change (swaps acct i s (setInst c x) (higher parts i)).2 = true at hok
  refine ⟨?_, h1.congr ?_⟩
  · show (if (swaps acct i s (setInst c x) (higher parts i)).2 = true then Reply.ok else Reply.refused) = _
    rw [if_pos hok]
  · intro a b
    simp only [mem_higher]

/-- `a` holds `b`'s contribution because one of the two — the lower one — has executed -/
def swapped (parts D : List Nat) (a b : Nat) : Prop :=
  (a ∈ D ∧ b ∈ parts ∧ a < b) ∨ (b ∈ D ∧ a ∈ parts ∧ b < a)

theorem senderId_sameEnv {c c' : Cluster} (he : SameEnv c c') (k : Nat) : senderId c' k = senderId c k := by
  unfold senderId
  rw [he.1]

theorem runAll_cons (f : Cluster → Nat → Cluster × Reply) (c : Cluster) (i : Nat) (rest : List Nat) :
    runAll f c (i :: rest) = ((runAll f (f c i).1 rest).1, (f c i).2 :: (runAll f (f c i).1 rest).2) := rfl

theorem executeAll_inv {acct : String} {t : Nat} {parts : List Nat} {caller : Nat}
    (hnd : parts.Nodup) (hnz : ∀ i ∈ parts, i ≠ 0) (hc : caller ∈ parts) (l : List Nat) :
    ∀ (c : Cluster) (D : List Nat), Inv acct t parts c (swapped parts D) → l.Nodup →
      (∀ i ∈ l, i ∈ parts ∧ i ∉ D) →
      (executeAll c caller acct l).2 = l.map (fun _ => Reply.ok) ∧
      Inv acct t parts (executeAll c caller acct l).1 (swapped parts (D ++ l)) := by
  induction l with
  | nil =>
    intro c D h _ _
    exact ⟨rfl, h.congr (by simp)⟩
  | cons i rest ih =>
    intro c D h hl hL
    have hd := List.nodup_cons.mp hl
    obtain ⟨hi, hiD⟩ := hL i List.mem_cons_self
    have hp : senderId c caller ≠ 0 := senderId_of_peer (h.1 caller hc) (hnz caller hc)
    obtain ⟨hok, h1⟩ := execute_step h hnd hi (hnz i hi) hp (by
      intro j _ hij hsw
      rcases hsw with hsw | hsw
      · exact hiD hsw.1
      · exact Nat.lt_asymm hij hsw.2.2)
    have h1' : Inv acct t parts (onExecute c i caller acct).1 (swapped parts (D ++ [i])) := by
      refine h1.congr ?_
      intro a b
      simp only [swapped, List.mem_append, List.mem_singleton]
      grind
    obtain ⟨hok2, h2⟩ := ih (onExecute c i caller acct).1 (D ++ [i]) h1' hd.2 (by
      intro k hk
      refine ⟨(hL k (List.mem_cons_of_mem _ hk)).1, ?_⟩
      intro hm
      rcases List.mem_append.mp hm with hm | hm
      · exact (hL k (List.mem_cons_of_mem _ hk)).2 hm
      · rw [List.mem_singleton] at hm
        exact hd.1 (hm ▸ hk))
    unfold executeAll at hok2 h2 ⊢
    rw [runAll_cons]
    refine ⟨?_, ?_⟩
    · show (onExecute c i caller acct).2 :: _ = _
      rw [hok, hok2]; rfl
    · have e : D ++ i :: rest = D ++ [i] ++ rest := by simp
      rw [e]; exact h2

/-! ## the prepare phase -/

theorem prepareAll_spec {acct : String} {caller : Nat} (t : Nat) (parts : List Nat) (l : List Nat) :
    ∀ (c : Cluster), senderId c caller ≠ 0 → l.Nodup → (∀ i ∈ l, view c acct i = some (none, false)) →
      (prepareAll c caller acct t parts l).2 = l.map (fun _ => Reply.ok) ∧
      (∀ i ∈ l, view (prepareAll c caller acct t parts l).1 acct i =
        some (some { threshold := t, participants := parts, contributed := [i], started := c.now }, false)) ∧
      (∀ k, k ∉ l → view (prepareAll c caller acct t parts l).1 acct k = view c acct k) ∧
      SameEnv c (prepareAll c caller acct t parts l).1 := by
  induction l with
  | nil =>
    intro c _ _ _
    exact ⟨rfl, fun _ h => absurd h List.not_mem_nil, fun _ _ => rfl, SameEnv.refl c⟩
  | cons i rest ih =>
    intro c hp hl hv
    have hd := List.nodup_cons.mp hl
    obtain ⟨hok, h1, hfr, he⟩ := prepare_step t parts hp (hv i List.mem_cons_self)
    obtain ⟨hok2, h2, hfr2, he2⟩ := ih (onPrepare c i caller acct t parts).1
      (by rw [senderId_sameEnv he]; exact hp) hd.2 (by
        intro k hk
        have : k ≠ i := fun e => hd.1 (e ▸ hk)
        rw [hfr k this]
        exact hv k (List.mem_cons_of_mem _ hk))
    unfold prepareAll at hok2 h2 hfr2 he2 ⊢
    rw [runAll_cons]
    refine ⟨?_, ?_, ?_, he.trans he2⟩
    · show (onPrepare c i caller acct t parts).2 :: _ = _
      rw [hok, hok2]; rfl
    · intro k hk
      show view (runAll _ (onPrepare c i caller acct t parts).1 rest).1 acct k = _
      rcases List.mem_cons.mp hk with hk | hk
      · subst hk
        rw [hfr2 k hd.1, h1]
      · rw [h2 k hk, he.2.1]
    · intro k hk
      show view (runAll _ (onPrepare c i caller acct t parts).1 rest).1 acct k = _
      rw [hfr2 k (fun h => hk (List.mem_cons_of_mem _ h)), hfr k (fun e => hk (e ▸ List.mem_cons_self))]

/-! ## the commit phase -/

theorem commit_step {c : Cluster} {i caller : Nat} {acct : String} {s : Session}
    (hp : senderId c caller ≠ 0) (hdw : distributedWallet acct = true)
    (hv : view c acct i = some (some s, false)) (hn : s.started = c.now)
    (hlen : s.contributed.length = s.participants.length) (hall : ∀ p ∈ s.participants, p ∈ s.contributed) :
    (onCommit c i caller acct).2 = .ok ∧
    view (onCommit c i caller acct).1 acct i = some (none, true) ∧
    (∀ k, k ≠ i → view (onCommit c i caller acct).1 acct k = view c acct k) ∧
    SameEnv c (onCommit c i caller acct).1 := by
  obtain ⟨x, hx, hl, ha⟩ := view_some hv
  have hid : x.id = i := getInst_id hx
  have hall' : (!s.participants.all (fun p => s.contributed.contains p)) = false := by
    simpa using hall
  rw [onCommit_eq acct hp hx, active_live hl hn]
  simp only [hlen, ne_eq, not_true_eq_false, if_false, hall', hdw, ha, Bool.not_true, Bool.false_eq_true]
  refine ⟨trivial, ?_, ?_, sameEnv_setInst _ _⟩
  · rw [view_setInst acct _ hx (by exact hid), if_pos rfl]
    simp [dropSession, lookup_filter_ne]
  · intro k hk
    rw [view_setInst acct _ hx (by exact hid), if_neg hk]

theorem commitAll_spec {acct : String} {caller : Nat} (hdw : distributedWallet acct = true) (l : List Nat) :
    ∀ (c : Cluster), senderId c caller ≠ 0 → l.Nodup →
      (∀ i ∈ l, ∃ s, view c acct i = some (some s, false) ∧ s.started = c.now ∧
        s.contributed.length = s.participants.length ∧ ∀ p ∈ s.participants, p ∈ s.contributed) →
      (commitAll c caller acct l).2 = l.map (fun _ => Reply.ok) ∧
      (∀ i ∈ l, view (commitAll c caller acct l).1 acct i = some (none, true)) ∧
      (∀ k, k ∉ l → view (commitAll c caller acct l).1 acct k = view c acct k) ∧
      SameEnv c (commitAll c caller acct l).1 := by
  induction l with
  | nil =>
    intro c _ _ _
    exact ⟨rfl, fun _ h => absurd h List.not_mem_nil, fun _ _ => rfl, SameEnv.refl c⟩
  | cons i rest ih =>
    intro c hp hl hv
    have hd := List.nodup_cons.mp hl
    obtain ⟨s, hvs, hn, hlen, hall⟩ := hv i List.mem_cons_self
    obtain ⟨hok, h1, hfr, he⟩ := commit_step hp hdw hvs hn hlen hall
    obtain ⟨hok2, h2, hfr2, he2⟩ := ih (onCommit c i caller acct).1
      (by rw [senderId_sameEnv he]; exact hp) hd.2 (by
        intro k hk
        have : k ≠ i := fun e => hd.1 (e ▸ hk)
        obtain ⟨s', a, b, d⟩ := hv k (List.mem_cons_of_mem _ hk)
        exact ⟨s', by rw [hfr k this]; exact a, by rw [he.2.1]; exact b, d⟩)
    unfold commitAll at hok2 h2 hfr2 he2 ⊢
    rw [runAll_cons]
    refine ⟨?_, ?_, ?_, he.trans he2⟩
    · show (onCommit c i caller acct).2 :: _ = _
      rw [hok, hok2]; rfl
    · intro k hk
      show view (runAll _ (onCommit c i caller acct).1 rest).1 acct k = _
      rcases List.mem_cons.mp hk with hk | hk
      · subst hk
        rw [hfr2 k hd.1, h1]
      · exact h2 k hk
    · intro k hk
      show view (runAll _ (onCommit c i caller acct).1 rest).1 acct k = _
      rw [hfr2 k (fun h => hk (List.mem_cons_of_mem _ h)), hfr k (fun e => hk (e ▸ List.mem_cons_self))]

/-! ## the whole generation -/

/-- after every participant has executed, each holds exactly the participants' contributions -/
theorem executed_complete {acct : String} {t : Nat} {parts order : List Nat} {c : Cluster}
    (hnd : parts.Nodup) (horder : order.Perm parts) (h : Inv acct t parts c (swapped parts order))
    {i : Nat} (hi : i ∈ parts) :
    ∃ s, view c acct i = some (some s, false) ∧ s.participants = parts ∧ s.started = c.now ∧
      (∀ k ∈ parts, k ∈ s.contributed) ∧ s.contributed.length = s.participants.length := by
  obtain ⟨s, hv, _, hp, hn, hd, hm⟩ := h.2 i hi
  have hmem : ∀ k, k ∈ s.contributed ↔ k ∈ parts := by
    intro k
    rw [hm k]
    have ho : ∀ a, a ∈ order ↔ a ∈ parts := fun a => horder.mem_iff
    simp only [swapped, ho]
    constructor
    · rintro (e | ⟨_, hk, _⟩ | ⟨hk, _, _⟩)
      · exact e ▸ hi
      · exact hk
      · exact hk
    · intro hk
      rcases Nat.lt_trichotomy k i with hlt | heq | hgt
      · exact Or.inr (Or.inr ⟨hk, hi, hlt⟩)
      · exact Or.inl heq
      · exact Or.inr (Or.inl ⟨hi, hk, hgt⟩)
  refine ⟨s, hv, hp, hn, fun k hk => (hmem k).mpr hk, ?_⟩
  rw [hp]
  exact ((List.perm_ext_iff_of_nodup hd hnd).mpr hmem).length_eq

/-- A fault-free generation succeeds.  `parts`: distinct non-zero ids of configured peers, each with an
    instance that neither holds `acct` nor has a generation for it; `acct` in a distributed wallet; the
    caller is one of them; any threshold; prepares in list order, executes in ANY order `order`, commits
    in list order, no clock advance in between.  No assumption on the timeout is needed (the age of every
    generation is `c.now - c.now = 0`), nor on `parts.length`, nor on further instances in the cluster. -/
theorem generation_succeeds (c0 : Cluster) (parts order : List Nat) (acct : String) (t init : Nat)
    (hnd : parts.Nodup) (hnz : ∀ i ∈ parts, i ≠ 0) (hpeers : ∀ i ∈ parts, c0.peers.contains i = true)
    (hdw : distributedWallet acct = true)
    (hfresh : ∀ i ∈ parts, ∃ x, getInst c0 i = some x ∧ x.sessions.lookup acct = none ∧ acct ∉ x.accounts)
    (hinit : init ∈ parts) (horder : order.Perm parts) :
    let p := prepareAll c0 init acct t parts parts
    let e := executeAll p.1 init acct order
    let m := commitAll e.1 init acct parts
    p.2 = List.replicate parts.length Reply.ok ∧
    e.2 = List.replicate parts.length Reply.ok ∧
    (∀ i ∈ parts, ∃ x s, getInst e.1 i = some x ∧ x.sessions.lookup acct = some s ∧
      sessionOf e.1 i acct = some s ∧ s.participants = parts ∧
      (∀ k ∈ parts, k ∈ s.contributed) ∧ s.contributed.length = s.participants.length) ∧
    m.2 = List.replicate parts.length Reply.ok ∧
    ∀ i ∈ parts, ∃ x, getInst m.1 i = some x ∧ acct ∈ x.accounts ∧ x.sessions.lookup acct = none := by
  intro p e m
  have hp0 : senderId c0 init ≠ 0 := senderId_of_peer (hpeers init hinit) (hnz init hinit)
  -- prepare
  have hv0 : ∀ i ∈ parts, view c0 acct i = some (none, false) := by
    intro i hi
    obtain ⟨x, hx, hl, ha⟩ := hfresh i hi
    simp [view, hx, hl, ha]
  obtain ⟨hpok, hpv, _, hpe⟩ := prepareAll_spec (acct := acct) (caller := init) t parts parts c0 hp0 hnd hv0
  have hinv1 : Inv acct t parts p.1 (swapped parts []) := by
    refine ⟨fun i hi => by rw [hpe.1]; exact hpeers i hi, ?_⟩
    intro i hi
    refine ⟨_, hpv i hi, rfl, rfl, hpe.2.1.symm, by simp, ?_⟩
    intro k
    simp [swapped]
  -- execute
  obtain ⟨heok, hinv2⟩ := executeAll_inv (caller := init) hnd hnz hinit order p.1 [] hinv1
    (horder.nodup_iff.mpr hnd) (fun i hi => ⟨horder.mem_iff.mp hi, List.not_mem_nil⟩)
  rw [List.nil_append] at hinv2
  have hlen : order.length = parts.length := horder.length_eq
  have hcomplete := fun i hi => executed_complete (i := i) hnd horder hinv2 hi
  -- commit
  have hp2 : senderId e.1 init ≠ 0 := senderId_of_peer (hinv2.1 init hinit) (hnz init hinit)
  obtain ⟨hmok, hmv, _, _⟩ := commitAll_spec (caller := init) hdw parts e.1 hp2 hnd (by
    intro i hi
    obtain ⟨s, hv, hps, hn, hall, hl⟩ := hcomplete i hi
    exact ⟨s, hv, hn, hl, by rw [hps]; exact hall⟩)
  refine ⟨?_, ?_, ?_, ?_, ?_⟩
  · rw [hpok, List.map_const']
  · rw [heok, List.map_const', hlen]
  · intro i hi
    obtain ⟨s, hv, hps, hn, hall, hl⟩ := hcomplete i hi
    obtain ⟨x, hx, hlk, _⟩ := view_some hv
    refine ⟨x, s, hx, hlk, ?_, hps, hall, hl⟩
    rw [sessionOf_eq hx, active_live hlk hn]
  · rw [hmok, List.map_const']
  · intro i hi
    obtain ⟨x, hx, hlk, ha⟩ := view_some (hmv i hi)
    exact ⟨x, hx, by simpa using ha, hlk⟩

/-! ## on a fresh cluster whose instances are exactly the participants -/

/-- one pristine instance per participant -/
def freshCluster (parts peers : List Nat) (timeout now : Nat) : Cluster :=
  { insts := parts.map (fun i => { id := i }), peers := peers, timeout := timeout, now := now }

theorem find_fresh (l : List Nat) (i : Nat) (hi : i ∈ l) :
    (l.map (fun j => ({ id := j } : DInst))).find? (·.id == i) = some { id := i } := by
  induction l with
  | nil => cases hi
  | cons j rest ih =>
    simp only [List.map_cons, List.find?_cons]
    by_cases hj : j = i
    · subst hj; simp
    · have : (j == i) = false := by simp [hj]
      simp only [this]
      rcases List.mem_cons.mp hi with e | e
      · exact absurd e.symm hj
      · exact ih e

theorem getInst_freshCluster (parts peers : List Nat) (timeout now : Nat) {i : Nat} (hi : i ∈ parts) :
    getInst (freshCluster parts peers timeout now) i = some { id := i } :=
  find_fresh parts i hi

/-- the statement as asked for: a fresh cluster whose instances are exactly the participants (at least
    two of them), no instance holding `acct` -/
theorem generation_succeeds_fresh (parts peers order : List Nat) (timeout now : Nat) (acct : String)
    (t init : Nat) (hnd : parts.Nodup) (hnz : ∀ i ∈ parts, i ≠ 0) (hpeers : ∀ i ∈ parts, i ∈ peers)
    (_hlen : 2 ≤ parts.length) (hdw : distributedWallet acct = true) (hinit : init ∈ parts)
    (horder : order.Perm parts) :
    let c0 := freshCluster parts peers timeout now
    let p := prepareAll c0 init acct t parts parts
    let e := executeAll p.1 init acct order
    let m := commitAll e.1 init acct parts
    p.2 = List.replicate parts.length Reply.ok ∧
    e.2 = List.replicate parts.length Reply.ok ∧
    (∀ i ∈ parts, ∃ x s, getInst e.1 i = some x ∧ x.sessions.lookup acct = some s ∧
      sessionOf e.1 i acct = some s ∧ s.participants = parts ∧
      (∀ k ∈ parts, k ∈ s.contributed) ∧ s.contributed.length = s.participants.length) ∧
    m.2 = List.replicate parts.length Reply.ok ∧
    ∀ i ∈ parts, ∃ x, getInst m.1 i = some x ∧ acct ∈ x.accounts ∧ x.sessions.lookup acct = none :=
  generation_succeeds (freshCluster parts peers timeout now) parts order acct t init hnd hnz
    (fun i hi => by simpa [freshCluster] using hpeers i hi) hdw
    (fun i hi => ⟨_, getInst_freshCluster parts peers timeout now hi, rfl, by simp⟩) hinit horder

/-- three participants 1, 2, 3; executes in the order 2, 3, 1 -/
example :
    let c0 := freshCluster [1, 2, 3] [1, 2, 3] 600 0
    let p := prepareAll c0 1 "DW/k" 2 [1, 2, 3] [1, 2, 3]
    let e := executeAll p.1 1 "DW/k" [2, 3, 1]
    let m := commitAll e.1 1 "DW/k" [1, 2, 3]
    p.2 = [.ok, .ok, .ok] ∧ e.2 = [.ok, .ok, .ok] ∧
    (∀ i ∈ [1, 2, 3], ∃ x s, getInst e.1 i = some x ∧ x.sessions.lookup "DW/k" = some s ∧
      sessionOf e.1 i "DW/k" = some s ∧ s.participants = [1, 2, 3] ∧
      (∀ k ∈ [1, 2, 3], k ∈ s.contributed) ∧ s.contributed.length = s.participants.length) ∧
    m.2 = [.ok, .ok, .ok] ∧
    ∀ i ∈ [1, 2, 3], ∃ x, getInst m.1 i = some x ∧ "DW/k" ∈ x.accounts ∧ x.sessions.lookup "DW/k" = none :=
  generation_succeeds_fresh [1, 2, 3] [1, 2, 3] [2, 3, 1] 600 0 "DW/k" 2 1 (by decide) (by decide) (by decide)
    (by decide) (by simp [distributedWallet]) (by decide) (by decide)

end Dirk.Dkg
