/-
  Dirk.Lemmas.Codec — integer conversion and record codec round-trips.
-/
import Dirk.Model.Rules

namespace Dirk

theorem i64_inI64 (n : Nat) (h : n < two64) : InI64 (i64 n) := by
  unfold InI64 i64 two63 two64 at *; split <;> omega

theorem u64_lt (i : Int) (h : InI64 i) : u64 i < two64 := by
  unfold InI64 u64 two63 two64 at *; split <;> omega

theorem i64_u64 (i : Int) (h : InI64 i) : i64 (u64 i) = i := by
  unfold InI64 i64 u64 two63 two64 at *; split <;> split <;> omega

theorem u64_i64 (n : Nat) (h : n < two64) : u64 (i64 n) = n := by
  unfold i64 u64 two63 two64 at *; split <;> split <;> omega

theorem i64_small (n : Nat) (h : n ≤ maxI64) : i64 n = (n : Int) := by
  unfold i64 two63 maxI64 at *; split <;> omega

theorem u64_nonneg (i : Int) (h : 0 ≤ i) : (u64 i : Int) = i := by
  unfold u64; split <;> omega

theorem uint8_ofNat_toNat (n : Nat) : (UInt8.ofNat n).toNat = n % 256 := by
  simp [UInt8.toNat_ofNat']

theorem unle64_le64 (n : Nat) (h : n < two64) : unle64 (le64 n) = n := by
  unfold unle64 le64 two64 at *
  simp only [uint8_ofNat_toNat]
  omega

theorem le64_length (n : Nat) : (le64 n).length = 8 := by simp [le64]

theorem decodeAtt_encodeAtt (s : AttState) (hs : InI64 s.src) (ht : InI64 s.tgt) :
    decodeAtt (encodeAtt s) = some s := by
  have h1 := u64_lt _ hs
  have h2 := u64_lt _ ht
  unfold decodeAtt encodeAtt
  simp only [↓reduceIte, List.length_append, le64_length]
  have e1 : (le64 (u64 s.src) ++ le64 (u64 s.tgt)).take 8 = le64 (u64 s.src) := by
    rw [List.take_append_of_le_length (by simp [le64_length])]
    exact List.take_of_length_le (by simp [le64_length])
  have e2 : (le64 (u64 s.src) ++ le64 (u64 s.tgt)).drop 8 = le64 (u64 s.tgt) := by
    rw [List.drop_append_of_le_length (by simp [le64_length])]
    rw [List.drop_of_length_le (by simp [le64_length])]; rfl
  rw [e1, e2, unle64_le64 _ h1, unle64_le64 _ h2, i64_u64 _ hs, i64_u64 _ ht]

theorem decodeProp_encodeProp (s : Int) (hs : InI64 s) : decodeProp (encodeProp s) = some s := by
  have h1 := u64_lt _ hs
  unfold decodeProp encodeProp
  simp only [↓reduceIte, le64_length, unle64_le64 _ h1, i64_u64 _ hs]

end Dirk
