/-
  P14 — C06 under a ruler that answers for fewer requests than the batch holds (`Model/ShortRules.lean`).

  * `signAttsShort_of_ge`, `multisignShort_of_ge`: a ruler that answers for everything changes nothing.
  * `C06_short_rules_*_closed`: signature present iff SUCCEEDED, at every position.
  * `C06_short_rules_*_shape`: one response position per request whatever the ruler returned.
  * `C06_short_rules_atts`, `C06_short_rules_msign` (main): positions the ruler did not answer for are never signed.
  * `C06_short_rules_*_log`: at most `k` entries are released, nothing else of the instance moves.
  * `signAttsShort_db`: the rules' state does not depend on the cut.
  * `signAttsShort_take`, `multisignShort_take`: the answered positions are what the uncut function gives.
-/
import Dirk.Props.C06
import Dirk.Model.ShortRules

namespace Dirk

/-! ## `padUnknown` -/

theorem padUnknown_of_length {n : Nat} {ps : List Pos} (h : ps.length = n) : padUnknown n ps = ps := by
  simp [padUnknown, h]

theorem padUnknown_length {n : Nat} {ps : List Pos} (h : ps.length ≤ n) : (padUnknown n ps).length = n := by
  simp only [padUnknown, List.length_append, List.length_replicate]; omega

theorem padUnknown_closed {n : Nat} {ps : List Pos} (h : ∀ p ∈ ps, p.closed) :
    ∀ p ∈ padUnknown n ps, p.closed := by
  intro p hp
  unfold padUnknown at hp
  rcases List.mem_append.mp hp with hp | hp
  · exact h p hp
  · rw [List.eq_of_mem_replicate hp]; simp [Pos.closed]

/-- beyond the positions the ruler spoke about there is nothing but UNKNOWN without a signature -/
theorem padUnknown_drop {n k : Nat} {ps : List Pos} (hl : ps.length ≤ k) :
    ∀ p ∈ (padUnknown n ps).drop k, p = ⟨.unknown, none⟩ := by
  intro p hp
  unfold padUnknown at hp
  rw [List.drop_append, List.drop_of_length_le hl, List.nil_append] at hp
  exact List.eq_of_mem_replicate (List.mem_of_mem_drop hp)

theorem padUnknown_take_take {n k : Nat} {ps : List Pos} (h : ps.length = n) :
    (padUnknown n (ps.take k)).take k = ps.take k := by
  unfold padUnknown
  rw [List.take_append, List.take_take, Nat.min_self, List.length_take]
  have : List.take (k - min k ps.length) (List.replicate (n - min k ps.length) (⟨.unknown, none⟩ : Pos)) = [] := by
    rcases Nat.le_total k ps.length with hk | hk
    · rw [Nat.min_eq_left hk, Nat.sub_self]; rfl
    · rw [Nat.min_eq_right hk, h, Nat.sub_self]; simp
  rw [this, List.append_nil]

/-! ## the ruler's `n × FAILED`, cut to `k` entries -/

/-- what a batch refused as a whole by the ruler (duplicate keys, failing state) looks like after the cut -/
def failedCut {α : Type} (items : List α) (k : Nat) : List Pos :=
  padUnknown items.length ((items.take k).map (fun _ => ⟨.failed, none⟩))

theorem failedCut_of_ge {α : Type} (items : List α) (k : Nat) (h : items.length ≤ k) :
    failedCut items k = items.map (fun _ => ⟨.failed, none⟩) := by
  unfold failedCut
  rw [List.take_of_length_le h, padUnknown_of_length (by simp)]

theorem failedCut_closed {α : Type} (items : List α) (k : Nat) : ∀ p ∈ failedCut items k, p.closed := by
  apply padUnknown_closed
  intro p hp
  obtain ⟨_, _, rfl⟩ := List.mem_map.mp hp
  simp [Pos.closed]

theorem failedCut_length {α : Type} (items : List α) (k : Nat) : (failedCut items k).length = items.length := by
  apply padUnknown_length
  simp only [List.length_map, List.length_take]; omega

theorem failedCut_drop {α : Type} (items : List α) (k : Nat) :
    ∀ p ∈ (failedCut items k).drop k, p = ⟨.unknown, none⟩ := by
  apply padUnknown_drop
  simp only [List.length_map, List.length_take]; omega

theorem failedCut_take {α : Type} (items : List α) (k : Nat) :
    (failedCut items k).take k = (items.map (fun _ => (⟨.failed, none⟩ : Pos))).take k := by
  unfold failedCut
  rw [List.map_take, padUnknown_take_take (by simp)]

/-! ## cutting commutes with signing -/

theorem signEvs_take (sf : List Nat) : ∀ (evs : List (Bytes × AttData × Verdict)) (i k : Nat),
    signEvs sf i (evs.take k) = (signEvs sf i evs).take k := by
  intro evs
  induction evs with
  | nil => intro i k; simp [signEvs]
  | cons e rest ih =>
    intro i k
    obtain ⟨pk, d, v⟩ := e
    cases k with
    | zero => simp [signEvs]
    | succ k => simp only [List.take_succ_cons, signEvs, ih]

theorem signGenerics_take (adminIPs : List String) (ip : String) (sf : List Nat) :
    ∀ (keyed : List (Bytes × SignData)) (i k : Nat),
      signGenerics adminIPs ip sf i (keyed.take k) = (signGenerics adminIPs ip sf i keyed).take k := by
  intro keyed
  induction keyed with
  | nil => intro i k; simp [signGenerics]
  | cons e rest ih =>
    intro i k
    obtain ⟨pk, d⟩ := e
    cases k with
    | zero => simp [signGenerics]
    | succ k => simp only [List.take_succ_cons, signGenerics, ih]

/-- a signed position always carries a verdict of the ruler: elsewhere no root and not SUCCEEDED -/
theorem unknownPos_unsigned {p : Pos} (h : p = ⟨.unknown, none⟩) : p.root = none ∧ p.res ≠ .succeeded := by
  subst h; simp

/-! ## the signing path of `signAttsShort` -/

theorem attestKeyedShort_of_ge (s : Inst) (keyed : List (Bytes × AttData)) (f : Faults) (sf : List Nat) (k : Nat)
    (h : keyed.length ≤ k) : attestKeyedShort s keyed f sf k = attestKeyed s keyed f sf := by
  unfold attestKeyedShort attestKeyed
  cases hev : (rulesKeyed s.db keyed f).1 with
  | none =>
    simp only [finishKeyedShort, finishKeyed]
    rw [List.take_of_length_le h, padUnknown_of_length (by simp)]
  | some evs =>
    have hl := rulesKeyed_length hev
    simp only [finishKeyedShort, finishKeyed]
    rw [List.take_of_length_le (by omega), padUnknown_of_length (by simp [signEvs_length, hl])]

theorem attestKeyedShort_closed (s : Inst) (keyed : List (Bytes × AttData)) (f : Faults) (sf : List Nat) (k : Nat) :
    ∀ p ∈ (attestKeyedShort s keyed f sf k).2, p.closed := by
  unfold attestKeyedShort
  cases (rulesKeyed s.db keyed f).1 with
  | none =>
    simp only [finishKeyedShort]
    apply padUnknown_closed
    intro p hp
    obtain ⟨_, _, rfl⟩ := List.mem_map.mp hp
    simp [Pos.closed]
  | some evs =>
    simp only [finishKeyedShort]
    exact padUnknown_closed (signEvs_closed sf _ 0)

theorem attestKeyedShort_length (s : Inst) (keyed : List (Bytes × AttData)) (f : Faults) (sf : List Nat) (k : Nat) :
    (attestKeyedShort s keyed f sf k).2.length = keyed.length := by
  unfold attestKeyedShort
  cases hev : (rulesKeyed s.db keyed f).1 with
  | none =>
    simp only [finishKeyedShort]
    apply padUnknown_length
    simp only [List.length_map, List.length_take]; omega
  | some evs =>
    have hl := rulesKeyed_length hev
    simp only [finishKeyedShort]
    apply padUnknown_length
    simp only [List.length_map, signEvs_length, List.length_take]; omega

theorem attestKeyedShort_drop (s : Inst) (keyed : List (Bytes × AttData)) (f : Faults) (sf : List Nat) (k : Nat) :
    ∀ p ∈ (attestKeyedShort s keyed f sf k).2.drop k, p = ⟨.unknown, none⟩ := by
  unfold attestKeyedShort
  cases (rulesKeyed s.db keyed f).1 with
  | none =>
    simp only [finishKeyedShort]
    apply padUnknown_drop
    simp only [List.length_map, List.length_take]; omega
  | some evs =>
    simp only [finishKeyedShort]
    apply padUnknown_drop
    simp only [List.length_map, signEvs_length, List.length_take]; omega

theorem attestKeyedShort_log (s : Inst) (keyed : List (Bytes × AttData)) (f : Faults) (sf : List Nat) (k : Nat) :
    (∃ rel, (attestKeyedShort s keyed f sf k).1.attLog = s.attLog ++ rel ∧ rel.length ≤ k) ∧
    (attestKeyedShort s keyed f sf k).1.propLog = s.propLog ∧
    (attestKeyedShort s keyed f sf k).1.signLog = s.signLog ∧
    (attestKeyedShort s keyed f sf k).1.cfg = s.cfg := by
  unfold attestKeyedShort
  cases (rulesKeyed s.db keyed f).1 with
  | none =>
    simp only [finishKeyedShort]
    exact ⟨⟨[], by simp, by simp⟩, trivial, trivial, trivial⟩
  | some evs =>
    simp only [finishKeyedShort]
    refine ⟨⟨_, rfl, ?_⟩, trivial, trivial, trivial⟩
    have h1 := List.length_filterMap_le (fun x : Pos × Option (Bytes × AttData) => x.2)
      (signEvs sf 0 (evs.take k))
    rw [signEvs_length, List.length_take] at h1
    omega

theorem attestKeyedShort_db (s : Inst) (keyed : List (Bytes × AttData)) (f : Faults) (sf : List Nat) (k : Nat) :
    (attestKeyedShort s keyed f sf k).1.db = (attestKeyed s keyed f sf).1.db := by
  unfold attestKeyedShort attestKeyed
  cases (rulesKeyed s.db keyed f).1 <;> rfl

theorem attestKeyedShort_take (s : Inst) (keyed : List (Bytes × AttData)) (f : Faults) (sf : List Nat) (k : Nat) :
    (attestKeyedShort s keyed f sf k).2.take k = (attestKeyed s keyed f sf).2.take k := by
  unfold attestKeyedShort attestKeyed
  cases hev : (rulesKeyed s.db keyed f).1 with
  | none =>
    simp only [finishKeyedShort, finishKeyed]
    rw [List.map_take, padUnknown_take_take (by simp)]
  | some evs =>
    have hl := rulesKeyed_length hev
    simp only [finishKeyedShort, finishKeyed]
    rw [signEvs_take, List.map_take, padUnknown_take_take (by simp [signEvs_length, hl])]

/-- `signAttsShort` either leaves before the rules are consulted — then it IS `signAtts`, the state is untouched and
    no position is signed —, or the ruler refuses the batch as a whole (duplicate keys: `n × FAILED`, cut), or both reach
    the signing path with the same resolved batch. -/
theorem signAttsShort_cases (s : Inst) (c : String) (items : List (Addr × AttData)) (f : Faults) (sf : List Nat)
    (k : Nat) :
    (signAttsShort s c items f sf k = signAtts s c items f sf ∧ (signAtts s c items f sf).1 = s ∧
      ∀ p ∈ (signAtts s c items f sf).2, p.root = none ∧ p.res ≠ .succeeded) ∨
    (items.length ≠ 0 ∧ signAttsShort s c items f sf k = (s, failedCut items k) ∧
      signAtts s c items f sf = (s, items.map (fun _ => ⟨.failed, none⟩))) ∨
    (∃ keyed : List (Bytes × AttData), keyed.length = items.length ∧ items.length ≠ 0 ∧
      signAttsShort s c items f sf k = attestKeyedShort s keyed f sf k ∧
      signAtts s c items f sf = attestKeyed s keyed f sf) := by
  unfold signAttsShort signAtts
  simp only
  by_cases h0 : items.length = 0
  · simp only [if_pos h0]
    left; refine ⟨trivial, trivial, ?_⟩
    intro p hp; simp at hp; subst hp; simp
  · simp only [if_neg h0]
    cases firstMalformed (items.map (·.2)) with
    | some i =>
      simp only
      left; refine ⟨trivial, trivial, ?_⟩
      intro p hp
      obtain ⟨j, _, rfl⟩ := List.mem_map.mp hp
      split <;> simp
    | none =>
      simp only
      by_cases hne : (preCheckAll s.cfg c opAttest items f.lockStateFail).any isErr = true
      · simp only [if_pos hne]
        left; refine ⟨trivial, trivial, ?_⟩
        intro p hp
        unfold preCheckPositions at hp
        obtain ⟨x, hx, rfl⟩ := List.mem_map.mp hp
        cases x with
        | error r => exact ⟨rfl, preCheckAll_error_ne_succeeded _ _ _ _ _ hx r rfl⟩
        | ok a => simp
      · simp only [if_neg hne]
        have hlen : (okItems (preCheckAll s.cfg c opAttest items f.lockStateFail)).length = items.length := by
          rw [okItems_length _ (by simpa using hne)]; simp [preCheckAll]
        cases firstDup [] 0 ((okItems (preCheckAll s.cfg c opAttest items f.lockStateFail)).map (·.1)) with
        | some _ =>
          simp only
          right; left; exact ⟨h0, rfl, trivial⟩
        | none =>
          simp only
          right; right; exact ⟨_, hlen, h0, rfl, rfl⟩

/-! ## the signing path of `multisignShort` -/

/-- the signing path of `multisign` on a resolved batch -/
def msignKeyed (s : Inst) (ip : String) (keyed : List (Bytes × SignData)) (sf : List Nat) : Inst × List Pos :=
  ({ s with signLog := s.signLog ++ (signGenerics s.cfg.adminIPs ip sf 0 keyed).filterMap (·.2) },
   (signGenerics s.cfg.adminIPs ip sf 0 keyed).map (·.1))

/-- the signing path of `multisignShort` on a resolved batch -/
def msignKeyedShort (s : Inst) (ip : String) (keyed : List (Bytes × SignData)) (sf : List Nat) (k : Nat) :
    Inst × List Pos :=
  ({ s with signLog := s.signLog ++ (signGenerics s.cfg.adminIPs ip sf 0 (keyed.take k)).filterMap (·.2) },
   padUnknown keyed.length ((signGenerics s.cfg.adminIPs ip sf 0 (keyed.take k)).map (·.1)))

theorem msignKeyedShort_of_ge (s : Inst) (ip : String) (keyed : List (Bytes × SignData)) (sf : List Nat) (k : Nat)
    (h : keyed.length ≤ k) : msignKeyedShort s ip keyed sf k = msignKeyed s ip keyed sf := by
  unfold msignKeyedShort msignKeyed
  rw [List.take_of_length_le h, padUnknown_of_length (by simp [signGenerics_length])]

theorem msignKeyedShort_closed (s : Inst) (ip : String) (keyed : List (Bytes × SignData)) (sf : List Nat) (k : Nat) :
    ∀ p ∈ (msignKeyedShort s ip keyed sf k).2, p.closed :=
  padUnknown_closed (signGenerics_closed _ _ sf _ 0)

theorem msignKeyedShort_length (s : Inst) (ip : String) (keyed : List (Bytes × SignData)) (sf : List Nat) (k : Nat) :
    (msignKeyedShort s ip keyed sf k).2.length = keyed.length := by
  unfold msignKeyedShort
  apply padUnknown_length
  simp only [List.length_map, signGenerics_length, List.length_take]; omega

theorem msignKeyedShort_drop (s : Inst) (ip : String) (keyed : List (Bytes × SignData)) (sf : List Nat) (k : Nat) :
    ∀ p ∈ (msignKeyedShort s ip keyed sf k).2.drop k, p = ⟨.unknown, none⟩ := by
  unfold msignKeyedShort
  apply padUnknown_drop
  simp only [List.length_map, signGenerics_length, List.length_take]; omega

theorem msignKeyedShort_log (s : Inst) (ip : String) (keyed : List (Bytes × SignData)) (sf : List Nat) (k : Nat) :
    (∃ rel, (msignKeyedShort s ip keyed sf k).1.signLog = s.signLog ++ rel ∧ rel.length ≤ k) ∧
    (msignKeyedShort s ip keyed sf k).1.db = s.db ∧
    (msignKeyedShort s ip keyed sf k).1.attLog = s.attLog ∧
    (msignKeyedShort s ip keyed sf k).1.propLog = s.propLog ∧
    (msignKeyedShort s ip keyed sf k).1.cfg = s.cfg := by
  unfold msignKeyedShort
  refine ⟨⟨_, rfl, ?_⟩, rfl, rfl, rfl, rfl⟩
  have h1 := List.length_filterMap_le (fun x : Pos × Option (Bytes × SignData) => x.2)
    (signGenerics s.cfg.adminIPs ip sf 0 (keyed.take k))
  rw [signGenerics_length, List.length_take] at h1
  omega

theorem msignKeyedShort_take (s : Inst) (ip : String) (keyed : List (Bytes × SignData)) (sf : List Nat) (k : Nat) :
    (msignKeyedShort s ip keyed sf k).2.take k = (msignKeyed s ip keyed sf).2.take k := by
  unfold msignKeyedShort msignKeyed
  simp only
  rw [signGenerics_take, List.map_take, padUnknown_take_take (by simp [signGenerics_length])]

theorem multisignShort_cases (s : Inst) (c ip : String) (items : List (Addr × SignData)) (sf : List Nat) (lf : Bool)
    (k : Nat) :
    (multisignShort s c ip items sf lf k = multisign s c ip items sf lf ∧ (multisign s c ip items sf lf).1 = s ∧
      ∀ p ∈ (multisign s c ip items sf lf).2, p.root = none ∧ p.res ≠ .succeeded) ∨
    (items.length ≠ 0 ∧ multisignShort s c ip items sf lf k = (s, failedCut items k) ∧
      multisign s c ip items sf lf = (s, items.map (fun _ => ⟨.failed, none⟩))) ∨
    (∃ keyed : List (Bytes × SignData), keyed.length = items.length ∧ items.length ≠ 0 ∧
      multisignShort s c ip items sf lf k = msignKeyedShort s ip keyed sf k ∧
      multisign s c ip items sf lf = msignKeyed s ip keyed sf) := by
  unfold multisignShort multisign
  simp only
  by_cases h0 : items.length = 0
  · simp only [if_pos h0]
    left; refine ⟨trivial, trivial, ?_⟩
    intro p hp; simp at hp; subst hp; simp
  · simp only [if_neg h0]
    cases (items.map (·.2)).findIdx? (fun d => !d.wellFormed) with
    | some i =>
      simp only
      left; refine ⟨trivial, trivial, ?_⟩
      intro p hp
      obtain ⟨j, _, rfl⟩ := List.mem_map.mp hp
      split <;> simp
    | none =>
      simp only
      by_cases hne : (preCheckAll s.cfg c opSign items lf).any isErr = true
      · simp only [if_pos hne]
        left; refine ⟨trivial, trivial, ?_⟩
        intro p hp
        unfold preCheckPositions at hp
        obtain ⟨x, hx, rfl⟩ := List.mem_map.mp hp
        cases x with
        | error r => exact ⟨rfl, preCheckAll_error_ne_succeeded _ _ _ _ _ hx r rfl⟩
        | ok a => simp
      · simp only [if_neg hne]
        have hlen : (okItems (preCheckAll s.cfg c opSign items lf)).length = items.length := by
          rw [okItems_length _ (by simpa using hne)]; simp [preCheckAll]
        cases firstDup [] 0 ((okItems (preCheckAll s.cfg c opSign items lf)).map (·.1)) with
        | some _ =>
          simp only
          right; left; exact ⟨h0, rfl, trivial⟩
        | none =>
          simp only
          right; right; exact ⟨_, hlen, h0, rfl, rfl⟩

/-! ## 1. a ruler that answers for everything: nothing changes -/

theorem signAttsShort_of_ge (s : Inst) (c : String) (items : List (Addr × AttData)) (f : Faults) (sf : List Nat)
    (k : Nat) (h : items.length ≤ k) : signAttsShort s c items f sf k = signAtts s c items f sf := by
  rcases signAttsShort_cases s c items f sf k with ⟨h1, _, _⟩ | ⟨_, h1, h2⟩ | ⟨keyed, hl, _, h1, h2⟩
  · exact h1
  · rw [h1, h2, failedCut_of_ge items k h]
  · rw [h1, h2]; exact attestKeyedShort_of_ge s keyed f sf k (by omega)

theorem multisignShort_of_ge (s : Inst) (c ip : String) (items : List (Addr × SignData)) (sf : List Nat) (lf : Bool)
    (k : Nat) (h : items.length ≤ k) : multisignShort s c ip items sf lf k = multisign s c ip items sf lf := by
  rcases multisignShort_cases s c ip items sf lf k with ⟨h1, _, _⟩ | ⟨_, h1, h2⟩ | ⟨keyed, hl, _, h1, h2⟩
  · exact h1
  · rw [h1, h2, failedCut_of_ge items k h]
  · rw [h1, h2]; exact msignKeyedShort_of_ge s ip keyed sf k (by omega)

/-! ## 2. fail-closed at every position -/

theorem C06_short_rules_atts_closed (s : Inst) (c : String) (items : List (Addr × AttData)) (f : Faults)
    (sf : List Nat) (k : Nat) : ∀ p ∈ (signAttsShort s c items f sf k).2, p.closed := by
  rcases signAttsShort_cases s c items f sf k with ⟨h1, _, _⟩ | ⟨_, h1, _⟩ | ⟨keyed, _, _, h1, _⟩
  · rw [h1]; exact C06_atts s c items f sf
  · rw [h1]; exact failedCut_closed items k
  · rw [h1]; exact attestKeyedShort_closed s keyed f sf k

theorem C06_short_rules_msign_closed (s : Inst) (c ip : String) (items : List (Addr × SignData)) (sf : List Nat)
    (lf : Bool) (k : Nat) : ∀ p ∈ (multisignShort s c ip items sf lf k).2, p.closed := by
  rcases multisignShort_cases s c ip items sf lf k with ⟨h1, _, _⟩ | ⟨_, h1, _⟩ | ⟨keyed, _, _, h1, _⟩
  · rw [h1]; exact C06_msign s c ip items sf lf
  · rw [h1]; exact failedCut_closed items k
  · rw [h1]; exact msignKeyedShort_closed s ip keyed sf k

/-! ## 3. one response position per request -/

theorem C06_short_rules_atts_shape (s : Inst) (c : String) (items : List (Addr × AttData)) (f : Faults)
    (sf : List Nat) (k : Nat) : (signAttsShort s c items f sf k).2.length = max 1 items.length := by
  rcases signAttsShort_cases s c items f sf k with ⟨h1, _, _⟩ | ⟨h0, h1, _⟩ | ⟨keyed, hl, h0, h1, _⟩
  · rw [h1]; exact C06_shape_atts s c items f sf
  · rw [h1]; simp only; rw [failedCut_length]; omega
  · rw [h1, attestKeyedShort_length, hl]; omega

theorem C06_short_rules_msign_shape (s : Inst) (c ip : String) (items : List (Addr × SignData)) (sf : List Nat)
    (lf : Bool) (k : Nat) : (multisignShort s c ip items sf lf k).2.length = max 1 items.length := by
  rcases multisignShort_cases s c ip items sf lf k with ⟨h1, _, _⟩ | ⟨h0, h1, _⟩ | ⟨keyed, hl, h0, h1, _⟩
  · rw [h1]; exact C06_shape_msign s c ip items sf lf
  · rw [h1]; simp only; rw [failedCut_length]; omega
  · rw [h1, msignKeyedShort_length, hl]; omega

/-! ## 4. main: positions the ruler did not answer for are never signed -/

/-- **C06 (short rules, batch attestations).** Whatever the request, the faults and the cut `k`: from position `k`
    on no response position carries a signature or is SUCCEEDED. -/
theorem C06_short_rules_atts (s : Inst) (c : String) (items : List (Addr × AttData)) (f : Faults) (sf : List Nat)
    (k : Nat) : ∀ p ∈ (signAttsShort s c items f sf k).2.drop k, p.root = none ∧ p.res ≠ .succeeded := by
  rcases signAttsShort_cases s c items f sf k with ⟨h1, _, h3⟩ | ⟨_, h1, _⟩ | ⟨keyed, _, _, h1, _⟩
  · rw [h1]; intro p hp; exact h3 p (List.mem_of_mem_drop hp)
  · rw [h1]; intro p hp; exact unknownPos_unsigned (failedCut_drop items k p hp)
  · rw [h1]; intro p hp; exact unknownPos_unsigned (attestKeyedShort_drop s keyed f sf k p hp)

/-- **C06 (short rules, multisign).** -/
theorem C06_short_rules_msign (s : Inst) (c ip : String) (items : List (Addr × SignData)) (sf : List Nat)
    (lf : Bool) (k : Nat) :
    ∀ p ∈ (multisignShort s c ip items sf lf k).2.drop k, p.root = none ∧ p.res ≠ .succeeded := by
  rcases multisignShort_cases s c ip items sf lf k with ⟨h1, _, h3⟩ | ⟨_, h1, _⟩ | ⟨keyed, _, _, h1, _⟩
  · rw [h1]; intro p hp; exact h3 p (List.mem_of_mem_drop hp)
  · rw [h1]; intro p hp; exact unknownPos_unsigned (failedCut_drop items k p hp)
  · rw [h1]; intro p hp; exact unknownPos_unsigned (msignKeyedShort_drop s ip keyed sf k p hp)

/-! ## 5. nothing beyond the answered positions is released or logged -/

theorem C06_short_rules_atts_log (s : Inst) (c : String) (items : List (Addr × AttData)) (f : Faults)
    (sf : List Nat) (k : Nat) :
    (∃ rel, (signAttsShort s c items f sf k).1.attLog = s.attLog ++ rel ∧ rel.length ≤ k) ∧
    (signAttsShort s c items f sf k).1.propLog = s.propLog ∧
    (signAttsShort s c items f sf k).1.signLog = s.signLog ∧
    (signAttsShort s c items f sf k).1.cfg = s.cfg := by
  rcases signAttsShort_cases s c items f sf k with ⟨h1, h2, _⟩ | ⟨_, h1, _⟩ | ⟨keyed, _, _, h1, _⟩
  · rw [h1, h2]; exact ⟨⟨[], by simp, by simp⟩, rfl, rfl, rfl⟩
  · rw [h1]; exact ⟨⟨[], by simp, by simp⟩, rfl, rfl, rfl⟩
  · rw [h1]; exact attestKeyedShort_log s keyed f sf k

theorem C06_short_rules_msign_log (s : Inst) (c ip : String) (items : List (Addr × SignData)) (sf : List Nat)
    (lf : Bool) (k : Nat) :
    (∃ rel, (multisignShort s c ip items sf lf k).1.signLog = s.signLog ++ rel ∧ rel.length ≤ k) ∧
    (multisignShort s c ip items sf lf k).1.db = s.db ∧
    (multisignShort s c ip items sf lf k).1.attLog = s.attLog ∧
    (multisignShort s c ip items sf lf k).1.propLog = s.propLog ∧
    (multisignShort s c ip items sf lf k).1.cfg = s.cfg := by
  rcases multisignShort_cases s c ip items sf lf k with ⟨h1, h2, _⟩ | ⟨_, h1, _⟩ | ⟨keyed, _, _, h1, _⟩
  · rw [h1, h2]; exact ⟨⟨[], by simp, by simp⟩, rfl, rfl, rfl, rfl⟩
  · rw [h1]; exact ⟨⟨[], by simp, by simp⟩, rfl, rfl, rfl, rfl⟩
  · rw [h1]; exact msignKeyedShort_log s ip keyed sf k

/-! ## 6. the rules' state does not depend on the cut -/

theorem signAttsShort_db (s : Inst) (c : String) (items : List (Addr × AttData)) (f : Faults) (sf : List Nat)
    (k : Nat) : (signAttsShort s c items f sf k).1.db = (signAtts s c items f sf).1.db := by
  rcases signAttsShort_cases s c items f sf k with ⟨h1, _, _⟩ | ⟨_, h1, h2⟩ | ⟨keyed, _, _, h1, h2⟩
  · rw [h1]
  · rw [h1, h2]
  · rw [h1, h2]; exact attestKeyedShort_db s keyed f sf k

/-! ## 7. the answered positions are exactly what the uncut function gives -/

theorem signAttsShort_take (s : Inst) (c : String) (items : List (Addr × AttData)) (f : Faults) (sf : List Nat)
    (k : Nat) : (signAttsShort s c items f sf k).2.take k = (signAtts s c items f sf).2.take k := by
  rcases signAttsShort_cases s c items f sf k with ⟨h1, _, _⟩ | ⟨_, h1, h2⟩ | ⟨keyed, _, _, h1, h2⟩
  · rw [h1]
  · rw [h1, h2]; exact failedCut_take items k
  · rw [h1, h2]; exact attestKeyedShort_take s keyed f sf k

theorem multisignShort_take (s : Inst) (c ip : String) (items : List (Addr × SignData)) (sf : List Nat) (lf : Bool)
    (k : Nat) : (multisignShort s c ip items sf lf k).2.take k = (multisign s c ip items sf lf).2.take k := by
  rcases multisignShort_cases s c ip items sf lf k with ⟨h1, _, _⟩ | ⟨_, h1, h2⟩ | ⟨keyed, _, _, h1, h2⟩
  · rw [h1]
  · rw [h1, h2]; exact failedCut_take items k
  · rw [h1, h2]; exact msignKeyedShort_take s ip keyed sf k

/-! ## 8. on a concrete configuration

Three accounts, a client that may do everything, a generic request of three entries.  (The attestation twin is
not stated by `decide`: `AttData.signingRoot` asks for the length of an SSZ hash, which the kernel does not
evaluate in reasonable time; the driver exercises `signAttsShort` on every run.) -/

namespace ShortRulesEx

def acct (n : String) (b : UInt8) : Account := { wallet := "w", name := n, pubkey := List.replicate 48 b }
def cfg : Config :=
  { accounts := [acct "a" 7, acct "b" 8, acct "c" 9],
    access := [("c", [{ wallet := .star .any, account := .star .any, ops := ["All"] }])] }
def sdata : SignData := { data := some (List.replicate 32 1), domain := some (List.replicate 32 9) }
def batch : List (Addr × SignData) :=
  [({ name := "w/a" }, sdata), ({ name := "w/b" }, sdata), ({ name := "w/c" }, sdata)]
/-- the first account twice: the ruler refuses the batch as a whole -/
def dupBatch : List (Addr × SignData) :=
  [({ name := "w/a" }, sdata), ({ name := "w/b" }, sdata), ({ name := "w/a" }, sdata)]

/-- uncut: three signatures … -/
example : (multisign { cfg := cfg } "c" "" batch [] false).2.map (fun p => (p.res, p.root.isSome)) =
    [(.succeeded, true), (.succeeded, true), (.succeeded, true)] := by decide
/-- … a ruler that answers for one entry: one signature, the rest UNKNOWN without one, one entry released … -/
example : (multisignShort { cfg := cfg } "c" "" batch [] false 1).2.map (fun p => (p.res, p.root.isSome)) =
    [(.succeeded, true), (.unknown, false), (.unknown, false)] := by decide
example : (multisignShort { cfg := cfg } "c" "" batch [] false 1).1.signLog.length = 1 := by decide
/-- … and one that answers for none: nothing is signed -/
example : (multisignShort { cfg := cfg } "c" "" batch [] false 0).2 =
    [⟨.unknown, none⟩, ⟨.unknown, none⟩, ⟨.unknown, none⟩] := by decide
/-- the ruler's `n × FAILED` for duplicate keys is cut as well -/
example : (multisign { cfg := cfg } "c" "" dupBatch [] false).2 =
    [⟨.failed, none⟩, ⟨.failed, none⟩, ⟨.failed, none⟩] := by decide
example : (multisignShort { cfg := cfg } "c" "" dupBatch [] false 1).2 =
    [⟨.failed, none⟩, ⟨.unknown, none⟩, ⟨.unknown, none⟩] := by decide

end ShortRulesEx

end Dirk

/-
  `#print axioms` (Lean 4.33.0), each of them:
  #print axioms Dirk.signAttsShort_of_ge
  -- 'Dirk.signAttsShort_of_ge' depends on axioms: [propext, Classical.choice, Quot.sound]
  #print axioms Dirk.multisignShort_of_ge
  -- 'Dirk.multisignShort_of_ge' depends on axioms: [propext, Classical.choice, Quot.sound]
  #print axioms Dirk.C06_short_rules_atts_closed
  -- 'Dirk.C06_short_rules_atts_closed' depends on axioms: [propext, Classical.choice, Quot.sound]
  #print axioms Dirk.C06_short_rules_msign_closed
  -- 'Dirk.C06_short_rules_msign_closed' depends on axioms: [propext, Classical.choice, Quot.sound]
  #print axioms Dirk.C06_short_rules_atts_shape
  -- 'Dirk.C06_short_rules_atts_shape' depends on axioms: [propext, Classical.choice, Quot.sound]
  #print axioms Dirk.C06_short_rules_msign_shape
  -- 'Dirk.C06_short_rules_msign_shape' depends on axioms: [propext, Classical.choice, Quot.sound]
  #print axioms Dirk.C06_short_rules_atts
  -- 'Dirk.C06_short_rules_atts' depends on axioms: [propext, Classical.choice, Quot.sound]
  #print axioms Dirk.C06_short_rules_msign
  -- 'Dirk.C06_short_rules_msign' depends on axioms: [propext, Classical.choice, Quot.sound]
  #print axioms Dirk.C06_short_rules_atts_log
  -- 'Dirk.C06_short_rules_atts_log' depends on axioms: [propext, Classical.choice, Quot.sound]
  #print axioms Dirk.C06_short_rules_msign_log
  -- 'Dirk.C06_short_rules_msign_log' depends on axioms: [propext, Classical.choice, Quot.sound]
  #print axioms Dirk.signAttsShort_db
  -- 'Dirk.signAttsShort_db' depends on axioms: [propext, Classical.choice, Quot.sound]
  #print axioms Dirk.signAttsShort_take
  -- 'Dirk.signAttsShort_take' depends on axioms: [propext, Classical.choice, Quot.sound]
  #print axioms Dirk.multisignShort_take
  -- 'Dirk.multisignShort_take' depends on axioms: [propext, Classical.choice, Quot.sound]
-/
