/-
  Dirk.Lemmas.PropInv — proposals: rule-level facts, frame lemmas between attestation and proposal
  records, and the instance-level invariant behind C02.
-/
import Dirk.Lemmas.AttInv

namespace Dirk

/-- the proposal record stored for `pk` is decodable, in range, and at least `n` -/
def PCovers (db : Db) (pk : Bytes) (n : Nat) : Prop :=
  ∃ st, fetchProp db pk false = some st ∧ InI64 st ∧ (n : Int) ≤ st

/-! ## frame lemmas -/

theorem onPropose_db_cases (db : Db) (pk : Bytes) (r : PropReq) (f : Faults) :
    (onPropose db pk r f).2 = db ∨
    (onPropose db pk r f).2 = db.put (propKey pk) (encodeProp (i64 r.slot)) := by
  unfold onPropose
  repeat' split
  all_goals first
    | (left; rfl)
    | (rcases storeOne_cases db (propKey pk) (encodeProp (i64 r.slot)) f with h | h
       · left; simp [h]
       · right; simp [h])

theorem onPropose_att_frame (db : Db) (pk : Bytes) (r : PropReq) (f : Faults) (pk' : Bytes) :
    fetchAtt (onPropose db pk r f).2 pk' false = fetchAtt db pk' false := by
  rcases onPropose_db_cases db pk r f with h | h
  · rw [h]
  · rw [h, fetchAtt_put_prop]

theorem covers_of_fetch_eq {db db' : Db} (h : ∀ pk', fetchAtt db' pk' false = fetchAtt db pk' false)
    (pk' : Bytes) (s t : Nat) (hc : Covers db pk' s t) : Covers db' pk' s t := by
  obtain ⟨st, h0, r⟩ := hc
  exact ⟨st, by rw [h]; exact h0, r⟩

theorem fetchProp_congr {db db' : Db} {pk : Bytes} (h : db'.get (propKey pk) = db.get (propKey pk)) :
    fetchProp db' pk false = fetchProp db pk false := by
  simp [fetchProp, h]

theorem onAttest_db_cases (db : Db) (pk : Bytes) (r : AttReq) (f : Faults) :
    (onAttest db pk r f).2 = db ∨ ∃ v, (onAttest db pk r f).2 = db.put (attKey pk) v := by
  unfold onAttest
  split
  · left; rfl
  · split
    · rename_i st' _
      rcases storeOne_cases db (attKey pk) (encodeAtt st') f with h | h
      · left; simp [h]
      · right; exact ⟨encodeAtt st', by simp [h]⟩
    · left; rfl

theorem onAttest_prop_frame (db : Db) (pk : Bytes) (r : AttReq) (f : Faults) (pk' : Bytes) :
    fetchProp (onAttest db pk r f).2 pk' false = fetchProp db pk' false := by
  rcases onAttest_db_cases db pk r f with h | ⟨v, h⟩
  · rw [h]
  · rw [h, fetchProp_put_att]

theorem onAttestBatch_prop_frame {α : Type} (req : α → AttReq) (db : Db) (items : List (Bytes × α))
    (f : Faults) (pk' : Bytes) :
    fetchProp (onAttestBatch req db items f).2 pk' false = fetchProp db pk' false := by
  unfold onAttestBatch
  split
  · rfl
  · rename_i evs _
    simp only
    rcases storeMany_cases db (batchKvs evs) f with h | h
    · rw [h]
    · rw [h]
      apply fetchProp_congr
      apply get_putMany_notin
      rw [batchKvs_keys]
      intro hm
      obtain ⟨x, _, hx⟩ := List.mem_map.mp hm
      exact attKey_ne_propKey x pk' hx

theorem rulesKeyed_prop_frame (db : Db) (keyed : List (Bytes × AttData)) (f : Faults) (pk' : Bytes) :
    fetchProp (rulesKeyed db keyed f).2 pk' false = fetchProp db pk' false := by
  unfold rulesKeyed
  split
  · exact onAttest_prop_frame _ _ _ _ _
  · exact onAttestBatch_prop_frame _ _ _ _ _

/-! ## the proposal rule -/

theorem onPropose_inv {db db' : Db} {pk : Bytes} {r : PropReq} {f : Faults} {v : Verdict}
    (h : onPropose db pk r f = (v, db')) :
    (∀ pk' n, PCovers db pk' n → PCovers db' pk' n) ∧
    (v = .approved → PCovers db' pk r.slot ∧ r.slot ≤ maxI64 ∧ prefix4 r.domain = domProposer ∧
        ∀ n, PCovers db pk n → n < r.slot) := by
  unfold onPropose at h
  split at h
  · injection h with h1 h2; subst h1; subst h2
    exact ⟨fun _ _ hc => hc, fun hv => by cases hv⟩
  · rename_i hdom
    split at h
    · injection h with h1 h2; subst h1; subst h2
      exact ⟨fun _ _ hc => hc, fun hv => by cases hv⟩
    · rename_i hmax
      split at h
      · injection h with h1 h2; subst h1; subst h2
        exact ⟨fun _ _ hc => hc, fun hv => by cases hv⟩
      · rename_i st hf
        have hf := fetchProp_some_false hf
        split at h
        · injection h with h1 h2; subst h1; subst h2
          exact ⟨fun _ _ hc => hc, fun hv => by cases hv⟩
        · rename_i hnot
          have hslot : r.slot ≤ maxI64 := by omega
          have hi : i64 r.slot = (r.slot : Int) := i64_small _ hslot
          have hin : InI64 (i64 r.slot) := by
            rw [hi]; unfold InI64 maxI64 two63 at *; constructor <;> omega
          have hgt : 0 ≤ st → st < (r.slot : Int) := by
            intro h0
            have := u64_nonneg _ h0
            have : ¬ (r.slot ≤ u64 st) := fun hh => hnot ⟨h0, hh⟩
            omega
          have hkeep : ∀ pk' n, PCovers db pk' n →
              PCovers (db.put (propKey pk) (encodeProp (i64 r.slot))) pk' n := by
            intro pk' n ⟨st0, h0, hi0, hb⟩
            by_cases hk : pk' = pk
            · subst hk
              rw [hf] at h0; injection h0 with h0; subst h0
              refine ⟨i64 r.slot, fetchProp_put_prop_same _ _ _ hin, hin, ?_⟩
              have := hgt (by omega)
              rw [hi]; omega
            · exact ⟨st0, by rw [fetchProp_put_prop_other _ _ _ _ hk]; exact h0, hi0, hb⟩
          simp only at h
          injection h with h1 h2
          constructor
          · intro pk' n hc
            rcases storeOne_cases db (propKey pk) (encodeProp (i64 r.slot)) f with hh | hh
            · rw [← h2, hh]; exact hc
            · rw [← h2, hh]; exact hkeep pk' n hc
          · intro hv
            have hok : (storeOne db (propKey pk) (encodeProp (i64 r.slot)) f).1 = true := by
              by_cases hb : (storeOne db (propKey pk) (encodeProp (i64 r.slot)) f).1 = true
              · exact hb
              · simp [hb] at h1; rw [← h1] at hv; cases hv
            rw [← h2, storeOne_ok hok]
            refine ⟨⟨i64 r.slot, fetchProp_put_prop_same _ _ _ hin, hin, by rw [hi]; omega⟩, hslot,
              Decidable.not_not.mp hdom, ?_⟩
            intro n ⟨st0, h0, _, hb⟩
            rw [hf] at h0; injection h0 with h0; subst h0
            have := hgt (by omega)
            omega

/-! ## instance invariant -/

def PLogMono (log : List (Bytes × PropData)) : Prop :=
  log.Pairwise (fun a b => a.1 = b.1 → a.2.slot < b.2.slot)

structure PropInv (s : Inst) : Prop where
  covered : ∀ e ∈ s.propLog, PCovers s.db e.1 e.2.slot
  mono : PLogMono s.propLog

theorem pcovers_of_fetch_eq {db db' : Db} (h : ∀ pk', fetchProp db' pk' false = fetchProp db pk' false)
    (pk' : Bytes) (n : Nat) (hc : PCovers db pk' n) : PCovers db' pk' n := by
  obtain ⟨st, h0, r⟩ := hc
  exact ⟨st, by rw [h]; exact h0, r⟩

theorem propInv_db_only {s : Inst} (hinv : PropInv s) (db' : Db)
    (hkeep : ∀ pk' n, PCovers s.db pk' n → PCovers db' pk' n) :
    PropInv { s with db := db' } :=
  ⟨fun e he => hkeep _ _ (hinv.covered e he), hinv.mono⟩

theorem signProp_propInv {s : Inst} (hinv : PropInv s) (c : String) (a : Addr) (d : PropData) (f : Faults)
    (sf : Bool) : PropInv (signProp s c a d f sf).1 := by
  unfold signProp
  split
  · exact hinv
  · split
    · exact hinv
    · rename_i acct _
      rcases hon : onPropose s.db acct.pubkey { domain := d.domain.getD [], slot := d.slot } f with ⟨v, db'⟩
      obtain ⟨hkeep, happ⟩ := onPropose_inv hon
      simp only
      split
      · obtain ⟨hcov, _, _, hlt⟩ := happ rfl
        split
        · exact propInv_db_only hinv db' hkeep
        · split
          · exact propInv_db_only hinv db' hkeep
          · constructor
            · intro e he
              simp only at he ⊢
              rcases List.mem_append.mp he with h | h
              · exact hkeep _ _ (hinv.covered e h)
              · simp at h; subst h; exact hcov
            · simp only
              unfold PLogMono
              rw [List.pairwise_append]
              refine ⟨hinv.mono, by simp, ?_⟩
              intro a' ha b hb hab
              simp at hb; subst hb
              have hc := hinv.covered a' ha
              rw [hab] at hc
              exact hlt _ hc
      · exact propInv_db_only hinv db' hkeep

theorem signProp_attInv {s : Inst} (hinv : AttInv s) (c : String) (a : Addr) (d : PropData) (f : Faults)
    (sf : Bool) : AttInv (signProp s c a d f sf).1 := by
  unfold signProp
  split
  · exact hinv
  · split
    · exact hinv
    · rename_i acct _
      have hframe := onPropose_att_frame s.db acct.pubkey { domain := d.domain.getD [], slot := d.slot } f
      rcases hon : onPropose s.db acct.pubkey { domain := d.domain.getD [], slot := d.slot } f with ⟨v, db'⟩
      rw [hon] at hframe
      simp only at hframe
      have hkeep := covers_of_fetch_eq hframe
      simp only
      have base := attInv_db_only hinv db' hkeep
      split
      · split
        · exact base
        · split
          · exact base
          · exact ⟨base.covered, base.mono⟩
      · exact base

theorem signAtt_propInv {s : Inst} (hinv : PropInv s) (c : String) (a : Addr) (d : AttData) (f : Faults)
    (sf : Bool) : PropInv (signAtt s c a d f sf).1 := by
  unfold signAtt
  split
  · exact hinv
  · split
    · exact hinv
    · rename_i acct _
      have hframe := onAttest_prop_frame s.db acct.pubkey d.req f
      rcases hon : onAttest s.db acct.pubkey d.req f with ⟨v, db'⟩
      rw [hon] at hframe
      simp only at hframe
      have base := propInv_db_only hinv db' (pcovers_of_fetch_eq hframe)
      simp only
      split
      · split
        · exact base
        · split
          · exact base
          · exact ⟨base.covered, base.mono⟩
      · exact base

theorem signAtts_propInv {s : Inst} (hinv : PropInv s) (c : String) (items : List (Addr × AttData))
    (f : Faults) (sf : List Nat) : PropInv (signAtts s c items f sf).1 := by
  unfold signAtts
  simp only
  split
  · exact hinv
  · split
    · exact hinv
    · split
      · exact hinv
      · split
        · exact hinv
        · unfold attestKeyed finishKeyed
          have base := propInv_db_only hinv _ (pcovers_of_fetch_eq (rulesKeyed_prop_frame s.db
            (okItems (preCheckAll s.cfg c opAttest items f.lockStateFail)) f))
          split
          · exact base
          · exact ⟨base.covered, base.mono⟩

end Dirk
