/-
  Dirk.Lemmas.ImportProofs — the command-level slashing-protection import (`importFile`) never
  lowers a record, covers every number stated in the file, keeps the store in int64 range, and
  rejects bad metadata / malformed entries.  Core Lean only.
-/
import Dirk.Model.Import
import Dirk.Lemmas.Store
namespace Dirk

/-- fieldwise ≥ -/
def ProtGe (a b : Protection) : Prop := a.slot ≥ b.slot ∧ a.src ≥ b.src ∧ a.tgt ≥ b.tgt

/-- every decodable record of the store holds int64-range values (true of every store the model can produce) -/
def RangeOK (db : Db) : Prop :=
  ∀ k p, exportKey db k = some p → InI64 p.slot ∧ InI64 p.src ∧ InI64 p.tgt

theorem ProtGe.refl (a : Protection) : ProtGe a a := by unfold ProtGe; omega
theorem ProtGe.trans {a b c : Protection} (h1 : ProtGe a b) (h2 : ProtGe b c) : ProtGe a c := by
  unfold ProtGe at *; omega

def PInI64 (p : Protection) : Prop := InI64 p.slot ∧ InI64 p.src ∧ InI64 p.tgt

theorem parseInt64_aux (neg : Bool) (ds : List Char) (v : Int)
    (h : (if ds.isEmpty = true then none else
      match parseDigits ds 0 with
      | none => none
      | some n =>
        if neg = true then (if n ≤ two63 then some (-(n : Int)) else none)
        else (if n < two63 then some (n : Int) else none)) = some v) : InI64 v := by
  split at h
  · cases h
  · split at h
    · cases h
    · rename_i n _
      unfold InI64
      unfold two63 at *
      cases neg <;> simp only [Bool.false_eq_true, ↓reduceIte] at h <;> split at h <;> cases h <;> omega

theorem parseInt64_range (s : String) (v : Int) (h : parseInt64 s = some v) : InI64 v := by
  unfold parseInt64 at h
  simp only at h
  exact parseInt64_aux _ _ _ h

theorem foldAtts_spec (atts : List (String × String)) : ∀ (p p' : Protection),
    foldAtts p atts = some p' →
    p'.slot = p.slot ∧ p'.src ≥ p.src ∧ p'.tgt ≥ p.tgt ∧ (PInI64 p → PInI64 p') ∧
    (∀ a ∈ atts, ∃ vs vt, parseInt64 a.1 = some vs ∧ parseInt64 a.2 = some vt ∧
        0 ≤ vs ∧ 0 ≤ vt ∧ vs ≤ p'.src ∧ vt ≤ p'.tgt) := by
  induction atts with
  | nil =>
    intro p p' h
    simp only [foldAtts, Option.some.injEq] at h
    subst h
    refine ⟨rfl, Int.le_refl _, Int.le_refl _, id, ?_⟩
    intro a ha; cases ha
  | cons a rest ih =>
    intro p p' h
    obtain ⟨s, t⟩ := a
    unfold foldAtts at h
    split at h
    · cases h
    · rename_i sv hsv
      split at h
      · cases h
      · rename_i hsv0
        split at h
        · cases h
        · rename_i tv htv
          split at h
          · cases h
          · rename_i htv0
            obtain ⟨h1, h2, h3, h4, h5⟩ := ih _ _ h
            simp only at h1 h2 h3 h4
            have rs := parseInt64_range _ _ hsv
            have rt := parseInt64_range _ _ htv
            refine ⟨h1, ?_, ?_, ?_, ?_⟩
            · split at h2 <;> omega
            · split at h3 <;> omega
            · intro hp
              apply h4
              unfold PInI64 at *
              simp only
              refine ⟨hp.1, ?_, ?_⟩
              · split
                · exact rs
                · exact hp.2.1
              · split
                · exact rt
                · exact hp.2.2
            · intro a ha
              rcases List.mem_cons.mp ha with rfl | ha
              · refine ⟨sv, tv, hsv, htv, by omega, by omega, ?_, ?_⟩
                · split at h2 <;> omega
                · split at h3 <;> omega
              · exact h5 a ha

theorem foldBlocks_spec (bl : List String) : ∀ (p p' : Protection),
    foldBlocks p bl = some p' →
    p'.slot ≥ p.slot ∧ p'.src = p.src ∧ p'.tgt = p.tgt ∧ (PInI64 p → PInI64 p') ∧
    (∀ s ∈ bl, ∃ v, parseInt64 s = some v ∧ 0 ≤ v ∧ v ≤ p'.slot) := by
  induction bl with
  | nil =>
    intro p p' h
    simp only [foldBlocks, Option.some.injEq] at h
    subst h
    refine ⟨Int.le_refl _, rfl, rfl, id, ?_⟩
    intro a ha; cases ha
  | cons s rest ih =>
    intro p p' h
    unfold foldBlocks at h
    split at h
    · cases h
    · rename_i v hv
      split at h
      · cases h
      · rename_i hv0
        obtain ⟨h1, h2, h3, h4, h5⟩ := ih _ _ h
        simp only at h1 h2 h3 h4
        have rv := parseInt64_range _ _ hv
        refine ⟨?_, h2, h3, ?_, ?_⟩
        · split at h1 <;> omega
        · intro hp
          apply h4
          unfold PInI64 at *
          simp only
          refine ⟨?_, hp.2.1, hp.2.2⟩
          split
          · exact rv
          · exact hp.1
        · intro a ha
          rcases List.mem_cons.mp ha with rfl | ha
          · refine ⟨v, hv, by omega, ?_⟩
            split at h1 <;> omega
          · exact h5 a ha


/-! ## PMap -/

theorem pget_set_same (m : PMap) (k : Bytes) (p : Protection) : (m.set k p).get k = some p := by
  simp [PMap.set, PMap.get]

theorem pget_set_other (m : PMap) (k k' : Bytes) (p : Protection) (h : k' ≠ k) :
    (m.set k p).get k' = m.get k' := by
  have : (k' == k) = false := by simpa using h
  simp [PMap.set, PMap.get, List.lookup, this]

theorem lookup_some_mem {β : Type} (l : List (Bytes × β)) (k : Bytes) (b : β)
    (h : List.lookup k l = some b) : (k, b) ∈ l := by
  induction l with
  | nil => simp at h
  | cons e rest ih =>
    obtain ⟨k0, b0⟩ := e
    rw [List.lookup_cons] at h
    split at h
    · rename_i heq
      have : k = k0 := by simpa using heq
      subst this
      injection h with h
      subst h
      exact List.mem_cons_self
    · exact List.mem_cons_of_mem _ (ih h)

/-- the start value `mergeEntries` uses for key `k` -/
def startOf (db : Db) (m : PMap) (k : Bytes) : Protection :=
  match m.get k with
  | some p => p
  | none => match existingOf db k with
    | some p => p
    | none => {}

theorem mergeEntries_cons (db : Db) (m m' : PMap) (e : FileEntry) (rest : List FileEntry)
    (h : mergeEntries db m (e :: rest) = some m') :
    ∃ kb p1 p2, hexDecode0x e.pubkey = some kb ∧
      foldAtts (startOf db m (fit48 kb)) e.atts = some p1 ∧
      foldBlocks p1 e.blocks = some p2 ∧
      mergeEntries db (m.set (fit48 kb) p2) rest = some m' := by
  unfold mergeEntries at h
  split at h
  · cases h
  · rename_i kb hkb
    simp only at h
    split at h
    · cases h
    · rename_i p1 hp1
      split at h
      · cases h
      · rename_i p2 hp2
        exact ⟨kb, p1, p2, hkb, hp1, hp2, h⟩

/-- monotonicity of the map and coverage of the file, no assumptions on the store -/
theorem mergeEntries_cover (db : Db) (es : List FileEntry) : ∀ (m m' : PMap),
    mergeEntries db m es = some m' →
    (∀ k p, m.get k = some p → ∃ p', m'.get k = some p' ∧ ProtGe p' p) ∧
    (∀ e ∈ es, ∃ kb p', hexDecode0x e.pubkey = some kb ∧ m'.get (fit48 kb) = some p' ∧
      (∀ s ∈ e.blocks, ∃ v, parseInt64 s = some v ∧ 0 ≤ v ∧ v ≤ p'.slot) ∧
      (∀ a ∈ e.atts, ∃ vs vt, parseInt64 a.1 = some vs ∧ parseInt64 a.2 = some vt ∧
          0 ≤ vs ∧ 0 ≤ vt ∧ vs ≤ p'.src ∧ vt ≤ p'.tgt)) := by
  induction es with
  | nil =>
    intro m m' h
    simp only [mergeEntries, Option.some.injEq] at h
    subst h
    refine ⟨fun k p hp => ⟨p, hp, ProtGe.refl p⟩, ?_⟩
    intro e he; cases he
  | cons e rest ih =>
    intro m m' h
    obtain ⟨kb, p1, p2, hkb, hp1, hp2, hrest⟩ := mergeEntries_cons db m m' e rest h
    obtain ⟨imono, icov⟩ := ih _ _ hrest
    obtain ⟨a1, a2, a3, _, a5⟩ := foldAtts_spec _ _ _ hp1
    obtain ⟨b1, b2, b3, _, b5⟩ := foldBlocks_spec _ _ _ hp2
    obtain ⟨pf, hpf, hge⟩ := imono (fit48 kb) p2 (pget_set_same _ _ _)
    refine ⟨?_, ?_⟩
    · intro k p hp
      by_cases hk : k = fit48 kb
      · subst hk
        refine ⟨pf, hpf, ?_⟩
        have hs : startOf db m (fit48 kb) = p := by
          unfold startOf; rw [hp]
        rw [hs] at a1 a2 a3
        unfold ProtGe at *
        omega
      · have : (m.set (fit48 kb) p2).get k = some p := by
          rw [pget_set_other _ _ _ _ hk]; exact hp
        exact imono k p this
    · intro e' he'
      rcases List.mem_cons.mp he' with rfl | he'
      · refine ⟨kb, pf, hkb, hpf, ?_, ?_⟩
        · intro s hs
          obtain ⟨v, hv, hv0, hvle⟩ := b5 s hs
          refine ⟨v, hv, hv0, ?_⟩
          unfold ProtGe at hge; omega
        · intro a ha
          obtain ⟨vs, vt, hvs, hvt, h0s, h0t, hles, hlet⟩ := a5 a ha
          refine ⟨vs, vt, hvs, hvt, h0s, h0t, ?_, ?_⟩
          · unfold ProtGe at hge; omega
          · unfold ProtGe at hge; omega
      · exact icov e' he'


/-! ## existing records -/

theorem fit48_length (b : Bytes) : (fit48 b).length = 48 := by
  simp [fit48]

theorem get_none_of_not_pubKey (db : Db) (k : Bytes) (x : UInt8) (hk : k.length = 48)
    (hn : k ∉ db.pubKeys) : db.get (k ++ [x]) = none := by
  unfold Db.get
  rw [List.lookup_eq_none_iff]
  intro e he
  simp only [bne_iff_ne, ne_eq]
  intro heq
  apply hn
  unfold Db.pubKeys
  rw [List.mem_eraseDups, List.mem_map]
  refine ⟨e, he, ?_⟩
  rw [← heq]; exact List.take_left' hk

theorem exportKey_not_pubKey (db : Db) (k : Bytes) (hk : k.length = 48) (hn : k ∉ db.pubKeys) :
    exportKey db k = some {} := by
  have h1 := get_none_of_not_pubKey db k actionAtt hk hn
  have h2 := get_none_of_not_pubKey db k actionProp hk hn
  simp [exportKey, fetchAtt, fetchProp, attKey, propKey, h1, h2]

theorem existing_or_default (db : Db) (hex : exportable db = true) (k : Bytes) (hk : k.length = 48) :
    ∃ q, exportKey db k = some q ∧
      (match existingOf db k with | some p => p | none => ({} : Protection)) = q := by
  by_cases hc : k ∈ db.pubKeys
  · unfold exportable at hex
    rw [List.all_eq_true] at hex
    have := hex k hc
    cases hq : exportKey db k with
    | none => rw [hq] at this; simp at this
    | some q =>
      refine ⟨q, rfl, ?_⟩
      have : existingOf db k = some q := by
        unfold existingOf
        rw [if_pos (by simpa using hc), hq]
      rw [this]
  · refine ⟨{}, exportKey_not_pubKey db k hk hc, ?_⟩
    have : existingOf db k = none := by
      unfold existingOf
      rw [if_neg (by simpa using hc)]
    rw [this]

def MInv (db : Db) (m : PMap) : Prop :=
  ∀ k p, m.get k = some p → PInI64 p ∧ ∃ q, exportKey db k = some q ∧ ProtGe p q

theorem startOf_inv (db : Db) (m : PMap) (hex : exportable db = true) (hr : RangeOK db)
    (hm : MInv db m) (k : Bytes) (hk : k.length = 48) :
    PInI64 (startOf db m k) ∧ ∃ q, exportKey db k = some q ∧ ProtGe (startOf db m k) q := by
  unfold startOf
  cases hg : m.get k with
  | some p => exact hm k p hg
  | none =>
    obtain ⟨q, hq, he⟩ := existing_or_default db hex k hk
    simp only
    rw [he]
    exact ⟨hr k q hq, q, hq, ProtGe.refl q⟩

theorem mergeEntries_inv (db : Db) (hex : exportable db = true) (hr : RangeOK db)
    (es : List FileEntry) : ∀ (m m' : PMap),
    mergeEntries db m es = some m' → MInv db m → MInv db m' := by
  induction es with
  | nil =>
    intro m m' h hm
    simp only [mergeEntries, Option.some.injEq] at h
    subst h; exact hm
  | cons e rest ih =>
    intro m m' h hm
    obtain ⟨kb, p1, p2, hkb, hp1, hp2, hrest⟩ := mergeEntries_cons db m m' e rest h
    apply ih _ _ hrest
    obtain ⟨a1, a2, a3, a4, _⟩ := foldAtts_spec _ _ _ hp1
    obtain ⟨b1, b2, b3, b4, _⟩ := foldBlocks_spec _ _ _ hp2
    obtain ⟨s1, q, hq, sge⟩ := startOf_inv db m hex hr hm (fit48 kb) (fit48_length kb)
    intro k p hp
    by_cases hk : k = fit48 kb
    · subst hk
      rw [pget_set_same] at hp
      injection hp with hp
      subst hp
      refine ⟨b4 (a4 s1), q, hq, ?_⟩
      unfold ProtGe at *
      omega
    · rw [pget_set_other _ _ _ _ hk] at hp
      exact hm k p hp


/-! ## importKey / importAll -/

theorem fetchAtt_importKey_other (db : Db) (k k' : Bytes) (p : Protection) (h : k' ≠ k) :
    fetchAtt (importKey db k p) k' false = fetchAtt db k' false := by
  unfold importKey
  by_cases h1 : p.slot = -1 <;> by_cases h2 : p.src = -1 <;>
    simp [h1, h2, fetchAtt_put_att_other _ _ _ _ h, fetchAtt_put_prop]

theorem fetchProp_importKey_other (db : Db) (k k' : Bytes) (p : Protection) (h : k' ≠ k) :
    fetchProp (importKey db k p) k' false = fetchProp db k' false := by
  unfold importKey
  by_cases h1 : p.slot = -1 <;> by_cases h2 : p.src = -1 <;>
    simp [h1, h2, fetchProp_put_prop_other _ _ _ _ h, fetchProp_put_att]

theorem fetchAtt_importKey_same (db : Db) (k : Bytes) (p : Protection)
    (hs : InI64 p.src) (ht : InI64 p.tgt) :
    fetchAtt (importKey db k p) k false =
      if p.src ≠ -1 then some ⟨p.src, p.tgt⟩ else fetchAtt db k false := by
  unfold importKey
  by_cases h1 : p.slot = -1 <;> by_cases h2 : p.src = -1 <;>
    simp [h1, h2, fetchAtt_put_att_same _ _ ⟨p.src, p.tgt⟩ hs ht, fetchAtt_put_prop]

theorem fetchProp_importKey_same (db : Db) (k : Bytes) (p : Protection) (hs : InI64 p.slot) :
    fetchProp (importKey db k p) k false =
      if p.slot ≠ -1 then some p.slot else fetchProp db k false := by
  unfold importKey
  by_cases h1 : p.slot = -1 <;> by_cases h2 : p.src = -1 <;>
    simp [h1, h2, fetchProp_put_prop_same _ _ _ hs, fetchProp_put_att]

theorem exportKey_importKey_other (db : Db) (k k' : Bytes) (p : Protection) (h : k' ≠ k) :
    exportKey (importKey db k p) k' = exportKey db k' := by
  unfold exportKey
  rw [fetchAtt_importKey_other _ _ _ _ h, fetchProp_importKey_other _ _ _ _ h]

theorem exportKey_importKey_same (db : Db) (k : Bytes) (p q : Protection) (hp : PInI64 p)
    (hq : exportKey db k = some q) :
    exportKey (importKey db k p) k = some
      { slot := if p.slot ≠ -1 then p.slot else q.slot,
        src := if p.src ≠ -1 then p.src else q.src,
        tgt := if p.src ≠ -1 then p.tgt else q.tgt } := by
  unfold exportKey at hq ⊢
  rw [fetchAtt_importKey_same _ _ _ hp.2.1 hp.2.2, fetchProp_importKey_same _ _ _ hp.1]
  cases ha : fetchAtt db k false with
  | none => rw [ha] at hq; simp at hq
  | some a =>
    cases hb : fetchProp db k false with
    | none => rw [ha, hb] at hq; simp at hq
    | some b =>
      rw [ha, hb] at hq
      simp only [Option.some.injEq] at hq
      subst hq
      by_cases h1 : p.slot = -1 <;> by_cases h2 : p.src = -1 <;> simp [h1, h2]


theorem importKey_step (db : Db) (k : Bytes) (p q : Protection) (hp : PInI64 p)
    (hq : exportKey db k = some q) (hge : ProtGe p q) (hr : RangeOK db) :
    ∃ r, exportKey (importKey db k p) k = some r ∧ ProtGe r q ∧ ProtGe p r ∧ PInI64 r ∧
      (0 ≤ p.slot → r.slot = p.slot) ∧ (0 ≤ p.src → r.src = p.src ∧ r.tgt = p.tgt) := by
  refine ⟨_, exportKey_importKey_same db k p q hp hq, ?_, ?_, ?_, ?_, ?_⟩
  · unfold ProtGe at *
    by_cases h1 : p.slot = -1 <;> by_cases h2 : p.src = -1 <;> simp [h1, h2] <;> omega
  · unfold ProtGe at *
    by_cases h1 : p.slot = -1 <;> by_cases h2 : p.src = -1 <;> simp [h1, h2] <;> omega
  · have hq' := hr k q hq
    unfold PInI64 at *
    by_cases h1 : p.slot = -1 <;> by_cases h2 : p.src = -1 <;> simp [h1, h2] <;>
      simp [hp, hq']
  · intro h0
    have : p.slot ≠ -1 := by omega
    simp [this]
  · intro h0
    have : p.src ≠ -1 := by omega
    simp [this]

theorem importAll_spec (g : Bytes → Option Protection) (L : List (Bytes × Protection)) :
    ∀ (db : Db), (∀ kp ∈ L, g kp.1 = some kp.2) →
    (∀ k p, g k = some p → PInI64 p ∧ ∃ q, exportKey db k = some q ∧ ProtGe p q) →
    RangeOK db →
    RangeOK (importAll db L) ∧
    (∀ k q, exportKey db k = some q → ∃ q', exportKey (importAll db L) k = some q' ∧ ProtGe q' q) ∧
    (∀ kp ∈ L, ∃ q', exportKey (importAll db L) kp.1 = some q' ∧
      (0 ≤ kp.2.slot → kp.2.slot ≤ q'.slot) ∧
      (0 ≤ kp.2.src → kp.2.src ≤ q'.src ∧ kp.2.tgt ≤ q'.tgt)) := by
  induction L with
  | nil =>
    intro db _ _ hr
    refine ⟨hr, fun k q hq => ⟨q, hq, ProtGe.refl q⟩, ?_⟩
    intro kp hkp; cases hkp
  | cons kp rest ih =>
    intro db hL hg hr
    obtain ⟨k, p⟩ := kp
    have hgk : g k = some p := hL (k, p) List.mem_cons_self
    obtain ⟨hp, q, hq, hge⟩ := hg k p hgk
    obtain ⟨r, hr1, hrq, hpr, hri, hrs, hra⟩ := importKey_step db k p q hp hq hge hr
    have hL' : ∀ kp ∈ rest, g kp.1 = some kp.2 := fun kp h => hL kp (List.mem_cons_of_mem _ h)
    have hg' : ∀ k2 p2, g k2 = some p2 →
        PInI64 p2 ∧ ∃ q, exportKey (importKey db k p) k2 = some q ∧ ProtGe p2 q := by
      intro k2 p2 h2
      by_cases hk : k2 = k
      · subst hk
        rw [hgk] at h2
        injection h2 with h2
        subst h2
        exact ⟨hp, r, hr1, hpr⟩
      · rw [exportKey_importKey_other _ _ _ _ hk]
        exact hg k2 p2 h2
    have hr' : RangeOK (importKey db k p) := by
      intro k2 p2 h2
      by_cases hk : k2 = k
      · subst hk
        rw [hr1] at h2
        injection h2 with h2
        subst h2
        exact hri
      · rw [exportKey_importKey_other _ _ _ _ hk] at h2
        exact hr k2 p2 h2
    obtain ⟨R, M, C⟩ := ih (importKey db k p) hL' hg' hr'
    simp only [importAll]
    refine ⟨R, ?_, ?_⟩
    · intro k2 q2 h2
      by_cases hk : k2 = k
      · subst hk
        rw [hq] at h2
        injection h2 with h2
        subst h2
        obtain ⟨q', hq', hge'⟩ := M k2 r hr1
        exact ⟨q', hq', ProtGe.trans hge' hrq⟩
      · apply M
        rw [exportKey_importKey_other _ _ _ _ hk]
        exact h2
    · intro kp hkp
      rcases List.mem_cons.mp hkp with rfl | hkp
      · obtain ⟨q', hq', hge'⟩ := M k r hr1
        refine ⟨q', hq', ?_, ?_⟩
        · intro h0
          have := hrs h0
          unfold ProtGe at hge'
          simp only at *
          omega
        · intro h0
          have := hra h0
          unfold ProtGe at hge'
          simp only at *
          omega
      · exact C kp hkp


/-! ## final theorems -/

theorem mem_final_get (m : PMap) (kp : Bytes × Protection) (h : kp ∈ m.final) :
    m.get kp.1 = some kp.2 := by
  unfold PMap.final at h
  rw [List.mem_filterMap] at h
  obtain ⟨k', _, hk'⟩ := h
  cases hg : m.get k' with
  | none => rw [hg] at hk'; simp at hk'
  | some p =>
    rw [hg] at hk'
    simp only [Option.map_some, Option.some.injEq] at hk'
    subst hk'
    exact hg

theorem get_mem_final (m : PMap) (k : Bytes) (p : Protection) (h : m.get k = some p) :
    (k, p) ∈ m.final := by
  unfold PMap.final
  rw [List.mem_filterMap]
  refine ⟨k, ?_, by rw [h]; rfl⟩
  rw [List.mem_eraseDups, List.mem_map]
  exact ⟨(k, p), lookup_some_mem m k p h, rfl⟩

theorem importFile_ok (gvr : String) (db db' : Db) (f : IFile)
    (h : importFile gvr db f = .ok db') :
    ∃ v g m, f.metadata = some (v, g) ∧ v = "5" ∧ gvr = g ∧ exportable db = true ∧
      mergeEntries db [] f.data = some m ∧ db' = importAll db m.final := by
  unfold importFile at h
  split at h
  · cases h
  · rename_i v g hmeta
    split at h
    · cases h
    · rename_i hv
      split at h
      · cases h
      · split at h
        · cases h
        · split at h
          · cases h
          · split at h
            · cases h
            · rename_i hg
              split at h
              · cases h
              · rename_i hex
                split at h
                · cases h
                · rename_i m hm
                  injection h with h
                  refine ⟨v, g, m, hmeta, ?_, ?_, ?_, hm, h.symm⟩
                  · simpa using hv
                  · simpa using hg
                  · simpa using hex

theorem import_all (gvr : String) (db db' : Db) (f : IFile) (hr : RangeOK db)
    (h : importFile gvr db f = .ok db') :
    RangeOK db' ∧
    (∀ k p, exportKey db k = some p → ∃ p', exportKey db' k = some p' ∧ ProtGe p' p) ∧
    (∀ e ∈ f.data, ∃ kb p', hexDecode0x e.pubkey = some kb ∧ exportKey db' (fit48 kb) = some p' ∧
      (∀ s ∈ e.blocks, ∃ v, parseInt64 s = some v ∧ 0 ≤ v ∧ v ≤ p'.slot) ∧
      (∀ a ∈ e.atts, ∃ vs vt, parseInt64 a.1 = some vs ∧ parseInt64 a.2 = some vt ∧
          0 ≤ vs ∧ 0 ≤ vt ∧ vs ≤ p'.src ∧ vt ≤ p'.tgt)) := by
  obtain ⟨v, g, m, _, _, _, hex, hm, rfl⟩ := importFile_ok gvr db db' f h
  have hinv : MInv db m := by
    apply mergeEntries_inv db hex hr f.data [] m hm
    intro k p hp
    simp [PMap.get] at hp
  obtain ⟨_, hcov⟩ := mergeEntries_cover db f.data [] m hm
  obtain ⟨R, M, C⟩ := importAll_spec m.get m.final db (mem_final_get m) hinv hr
  refine ⟨R, M, ?_⟩
  intro e he
  obtain ⟨kb, p', hkb, hget, hbl, hat⟩ := hcov e he
  obtain ⟨q', hq', hs, ha⟩ := C (fit48 kb, p') (get_mem_final m _ _ hget)
  simp only at hq' hs ha
  refine ⟨kb, q', hkb, hq', ?_, ?_⟩
  · intro s hs'
    obtain ⟨v, hv, hv0, hvle⟩ := hbl s hs'
    exact ⟨v, hv, hv0, by have := hs (by omega); omega⟩
  · intro a ha'
    obtain ⟨vs, vt, hvs, hvt, h0s, h0t, hles, hlet⟩ := hat a ha'
    have := ha (by omega)
    exact ⟨vs, vt, hvs, hvt, h0s, h0t, by omega, by omega⟩

/-- a successful import never lowers any field of any key's protection -/
theorem import_never_lowers (gvr : String) (db db' : Db) (f : IFile) (hr : RangeOK db)
    (h : importFile gvr db f = .ok db') :
    ∀ k p, exportKey db k = some p → ∃ p', exportKey db' k = some p' ∧ ProtGe p' p :=
  (import_all gvr db db' f hr h).2.1

/-- after a successful import every number stated in the file for a key is covered by that key's record -/
theorem import_covers_file (gvr : String) (db db' : Db) (f : IFile) (hr : RangeOK db)
    (h : importFile gvr db f = .ok db') :
    ∀ e ∈ f.data, ∃ kb p', hexDecode0x e.pubkey = some kb ∧ exportKey db' (fit48 kb) = some p' ∧
      (∀ s ∈ e.blocks, ∃ v, parseInt64 s = some v ∧ 0 ≤ v ∧ v ≤ p'.slot) ∧
      (∀ a ∈ e.atts, ∃ vs vt, parseInt64 a.1 = some vs ∧ parseInt64 a.2 = some vt ∧
          0 ≤ vs ∧ 0 ≤ vt ∧ vs ≤ p'.src ∧ vt ≤ p'.tgt) :=
  (import_all gvr db db' f hr h).2.2

/-- the store stays RangeOK (so the theorems compose over any sequence of imports) -/
theorem import_rangeOK (gvr : String) (db db' : Db) (f : IFile) (hr : RangeOK db)
    (h : importFile gvr db f = .ok db') : RangeOK db' :=
  (import_all gvr db db' f hr h).1

/-- wrong or missing metadata is rejected: no store comes back -/
theorem import_bad_metadata' (gvr : String) (db : Db) (f : IFile)
    (h : f.metadata = none ∨ ∃ v g, f.metadata = some (v, g) ∧ (v ≠ "5" ∨ g ≠ gvr)) :
    ∀ db', importFile gvr db f ≠ .ok db' := by
  intro db' hok
  obtain ⟨v, g, m, hmeta, hv, hg, _⟩ := importFile_ok gvr db db' f hok
  rcases h with h | ⟨v', g', h, hbad⟩
  · rw [h] at hmeta; cases hmeta
  · rw [h] at hmeta
    injection hmeta with hmeta
    injection hmeta with h1 h2
    subst h1; subst h2
    rcases hbad with hb | hb
    · exact hb hv
    · exact hb hg.symm

theorem import_bad_metadata (gvr : String) (db : Db) (f : IFile)
    (h : f.metadata = none ∨ ∃ v g, f.metadata = some (v, g) ∧ (v ≠ "5" ∨ g ≠ gvr)) :
    ∃ r, importFile gvr db f = r ∧ (match r with | .error => True | .ok _ => False) := by
  refine ⟨_, rfl, ?_⟩
  cases hr : importFile gvr db f with
  | error => trivial
  | ok db' => exact import_bad_metadata' gvr db f h db' hr

/-- a malformed key or number anywhere in the file makes the whole import fail -/
theorem import_parse_error' (gvr : String) (db : Db) (f : IFile)
    (h : ∃ e ∈ f.data, hexDecode0x e.pubkey = none ∨ (∃ s ∈ e.blocks, ∀ v, parseInt64 s = some v → v < 0) ∨
         (∃ a ∈ e.atts, (∀ v, parseInt64 a.1 = some v → v < 0) ∨ (∀ v, parseInt64 a.2 = some v → v < 0))) :
    ∀ db', importFile gvr db f ≠ .ok db' := by
  intro db' hok
  obtain ⟨_, _, m, _, _, _, _, hm, _⟩ := importFile_ok gvr db db' f hok
  obtain ⟨_, hcov⟩ := mergeEntries_cover db f.data [] m hm
  obtain ⟨e, he, hbad⟩ := h
  obtain ⟨kb, p', hkb, _, hbl, hat⟩ := hcov e he
  rcases hbad with hb | ⟨s, hs, hb⟩ | ⟨a, ha, hb⟩
  · rw [hb] at hkb; cases hkb
  · obtain ⟨v, hv, hv0, _⟩ := hbl s hs
    have := hb v hv
    omega
  · obtain ⟨vs, vt, hvs, hvt, h0s, h0t, _, _⟩ := hat a ha
    rcases hb with hb | hb
    · have := hb vs hvs; omega
    · have := hb vt hvt; omega

theorem import_parse_error (gvr : String) (db : Db) (f : IFile)
    (h : ∃ e ∈ f.data, hexDecode0x e.pubkey = none ∨ (∃ s ∈ e.blocks, ∀ v, parseInt64 s = some v → v < 0) ∨
         (∃ a ∈ e.atts, (∀ v, parseInt64 a.1 = some v → v < 0) ∨ (∀ v, parseInt64 a.2 = some v → v < 0))) :
    ∃ r, importFile gvr db f = r ∧ (match r with | .error => True | .ok _ => False) := by
  refine ⟨_, rfl, ?_⟩
  cases hr : importFile gvr db f with
  | error => trivial
  | ok db' => exact import_parse_error' gvr db f h db' hr

end Dirk
