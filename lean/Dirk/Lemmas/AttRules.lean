/-
  Dirk.Lemmas.AttRules — rule-level facts about attestations: what an approval implies, and that the
  stored record keeps covering everything it covered (single path, batch path, every fault variant).
-/
import Dirk.Lemmas.Store

namespace Dirk

/-- the record stored for `pk` is decodable, in int64 range, and at least (s, t) in both dimensions -/
def Covers (db : Db) (pk : Bytes) (s t : Nat) : Prop :=
  ∃ st, fetchAtt db pk false = some st ∧ InI64 st.src ∧ InI64 st.tgt ∧ (s : Int) ≤ st.src ∧ (t : Int) ≤ st.tgt

/-- what `attChecks` returning APPROVED says about the request and the prior state -/
theorem attChecks_approved {r : AttReq} {st st' : AttState} (h : attChecks r st = (.approved, st')) :
    r.src ≤ maxI64 ∧ r.tgt ≤ maxI64 ∧ st' = ⟨(r.src : Int), (r.tgt : Int)⟩ ∧
    (0 ≤ st.tgt → st.tgt < (r.tgt : Int)) ∧ (0 ≤ st.src → st.src ≤ (r.src : Int)) ∧
    prefix4 r.domain = domAttester ∧ (r.src < r.tgt ∨ (r.src = 0 ∧ r.tgt = 0)) := by
  unfold attChecks at h
  split at h
  · cases h
  · split at h
    · cases h
    · split at h
      · cases h
      · split at h
        · cases h
        · split at h
          · cases h
          · rename_i hd ho hm ht hs
            injection h with _ h2
            have hsrc : r.src ≤ maxI64 := by omega
            have htgt : r.tgt ≤ maxI64 := by omega
            refine ⟨hsrc, htgt, ?_, ?_, ?_, ?_, ?_⟩
            · rw [← h2, i64_small _ hsrc, i64_small _ htgt]
            · intro h0
              have := u64_nonneg _ h0
              have : ¬ (r.tgt ≤ u64 st.tgt) := fun hh => ht ⟨h0, hh⟩
              omega
            · intro h0
              have := u64_nonneg _ h0
              have : ¬ (r.src < u64 st.src) := fun hh => hs ⟨h0, hh⟩
              omega
            · exact Decidable.not_not.mp hd
            · omega

/-- a verdict other than APPROVED leaves the state untouched -/
theorem attChecks_not_approved {r : AttReq} {st st' : AttState} {v : Verdict}
    (h : attChecks r st = (v, st')) (hv : v ≠ .approved) : st' = st := by
  unfold attChecks at h
  repeat' split at h
  all_goals first
    | (injection h with h1 h2; exact h2.symm)
    | (injection h with h1 h2; exact absurd h1.symm hv)

theorem attChecks_verdict (r : AttReq) (st : AttState) :
    (attChecks r st).1 = .approved ∨ (attChecks r st).1 = .denied := by
  unfold attChecks
  repeat' split
  all_goals simp

/-- the new state written after a check is in int64 range whenever the old one was -/
theorem attChecks_inI64 {r : AttReq} {st st' : AttState} {v : Verdict}
    (h : attChecks r st = (v, st')) (hs : InI64 st.src) (ht : InI64 st.tgt) :
    InI64 st'.src ∧ InI64 st'.tgt := by
  by_cases hv : v = .approved
  · subst hv
    obtain ⟨h1, h2, h3, _⟩ := attChecks_approved h
    subst h3
    unfold InI64 maxI64 two63 at *
    constructor <;> constructor <;> simp <;> omega
  · rw [attChecks_not_approved h hv]; exact ⟨hs, ht⟩

/-- the state after a check dominates the state before it, provided the old one is non-negative
    in the dimension considered -/
theorem attChecks_dominates {r : AttReq} {st st' : AttState} {v : Verdict}
    (h : attChecks r st = (v, st')) (s t : Nat) (hs : (s : Int) ≤ st.src) (ht : (t : Int) ≤ st.tgt) :
    (s : Int) ≤ st'.src ∧ (t : Int) ≤ st'.tgt := by
  by_cases hv : v = .approved
  · subst hv
    obtain ⟨_, _, h3, h4, h5, _⟩ := attChecks_approved h
    subst h3
    have := h4 (by omega)
    have := h5 (by omega)
    constructor <;> simp <;> omega
  · rw [attChecks_not_approved h hv]; exact ⟨hs, ht⟩

/-! ## single path -/

theorem storeOne_cases (db : Db) (k v : Bytes) (f : Faults) :
    (storeOne db k v f).2 = db ∨ (storeOne db k v f).2 = db.put k v := by
  unfold storeOne; repeat' split
  all_goals simp

theorem storeOne_ok {db : Db} {k v : Bytes} {f : Faults} (h : (storeOne db k v f).1 = true) :
    (storeOne db k v f).2 = db.put k v := by
  unfold storeOne at *; split at h <;> simp_all

/-- writing a record that dominates the old one keeps every coverage fact -/
theorem covers_put_dominating (db : Db) (pk : Bytes) (st st' : AttState)
    (hf : fetchAtt db pk false = some st) (hs' : InI64 st'.src) (ht' : InI64 st'.tgt)
    (hdom : ∀ s t : Nat, (s : Int) ≤ st.src → (t : Int) ≤ st.tgt → (s : Int) ≤ st'.src ∧ (t : Int) ≤ st'.tgt)
    (pk' : Bytes) (s t : Nat) (hc : Covers db pk' s t) :
    Covers (db.put (attKey pk) (encodeAtt st')) pk' s t := by
  obtain ⟨st0, h0, hi1, hi2, hb1, hb2⟩ := hc
  by_cases hk : pk' = pk
  · subst hk
    rw [hf] at h0; injection h0 with h0; subst h0
    exact ⟨st', fetchAtt_put_att_same _ _ _ hs' ht', hs', ht', (hdom s t hb1 hb2).1, (hdom s t hb1 hb2).2⟩
  · exact ⟨st0, by rw [fetchAtt_put_att_other _ _ _ _ hk]; exact h0, hi1, hi2, hb1, hb2⟩

/-- Single path: every coverage fact survives (whatever the verdict and fault), and an approval
    means the request is above everything covered before and is itself covered afterwards. -/
theorem onAttest_inv {db db' : Db} {pk : Bytes} {r : AttReq} {f : Faults} {v : Verdict}
    (h : onAttest db pk r f = (v, db')) :
    (∀ pk' s t, Covers db pk' s t → Covers db' pk' s t) ∧
    (v = .approved →
       Covers db' pk r.src r.tgt ∧ r.src ≤ maxI64 ∧ r.tgt ≤ maxI64 ∧
       (∀ s t, Covers db pk s t → t < r.tgt ∧ s ≤ r.src)) := by
  unfold onAttest at h
  split at h
  · injection h with h1 h2; subst h1; subst h2
    exact ⟨fun _ _ _ hc => hc, fun hv => by cases hv⟩
  · rename_i st hf
    have hf := fetchAtt_some_false hf
    split at h
    · rename_i st' hchk
      obtain ⟨hsrc, htgt, hst', hgt, hge, _⟩ := attChecks_approved hchk
      have hin : InI64 st'.src ∧ InI64 st'.tgt := by
        subst hst'; unfold InI64 maxI64 two63 at *
        constructor <;> constructor <;> simp <;> omega
      have hkeep : ∀ pk' s t, Covers db pk' s t →
          Covers (db.put (attKey pk) (encodeAtt st')) pk' s t := by
        intro pk' s t hc
        refine covers_put_dominating db pk st st' hf hin.1 hin.2 ?_ pk' s t hc
        intro s t hs ht
        exact attChecks_dominates hchk s t hs ht
      simp only at h
      injection h with h1 h2
      constructor
      · intro pk' s t hc
        rcases storeOne_cases db (attKey pk) (encodeAtt st') f with hh | hh
        · rw [← h2, hh]; exact hc
        · rw [← h2, hh]; exact hkeep pk' s t hc
      · intro hv
        have hok : (storeOne db (attKey pk) (encodeAtt st') f).1 = true := by
          by_cases hb : (storeOne db (attKey pk) (encodeAtt st') f).1 = true
          · exact hb
          · simp [hb] at h1; rw [← h1] at hv; cases hv
        have hdb := storeOne_ok hok
        rw [← h2, hdb]
        refine ⟨⟨st', fetchAtt_put_att_same _ _ _ hin.1 hin.2, hin.1, hin.2, ?_, ?_⟩, hsrc, htgt, ?_⟩
        · subst hst'; simp
        · subst hst'; simp
        · intro s t ⟨st0, h0, _, _, hb1, hb2⟩
          rw [hf] at h0; injection h0 with h0; subst h0
          have := hgt (by omega)
          have := hge (by omega)
          omega
    · rename_i v0 st0 hne hq
      injection h with h1 h2; subst h2
      refine ⟨fun _ _ _ hc => hc, fun hv => ?_⟩
      subst h1
      exact absurd hv hne

/-! ## batch path -/

theorem fetchAtt_congr {db db' : Db} {pk : Bytes} (h : db'.get (attKey pk) = db.get (attKey pk)) :
    fetchAtt db' pk false = fetchAtt db pk false := by
  simp [fetchAtt, h]

theorem evalBatch_spec {α : Type} (req : α → AttReq) (db : Db) (f : Faults) :
    ∀ (items : List (Bytes × α)) (i : Nat) (evs : List (Bytes × α × Verdict × AttState)),
      evalBatch req db f i items = some evs →
      evs.map (·.1) = items.map (·.1) ∧
      ∀ e ∈ evs, ∃ st, fetchAtt db e.1 false = some st ∧ attChecks (req e.2.1) st = e.2.2 := by
  intro items
  induction items with
  | nil =>
    intro i evs h
    simp [evalBatch] at h; subst h; simp
  | cons it rest ih =>
    intro i evs h
    obtain ⟨pk, a⟩ := it
    simp only [evalBatch] at h
    split at h
    · cases h
    · rename_i st hf
      split at h
      · cases h
      · rename_i l hl
        injection h with h; subst h
        obtain ⟨ih1, ih2⟩ := ih (i + 1) l hl
        constructor
        · simp [ih1]
        · intro e he
          rcases List.mem_cons.mp he with rfl | he
          · exact ⟨st, fetchAtt_some_false hf, rfl⟩
          · exact ih2 e he

theorem batchKvs_keys {α : Type} (evs : List (Bytes × α × Verdict × AttState)) :
    (batchKvs evs).map (·.1) = (evs.map (·.1)).map attKey := by
  simp [batchKvs, Function.comp_def]

theorem nodup_map_attKey {l : List Bytes} (h : l.Nodup) : (l.map attKey).Nodup := by
  induction l with
  | nil => simp
  | cons a rest ih =>
    simp only [List.nodup_cons, List.map_cons, List.mem_map, not_exists, not_and] at *
    exact ⟨fun x hx he => h.1 (by rw [← attKey_inj he]; exact hx), ih h.2⟩

/-- after the batch write, every coverage fact that held before still holds -/
theorem covers_putMany_batch {α : Type} (req : α → AttReq) (db : Db)
    (evs : List (Bytes × α × Verdict × AttState)) (hn : (evs.map (·.1)).Nodup)
    (hspec : ∀ e ∈ evs, ∃ st, fetchAtt db e.1 false = some st ∧ attChecks (req e.2.1) st = e.2.2)
    (pk' : Bytes) (s t : Nat) (hc : Covers db pk' s t) :
    Covers (db.putMany (batchKvs evs)) pk' s t := by
  obtain ⟨st0, h0, hi1, hi2, hb1, hb2⟩ := hc
  by_cases hk : pk' ∈ evs.map (·.1)
  · obtain ⟨e, he, hek⟩ := List.mem_map.mp hk
    obtain ⟨st, hf, hchk⟩ := hspec e he
    rw [hek, h0] at hf; injection hf with hf; subst hf
    have hmem : (attKey pk', encodeAtt e.2.2.2) ∈ batchKvs evs := by
      unfold batchKvs; rw [← hek]; exact List.mem_map.mpr ⟨e, he, rfl⟩
    have hnd : ((batchKvs evs).map (·.1)).Nodup := by
      rw [batchKvs_keys]; exact nodup_map_attKey hn
    have hget := get_putMany_mem db _ _ _ hnd hmem
    have hchk' : attChecks (req e.2.1) st0 = (e.2.2.1, e.2.2.2) := by rw [hchk]
    have hin := attChecks_inI64 hchk' hi1 hi2
    have hdom := attChecks_dominates hchk' s t hb1 hb2
    refine ⟨e.2.2.2, ?_, hin.1, hin.2, hdom.1, hdom.2⟩
    simp [fetchAtt, hget, decodeAtt_encodeAtt _ hin.1 hin.2]
  · have hnot : attKey pk' ∉ (batchKvs evs).map (·.1) := by
      rw [batchKvs_keys]
      intro hm
      obtain ⟨x, hx, hxe⟩ := List.mem_map.mp hm
      exact hk (by rw [← attKey_inj hxe]; exact hx)
    refine ⟨st0, ?_, hi1, hi2, hb1, hb2⟩
    rw [fetchAtt_congr (get_putMany_notin db _ _ hnot)]; exact h0

theorem storeMany_cases (db : Db) (kvs : List (Bytes × Bytes)) (f : Faults) :
    (storeMany db kvs f).2 = db ∨ (storeMany db kvs f).2 = db.putMany kvs := by
  unfold storeMany; repeat' split
  all_goals simp

theorem storeMany_ok {db : Db} {kvs : List (Bytes × Bytes)} {f : Faults}
    (h : (storeMany db kvs f).1 = true) : (storeMany db kvs f).2 = db.putMany kvs := by
  unfold storeMany at *; split at h
  · simp at h
  · split at h <;> simp_all

/-- Batch path with distinct keys: every coverage fact survives, and each APPROVED position is above
    everything covered before for its key and is itself covered afterwards. -/
theorem onAttestBatch_inv {α : Type} (req : α → AttReq) {db db' : Db} {items : List (Bytes × α)}
    {f : Faults} {res : Option (List (Bytes × α × Verdict))}
    (hn : (items.map (·.1)).Nodup) (h : onAttestBatch req db items f = (res, db')) :
    (∀ pk' s t, Covers db pk' s t → Covers db' pk' s t) ∧
    (∀ evs, res = some evs →
       evs.map (·.1) = items.map (·.1) ∧
       ∀ e ∈ evs, e.2.2 = .approved →
         Covers db' e.1 (req e.2.1).src (req e.2.1).tgt ∧ (req e.2.1).src ≤ maxI64 ∧ (req e.2.1).tgt ≤ maxI64 ∧
         (∀ s t, Covers db e.1 s t → t < (req e.2.1).tgt ∧ s ≤ (req e.2.1).src)) := by
  unfold onAttestBatch at h
  split at h
  · injection h with h1 h2; subst h1; subst h2
    exact ⟨fun _ _ _ hc => hc, fun evs he => by cases he⟩
  · rename_i evs hev
    obtain ⟨hkeys, hspec⟩ := evalBatch_spec req db f items 0 evs hev
    have hn' : (evs.map (·.1)).Nodup := by rw [hkeys]; exact hn
    simp only at h
    injection h with h1 h2
    have hkeep := covers_putMany_batch req db evs hn' hspec
    constructor
    · intro pk' s t hc
      rcases storeMany_cases db (batchKvs evs) f with hh | hh
      · rw [← h2, hh]; exact hc
      · rw [← h2, hh]; exact hkeep pk' s t hc
    · intro out hout
      have hok : (storeMany db (batchKvs evs) f).1 = true := by
        by_cases hb : (storeMany db (batchKvs evs) f).1 = true
        · exact hb
        · simp [hb] at h1; rw [← h1] at hout; cases hout
      have hdb := storeMany_ok hok
      simp [hok] at h1
      rw [← h1] at hout; injection hout with hout; subst hout
      constructor
      · simp [Function.comp_def, ← hkeys]
      · intro e he happ
        obtain ⟨e0, he0, hee⟩ := List.mem_map.mp he
        subst hee
        simp only at happ ⊢
        obtain ⟨st, hf, hchk⟩ := hspec e0 he0
        have hchk' : attChecks (req e0.2.1) st = (.approved, e0.2.2.2) := by rw [hchk, ← happ]
        obtain ⟨hsrc, htgt, hst', hgt, hge, _⟩ := attChecks_approved hchk'
        have hin : InI64 e0.2.2.2.src ∧ InI64 e0.2.2.2.tgt := by
          rw [hst']; unfold InI64 maxI64 two63 at *
          constructor <;> constructor <;> simp <;> omega
        have hmem : (attKey e0.1, encodeAtt e0.2.2.2) ∈ batchKvs evs := by
          unfold batchKvs; exact List.mem_map.mpr ⟨e0, he0, rfl⟩
        have hnd : ((batchKvs evs).map (·.1)).Nodup := by
          rw [batchKvs_keys]; exact nodup_map_attKey hn'
        have hget := get_putMany_mem db _ _ _ hnd hmem
        refine ⟨⟨e0.2.2.2, ?_, hin.1, hin.2, ?_, ?_⟩, hsrc, htgt, ?_⟩
        · rw [← h2, hdb]; simp [fetchAtt, hget, decodeAtt_encodeAtt _ hin.1 hin.2]
        · rw [hst']; simp
        · rw [hst']; simp
        · intro s t ⟨st0, h0, _, _, hb1, hb2⟩
          rw [hf] at h0; injection h0 with h0; subst h0
          have := hgt (by omega)
          have := hge (by omega)
          omega

end Dirk
