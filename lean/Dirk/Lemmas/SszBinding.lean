/-
  Dirk.Lemmas.SszBinding — signing roots bind the data, up to an explicit SHA-256 collision.

  The hash-tree-roots of well-formed attestation data / block headers, and the signing root
  `h2 root domain`, are injective functions of their inputs unless two different byte strings with
  the same digest *in the model's own SHA-256* can be exhibited.  The collision is an explicit
  disjunct (a witness), not an axiom.  The only fact about SHA-256 that is used is that its digest
  is 32 bytes long (`sha256_length`), which is proved from the definition.
-/
import Dirk.Props.C08

set_option linter.unusedSimpArgs false

namespace Dirk

/-- two different byte strings with the same SHA-256 digest (in the model's own SHA-256) -/
def Sha256Collision : Prop := ∃ x y : Bytes, x ≠ y ∧ Sha256.hash x = Sha256.hash y

/-! ### the digest is 32 bytes -/

/-- the output stage of `Sha256.hash`, as a function of the final state -/
def shaOut (h : Array UInt32) : List UInt8 := Id.run do
  let mut out : List UInt8 := []
  for i in [0:8] do
    let x := h[7 - i]!
    out := UInt8.ofNat ((x >>> 24).toNat % 256) :: UInt8.ofNat ((x >>> 16).toNat % 256) ::
           UInt8.ofNat ((x >>> 8).toNat % 256) :: UInt8.ofNat (x.toNat % 256) :: out
  return out

theorem shaOut_length (h : Array UInt32) : (shaOut h).length = 32 := by
  unfold shaOut
  simp [Id.run]
  rfl

theorem hash_eq_shaOut (m : List UInt8) : ∃ h, Sha256.hash m = shaOut h := by
  unfold Sha256.hash shaOut
  exact ⟨_, rfl⟩

/-- **the model's SHA-256 digest is 32 bytes long**, whatever the message -/
theorem sha256_length (m : List UInt8) : (Sha256.hash m).length = 32 := by
  obtain ⟨h, e⟩ := hash_eq_shaOut m
  rw [e]
  exact shaOut_length h

/-! ### lengths of the tree nodes -/

theorem h2_length (a b : Bytes) : (Ssz.h2 a b).length = 32 := sha256_length _

theorem zero32_length : Ssz.zero32.length = 32 := by simp [Ssz.zero32]

theorem u64leaf_length (n : Nat) : (Ssz.u64leaf n).length = 32 := by
  simp [Ssz.u64leaf, le64_length]

theorem fit32_length (b : Bytes) : (Ssz.fit32 b).length = 32 := by
  simp [Ssz.fit32, Ssz.zero32, List.length_take]

theorem checkpointRoot_length (e : Nat) (r : Bytes) : (Ssz.checkpointRoot e r).length = 32 :=
  h2_length _ _

theorem attRoot_length (a : Ssz.Att) : (Ssz.attRoot a).length = 32 := by
  simp only [Ssz.attRoot, Ssz.attLeaves, Ssz.merkle8]
  exact h2_length _ _

theorem headerRoot_length (a : Ssz.Header) : (Ssz.headerRoot a).length = 32 := by
  simp only [Ssz.headerRoot, Ssz.headerLeaves, Ssz.merkle8]
  exact h2_length _ _

/-! ### one hashing step -/

/-- a two-to-one hashing step with equally long left inputs is injective, or its two inputs are a
    collision witness -/
theorem h2_inj_or_collision {l r l' r' : Bytes} (hl : l.length = l'.length)
    (h : Ssz.h2 l r = Ssz.h2 l' r') : (l = l' ∧ r = r') ∨ Sha256Collision := by
  by_cases e : l ++ r = l' ++ r'
  · exact Or.inl (List.append_inj e hl)
  · exact Or.inr ⟨l ++ r, l' ++ r', e, h⟩

/-! ### the roots -/

theorem attRoot_injective_or_collision (a b : Ssz.Att) (ha : a.WF) (hb : b.WF) :
    Ssz.attRoot a = Ssz.attRoot b → a = b ∨ Sha256Collision := by
  intro h
  simp only [Ssz.attRoot, Ssz.attLeaves, Ssz.merkle8, Ssz.checkpointRoot] at h
  -- top node
  rcases h2_inj_or_collision (by rw [h2_length, h2_length]) h with ⟨hL, hR⟩ | c
  rotate_left; exact Or.inr c
  -- left half
  rcases h2_inj_or_collision (by rw [h2_length, h2_length]) hL with ⟨hLL, hLR⟩ | c
  rotate_left; exact Or.inr c
  rcases h2_inj_or_collision (by rw [u64leaf_length, u64leaf_length]) hLL with ⟨e0, e1⟩ | c
  rotate_left; exact Or.inr c
  rcases h2_inj_or_collision (by rw [fit32_length, fit32_length]) hLR with ⟨e2, hsrc⟩ | c
  rotate_left; exact Or.inr c
  rcases h2_inj_or_collision (by rw [u64leaf_length, u64leaf_length]) hsrc with ⟨e3, e4⟩ | c
  rotate_left; exact Or.inr c
  -- right half
  rcases h2_inj_or_collision (by rw [h2_length, h2_length]) hR with ⟨hRL, _⟩ | c
  rotate_left; exact Or.inr c
  rcases h2_inj_or_collision (by rw [h2_length, h2_length]) hRL with ⟨htgt, _⟩ | c
  rotate_left; exact Or.inr c
  rcases h2_inj_or_collision (by rw [u64leaf_length, u64leaf_length]) htgt with ⟨e5, e6⟩ | c
  rotate_left; exact Or.inr c
  refine Or.inl (C08_leaves_injective a b ha hb ?_)
  simp only [Ssz.attChunks, e0, e1, e2, e3, e4, e5, e6]

theorem headerRoot_injective_or_collision (a b : Ssz.Header) (ha : a.WF) (hb : b.WF) :
    Ssz.headerRoot a = Ssz.headerRoot b → a = b ∨ Sha256Collision := by
  intro h
  simp only [Ssz.headerRoot, Ssz.headerLeaves, Ssz.merkle8] at h
  rcases h2_inj_or_collision (by rw [h2_length, h2_length]) h with ⟨hL, hR⟩ | c
  rotate_left; exact Or.inr c
  rcases h2_inj_or_collision (by rw [h2_length, h2_length]) hL with ⟨hLL, hLR⟩ | c
  rotate_left; exact Or.inr c
  rcases h2_inj_or_collision (by rw [u64leaf_length, u64leaf_length]) hLL with ⟨e0, e1⟩ | c
  rotate_left; exact Or.inr c
  rcases h2_inj_or_collision (by rw [fit32_length, fit32_length]) hLR with ⟨e2, e3⟩ | c
  rotate_left; exact Or.inr c
  rcases h2_inj_or_collision (by rw [h2_length, h2_length]) hR with ⟨hRL, _⟩ | c
  rotate_left; exact Or.inr c
  rcases h2_inj_or_collision (by rw [fit32_length, fit32_length]) hRL with ⟨e4, _⟩ | c
  rotate_left; exact Or.inr c
  refine Or.inl (C08_header_leaves_injective a b ha hb ?_)
  simp only [Ssz.headerLeaves, e0, e1, e2, e3, e4]

theorem signingRoot_some {r d s : Bytes} (h : Ssz.signingRoot r d = some s) :
    r.length = 32 ∧ d.length = 32 ∧ s = Ssz.h2 r d := by
  unfold Ssz.signingRoot at h
  split at h
  · cases h
  · rename_i hn
    injection h with h
    exact ⟨by omega, by omega, h.symm⟩

theorem signingRoot_injective_or_collision (r d r' d' s : Bytes) :
    Ssz.signingRoot r d = some s → Ssz.signingRoot r' d' = some s →
    (r = r' ∧ d = d') ∨ Sha256Collision := by
  intro h h'
  obtain ⟨hr, _, hs⟩ := signingRoot_some h
  obtain ⟨hr', _, hs'⟩ := signingRoot_some h'
  exact h2_inj_or_collision (by omega) (hs.symm.trans hs')

/-- what a signature over an attestation binds: equal signing roots ⇒ same data and same domain,
    or a collision -/
theorem att_signing_binds (a b : Ssz.Att) (da db s : Bytes) (ha : a.WF) (hb : b.WF) :
    Ssz.signingRoot (Ssz.attRoot a) da = some s → Ssz.signingRoot (Ssz.attRoot b) db = some s →
    (a = b ∧ da = db) ∨ Sha256Collision := by
  intro h h'
  rcases signingRoot_injective_or_collision _ _ _ _ _ h h' with ⟨hr, hd⟩ | c
  rotate_left; exact Or.inr c
  rcases attRoot_injective_or_collision a b ha hb hr with e | c
  · exact Or.inl ⟨e, hd⟩
  · exact Or.inr c

/-- what a signature over a block header binds -/
theorem header_signing_binds (a b : Ssz.Header) (da db s : Bytes) (ha : a.WF) (hb : b.WF) :
    Ssz.signingRoot (Ssz.headerRoot a) da = some s → Ssz.signingRoot (Ssz.headerRoot b) db = some s →
    (a = b ∧ da = db) ∨ Sha256Collision := by
  intro h h'
  rcases signingRoot_injective_or_collision _ _ _ _ _ h h' with ⟨hr, hd⟩ | c
  rotate_left; exact Or.inr c
  rcases headerRoot_injective_or_collision a b ha hb hr with e | c
  · exact Or.inl ⟨e, hd⟩
  · exact Or.inr c

/-- the signing root of an attestation under a 32-byte domain always exists (so the hypotheses
    above are not vacuous) -/
theorem att_signingRoot_exists (a : Ssz.Att) (d : Bytes) (hd : d.length = 32) :
    Ssz.signingRoot (Ssz.attRoot a) d = some (Ssz.h2 (Ssz.attRoot a) d) := by
  simp [Ssz.signingRoot, attRoot_length, hd]

theorem header_signingRoot_exists (a : Ssz.Header) (d : Bytes) (hd : d.length = 32) :
    Ssz.signingRoot (Ssz.headerRoot a) d = some (Ssz.h2 (Ssz.headerRoot a) d) := by
  simp [Ssz.signingRoot, headerRoot_length, hd]

/-! ### the hypotheses are satisfiable -/

/-- a concrete well-formed attestation -/
def exAtt : Ssz.Att :=
  { slot := 100, index := 3, bbr := List.replicate 32 1, srcEpoch := 2, srcRoot := List.replicate 32 2,
    tgtEpoch := 3, tgtRoot := List.replicate 32 3 }

/-- a concrete well-formed block header -/
def exHeader : Ssz.Header :=
  { slot := 100, proposer := 7, parentRoot := List.replicate 32 1, stateRoot := List.replicate 32 2,
    bodyRoot := List.replicate 32 3 }

example : exAtt.WF := by
  simp [Ssz.Att.WF, exAtt, two64]

example : exHeader.WF := by
  simp [Ssz.Header.WF, exHeader, two64]

/-- the hypotheses of `att_signing_binds` hold on a concrete value -/
example : ∃ s, exAtt.WF ∧ Ssz.signingRoot (Ssz.attRoot exAtt) (List.replicate 32 9) = some s :=
  ⟨_, by simp [Ssz.Att.WF, exAtt, two64], att_signingRoot_exists _ _ (by simp)⟩

/-- the hypotheses of `header_signing_binds` hold on a concrete value -/
example : ∃ s, exHeader.WF ∧ Ssz.signingRoot (Ssz.headerRoot exHeader) (List.replicate 32 9) = some s :=
  ⟨_, by simp [Ssz.Header.WF, exHeader, two64], header_signingRoot_exists _ _ (by simp)⟩

/-- the hypotheses of `signingRoot_injective_or_collision` hold on a concrete value -/
example : ∃ s, Ssz.signingRoot (List.replicate 32 1) (List.replicate 32 2) = some s :=
  ⟨_, by simp [Ssz.signingRoot]; rfl⟩

end Dirk

#print axioms Dirk.sha256_length
#print axioms Dirk.attRoot_injective_or_collision
#print axioms Dirk.headerRoot_injective_or_collision
#print axioms Dirk.signingRoot_injective_or_collision
#print axioms Dirk.att_signing_binds
#print axioms Dirk.header_signing_binds
