/-
  Dirk.Lemmas.ListerAnchor — the lister anchors the account pattern as a STRING, without grouping
  (`listerAnchor`: `"^" ++ p ++ "$"` unless the anchors are already there).  On the AST the parser builds
  this puts `bol` in front of the FIRST top-level alternative and `eol` behind the LAST one
  (`ungroupedAnchor`).  That only widens the set of names found by the unanchored `Re.search`
  (Go `MatchString`): every whole-name match of the requested pattern is still found, so the listing is
  complete with respect to the whole-name specification `Spec.pathMatches` (C18, completeness side).

  What `ReParse.parse` returns (evaluated, see the `#guard`s at the end):
    parse "A|B|C"   = alt (cat eps A) (alt (cat eps B) (cat eps C))              -- `alt` nests to the right,
    parse "^A|B|C$" = alt (cat (cat eps bol) A)                                   -- every branch is a left-nested
                          (alt (cat eps B) (cat (cat eps C) eol))                 -- `cat` chain starting from `eps`
    parse "Acc1"    = cat (cat (cat (cat eps A) c) c) 1
    parse "^Acc1$"  = cat (cat (cat (cat (cat (cat eps bol) A) c) c) 1) eol
    parse ""        = eps,   parse "^$" = cat (cat eps bol) eol
  i.e. `^` replaces the innermost `eps` of the first branch by `cat eps bol`, and `$` wraps the last branch
  `b` into `cat b eol`.

  Nothing is proved about the string-level parser: that `parse (listerAnchor p)` has this shape is the
  run-time hypothesis `ListerShapeOK` / `ListerShapeOKGen`.
-/
import Dirk.Lemmas.RegexAnchor
import Dirk.Model.Lister
import Dirk.Model.ListerShape
import Dirk.Spec.Listing
import Dirk.Props.C18

namespace Dirk

open Re

/-! ## The AST effect of the string-level anchoring -/

theorem ungroupedAnchor_alt (a b : Re) :
    ungroupedAnchor (.alt a b) = .alt (prependBol a) (anchorLast b) := rfl

/-- three alternatives: the middle one stays unanchored -/
theorem ungroupedAnchor_alt3 (a b c : Re) (hc : ∀ x y, c ≠ .alt x y) :
    ungroupedAnchor (.alt a (.alt b c)) = .alt (prependBol a) (.alt b (.cat c .eol)) := by
  rw [ungroupedAnchor_alt]
  cases c with
  | alt x y => exact absurd rfl (hc x y)
  | _ => rfl

/-- a single branch built by `pCat` (`eps` or a `cat`): both assertions go around it -/
theorem ungroupedAnchor_eps : ungroupedAnchor .eps = .cat (.cat .eps .bol) .eol := rfl

theorem ungroupedAnchor_cat (a b : Re) :
    ungroupedAnchor (.cat a b) = .cat (.cat (prependBol a) b) .eol := rfl

/-! ## Widening on the positional semantics -/

theorem matches_bolFront {r : Re} {u v : List Char} (h : Matches true r u v) :
    Matches true (.cat (.cat .eps .bol) r) u v := by
  refine matches_cat.2 ⟨[], u, rfl, ?_, ?_⟩
  · exact matches_cat.2 ⟨[], [], rfl, .eps, .bol⟩
  · simpa only [List.isEmpty_nil, Bool.and_true] using h

/-- at the start of the text a branch still matches after `bol` has been put in front of it -/
theorem matches_prependBol {r : Re} : ∀ {u v : List Char},
    Matches true r u v → Matches true (prependBol r) u v := by
  induction r with
  | eps =>
    intro u v h
    have := matches_eps.1 h
    subst this
    exact matches_cat.2 ⟨[], [], rfl, .eps, .bol⟩
  | cat a b iha _ =>
    intro u v h
    obtain ⟨u1, u2, rfl, h1, h2⟩ := matches_cat.1 h
    exact matches_cat.2 ⟨u1, u2, rfl, iha h1, h2⟩
  | none => intro u v h; exact matches_bolFront h
  | chr ci c => intro u v h; exact matches_bolFront h
  | any => intro u v h; exact matches_bolFront h
  | cls ci neg rs => intro u v h; exact matches_bolFront h
  | bol => intro u v h; exact matches_bolFront h
  | eol => intro u v h; exact matches_bolFront h
  | alt a b _ _ => intro u v h; exact matches_bolFront h
  | star a _ => intro u v h; exact matches_bolFront h

theorem matches_anchorFirst {r : Re} {u v : List Char} (h : Matches true r u v) :
    Matches true (anchorFirst r) u v := by
  cases r with
  | alt a b =>
    show Matches true (.alt (prependBol a) b) u v
    rcases matches_alt.1 h with h | h
    · exact .altL (matches_prependBol h)
    · exact .altR h
  | _ => exact matches_prependBol h

theorem matches_eolBehind {s : Bool} {r : Re} {u : List Char} (h : Matches s r u []) :
    Matches s (.cat r .eol) u [] := by
  refine matches_cat.2 ⟨u, [], (List.append_nil u).symm, ?_, .eol⟩
  simpa only [List.append_nil] using h

/-- a match up to the end of the text is still one after `eol` has been put behind the last alternative -/
theorem matches_anchorLast {r : Re} : ∀ {s : Bool} {u : List Char},
    Matches s r u [] → Matches s (anchorLast r) u [] := by
  induction r with
  | alt a b _ ihb =>
    intro s u h
    show Matches s (.alt a (anchorLast b)) u []
    rcases matches_alt.1 h with h | h
    · exact .altL h
    · exact .altR (ihb h)
  | none => intro s u h; exact matches_eolBehind h
  | eps => intro s u h; exact matches_eolBehind h
  | chr ci c => intro s u h; exact matches_eolBehind h
  | any => intro s u h; exact matches_eolBehind h
  | cls ci neg rs => intro s u h; exact matches_eolBehind h
  | bol => intro s u h; exact matches_eolBehind h
  | eol => intro s u h; exact matches_eolBehind h
  | cat a b _ _ => intro s u h; exact matches_eolBehind h
  | star a _ => intro s u h; exact matches_eolBehind h

theorem matches_ungroupedAnchor {r : Re} {u : List Char} (h : Matches true r u []) :
    Matches true (ungroupedAnchor r) u [] :=
  matches_anchorLast (matches_anchorFirst h)

/-- a whole-text match is in particular found by the unanchored search -/
theorem search_of_matches_whole {r : Re} {w : String} (h : Matches true r w.toList []) :
    Re.search r w = true :=
  search_iff.2 ⟨[], w.toList, [], by simp only [List.nil_append, List.append_nil], h⟩

/-- **Ungrouped anchoring only widens.**  Whatever the requested pattern matches as a whole name is
    found by the search with the lister's (ungrouped) anchored pattern. -/
theorem fullMatch_imp_search_ungrouped (r : Re) (w : String) :
    Re.fullMatch r w = true → Re.search (ungroupedAnchor r) w = true := fun h =>
  search_of_matches_whole (matches_ungroupedAnchor (fullMatch_iff.1 h))

/-- the AST of `Acc1|Ab` as the parser builds it -/
def exAlt : Re :=
  .alt (.cat (.cat (.cat (.cat .eps (.chr false 'A')) (.chr false 'c')) (.chr false 'c')) (.chr false '1'))
       (.cat (.cat .eps (.chr false 'A')) (.chr false 'b'))

/-- non-vacuity: the hypothesis holds on a real alternation, for the first and for the last branch -/
example : Re.fullMatch exAlt "Acc1" = true ∧ Re.fullMatch exAlt "Ab" = true := ⟨rfl, rfl⟩

example : Re.search (ungroupedAnchor exAlt) "Ab" = true :=
  fullMatch_imp_search_ungrouped exAlt "Ab" rfl

/-- the converse is false (this is the over-listing of `^Acc1|Ab$`): `Acc1x` and `xAb` are found although
    they are no whole-name matches -/
example : Re.search (ungroupedAnchor exAlt) "Acc1x" = true ∧ Re.fullMatch exAlt "Acc1x" = false ∧
    Re.search (ungroupedAnchor exAlt) "xAb" = true ∧ Re.fullMatch exAlt "xAb" = false :=
  ⟨rfl, rfl, rfl, rfl⟩

/-! ## Patterns that carry their own anchors

`listerAnchor` leaves a leading `^` / trailing `$` alone, so for such patterns only one (or none) of the
two assertions is added.  `listerAnchorRe` mirrors the two string tests of `listerAnchor`. -/

theorem matches_listerAnchorRe (pat : String) {r : Re} {u : List Char} (h : Matches true r u []) :
    Matches true (listerAnchorRe pat r) u [] := by
  have h1 : Matches true (if !pat.startsWith "^" then anchorFirst r else r) u [] := by
    by_cases hs : (!pat.startsWith "^") = true
    · rw [if_pos hs]; exact matches_anchorFirst h
    · rw [if_neg hs]; exact h
  show Matches true
    (if !(if !pat.startsWith "^" then "^" ++ pat else pat).endsWith "$"
      then anchorLast (if !pat.startsWith "^" then anchorFirst r else r)
      else (if !pat.startsWith "^" then anchorFirst r else r)) u []
  by_cases he : (!(if !pat.startsWith "^" then "^" ++ pat else pat).endsWith "$") = true
  · rw [if_pos he]; exact matches_anchorLast h1
  · rw [if_neg he]; exact h1

theorem fullMatch_imp_search_listerAnchorRe (pat : String) (r : Re) (w : String) :
    Re.fullMatch r w = true → Re.search (listerAnchorRe pat r) w = true := fun h =>
  search_of_matches_whole (matches_listerAnchorRe pat (fullMatch_iff.1 h))

/-! ## The run-time hypotheses and the listing -/

theorem ne_empty_of_isEmpty_false {s : String} (h : s.isEmpty = false) : s ≠ "" := by
  intro he
  subst he
  exact absurd h (by simp)

/-- Core of the corollaries: if the lister's compiled pattern is `f` of the requested pattern's AST and
    `f` only widens, a whole-name match is selected. -/
theorem lister_complete_of_widening (f : Re → Re)
    (hf : ∀ r n, Re.fullMatch r n = true → Re.search (f r) n = true)
    (path : String) (a : Account) (w pat : String)
    (hp : walletAndAccount path = some (w, pat))
    (hshape : pat ≠ "" → ReParse.parse (listerAnchor pat) = (ReParse.parse pat).map f)
    (hm : Spec.pathMatches path a = true) : pathSelects path a := by
  unfold Spec.pathMatches at hm
  rw [hp] at hm
  simp only [Bool.and_eq_true, Bool.or_eq_true, Bool.not_eq_true', beq_iff_eq] at hm
  obtain ⟨⟨hw, hwne⟩, hpat⟩ := hm
  subst hw
  unfold pathSelects listerPath
  rw [hp]
  simp only [hwne, Bool.false_eq_true, if_false]
  cases hpe : pat.isEmpty with
  | true =>
    left
    simp only [if_true]
  | false =>
    right
    rw [hpe] at hpat
    simp only [Bool.false_eq_true, false_or] at hpat
    have hsh := hshape (ne_empty_of_isEmpty_false hpe)
    cases hr : ReParse.parse pat with
    | none => rw [hr] at hpat; cases hpat
    | some r =>
      rw [hr] at hpat hsh
      simp only [Option.map_some] at hsh
      refine ⟨f r, ?_, hf r a.name hpat⟩
      simp only [Bool.false_eq_true, if_false, hsh]

/-- **C18, completeness against the whole-name specification.**  An account whose name the requested
    path matches as a whole (`Spec.pathMatches`) is selected by the lister's path (`pathSelects`, hence
    listed by `C18_complete` if it exists and is accessible), provided the lister's string parses to the
    ungrouped-anchored shape.  `ListerShapeOK` is meant for patterns without own anchors. -/
theorem lister_complete_whole_name (path : String) (a : Account) (w pat : String)
    (hp : walletAndAccount path = some (w, pat)) (hshape : pat ≠ "" → ListerShapeOK pat)
    (hm : Spec.pathMatches path a = true) : pathSelects path a :=
  lister_complete_of_widening ungroupedAnchor fullMatch_imp_search_ungrouped path a w pat hp hshape hm

/-- The same with the shape hypothesis that also covers patterns starting with `^` / ending with `$`. -/
theorem lister_complete_whole_name_gen (path : String) (a : Account) (w pat : String)
    (hp : walletAndAccount path = some (w, pat)) (hshape : pat ≠ "" → ListerShapeOKGen pat)
    (hm : Spec.pathMatches path a = true) : pathSelects path a :=
  lister_complete_of_widening (listerAnchorRe pat) (fullMatch_imp_search_listerAnchorRe pat)
    path a w pat hp hshape hm

/-- With `C18_complete`: such an account is in the listing. -/
theorem lister_lists_whole_name_match (cfg : Config) (client : String) (paths : List String) (a : Account)
    (ha : a ∈ cfg.accounts) (hc : check cfg.access client (a.wallet ++ "/" ++ a.name) opAccess = true)
    (path w pat : String) (hmem : path ∈ paths)
    (hp : walletAndAccount path = some (w, pat)) (hshape : pat ≠ "" → ListerShapeOKGen pat)
    (hm : Spec.pathMatches path a = true) : a ∈ listAccounts cfg client paths :=
  C18_complete cfg client paths a ha hc
    ⟨path, hmem, lister_complete_whole_name_gen path a w pat hp hshape hm⟩

/-! ## Evaluated checks (compiler evaluation, nothing is proved from them)

The shape hypotheses hold on the patterns of the task, and all hypotheses of `lister_complete_whole_name`
are satisfiable together on a non-trivial alternation. -/

-- `alt` nests to the right, every branch is a left-nested `cat` chain from `eps`
#guard ReParse.parse "A|B|C" ==
  some (.alt (.cat .eps (.chr false 'A')) (.alt (.cat .eps (.chr false 'B')) (.cat .eps (.chr false 'C'))))
#guard ReParse.parse "^A|B|C$" ==
  some (.alt (.cat (.cat .eps .bol) (.chr false 'A'))
    (.alt (.cat .eps (.chr false 'B')) (.cat (.cat .eps (.chr false 'C')) .eol)))
#guard ReParse.parse "Acc1|Ab" == some exAlt

-- patterns without own anchors
#guard ["Acc1", "Acc1|Acc2", "A|B|C", "A|B|C|D", "(a|b)c", "Acc\\d+", "(?i)acc|b", "a?|b*", "x|", "|", ".*",
        "Validator [0-9]+|Other.*", "(?:a|b)|c(d|e)"].all
  (fun p => decide (ListerShapeOK p) && decide (ListerShapeOKGen p) && (ReParse.parse p).isSome)

-- patterns with own anchors: the general shape holds, the ungrouped one does not
#guard ["^Acc1$", "Acc1$", "^Acc1", "^A|B", "A|B$", "^A|B$", "A\\$", "^", "$"].all
  (fun p => decide (ListerShapeOKGen p) && (ReParse.parse p).isSome)
#guard ["Acc1$", "^Acc1", "^A|B", "A|B$"].all (fun p => !decide (ListerShapeOK p))

-- all hypotheses of `lister_complete_whole_name` together, on both outer alternatives
#guard walletAndAccount "W/Acc1|Ab" == some ("W", "Acc1|Ab")
#guard decide (ListerShapeOK "Acc1|Ab")
#guard Spec.pathMatches "W/Acc1|Ab" { wallet := "W", name := "Acc1", pubkey := [1] }
#guard Spec.pathMatches "W/Acc1|Ab" { wallet := "W", name := "Ab", pubkey := [1] }
-- and the over-listing the theorem does not exclude
#guard !Spec.pathMatches "W/Acc1|Ab" { wallet := "W", name := "xAb", pubkey := [1] }
#guard (listerPath "W/Acc1|Ab").any (fun x => x.2.any (fun r => Re.search r "xAb"))

end Dirk

section
open Dirk
#print axioms Dirk.fullMatch_imp_search_ungrouped
#print axioms Dirk.fullMatch_imp_search_listerAnchorRe
#print axioms Dirk.lister_complete_whole_name
#print axioms Dirk.lister_complete_whole_name_gen
#print axioms Dirk.lister_lists_whole_name_match
end
