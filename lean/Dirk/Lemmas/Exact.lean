/-
  Dirk.Lemmas.Exact — on clean histories (no injected fault, every approvable request can be hashed
  and signed) that start from an empty store, the stored record of every key is EXACTLY the last
  released signature for that key (or "nothing").  Consequences: the export is exact (C11), the last
  released is the highest released, and advancing well-formed authorised requests are signed (C09 at
  history level).
-/
import Dirk.Lemmas.Run

namespace Dirk

/-- an operation of a clean history: no injected fault, and hashing succeeds for every request
    (the implementation's only hashing failure is a domain that is not 32 bytes long).  An import (raw or
    by the import command) is never clean (it writes records that are not released signatures); account
    creation, account and wallet lock / unlock are clean (they do not touch the store). -/
def Op.clean : Op → Prop
  | .att _ _ d f => f.fetchFail = [] ∧ f.storeFail = false ∧ d.signingRoot ≠ none
  | .atts _ items f => f.fetchFail = [] ∧ f.storeFail = false ∧ ∀ it ∈ items, it.2.signingRoot ≠ none
  | .prop _ _ d f => f.fetchFail = [] ∧ f.storeFail = false ∧ d.signingRoot ≠ none
  | .importRec _ _ => False
  | .importCmd _ _ => False
  | _ => True

/-- operations that cannot change the configuration (everything except account creation and the account
    manager's lock / unlock) -/
def Op.keepsCfg : Op → Prop
  | .create _ _ _ => False
  | .setUnlockable _ _ _ => False
  | _ => True

theorem safeAt_of_clean {s : Inst} {op : Op} (h : op.clean) : op.safeAt s := by
  cases op <;> first | trivial | exact absurd h id

/-- clean histories contain no import, so they are safe -/
theorem safeHist_of_clean : ∀ (ops : List Op) (s : Inst), (∀ op ∈ ops, op.clean) → SafeHist s ops := by
  intro ops
  induction ops with
  | nil => intro _ _; trivial
  | cons op rest ih =>
    intro s h
    exact ⟨safeAt_of_clean (h op (by simp)), ih _ (fun o ho => h o (by simp [ho]))⟩

/-- the last attestation released for key k as a record, or (−1,−1) -/
def lastVote (log : List (Bytes × AttData)) (k : Bytes) : AttState :=
  match (log.filter (fun e => e.1 = k)).getLast? with
  | none => ⟨-1, -1⟩
  | some e => ⟨(e.2.src : Int), (e.2.tgt : Int)⟩

/-- the last proposal slot released for key k, or −1 -/
def lastSlot (log : List (Bytes × PropData)) (k : Bytes) : Int :=
  match (log.filter (fun e => e.1 = k)).getLast? with
  | none => -1
  | some e => (e.2.slot : Int)

structure ExactInv (s : Inst) : Prop where
  att : ∀ k, fetchAtt s.db k false = some (lastVote s.attLog k)
  prop : ∀ k, fetchProp s.db k false = some (lastSlot s.propLog k)
  /-- everything released is below 2^63 (needed so that write-backs of unchanged records round-trip) -/
  small : (∀ e ∈ s.attLog, e.2.src ≤ maxI64 ∧ e.2.tgt ≤ maxI64) ∧ (∀ e ∈ s.propLog, e.2.slot ≤ maxI64)

/-! ## the last element of a filtered log -/

theorem getLast?_filter_append_none {α : Type} (p : α → Bool) (log new : List α)
    (h : ∀ e ∈ new, p e = false) :
    ((log ++ new).filter p).getLast? = (log.filter p).getLast? := by
  have : new.filter p = [] := by
    rw [List.filter_eq_nil_iff]; intro a ha; simp [h a ha]
  rw [List.filter_append, this, List.append_nil]

theorem getLast?_all_eq {α : Type} (e : α) : ∀ (l : List α), l ≠ [] → (∀ x ∈ l, x = e) →
    l.getLast? = some e := by
  intro l hne hall
  cases hl : l.getLast? with
  | none => exact absurd (List.getLast?_eq_none_iff.mp hl) hne
  | some z =>
    obtain ⟨ys, hys⟩ := List.getLast?_eq_some_iff.mp hl
    rw [hall z (by rw [hys]; simp)]

theorem getLast?_filter_append_unique {α : Type} (p : α → Bool) (log new : List α) (e : α)
    (hm : e ∈ new) (hp : p e = true) (hu : ∀ e' ∈ new, p e' = true → e' = e) :
    ((log ++ new).filter p).getLast? = some e := by
  have h1 : (new.filter p).getLast? = some e := by
    apply getLast?_all_eq
    · intro h0
      have := List.filter_eq_nil_iff.mp h0 e hm
      exact this hp
    · intro x hx
      obtain ⟨hx1, hx2⟩ := List.mem_filter.mp hx
      exact hu x hx1 hx2
  rw [List.filter_append, List.getLast?_append, h1]; rfl

theorem getLast?_filter_mem {α : Type} (p : α → Bool) (log : List α) (e : α)
    (h : (log.filter p).getLast? = some e) : e ∈ log ∧ p e = true := by
  obtain ⟨ys, hys⟩ := List.getLast?_eq_some_iff.mp h
  have : e ∈ log.filter p := by rw [hys]; simp
  exact List.mem_filter.mp this

theorem eq_of_nodup_map {α β : Type} (g : α → β) : ∀ (l : List α), (l.map g).Nodup →
    ∀ a ∈ l, ∀ b ∈ l, g a = g b → a = b := by
  intro l
  induction l with
  | nil => intro _ a ha; cases ha
  | cons x rest ih =>
    intro hn a ha b hb hab
    simp only [List.map_cons, List.nodup_cons, List.mem_map, not_exists, not_and] at hn
    rcases List.mem_cons.mp ha with hax | har
    · rcases List.mem_cons.mp hb with hbx | hbr
      · rw [hax, hbx]
      · subst hax; exact absurd hab.symm (hn.1 b hbr)
    · rcases List.mem_cons.mp hb with hbx | hbr
      · subst hbx; exact absurd hab (hn.1 a har)
      · exact ih hn.2 a har b hbr hab

/-- the last element of a pairwise-related list is related to every other element -/
theorem pairwise_getLast? {α : Type} {R : α → α → Prop} {l : List α} {z : α}
    (hp : l.Pairwise R) (hl : l.getLast? = some z) : ∀ x ∈ l, x = z ∨ R x z := by
  obtain ⟨ys, hys⟩ := List.getLast?_eq_some_iff.mp hl
  subst hys
  intro x hx
  rw [List.pairwise_append] at hp
  rcases List.mem_append.mp hx with h | h
  · right; exact hp.2.2 x h z (by simp)
  · left; simpa using h

/-! ## lastVote / lastSlot -/

theorem lastVote_append_none (log new : List (Bytes × AttData)) (k : Bytes)
    (h : ∀ e ∈ new, e.1 ≠ k) : lastVote (log ++ new) k = lastVote log k := by
  unfold lastVote
  rw [getLast?_filter_append_none _ log new (by intro e he; simpa using h e he)]

theorem lastVote_append_unique (log new : List (Bytes × AttData)) (e : Bytes × AttData)
    (hn : (new.map (·.1)).Nodup) (hm : e ∈ new) :
    lastVote (log ++ new) e.1 = ⟨(e.2.src : Int), (e.2.tgt : Int)⟩ := by
  unfold lastVote
  rw [getLast?_filter_append_unique _ log new e hm (by simp)
    (by intro e' he' hp; exact eq_of_nodup_map _ new hn e' he' e hm (by simpa using hp))]

theorem lastVote_nil (k : Bytes) : lastVote [] k = ⟨-1, -1⟩ := rfl
theorem lastSlot_nil (k : Bytes) : lastSlot [] k = -1 := rfl

theorem lastVote_cases (log : List (Bytes × AttData)) (k : Bytes) :
    (lastVote log k = ⟨-1, -1⟩ ∧ ∀ e ∈ log, e.1 ≠ k) ∨
    ∃ e ∈ log, e.1 = k ∧ lastVote log k = ⟨(e.2.src : Int), (e.2.tgt : Int)⟩ := by
  unfold lastVote
  cases h : (log.filter (fun e => e.1 = k)).getLast? with
  | none =>
    left
    refine ⟨rfl, ?_⟩
    have := List.filter_eq_nil_iff.mp (List.getLast?_eq_none_iff.mp h)
    intro e he; simpa using this e he
  | some e =>
    right
    obtain ⟨h1, h2⟩ := getLast?_filter_mem _ _ _ h
    exact ⟨e, h1, by simpa using h2, rfl⟩

theorem lastSlot_cases (log : List (Bytes × PropData)) (k : Bytes) :
    (lastSlot log k = -1 ∧ ∀ e ∈ log, e.1 ≠ k) ∨
    ∃ e ∈ log, e.1 = k ∧ lastSlot log k = (e.2.slot : Int) := by
  unfold lastSlot
  cases h : (log.filter (fun e => e.1 = k)).getLast? with
  | none =>
    left
    refine ⟨rfl, ?_⟩
    have := List.filter_eq_nil_iff.mp (List.getLast?_eq_none_iff.mp h)
    intro e he; simpa using this e he
  | some e =>
    right
    obtain ⟨h1, h2⟩ := getLast?_filter_mem _ _ _ h
    exact ⟨e, h1, by simpa using h2, rfl⟩

theorem lastVote_inI64 (log : List (Bytes × AttData)) (k : Bytes)
    (hs : ∀ e ∈ log, e.2.src ≤ maxI64 ∧ e.2.tgt ≤ maxI64) :
    InI64 (lastVote log k).src ∧ InI64 (lastVote log k).tgt := by
  rcases lastVote_cases log k with ⟨h, _⟩ | ⟨e, he, _, h⟩
  · rw [h]; unfold InI64 two63; constructor <;> constructor <;> simp
  · rw [h]
    have := hs e he
    unfold InI64 maxI64 two63 at *
    constructor <;> constructor <;> simp <;> omega

theorem lastSlot_append_other (log : List (Bytes × PropData)) (e : Bytes × PropData) (k : Bytes)
    (h : e.1 ≠ k) : lastSlot (log ++ [e]) k = lastSlot log k := by
  unfold lastSlot
  rw [getLast?_filter_append_none _ log [e] (by intro e' he'; simp at he'; subst he'; simpa using h)]

theorem lastSlot_append_same (log : List (Bytes × PropData)) (e : Bytes × PropData) :
    lastSlot (log ++ [e]) e.1 = (e.2.slot : Int) := by
  unfold lastSlot
  rw [getLast?_filter_append_unique _ log [e] e (by simp) (by simp)
    (by intro e' he' _; simpa using he')]

/-! ## clean rule calls -/

theorem onAttest_clean (db : Db) (pk : Bytes) (r : AttReq) (f : Faults) (st : AttState)
    (hff : f.fetchFail = []) (hsf : f.storeFail = false) (hf : fetchAtt db pk false = some st) :
    onAttest db pk r f =
      if (attChecks r st).1 = .approved then
        (.approved, db.put (attKey pk) (encodeAtt (attChecks r st).2))
      else ((attChecks r st).1, db) := by
  unfold onAttest
  simp only [hff, List.contains_nil, hf]
  split
  · rename_i st' hq; simp [storeOne, hsf, hq]
  · rename_i v0 st0 hne hq
    have : v0 ≠ .approved := fun h => hne h
    simp [hq, this]

theorem evalBatch_clean {α : Type} (req : α → AttReq) (db : Db) (f : Faults) (L : Bytes → AttState)
    (hff : f.fetchFail = []) (hf : ∀ k, fetchAtt db k false = some (L k)) :
    ∀ (items : List (Bytes × α)) (i : Nat),
      evalBatch req db f i items =
        some (items.map (fun it => (it.1, it.2, attChecks (req it.2) (L it.1)))) := by
  intro items
  induction items with
  | nil => intro i; rfl
  | cons it rest ih =>
    intro i
    obtain ⟨pk, a⟩ := it
    simp only [evalBatch, hff, List.contains_nil, hf, ih, List.map_cons]

theorem onAttestBatch_clean {α : Type} (req : α → AttReq) (db : Db) (items : List (Bytes × α))
    (f : Faults) (L : Bytes → AttState)
    (hff : f.fetchFail = []) (hsf : f.storeFail = false) (hf : ∀ k, fetchAtt db k false = some (L k)) :
    onAttestBatch req db items f =
      (if items.isEmpty then none
       else some (items.map (fun it => (it.1, it.2, (attChecks (req it.2) (L it.1)).1))),
       db.putMany (items.map (fun it => (attKey it.1, encodeAtt (attChecks (req it.2) (L it.1)).2)))) := by
  unfold onAttestBatch
  rw [evalBatch_clean req db f L hff hf]
  cases items with
  | nil => simp [storeMany, batchKvs, Db.putMany]
  | cons it rest => simp [storeMany, batchKvs, hsf, Function.comp_def]

theorem fetchAtt_putMany_batch {α : Type} (db : Db) (items : List (Bytes × α))
    (g : Bytes × α → AttState) (hn : (items.map (·.1)).Nodup)
    (hg : ∀ it ∈ items, InI64 (g it).src ∧ InI64 (g it).tgt) :
    (∀ it ∈ items,
      fetchAtt (db.putMany (items.map (fun it => (attKey it.1, encodeAtt (g it))))) it.1 false
        = some (g it)) ∧
    (∀ k, k ∉ items.map (·.1) →
      fetchAtt (db.putMany (items.map (fun it => (attKey it.1, encodeAtt (g it))))) k false
        = fetchAtt db k false) := by
  have hkeys : (items.map (fun it => (attKey it.1, encodeAtt (g it)))).map (·.1)
      = (items.map (·.1)).map attKey := by
    simp [Function.comp_def]
  constructor
  · intro it hit
    have hmem : (attKey it.1, encodeAtt (g it)) ∈ items.map (fun it => (attKey it.1, encodeAtt (g it))) :=
      List.mem_map.mpr ⟨it, hit, rfl⟩
    have hnd : ((items.map (fun it => (attKey it.1, encodeAtt (g it)))).map (·.1)).Nodup := by
      rw [hkeys]; exact nodup_map_attKey hn
    have hget := get_putMany_mem db _ _ _ hnd hmem
    simp [fetchAtt, hget, decodeAtt_encodeAtt _ (hg it hit).1 (hg it hit).2]
  · intro k hk
    apply fetchAtt_congr
    apply get_putMany_notin
    rw [hkeys]
    intro hm
    obtain ⟨x, hx, hxe⟩ := List.mem_map.mp hm
    exact hk (by rw [← attKey_inj hxe]; exact hx)

theorem signEvs_clean (g : Bytes × AttData → Verdict) :
    ∀ (items : List (Bytes × AttData)) (i : Nat), (∀ it ∈ items, it.2.signingRoot ≠ none) →
      (signEvs [] i (items.map (fun it => (it.1, it.2, g it)))).filterMap (·.2)
        = items.filter (fun it => g it = .approved) := by
  intro items
  induction items with
  | nil => intro i _; rfl
  | cons it rest ih =>
    intro i hr
    have hroot := hr it (by simp)
    have ih' := ih (i + 1) (fun x hx => hr x (by simp [hx]))
    simp only [List.map_cons, signEvs, List.filterMap_cons, List.filter_cons]
    cases hg : g it with
    | approved =>
      cases hsr : it.2.signingRoot with
      | none => exact absurd hsr hroot
      | some root => simp [ih']
    | unknown => simp [ih']
    | denied => simp [ih']
    | failed => simp [ih']

/-- what the rules call of a keyed batch does on a clean call against records `L` -/
theorem rulesKeyed_clean (db : Db) (keyed : List (Bytes × AttData)) (f : Faults) (L : Bytes → AttState)
    (hff : f.fetchFail = []) (hsf : f.storeFail = false)
    (hf : ∀ k, fetchAtt db k false = some (L k))
    (hL : ∀ k, InI64 (L k).src ∧ InI64 (L k).tgt)
    (hn : (keyed.map (·.1)).Nodup) :
    (rulesKeyed db keyed f).1 =
      (if keyed.isEmpty then none
       else some (keyed.map (fun it => (it.1, it.2, (attChecks it.2.req (L it.1)).1)))) ∧
    (∀ it ∈ keyed, fetchAtt (rulesKeyed db keyed f).2 it.1 false = some (attChecks it.2.req (L it.1)).2) ∧
    (∀ k, k ∉ keyed.map (·.1) → fetchAtt (rulesKeyed db keyed f).2 k false = fetchAtt db k false) := by
  have hin : ∀ it ∈ keyed, InI64 (attChecks it.2.req (L it.1)).2.src ∧
      InI64 (attChecks it.2.req (L it.1)).2.tgt :=
    fun it _ => attChecks_inI64 (r := it.2.req) (st := L it.1) rfl (hL it.1).1 (hL it.1).2
  unfold rulesKeyed
  split
  · rename_i k d
    rw [onAttest_clean db k d.req f (L k) hff hsf (hf k)]
    by_cases hv : (attChecks d.req (L k)).1 = .approved
    · simp only [hv, ↓reduceIte]
      have hi := hin (k, d) (by simp)
      refine ⟨by simp [hv], ?_, ?_⟩
      · intro it hit
        simp at hit; subst hit
        exact fetchAtt_put_att_same _ _ _ hi.1 hi.2
      · intro k' hk'
        simp at hk'
        exact fetchAtt_put_att_other _ _ _ _ hk'
    · simp only [hv, ↓reduceIte]
      refine ⟨by simp, ?_, ?_⟩
      · intro it hit
        simp at hit; subst hit
        rw [hf]
        exact congrArg some (attChecks_not_approved (r := d.req) (st := L k) rfl hv).symm
      · intro k' _; trivial
  · rw [onAttestBatch_clean AttData.req db keyed f L hff hsf hf]
    obtain ⟨h1, h2⟩ := fetchAtt_putMany_batch db keyed (fun it => (attChecks it.2.req (L it.1)).2) hn hin
    exact ⟨rfl, h1, h2⟩

/-! ## the invariant -/

theorem init_exactInv (cfg : Config) : ExactInv (init cfg []) :=
  ⟨fun k => by simp [init, fetchAtt, Db.get, lastVote_nil],
   fun k => by simp [init, fetchProp, Db.get, lastSlot_nil],
   by simp [init]⟩

/-- generic preservation: the new entries are stored exactly, all other records are untouched -/
theorem exact_att_extend {s : Inst} (h : ExactInv s) (db' : Db) (new : List (Bytes × AttData))
    (hnd : (new.map (·.1)).Nodup)
    (hsmall : ∀ e ∈ new, e.2.src ≤ maxI64 ∧ e.2.tgt ≤ maxI64)
    (hnew : ∀ e ∈ new, fetchAtt db' e.1 false = some ⟨(e.2.src : Int), (e.2.tgt : Int)⟩)
    (hother : ∀ k, (∀ e ∈ new, e.1 ≠ k) → fetchAtt db' k false = fetchAtt s.db k false)
    (hprop : ∀ k, fetchProp db' k false = fetchProp s.db k false) :
    ExactInv { s with db := db', attLog := s.attLog ++ new } := by
  refine ⟨?_, ?_, ?_, h.small.2⟩
  · intro k
    simp only
    by_cases hk : ∃ e ∈ new, e.1 = k
    · obtain ⟨e, he, hek⟩ := hk
      subst hek
      rw [lastVote_append_unique _ _ _ hnd he, hnew e he]
    · have hk' : ∀ e ∈ new, e.1 ≠ k := fun e he hek => hk ⟨e, he, hek⟩
      rw [lastVote_append_none _ _ _ hk', hother k hk', h.att k]
  · intro k
    simp only
    rw [hprop k, h.prop k]
  · intro e he
    simp only at he
    rcases List.mem_append.mp he with h1 | h1
    · exact h.small.1 e h1
    · exact hsmall e h1

theorem exact_att_db_only {s : Inst} (h : ExactInv s) (db' : Db)
    (hatt : ∀ k, fetchAtt db' k false = fetchAtt s.db k false)
    (hprop : ∀ k, fetchProp db' k false = fetchProp s.db k false) :
    ExactInv { s with db := db' } := by
  have := exact_att_extend h db' [] (by simp) (by simp) (by simp) (fun k _ => hatt k) hprop
  simpa using this

theorem attestKeyed_exact {s : Inst} (h : ExactInv s) (keyed : List (Bytes × AttData)) (f : Faults)
    (hff : f.fetchFail = []) (hsf : f.storeFail = false)
    (hroot : ∀ it ∈ keyed, it.2.signingRoot ≠ none) (hn : (keyed.map (·.1)).Nodup) :
    ExactInv (attestKeyed s keyed f []).1 := by
  obtain ⟨hA, hB, hC⟩ := rulesKeyed_clean s.db keyed f (lastVote s.attLog) hff hsf h.att
    (fun k => lastVote_inI64 _ k h.small.1) hn
  have hprop := rulesKeyed_prop_frame s.db keyed f
  unfold attestKeyed finishKeyed
  rw [hA]
  cases keyed with
  | nil =>
    simp only [List.isEmpty_nil, ↓reduceIte]
    exact exact_att_db_only h _ (fun k => hC k (by simp)) hprop
  | cons it0 rest =>
    simp only [List.isEmpty_cons, Bool.false_eq_true, ↓reduceIte]
    rw [signEvs_clean (fun it => (attChecks it.2.req (lastVote s.attLog it.1)).1) _ 0 hroot]
    refine exact_att_extend h _ _ ?_ ?_ ?_ ?_ hprop
    · exact ((List.filter_sublist).map _).nodup hn
    · intro e he
      obtain ⟨_, hv⟩ := List.mem_filter.mp he
      have hv' : (attChecks e.2.req (lastVote s.attLog e.1)).1 = .approved := by simpa using hv
      have := attChecks_approved (r := e.2.req) (st := lastVote s.attLog e.1)
        (st' := (attChecks e.2.req (lastVote s.attLog e.1)).2) (by rw [← hv'])
      exact ⟨this.1, this.2.1⟩
    · intro e he
      obtain ⟨hm, hv⟩ := List.mem_filter.mp he
      have hv' : (attChecks e.2.req (lastVote s.attLog e.1)).1 = .approved := by simpa using hv
      have := attChecks_approved (r := e.2.req) (st := lastVote s.attLog e.1)
        (st' := (attChecks e.2.req (lastVote s.attLog e.1)).2) (by rw [← hv'])
      rw [hB e hm, this.2.2.1]; rfl
    · intro k hk
      by_cases hmem : k ∈ (it0 :: rest).map (·.1)
      · obtain ⟨it, hit, hitk⟩ := List.mem_map.mp hmem
        subst hitk
        have hv : (attChecks it.2.req (lastVote s.attLog it.1)).1 ≠ .approved := by
          intro hv
          exact hk it (List.mem_filter.mpr ⟨hit, by simpa using hv⟩) rfl
        rw [hB it hit, h.att it.1]
        exact congrArg some (attChecks_not_approved (r := it.2.req) (st := lastVote s.attLog it.1) rfl hv)
      · exact hC k hmem

theorem signAtts_exact {s : Inst} (h : ExactInv s) (c : String) (items : List (Addr × AttData))
    (f : Faults) (hff : f.fetchFail = []) (hsf : f.storeFail = false)
    (hroot : ∀ it ∈ items, it.2.signingRoot ≠ none) : ExactInv (signAtts s c items f []).1 := by
  unfold signAtts
  simp only
  split
  · exact h
  · split
    · exact h
    · split
      · exact h
      · split
        · exact h
        · rename_i hd
          have := (firstDup_none_nodup _ _ _ hd).1
          rw [List.map_map] at this
          refine attestKeyed_exact h _ f hff hsf ?_
            (by simpa using nodup_of_map_nodup _ _ (by simpa using this))
          intro it hit
          unfold okItems preCheckAll at hit
          simp only [List.mem_filterMap, List.mem_map] at hit
          obtain ⟨p, ⟨x, hx, hxp⟩, hp⟩ := hit
          subst hxp
          split at hp
          · rename_i a heq
            split at heq
            · cases heq
            · injection heq with heq; injection hp with hp
              subst hp; subst heq
              exact hroot x hx
          · cases hp

theorem signAtt_exact {s : Inst} (h : ExactInv s) (c : String) (a : Addr) (d : AttData) (f : Faults)
    (hff : f.fetchFail = []) (hsf : f.storeFail = false) (hroot : d.signingRoot ≠ none) :
    ExactInv (signAtt s c a d f false).1 := by
  unfold signAtt
  split
  · exact h
  · split
    · exact h
    · rename_i acct _
      have hin := lastVote_inI64 s.attLog acct.pubkey h.small.1
      rw [onAttest_clean s.db acct.pubkey d.req f _ hff hsf (h.att acct.pubkey)]
      by_cases hv : (attChecks d.req (lastVote s.attLog acct.pubkey)).1 = .approved
      · simp only [hv, ↓reduceIte]
        cases hsr : d.signingRoot with
        | none => exact absurd hsr hroot
        | some root =>
          simp only [Bool.false_eq_true, ↓reduceIte]
          have happ := attChecks_approved (r := d.req) (st := lastVote s.attLog acct.pubkey)
            (st' := (attChecks d.req (lastVote s.attLog acct.pubkey)).2) (by rw [← hv])
          have hi : InI64 (attChecks d.req (lastVote s.attLog acct.pubkey)).2.src ∧
              InI64 (attChecks d.req (lastVote s.attLog acct.pubkey)).2.tgt :=
            attChecks_inI64 (r := d.req) (st := lastVote s.attLog acct.pubkey) rfl hin.1 hin.2
          refine exact_att_extend h _ [(acct.pubkey, d)] (by simp) ?_ ?_ ?_ ?_
          · intro e he; simp at he; subst he; exact ⟨happ.1, happ.2.1⟩
          · intro e he; simp at he; subst he
            rw [fetchAtt_put_att_same _ _ _ hi.1 hi.2, happ.2.2.1]; rfl
          · intro k hk
            have : k ≠ acct.pubkey := fun e => hk (acct.pubkey, d) (by simp) e.symm
            exact fetchAtt_put_att_other _ _ _ _ this
          · intro k; exact fetchProp_put_att _ _ _ _
      · simp only [hv, ↓reduceIte]
        exact h

/-! ### proposals -/

theorem onPropose_clean (db : Db) (pk : Bytes) (r : PropReq) (f : Faults) (st : Int)
    (hff : f.fetchFail = []) (hsf : f.storeFail = false) (hf : fetchProp db pk false = some st) :
    (onPropose db pk r f = (.approved, db.put (propKey pk) (encodeProp (i64 r.slot))) ∧ r.slot ≤ maxI64) ∨
    onPropose db pk r f = (.denied, db) := by
  unfold onPropose
  simp only [hff, List.contains_nil, hf, storeOne, hsf]
  split
  · right; rfl
  · split
    · right; rfl
    · split
      · right; rfl
      · left; exact ⟨by simp, by omega⟩

theorem signProp_exact {s : Inst} (h : ExactInv s) (c : String) (a : Addr) (d : PropData) (f : Faults)
    (hff : f.fetchFail = []) (hsf : f.storeFail = false) (hroot : d.signingRoot ≠ none) :
    ExactInv (signProp s c a d f false).1 := by
  unfold signProp
  split
  · exact h
  · split
    · exact h
    · rename_i acct _
      rcases onPropose_clean s.db acct.pubkey { domain := d.domain.getD [], slot := d.slot } f _ hff hsf
        (h.prop acct.pubkey) with ⟨hon, hsl⟩ | hon
      · rw [hon]
        simp only at hsl ⊢
        cases hsr : d.signingRoot with
        | none => exact absurd hsr hroot
        | some root =>
          simp only [Bool.false_eq_true, ↓reduceIte]
          have hi : i64 d.slot = (d.slot : Int) := i64_small _ hsl
          have hin : InI64 (i64 d.slot) := by
            rw [hi]; unfold InI64 maxI64 two63 at *; constructor <;> omega
          refine ⟨?_, ?_, h.small.1, ?_⟩
          · intro k
            simp only
            rw [fetchAtt_put_prop, h.att k]
          · intro k
            simp only
            by_cases hk : k = acct.pubkey
            · subst hk
              rw [fetchProp_put_prop_same _ _ _ hin, lastSlot_append_same _ (acct.pubkey, d), hi]
            · rw [fetchProp_put_prop_other _ _ _ _ hk,
                lastSlot_append_other _ (acct.pubkey, d) k (fun e => hk e.symm), h.prop k]
          · intro e he
            simp only at he
            rcases List.mem_append.mp he with h1 | h1
            · exact h.small.2 e h1
            · simp at h1; subst h1; exact hsl
      · rw [hon]; exact h

/-! ### histories -/

theorem exactInv_of_frame {s s' : Inst} (h : ExactInv s) (h1 : s'.db = s.db)
    (h2 : s'.attLog = s.attLog) (h3 : s'.propLog = s.propLog) : ExactInv s' :=
  ⟨by rw [h1, h2]; exact h.att, by rw [h1, h3]; exact h.prop, by rw [h2, h3]; exact h.small⟩

theorem step_exactInv (s : Inst) (op : Op) (h : ExactInv s) (hc : op.clean) : ExactInv (step s op).1 := by
  cases op with
  | att c a d f => exact signAtt_exact h c a d f hc.1 hc.2.1 hc.2.2
  | atts c items f => exact signAtts_exact h c items f hc.1 hc.2.1 hc.2.2
  | prop c a d f => exact signProp_exact h c a d f hc.1 hc.2.1 hc.2.2
  | sign c ip a d =>
    have hf := signGeneric_frame s c ip a d false false
    exact exactInv_of_frame h hf.1 hf.2.1 hf.2.2
  | msign c ip items =>
    have hf := multisign_frame s c ip items [] false
    exact exactInv_of_frame h hf.1 hf.2.1 hf.2.2
  | restart => exact h
  | importRec k r => exact absurd hc id
  | importCmd gvr f => exact absurd hc id
  | create c p pk =>
    have hf := step_create_frame s c p pk
    exact exactInv_of_frame h hf.1 hf.2.1 hf.2.2.1
  | setUnlockable w n b => exact exactInv_of_frame h rfl rfl rfl
  | lockWallet c w => exact h
  | unlockWallet c w => exact h

theorem run_exactInv (ops : List Op) (s : Inst) (h : ExactInv s) (hc : ∀ op ∈ ops, op.clean) :
    ExactInv (run s ops) := by
  induction ops generalizing s with
  | nil => exact h
  | cons op rest ih =>
    exact ih _ (step_exactInv s op h (hc op (by simp))) (fun o ho => hc o (by simp [ho]))

/-! ## the configuration changes only by account creation and account lock / unlock -/

theorem signAtt_cfg (s : Inst) (c : String) (a : Addr) (d : AttData) (f : Faults) (sf : Bool) :
    (signAtt s c a d f sf).1.cfg = s.cfg := by
  unfold signAtt
  repeat' split
  all_goals rfl

theorem signProp_cfg (s : Inst) (c : String) (a : Addr) (d : PropData) (f : Faults) (sf : Bool) :
    (signProp s c a d f sf).1.cfg = s.cfg := by
  unfold signProp
  repeat' split
  all_goals rfl

theorem signAtts_cfg (s : Inst) (c : String) (items : List (Addr × AttData)) (f : Faults)
    (sf : List Nat) : (signAtts s c items f sf).1.cfg = s.cfg := by
  unfold signAtts attestKeyed finishKeyed
  simp only
  repeat' split
  all_goals rfl

theorem signGeneric_cfg (s : Inst) (c ip : String) (a : Addr) (d : SignData) (sf lf : Bool) :
    (signGeneric s c ip a d sf lf).1.cfg = s.cfg := by
  unfold signGeneric
  repeat' split
  all_goals rfl

theorem multisign_cfg (s : Inst) (c ip : String) (items : List (Addr × SignData)) (sf : List Nat) (lf : Bool) :
    (multisign s c ip items sf lf).1.cfg = s.cfg := by
  unfold multisign
  simp only
  repeat' split
  all_goals rfl

/-- (`_partial`: `Op.create` and `Op.setUnlockable` do change the configuration) -/
theorem step_cfg_partial (s : Inst) (op : Op) (hk : op.keepsCfg) : (step s op).1.cfg = s.cfg := by
  cases op with
  | att c a d f => exact signAtt_cfg s c a d f false
  | atts c items f => exact signAtts_cfg s c items f []
  | prop c a d f => exact signProp_cfg s c a d f false
  | sign c ip a d => exact signGeneric_cfg s c ip a d false false
  | msign c ip items => exact multisign_cfg s c ip items [] false
  | restart => rfl
  | importRec k r => rfl
  | importCmd gvr f => exact (step_importCmd_frame s gvr f).1
  | create c p pk => exact absurd hk id
  | setUnlockable w n b => exact absurd hk id
  | lockWallet c w => rfl
  | unlockWallet c w => rfl

theorem run_cfg_partial (ops : List Op) : ∀ (s : Inst), (∀ op ∈ ops, op.keepsCfg) → (run s ops).cfg = s.cfg := by
  induction ops with
  | nil => intro s _; rfl
  | cons op rest ih =>
    intro s hk
    exact (ih _ (fun o ho => hk o (by simp [ho]))).trans (step_cfg_partial s op (hk op (by simp)))

/-- what a step does to the configuration, for every operation -/
theorem step_cfg_cases (s : Inst) (op : Op) :
    (step s op).1.cfg = s.cfg ∨
    (∃ c p pk cfg', op = .create c p pk ∧ createAccount s.cfg c p pk = some cfg' ∧ (step s op).1.cfg = cfg') ∨
    (∃ w n b, op = .setUnlockable w n b ∧ (step s op).1.cfg = setUnlockable s.cfg w n b) := by
  by_cases hk : op.keepsCfg
  · exact Or.inl (step_cfg_partial s op hk)
  · cases op <;> first | exact absurd trivial hk | skip
    · rename_i c p pk
      cases hca : createAccount s.cfg c p pk with
      | none => left; simp [step, hca]
      | some cfg' => right; left; exact ⟨c, p, pk, cfg', rfl, hca, by simp [step, hca]⟩
    · rename_i w n b
      right; right; exact ⟨w, n, b, rfl, rfl⟩

/-! ## consequences -/

/-- C11: the export states exactly the last released slot / source / target of every key (−1 = none) -/
theorem export_exact (cfg : Config) (ops : List Op) (hc : ∀ op ∈ ops, op.clean) (k : Bytes) :
    exportKey (run (init cfg []) ops).db k =
      some { slot := lastSlot (run (init cfg []) ops).propLog k,
             src := (lastVote (run (init cfg []) ops).attLog k).src,
             tgt := (lastVote (run (init cfg []) ops).attLog k).tgt } := by
  have h := run_exactInv ops _ (init_exactInv cfg) hc
  unfold exportKey
  rw [h.att k, h.prop k]

theorem lastVote_max (log : List (Bytes × AttData)) (hm : LogMono log) (k : Bytes) :
    ∀ e ∈ log, e.1 = k →
      (e.2.tgt : Int) ≤ (lastVote log k).tgt ∧ (e.2.src : Int) ≤ (lastVote log k).src := by
  intro e he hek
  have hef : e ∈ log.filter (fun e => e.1 = k) := List.mem_filter.mpr ⟨he, by simpa using hek⟩
  cases hl : (log.filter (fun e => e.1 = k)).getLast? with
  | none =>
    rw [List.getLast?_eq_none_iff.mp hl] at hef
    cases hef
  | some z =>
    have hv : lastVote log k = ⟨(z.2.src : Int), (z.2.tgt : Int)⟩ := by unfold lastVote; rw [hl]
    have hz := (getLast?_filter_mem _ _ _ hl).2
    have hzk : z.1 = k := by simpa using hz
    have hp : (log.filter (fun e => e.1 = k)).Pairwise (fun a b => a.1 = b.1 → VoteLt a.2 b.2) :=
      List.Pairwise.filter _ hm
    rw [hv]
    rcases pairwise_getLast? hp hl e hef with h | h
    · subst h; simp
    · have := h (hek.trans hzk.symm)
      unfold VoteLt at this
      simp only
      omega

theorem lastSlot_max (log : List (Bytes × PropData)) (hm : PLogMono log) (k : Bytes) :
    ∀ e ∈ log, e.1 = k → (e.2.slot : Int) ≤ lastSlot log k := by
  intro e he hek
  have hef : e ∈ log.filter (fun e => e.1 = k) := List.mem_filter.mpr ⟨he, by simpa using hek⟩
  cases hl : (log.filter (fun e => e.1 = k)).getLast? with
  | none =>
    rw [List.getLast?_eq_none_iff.mp hl] at hef
    cases hef
  | some z =>
    have hv : lastSlot log k = (z.2.slot : Int) := by unfold lastSlot; rw [hl]
    have hz := (getLast?_filter_mem _ _ _ hl).2
    have hzk : z.1 = k := by simpa using hz
    have hp : (log.filter (fun e => e.1 = k)).Pairwise (fun a b => a.1 = b.1 → a.2.slot < b.2.slot) :=
      List.Pairwise.filter _ hm
    rw [hv]
    rcases pairwise_getLast? hp hl e hef with h | h
    · subst h; simp
    · have := h (hek.trans hzk.symm)
      omega

/-- generalisation of `last_is_max_att` to histories with raw imports that cover what had been released.
    The statement is about the logs only, but it is false without the hypothesis: after a raw import
    below a released signature the rules approve a lower request, and the
    last released is then not the highest (Props/C01.lean, `C01_lowering_import_counterexample`). -/
theorem last_is_max_att_with_imports (cfg : Config) (ops : List Op) (hs : SafeHist (init cfg []) ops) (k : Bytes) :
    ∀ e ∈ (run (init cfg []) ops).attLog, e.1 = k →
      (e.2.tgt : Int) ≤ (lastVote (run (init cfg []) ops).attLog k).tgt ∧
      (e.2.src : Int) ≤ (lastVote (run (init cfg []) ops).attLog k).src :=
  lastVote_max _ (run_attInv_with_imports ops _ (init_attInv cfg []) hs).mono k

theorem last_is_max_prop_with_imports (cfg : Config) (ops : List Op) (hs : SafeHist (init cfg []) ops) (k : Bytes) :
    ∀ e ∈ (run (init cfg []) ops).propLog, e.1 = k →
      (e.2.slot : Int) ≤ lastSlot (run (init cfg []) ops).propLog k :=
  lastSlot_max _ (run_propInv_with_imports ops _ (init_propInv cfg []) hs).mono k

/-- the last released attestation of a key is its highest released: any history (faults included) of
    signing requests, restarts, import commands, account creations and lock / unlock -/
theorem last_is_max_att (cfg : Config) (ops : List Op) (hr : NoRawImport ops) (k : Bytes) :
    ∀ e ∈ (run (init cfg []) ops).attLog, e.1 = k →
      (e.2.tgt : Int) ≤ (lastVote (run (init cfg []) ops).attLog k).tgt ∧
      (e.2.src : Int) ≤ (lastVote (run (init cfg []) ops).attLog k).src :=
  last_is_max_att_with_imports cfg ops (safeHist_of_noRawImport ops _ hr) k

theorem last_is_max_prop (cfg : Config) (ops : List Op) (hr : NoRawImport ops) (k : Bytes) :
    ∀ e ∈ (run (init cfg []) ops).propLog, e.1 = k →
      (e.2.slot : Int) ≤ lastSlot (run (init cfg []) ops).propLog k :=
  last_is_max_prop_with_imports cfg ops (safeHist_of_noRawImport ops _ hr) k

/-! ### liveness -/

theorem attChecks_live (r : AttReq) (st : AttState)
    (hdom : prefix4 r.domain = domAttester)
    (hord : r.src < r.tgt ∨ (r.src = 0 ∧ r.tgt = 0))
    (hs : r.src ≤ maxI64) (ht : r.tgt ≤ maxI64)
    (habove_t : st.tgt < (r.tgt : Int)) (habove_s : st.src ≤ (r.src : Int)) :
    attChecks r st = (.approved, ⟨(r.src : Int), (r.tgt : Int)⟩) := by
  unfold attChecks
  have h1 : ¬ ((r.src ≠ 0 ∨ r.tgt ≠ 0) ∧ r.tgt ≤ r.src) := by omega
  have h2 : ¬ (r.src > maxI64 ∨ r.tgt > maxI64) := by omega
  have h3 : ¬ (st.tgt ≥ 0 ∧ r.tgt ≤ u64 st.tgt) := by
    intro ⟨h0, hh⟩; have := u64_nonneg _ h0; omega
  have h4 : ¬ (st.src ≥ 0 ∧ r.src < u64 st.src) := by
    intro ⟨h0, hh⟩; have := u64_nonneg _ h0; omega
  simp [hdom, h1, h2, h3, h4, i64_small _ hs, i64_small _ ht]

theorem signAtt_live {s : Inst} (h : ExactInv s) (c : String) (a : Addr) (d : AttData) (acct : Account)
    (hwf : d.wellFormed = true) (hpc : preCheck s.cfg c a opAttest = .ok acct)
    (hroot : d.signingRoot ≠ none) (hdom : prefix4 (d.domain.getD []) = domAttester)
    (hord : d.src < d.tgt ∨ (d.src = 0 ∧ d.tgt = 0)) (hs : d.src ≤ maxI64) (ht : d.tgt ≤ maxI64)
    (hadv : ∀ e ∈ s.attLog, e.1 = acct.pubkey → e.2.tgt < d.tgt ∧ e.2.src ≤ d.src) :
    (signAtt s c a d {} false).2.res = .succeeded := by
  have habove : (lastVote s.attLog acct.pubkey).tgt < (d.tgt : Int) ∧
      (lastVote s.attLog acct.pubkey).src ≤ (d.src : Int) := by
    rcases lastVote_cases s.attLog acct.pubkey with ⟨hv, _⟩ | ⟨e, he, hek, hv⟩
    · rw [hv]; simp only; omega
    · rw [hv]; have := hadv e he hek; simp only; omega
  have hchk : attChecks d.req (lastVote s.attLog acct.pubkey) = (.approved, ⟨(d.src : Int), (d.tgt : Int)⟩) :=
    attChecks_live d.req _ hdom hord hs ht habove.1 habove.2
  unfold signAtt
  simp only [hwf, Bool.not_true, Bool.false_eq_true, ↓reduceIte, hpc]
  rw [onAttest_clean s.db acct.pubkey d.req {} _ rfl rfl (h.att acct.pubkey)]
  simp only [hchk, ↓reduceIte]
  cases hsr : d.signingRoot with
  | none => exact absurd hsr hroot
  | some root => simp

theorem signProp_live {s : Inst} (h : ExactInv s) (c : String) (a : Addr) (d : PropData) (acct : Account)
    (hwf : d.wellFormed = true) (hpc : preCheck s.cfg c a opPropose = .ok acct)
    (hroot : d.signingRoot ≠ none) (hdom : prefix4 (d.domain.getD []) = domProposer) (hs : d.slot ≤ maxI64)
    (hadv : ∀ e ∈ s.propLog, e.1 = acct.pubkey → e.2.slot < d.slot) :
    (signProp s c a d {} false).2.res = .succeeded := by
  have habove : lastSlot s.propLog acct.pubkey < (d.slot : Int) := by
    rcases lastSlot_cases s.propLog acct.pubkey with ⟨hv, _⟩ | ⟨e, he, hek, hv⟩
    · rw [hv]; omega
    · rw [hv]; have := hadv e he hek; omega
  have h2 : ¬ (d.slot > maxI64) := by omega
  have h3 : ¬ (lastSlot s.propLog acct.pubkey ≥ 0 ∧ d.slot ≤ u64 (lastSlot s.propLog acct.pubkey)) := by
    intro ⟨h0, hh⟩; have := u64_nonneg _ h0; omega
  have hon : onPropose s.db acct.pubkey { domain := d.domain.getD [], slot := d.slot } {} =
      (.approved, s.db.put (propKey acct.pubkey) (encodeProp (i64 d.slot))) := by
    unfold onPropose
    simp [hdom, h2, h.prop acct.pubkey, h3, storeOne]
  unfold signProp
  simp only [hwf, Bool.not_true, Bool.false_eq_true, ↓reduceIte, hpc, hon]
  cases hsr : d.signingRoot with
  | none => exact absurd hsr hroot
  | some root => simp

/-- C09 (history level): after any clean history, a well-formed request that is authorised under the
    configuration as it is THEN (accounts may have been created, locked or unlocked on the way) and that
    advances on everything released so far for its key is signed -/
theorem live_att (cfg : Config) (ops : List Op) (hc : ∀ op ∈ ops, op.clean)
    (c : String) (a : Addr) (d : AttData) (acct : Account)
    (hwf : d.wellFormed = true) (hpc : preCheck (run (init cfg []) ops).cfg c a opAttest = .ok acct)
    (hroot : d.signingRoot ≠ none) (hdom : prefix4 (d.domain.getD []) = domAttester)
    (hord : d.src < d.tgt ∨ (d.src = 0 ∧ d.tgt = 0)) (hs : d.src ≤ maxI64) (ht : d.tgt ≤ maxI64)
    (hadv : ∀ e ∈ (run (init cfg []) ops).attLog, e.1 = acct.pubkey → e.2.tgt < d.tgt ∧ e.2.src ≤ d.src) :
    (signAtt (run (init cfg []) ops) c a d {} false).2.res = .succeeded := by
  have h := run_exactInv ops _ (init_exactInv cfg) hc
  exact signAtt_live h c a d acct hwf hpc hroot hdom hord hs ht hadv

theorem live_prop (cfg : Config) (ops : List Op) (hc : ∀ op ∈ ops, op.clean)
    (c : String) (a : Addr) (d : PropData) (acct : Account)
    (hwf : d.wellFormed = true) (hpc : preCheck (run (init cfg []) ops).cfg c a opPropose = .ok acct)
    (hroot : d.signingRoot ≠ none) (hdom : prefix4 (d.domain.getD []) = domProposer) (hs : d.slot ≤ maxI64)
    (hadv : ∀ e ∈ (run (init cfg []) ops).propLog, e.1 = acct.pubkey → e.2.slot < d.slot) :
    (signProp (run (init cfg []) ops) c a d {} false).2.res = .succeeded := by
  have h := run_exactInv ops _ (init_exactInv cfg) hc
  exact signProp_live h c a d acct hwf hpc hroot hdom hs hadv

end Dirk
