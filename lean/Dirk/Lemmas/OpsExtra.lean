/-
  Dirk.Lemmas.OpsExtra — the operations of an instance that do not sign: the live rules-level import
  (`Op.importRec`), account creation (`Op.create`), the account manager's lock / unlock
  (`Op.setUnlockable`) and wallet lock / unlock.

  * configuration operations leave the store and the released logs alone (frame lemmas);
  * `importRec` changes the store only, and OVERWRITES: it keeps `AttInv` / `PropInv` exactly when the
    imported record is not below what was released for the key (`ImportCovers`, Dirk.Model.Instance);
  * closed forms of a single attestation / proposal step, used by the examples and counterexamples in
    Props/C01.lean and Props/C02.lean.
-/
import Dirk.Lemmas.PropInv
import Dirk.Lemmas.ImportProofs

namespace Dirk

/-! ## frame lemmas for the configuration operations -/

theorem step_create_frame (s : Inst) (c p : String) (pk : Bytes) :
    (step s (.create c p pk)).1.db = s.db ∧ (step s (.create c p pk)).1.attLog = s.attLog ∧
    (step s (.create c p pk)).1.propLog = s.propLog ∧ (step s (.create c p pk)).1.signLog = s.signLog := by
  simp only [step]
  split <;> exact ⟨rfl, rfl, rfl, rfl⟩

theorem step_setUnlockable_frame (s : Inst) (w n : String) (b : Bool) :
    (step s (.setUnlockable w n b)).1.db = s.db ∧ (step s (.setUnlockable w n b)).1.attLog = s.attLog ∧
    (step s (.setUnlockable w n b)).1.propLog = s.propLog ∧
    (step s (.setUnlockable w n b)).1.signLog = s.signLog :=
  ⟨rfl, rfl, rfl, rfl⟩

theorem step_lockWallet (s : Inst) (c w : String) : (step s (.lockWallet c w)).1 = s := rfl
theorem step_unlockWallet (s : Inst) (c w : String) : (step s (.unlockWallet c w)).1 = s := rfl

theorem step_importRec (s : Inst) (k : Bytes) (r : Protection) :
    (step s (.importRec k r)).1 = { s with db := importKey s.db (toBytes48 k) r } := rfl

/-- an import changes the store only -/
theorem step_importRec_frame (s : Inst) (k : Bytes) (r : Protection) :
    (step s (.importRec k r)).1.cfg = s.cfg ∧ (step s (.importRec k r)).1.attLog = s.attLog ∧
    (step s (.importRec k r)).1.propLog = s.propLog ∧ (step s (.importRec k r)).1.signLog = s.signLog :=
  ⟨rfl, rfl, rfl, rfl⟩

/-! ## what `importKey` does to the two records of its key -/

theorem fetchAtt_importKey_nosrc (db : Db) (k k' : Bytes) (p : Protection) (h : p.src = -1) :
    fetchAtt (importKey db k p) k' false = fetchAtt db k' false := by
  unfold importKey
  by_cases h1 : p.slot = -1 <;> simp [h1, h, fetchAtt_put_prop]

theorem fetchProp_importKey_noslot (db : Db) (k k' : Bytes) (p : Protection) (h : p.slot = -1) :
    fetchProp (importKey db k p) k' false = fetchProp db k' false := by
  unfold importKey
  by_cases h2 : p.src = -1 <;> simp [h, h2, fetchProp_put_att]

/-- the attestation record after an import that supplies one: exactly the supplied values -/
theorem fetchAtt_importKey_src (db : Db) (k : Bytes) (p : Protection) (h : p.src ≠ -1)
    (hs : InI64 p.src) (ht : InI64 p.tgt) :
    fetchAtt (importKey db k p) k false = some ⟨p.src, p.tgt⟩ := by
  rw [fetchAtt_importKey_same db k p hs ht]; simp [h]

theorem fetchProp_importKey_slot (db : Db) (k : Bytes) (p : Protection) (h : p.slot ≠ -1)
    (hs : InI64 p.slot) : fetchProp (importKey db k p) k false = some p.slot := by
  rw [fetchProp_importKey_same db k p hs]; simp [h]

/-! ## imports that cover what was released keep the invariants -/

theorem importKey_attInv {s : Inst} (h : AttInv s) (k : Bytes) (r : Protection)
    (hc : ImportCovers s k r) : AttInv { s with db := importKey s.db k r } := by
  refine ⟨?_, h.mono⟩
  intro e he
  simp only at he ⊢
  have hcov := h.covered e he
  by_cases hk : e.1 = k
  · by_cases hsrc : r.src = -1
    · obtain ⟨st, h0, rest⟩ := hcov
      exact ⟨st, by rw [fetchAtt_importKey_nosrc _ _ _ _ hsrc]; exact h0, rest⟩
    · obtain ⟨hi1, hi2, hb1, hb2⟩ := hc.1 hsrc e he hk
      rw [hk]
      exact ⟨⟨r.src, r.tgt⟩, fetchAtt_importKey_src _ _ _ hsrc hi1 hi2, hi1, hi2, hb1, hb2⟩
  · obtain ⟨st, h0, rest⟩ := hcov
    exact ⟨st, by rw [fetchAtt_importKey_other _ _ _ _ hk]; exact h0, rest⟩

theorem importKey_propInv {s : Inst} (h : PropInv s) (k : Bytes) (r : Protection)
    (hc : ImportCovers s k r) : PropInv { s with db := importKey s.db k r } := by
  refine ⟨?_, h.mono⟩
  intro e he
  simp only at he ⊢
  have hcov := h.covered e he
  by_cases hk : e.1 = k
  · by_cases hsl : r.slot = -1
    · obtain ⟨st, h0, rest⟩ := hcov
      exact ⟨st, by rw [fetchProp_importKey_noslot _ _ _ _ hsl]; exact h0, rest⟩
    · obtain ⟨hi, hb⟩ := hc.2 hsl e he hk
      rw [hk]
      exact ⟨r.slot, fetchProp_importKey_slot _ _ _ hsl hi, hi, hb⟩
  · obtain ⟨st, h0, rest⟩ := hcov
    exact ⟨st, by rw [fetchProp_importKey_other _ _ _ _ hk]; exact h0, rest⟩

/-- a sufficient condition stated on the store instead of the logs ("never lowers"): the import supplies
    int64 values that are, field group by field group, at least the values stored for the key.  Together
    with the invariants it implies `ImportCovers`. -/
def ImportRaises (db : Db) (k : Bytes) (r : Protection) : Prop :=
  (r.src ≠ -1 → InI64 r.src ∧ InI64 r.tgt ∧
      ∀ st, fetchAtt db k false = some st → st.src ≤ r.src ∧ st.tgt ≤ r.tgt) ∧
  (r.slot ≠ -1 → InI64 r.slot ∧ ∀ st, fetchProp db k false = some st → st ≤ r.slot)

theorem importCovers_of_raises {s : Inst} (ha : AttInv s) (hp : PropInv s) (k : Bytes) (r : Protection)
    (h : ImportRaises s.db k r) : ImportCovers s k r := by
  constructor
  · intro hsrc e he hk
    obtain ⟨hi1, hi2, hb⟩ := h.1 hsrc
    obtain ⟨st, h0, _, _, h1, h2⟩ := ha.covered e he
    rw [hk] at h0
    have := hb st h0
    exact ⟨hi1, hi2, by omega, by omega⟩
  · intro hsl e he hk
    obtain ⟨hi, hb⟩ := h.2 hsl
    obtain ⟨st, h0, _, h1⟩ := hp.covered e he
    rw [hk] at h0
    have := hb st h0
    exact ⟨hi, by omega⟩

/-! ## histories -/

/-- histories without the raw import are safe (import commands, account creation, lock / unlock,
    restarts and all signing operations are unrestricted) -/
theorem safeHist_of_noRawImport : ∀ (ops : List Op) (s : Inst), NoRawImport ops → SafeHist s ops := by
  intro ops
  induction ops with
  | nil => intro _ _; trivial
  | cons op rest ih =>
    intro s h
    refine ⟨?_, ih _ (fun o ho => h o (by simp [ho]))⟩
    have := h op (by simp)
    cases op <;> simp [Op.isRawImport] at this <;> trivial

theorem safeHist_append : ∀ (ops ops' : List Op) (s : Inst),
    SafeHist s (ops ++ ops') ↔ SafeHist s ops ∧ SafeHist (run s ops) ops' := by
  intro ops
  induction ops with
  | nil => intro ops' s; simp [SafeHist, run]
  | cons op rest ih =>
    intro ops' s
    simp only [List.cons_append, SafeHist, run, ih, and_assoc]

/-! ## closed forms of one signing step (for examples on concrete histories) -/

/-- so that `preCheck … = .ok acct` can be decided on closed terms -/
instance instDecidableEqExceptResAccount : DecidableEq (Except Res Account)
  | .ok a, .ok b => if h : a = b then isTrue (by rw [h]) else isFalse (by intro e; injection e with e; exact h e)
  | .error a, .error b => if h : a = b then isTrue (by rw [h]) else isFalse (by intro e; injection e with e; exact h e)
  | .ok _, .error _ => isFalse (by intro e; cases e)
  | .error _, .ok _ => isFalse (by intro e; cases e)

theorem step_att (s : Inst) (c : String) (a : Addr) (d : AttData) (f : Faults) :
    step s (.att c a d f) = ((signAtt s c a d f false).1, .one (signAtt s c a d f false).2) := rfl

theorem step_prop (s : Inst) (c : String) (a : Addr) (d : PropData) (f : Faults) :
    step s (.prop c a d f) = ((signProp s c a d f false).1, .one (signProp s c a d f false).2) := rfl

theorem signAtt_approved_eq {s : Inst} {c : String} {a : Addr} {d : AttData} {f : Faults}
    {acct : Account} {db' : Db} {root : Bytes}
    (hwf : d.wellFormed = true) (hpc : preCheck s.cfg c a opAttest f.lockStateFail = .ok acct)
    (hon : onAttest s.db acct.pubkey d.req f = (.approved, db')) (hr : d.signingRoot = some root) :
    signAtt s c a d f false =
      ({ s with db := db', attLog := s.attLog ++ [(acct.pubkey, d)] }, ⟨.succeeded, some root⟩) := by
  unfold signAtt
  simp [hwf, hpc, hon, hr]

theorem signAtt_denied_eq {s : Inst} {c : String} {a : Addr} {d : AttData} {f : Faults}
    {acct : Account} {db' : Db}
    (hwf : d.wellFormed = true) (hpc : preCheck s.cfg c a opAttest f.lockStateFail = .ok acct)
    (hon : onAttest s.db acct.pubkey d.req f = (.denied, db')) :
    signAtt s c a d f false = ({ s with db := db' }, ⟨.denied, none⟩) := by
  unfold signAtt
  simp [hwf, hpc, hon, verdictRes]

theorem signProp_approved_eq {s : Inst} {c : String} {a : Addr} {d : PropData} {f : Faults}
    {acct : Account} {db' : Db} {root : Bytes}
    (hwf : d.wellFormed = true) (hpc : preCheck s.cfg c a opPropose f.lockStateFail = .ok acct)
    (hon : onPropose s.db acct.pubkey { domain := d.domain.getD [], slot := d.slot } f = (.approved, db'))
    (hr : d.signingRoot = some root) :
    signProp s c a d f false =
      ({ s with db := db', propLog := s.propLog ++ [(acct.pubkey, d)] }, ⟨.succeeded, some root⟩) := by
  unfold signProp
  simp [hwf, hpc, hon, hr]

theorem signProp_denied_eq {s : Inst} {c : String} {a : Addr} {d : PropData} {f : Faults}
    {acct : Account} {db' : Db}
    (hwf : d.wellFormed = true) (hpc : preCheck s.cfg c a opPropose f.lockStateFail = .ok acct)
    (hon : onPropose s.db acct.pubkey { domain := d.domain.getD [], slot := d.slot } f = (.denied, db')) :
    signProp s c a d f false = ({ s with db := db' }, ⟨.denied, none⟩) := by
  unfold signProp
  simp [hwf, hpc, hon, verdictRes]

end Dirk
