/-
  Dirk.Lemmas.PreCheck — `preCheck` / `preCheckAll` and the lock-state fault (`lockStateFail`: every account
  fetched for the request answers `IsUnlocked()` with an error).  Core Lean only.
-/
import Dirk.Model.Instance

namespace Dirk

/-- result of the pre-check of one request under the lock-state fault: DENIED when the account does not
    resolve or the permission check refuses it, FAILED otherwise — whatever `unlockable` says -/
def lockFaultRes (cfg : Config) (client : String) (a : Addr) (op : String) : Res :=
  match fetchAccount cfg a with
  | none => .denied
  | some acct => if check cfg.access client (acct.wallet ++ "/" ++ acct.name) op then .failed else .denied

/-- under the lock-state fault the pre-check never succeeds, and this is its result -/
theorem preCheck_lock_state_fault (cfg : Config) (client : String) (a : Addr) (op : String) :
    preCheck cfg client a op true = .error (lockFaultRes cfg client a op) := by
  unfold preCheck lockFaultRes
  cases fetchAccount cfg a with
  | none => rfl
  | some acct => cases h : check cfg.access client (acct.wallet ++ "/" ++ acct.name) op <;> simp [h]

theorem lockFaultRes_ne_succeeded (cfg : Config) (client : String) (a : Addr) (op : String) :
    lockFaultRes cfg client a op ≠ .succeeded := by
  unfold lockFaultRes
  repeat' split
  all_goals simp

/-- a pre-check that succeeds did so without the fault, and succeeds without it -/
theorem preCheck_ok {cfg : Config} {client : String} {a : Addr} {op : String} {lf : Bool} {acct : Account}
    (h : preCheck cfg client a op lf = .ok acct) : lf = false ∧ preCheck cfg client a op = .ok acct := by
  cases lf with
  | false => exact ⟨rfl, h⟩
  | true => rw [preCheck_lock_state_fault] at h; cases h

/-- a pre-check that fails without the fault fails with it -/
theorem preCheck_error_mono {cfg : Config} {client : String} {a : Addr} {op : String} {r : Res}
    (h : preCheck cfg client a op = .error r) (lf : Bool) : ∃ r', preCheck cfg client a op lf = .error r' := by
  cases lf with
  | false => exact ⟨r, h⟩
  | true => exact ⟨_, preCheck_lock_state_fault cfg client a op⟩

theorem preCheckAll_length {α : Type} (cfg : Config) (client op : String) (items : List (Addr × α)) (lf : Bool) :
    (preCheckAll cfg client op items lf).length = items.length := by
  simp [preCheckAll]

/-- under the lock-state fault every position of a batch fails its pre-check … -/
theorem preCheckAll_lock_state_fault {α : Type} (cfg : Config) (client op : String) (items : List (Addr × α)) :
    preCheckAll cfg client op items true = items.map (fun it => .error (lockFaultRes cfg client it.1 op)) := by
  unfold preCheckAll
  apply List.map_congr_left
  intro it _
  rw [preCheck_lock_state_fault]

/-- … so a non-empty batch never gets past the pre-checks -/
theorem preCheckAll_lock_state_fault_any {α : Type} (cfg : Config) (client op : String)
    (items : List (Addr × α)) (hne : items ≠ []) :
    (preCheckAll cfg client op items true).any isErr = true := by
  rw [preCheckAll_lock_state_fault]
  cases items with
  | nil => exact absurd rfl hne
  | cons it rest => simp [isErr]

/-- a batch refused by the pre-checks without the fault is refused by them with it -/
theorem preCheckAll_any_isErr_mono {α : Type} (cfg : Config) (client op : String) (items : List (Addr × α))
    (h : (preCheckAll cfg client op items).any isErr = true) (lf : Bool) :
    (preCheckAll cfg client op items lf).any isErr = true := by
  cases lf with
  | false => exact h
  | true =>
    apply preCheckAll_lock_state_fault_any
    intro hnil; subst hnil; simp [preCheckAll] at h

/-- a batch that passes the pre-checks did so without the fault -/
theorem preCheckAll_not_any_isErr {α : Type} {cfg : Config} {client op : String} {items : List (Addr × α)}
    {lf : Bool} (hne : items ≠ []) (h : ¬ (preCheckAll cfg client op items lf).any isErr = true) : lf = false := by
  cases lf with
  | false => rfl
  | true => exact absurd (preCheckAll_lock_state_fault_any cfg client op items hne) h

end Dirk
