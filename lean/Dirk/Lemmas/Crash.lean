/-
  Dirk.Lemmas.Crash — invariants of the micro-step model with crashes.
-/
import Dirk.Model.Crash
import Dirk.Lemmas.Run

namespace Dirk

theorem signAtt_attLog_prefix (s : Inst) (c : String) (a : Addr) (d : AttData) (f : Faults) (sf : Bool) :
    ∃ new, (signAtt s c a d f sf).1.attLog = s.attLog ++ new := by
  unfold signAtt
  repeat' split
  all_goals first | exact ⟨_, rfl⟩ | exact ⟨[], by simp⟩

theorem signAtts_attLog_prefix (s : Inst) (c : String) (items : List (Addr × AttData)) (f : Faults) (sf : List Nat) :
    ∃ new, (signAtts s c items f sf).1.attLog = s.attLog ++ new := by
  unfold signAtts
  simp only
  split
  · exact ⟨[], by simp⟩
  · split
    · exact ⟨[], by simp⟩
    · split
      · exact ⟨[], by simp⟩
      · split
        · exact ⟨[], by simp⟩
        · unfold attestKeyed finishKeyed
          split
          · exact ⟨[], by simp⟩
          · exact ⟨_, rfl⟩

theorem signProp_attLog (s : Inst) (c : String) (a : Addr) (d : PropData) (f : Faults) (sf : Bool) :
    (signProp s c a d f sf).1.attLog = s.attLog := by
  unfold signProp
  repeat' split
  all_goals rfl

theorem step_attLog_prefix (s : Inst) (op : Op) : ∃ new, (step s op).1.attLog = s.attLog ++ new := by
  cases op with
  | att c a d f => exact signAtt_attLog_prefix s c a d f false
  | atts c items f => exact signAtts_attLog_prefix s c items f []
  | prop c a d f => exact ⟨[], by simp [step, signProp_attLog]⟩
  | sign c ip a d => exact ⟨[], by simp [step, (signGeneric_frame s c ip a d false false).2.1]⟩
  | msign c ip items => exact ⟨[], by simp [step, (multisign_frame s c ip items [] false).2.1]⟩
  | restart => exact ⟨[], by simp [step]⟩
  | importRec k r => exact ⟨[], by simp [step]⟩
  | importCmd gvr f => exact ⟨[], by simp [(step_importCmd_frame s gvr f).2.1]⟩
  | create c p pk => exact ⟨[], by simp [(step_create_frame s c p pk).2.1]⟩
  | setUnlockable w n b => exact ⟨[], by simp [step]⟩
  | lockWallet c w => exact ⟨[], by simp [step]⟩
  | unlockWallet c w => exact ⟨[], by simp [step]⟩

theorem signProp_propLog_prefix (s : Inst) (c : String) (a : Addr) (d : PropData) (f : Faults) (sf : Bool) :
    ∃ new, (signProp s c a d f sf).1.propLog = s.propLog ++ new := by
  unfold signProp
  repeat' split
  all_goals first | exact ⟨_, rfl⟩ | exact ⟨[], by simp⟩

theorem signAtt_propLog (s : Inst) (c : String) (a : Addr) (d : AttData) (f : Faults) (sf : Bool) :
    (signAtt s c a d f sf).1.propLog = s.propLog := by
  unfold signAtt
  repeat' split
  all_goals rfl

theorem signAtts_propLog (s : Inst) (c : String) (items : List (Addr × AttData)) (f : Faults) (sf : List Nat) :
    (signAtts s c items f sf).1.propLog = s.propLog := by
  unfold signAtts
  simp only
  split
  · rfl
  · split
    · rfl
    · split
      · rfl
      · split
        · rfl
        · unfold attestKeyed finishKeyed
          split <;> rfl

theorem step_propLog_prefix (s : Inst) (op : Op) : ∃ new, (step s op).1.propLog = s.propLog ++ new := by
  cases op with
  | att c a d f => exact ⟨[], by simp [step, signAtt_propLog]⟩
  | atts c items f => exact ⟨[], by simp [step, signAtts_propLog]⟩
  | prop c a d f => exact signProp_propLog_prefix s c a d f false
  | sign c ip a d => exact ⟨[], by simp [step, (signGeneric_frame s c ip a d false false).2.2]⟩
  | msign c ip items => exact ⟨[], by simp [step, (multisign_frame s c ip items [] false).2.2]⟩
  | restart => exact ⟨[], by simp [step]⟩
  | importRec k r => exact ⟨[], by simp [step]⟩
  | importCmd gvr f => exact ⟨[], by simp [(step_importCmd_frame s gvr f).2.2.1]⟩
  | create c p pk => exact ⟨[], by simp [(step_create_frame s c p pk).2.2.1]⟩
  | setUnlockable w n b => exact ⟨[], by simp [step]⟩
  | lockWallet c w => exact ⟨[], by simp [step]⟩
  | unlockWallet c w => exact ⟨[], by simp [step]⟩

structure CrashInv (m : MState) : Prop where
  att : AttInv m.inst
  prop : PropInv m.inst
  attIn : ∀ e, e ∈ m.inflightAtt ∨ e ∈ m.releasedAtt → e ∈ m.inst.attLog
  propIn : ∀ e, e ∈ m.inflightProp ∨ e ∈ m.releasedProp → e ∈ m.inst.propLog

theorem mstep_inv {m m' : MState} (h : CrashInv m) (st : MStep m m') : CrashInv m' := by
  cases st with
  | request op hsafe =>
    obtain ⟨newA, hA⟩ := step_attLog_prefix m.inst op
    obtain ⟨newP, hP⟩ := step_propLog_prefix m.inst op
    refine ⟨step_attInv_with_imports _ _ h.att hsafe, step_propInv_with_imports _ _ h.prop hsafe, ?_, ?_⟩
    · intro e he
      simp only at he ⊢
      rcases he with he | he
      · rcases List.mem_append.mp he with h1 | h1
        · rw [hA]; exact List.mem_append_left _ (h.attIn e (Or.inl h1))
        · exact List.mem_of_mem_drop h1
      · rw [hA]; exact List.mem_append_left _ (h.attIn e (Or.inr he))
    · intro e he
      simp only at he ⊢
      rcases he with he | he
      · rcases List.mem_append.mp he with h1 | h1
        · rw [hP]; exact List.mem_append_left _ (h.propIn e (Or.inl h1))
        · exact List.mem_of_mem_drop h1
      · rw [hP]; exact List.mem_append_left _ (h.propIn e (Or.inr he))
  | signAtt e he =>
    refine ⟨h.att, h.prop, ?_, h.propIn⟩
    intro x hx
    simp only at hx
    rcases hx with hx | hx
    · exact h.attIn x (Or.inl (List.mem_of_mem_erase hx))
    · rcases List.mem_append.mp hx with h1 | h1
      · exact h.attIn x (Or.inr h1)
      · simp at h1; subst h1; exact h.attIn _ (Or.inl he)
  | signProp e he =>
    refine ⟨h.att, h.prop, h.attIn, ?_⟩
    intro x hx
    simp only at hx
    rcases hx with hx | hx
    · exact h.propIn x (Or.inl (List.mem_of_mem_erase hx))
    · rcases List.mem_append.mp hx with h1 | h1
      · exact h.propIn x (Or.inr h1)
      · simp at h1; subst h1; exact h.propIn _ (Or.inl he)
  | crash =>
    refine ⟨h.att, h.prop, ?_, ?_⟩
    · intro e he; simp only at he
      rcases he with he | he
      · simp at he
      · exact h.attIn e (Or.inr he)
    · intro e he; simp only at he
      rcases he with he | he
      · simp at he
      · exact h.propIn e (Or.inr he)

theorem mreach_inv {cfg : Config} {db0 : Db} {m : MState} (hr : MReach cfg db0 m) : CrashInv m := by
  induction hr with
  | init =>
    exact ⟨init_attInv cfg db0, init_propInv cfg db0, by intro e he; simp at he, by intro e he; simp at he⟩
  | step _ st ih => exact mstep_inv ih st

/-- two different members of a list related pairwise are related one way or the other -/
theorem pairwise_mem_or {α : Type} {R : α → α → Prop} {l : List α} (h : l.Pairwise R) {a b : α}
    (ha : a ∈ l) (hb : b ∈ l) (hne : a ≠ b) : R a b ∨ R b a := by
  induction h with
  | nil => cases ha
  | cons hhead _ ih =>
    rcases List.mem_cons.mp ha with rfl | ha'
    · rcases List.mem_cons.mp hb with rfl | hb'
      · exact absurd rfl hne
      · exact Or.inl (hhead _ hb')
    · rcases List.mem_cons.mp hb with rfl | hb'
      · exact Or.inr (hhead _ ha')
      · exact ih ha' hb'

end Dirk
