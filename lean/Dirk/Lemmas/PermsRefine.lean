/-
  Dirk.Lemmas.PermsRefine — the permission check refines its specification, end to end:
  for every configuration the checker accepts (`compilePerms regexify perms = some acc`) whose
  patterns parse to the anchored shape, `check acc` and `Spec.firstBearing perms` agree on every
  request.  Core Lean only.
-/
import Dirk.Props.C07

namespace Dirk
open Spec

/-- every wallet/account pattern of every entry parses to the anchored shape (hypothesis of C07_entry_matches_spec;
    it is evaluated at run time by the driver for every pattern in use) -/
def PermsShapeOK (perms : Perms) : Prop :=
  ∀ ce ∈ perms, ∀ e ∈ ce.2, ∀ pw pa, walletAndAccount e.path = some (pw, pa) → ShapeOK pw ∧ ShapeOK pa

/-- the per-entry shape hypothesis, for a list of entries -/
def EntriesShapeOK (es : List PermEntry) : Prop :=
  ∀ e ∈ es, ∀ pw pa, walletAndAccount e.path = some (pw, pa) → ShapeOK pw ∧ ShapeOK pa

/-- compilation copies the operation list -/
theorem compileEntry_ops (rx : String → String) (e : PermEntry) (c : CPath)
    (hc : compileEntry rx e = some c) : c.ops = e.ops := by
  unfold compileEntry at hc
  split at hc
  · cases hc
  · split at hc
    · cases hc
    · split at hc
      · cases hc; rfl
      · cases hc

/-- inversion of `compileEntries` on a cons -/
theorem compileEntries_cons_some (rx : String → String) (e : PermEntry) (es : List PermEntry)
    (cs' : List CPath) (h : compileEntries rx (e :: es) = some cs') :
    ∃ c cs, cs' = c :: cs ∧ compileEntry rx e = some c ∧ compileEntries rx es = some cs := by
  simp only [compileEntries] at h
  split at h
  · rename_i c cs h1 h2
    cases h
    exact ⟨c, cs, rfl, h1, h2⟩
  · cases h

/-- compiled and source entry lists have the same length -/
theorem compileEntries_length (rx : String → String) (es : List PermEntry) (cs : List CPath)
    (h : compileEntries rx es = some cs) : cs.length = es.length := by
  induction es generalizing cs with
  | nil =>
    simp only [compileEntries, Option.some.injEq] at h
    subst h
    rfl
  | cons e es ih =>
    obtain ⟨c, cs0, rfl, _, h2⟩ := compileEntries_cons_some rx e es cs h
    simp only [List.length_cons, ih cs0 h2]

/-- compiled and source entry lists are related pointwise by `compileEntry` -/
theorem compileEntries_pointwise (rx : String → String) (es : List PermEntry) (cs : List CPath)
    (h : compileEntries rx es = some cs) :
    ∀ p ∈ es.zip cs, compileEntry rx p.1 = some p.2 := by
  induction es generalizing cs with
  | nil =>
    intro p hp
    simp only [List.zip_nil_left, List.not_mem_nil] at hp
  | cons e es ih =>
    obtain ⟨c, cs0, rfl, h1, h2⟩ := compileEntries_cons_some rx e es cs h
    intro p hp
    simp only [List.zip_cons_cons, List.mem_cons] at hp
    rcases hp with rfl | hp
    · exact h1
    · exact ih cs0 h2 p hp

/-- step (1): the flattened operation lists of the matching entries agree -/
theorem compileEntries_filter_ops (es : List PermEntry) (cs : List CPath) (w a : String)
    (h : compileEntries regexify es = some cs) (hs : EntriesShapeOK es) :
    (cs.filter (cmatches w a)).flatMap (·.ops)
      = (es.filter (fun e => entryMatches e w a)).flatMap (·.ops) := by
  induction es generalizing cs with
  | nil =>
    simp only [compileEntries, Option.some.injEq] at h
    subst h
    rfl
  | cons e es ih =>
    obtain ⟨c, cs0, rfl, h1, h2⟩ := compileEntries_cons_some regexify e es cs h
    have hm : cmatches w a c = entryMatches e w a :=
      C07_entry_matches_spec e c w a h1 (hs e List.mem_cons_self)
    have hops : c.ops = e.ops := compileEntry_ops regexify e c h1
    have ih' := ih cs0 h2 (fun e' he' => hs e' (List.mem_cons_of_mem _ he'))
    simp only [List.filter_cons, hm]
    cases entryMatches e w a with
    | true => simp only [↓reduceIte, List.flatMap_cons, hops, ih']
    | false => simpa using ih'

/-- inversion of `compilePerms` on a cons -/
theorem compilePerms_cons_some (rx : String → String) (client : String) (es : List PermEntry)
    (rest : Perms) (acc' : Access) (h : compilePerms rx ((client, es) :: rest) = some acc') :
    ∃ cs acc, acc' = (client, cs) :: acc ∧ compileEntries rx es = some cs ∧
      compilePerms rx rest = some acc := by
  simp only [compilePerms] at h
  split at h
  · cases h
  · split at h
    · cases h
    · split at h
      · rename_i cs acc h1 h2
        cases h
        exact ⟨cs, acc, rfl, h1, h2⟩
      · cases h

/-- step (2): `lookup` commutes with compilation (first match on both sides; no no-duplicates
    hypothesis is needed because `compilePerms` preserves the order and the keys) -/
theorem compilePerms_lookup (rx : String → String) (perms : Perms) (acc : Access) (client : String)
    (h : compilePerms rx perms = some acc) :
    (perms.lookup client = none ∧ acc.lookup client = none) ∨
    ∃ es cs, perms.lookup client = some es ∧ acc.lookup client = some cs ∧
      compileEntries rx es = some cs ∧ ∃ k, (k, es) ∈ perms := by
  induction perms generalizing acc with
  | nil =>
    simp only [compilePerms, Option.some.injEq] at h
    subst h
    exact .inl ⟨rfl, rfl⟩
  | cons ce rest ih =>
    obtain ⟨k, es⟩ := ce
    obtain ⟨cs, acc0, rfl, h1, h2⟩ := compilePerms_cons_some rx k es rest acc h
    simp only [List.lookup_cons]
    cases hk : client == k with
    | true => exact .inr ⟨es, cs, rfl, rfl, h1, k, List.mem_cons_self⟩
    | false =>
      rcases ih acc0 h2 with ⟨hn1, hn2⟩ | ⟨es', cs', hl1, hl2, hce, k', hmem⟩
      · exact .inl ⟨hn1, hn2⟩
      · exact .inr ⟨es', cs', hl1, hl2, hce, k', List.mem_cons_of_mem _ hmem⟩

/-- `lookup` on the compiled configuration, in the `Option.map`-like form of the task text:
    the compiled list found for a client is the compilation of the source list found for it -/
theorem compilePerms_lookup_map (rx : String → String) (perms : Perms) (acc : Access) (client : String)
    (h : compilePerms rx perms = some acc) :
    (acc.lookup client).map some = (perms.lookup client).map (compileEntries rx) := by
  rcases compilePerms_lookup rx perms acc client h with ⟨h1, h2⟩ | ⟨es, cs, h1, h2, h3, _⟩
  · rw [h1, h2]; rfl
  · rw [h1, h2]; simp only [Option.map_some, h3]

/-- **The permission check refines its specification.**  For every configuration the checker
    accepts, whose patterns parse to the anchored shape, and every request, the transcribed
    `Service.Check` returns exactly what the specification `Spec.firstBearing` says. -/
theorem check_refines_spec (perms : Perms) (acc : Access) (client account op : String)
    (hc : compilePerms regexify perms = some acc) (hs : PermsShapeOK perms) :
    check acc client account op = Spec.firstBearing perms client account op := by
  unfold check firstBearing
  by_cases hce : client.isEmpty = true
  · simp only [hce, ↓reduceIte]
  · simp only [hce]
    cases hwa : walletAndAccount account with
    | none => rfl
    | some wa =>
      obtain ⟨w, a⟩ := wa
      simp only
      by_cases hwe : w.isEmpty = true
      · simp only [hwe, ↓reduceIte]
      · simp only [hwe]
        rcases compilePerms_lookup regexify perms acc client hc with
          ⟨h1, h2⟩ | ⟨es, cs, h1, h2, h3, k, hmem⟩
        · rw [h1, h2]
        · rw [h1, h2]
          simp only
          rw [C07_scan_eq_spec, compileEntries_filter_ops es cs w a h3 (hs (k, es) hmem)]

/-- **Default deny, in specification terms.**  If the client is unknown, or no item of the
    operation lists of the entries whose patterns match the whole wallet and account names bears on
    `op` (in particular if no entry matches), the check refuses.  Stated on the source configuration
    `perms` only. -/
theorem check_default_deny_spec (perms : Perms) (acc : Access) (client account op : String)
    (hc : compilePerms regexify perms = some acc) (hs : PermsShapeOK perms)
    (h : ∀ w a es, walletAndAccount account = some (w, a) → perms.lookup client = some es →
      (∀ e ∈ es, entryMatches e w a = false) ∨
      (∀ e ∈ es, entryMatches e w a = true → ∀ item ∈ e.ops, bearing op item = none)) :
    check acc client account op = false := by
  rw [check_refines_spec perms acc client account op hc hs]
  unfold firstBearing
  split
  · rfl
  · split
    · rfl
    · rename_i w a hwa
      split
      · rfl
      · split
        · rfl
        · rename_i es hl
          have hnil : ((es.filter (fun e => entryMatches e w a)).flatMap (·.ops)).filterMap
              (bearing op) = [] := by
            rw [List.filterMap_eq_nil_iff]
            intro item hitem
            rw [List.mem_flatMap] at hitem
            obtain ⟨e, he, hie⟩ := hitem
            rw [List.mem_filter] at he
            obtain ⟨hmem, hmatch⟩ := he
            rcases h w a es hwa hl with hno | hnb
            · rw [hno e hmem] at hmatch; cases hmatch
            · exact hnb e hmem hmatch item hie
          unfold firstOf
          rw [hnil]

/-- the converse reading used in reports: a granted request has a matching entry with an item
    bearing positively or negatively on `op` — i.e. nothing is granted by default -/
theorem check_true_has_bearing (perms : Perms) (acc : Access) (client account op : String)
    (hc : compilePerms regexify perms = some acc) (hs : PermsShapeOK perms)
    (ht : check acc client account op = true) :
    ∃ w a es e item, walletAndAccount account = some (w, a) ∧ perms.lookup client = some es ∧
      e ∈ es ∧ entryMatches e w a = true ∧ item ∈ e.ops ∧ bearing op item ≠ none := by
  false_or_by_contra
  rename_i hno
  have : check acc client account op = false := by
    apply check_default_deny_spec perms acc client account op hc hs
    intro w a es hwa hl
    refine .inr (fun e he hm item hi => ?_)
    false_or_by_contra
    rename_i hb
    exact hno ⟨w, a, es, e, item, hwa, hl, he, hm, hi, hb⟩
  rw [this] at ht
  cases ht

/-! ## The hypotheses are satisfiable on a concrete configuration

Two clients; the first has an entry with a wallet and an account pattern (`w1/a.*`) and a negated item,
the second a wallet-only entry (`w`, so the account pattern is empty = anything).  The parser facts are
obtained by unfolding with `simp` (never by kernel evaluation of strings). -/

namespace PermsRefineExample

def exPerms : Perms := [("c1", [⟨"w1/a.*", ["~sign", "all"]⟩]), ("c2", [⟨"w", ["attest"]⟩])]

theorem wa1 : walletAndAccount "w1/a.*" = some ("w1", "a.*") := by
  simp [walletAndAccount, List.idxOf?, List.findIdx?_cons]

theorem wa2 : walletAndAccount "w" = some ("w", "") := by
  simp [walletAndAccount, List.idxOf?, List.findIdx?_cons]

theorem wa3 : walletAndAccount "w/x" = some ("w", "x") := by
  simp [walletAndAccount, List.idxOf?, List.findIdx?_cons]

theorem sh1 : ShapeOK "w1" := by
  simp [ShapeOK, regexify, rxBody, ReParse.parse, ReParse.pAlt, ReParse.pCat, ReParse.pAtom,
    ReParse.pRep, Re.anch]

theorem sh2 : ShapeOK "a.*" := by
  simp [ShapeOK, regexify, rxBody, ReParse.parse, ReParse.pAlt, ReParse.pCat, ReParse.pAtom,
    ReParse.pRep, ReParse.pRepEnd, Re.anch]

theorem sh3 : ShapeOK "w" := by
  simp [ShapeOK, regexify, rxBody, ReParse.parse, ReParse.pAlt, ReParse.pCat, ReParse.pAtom,
    ReParse.pRep, Re.anch]

theorem sh4 : ShapeOK "" := by
  simp [ShapeOK, regexify, rxBody, ReParse.parse, ReParse.pAlt, ReParse.pCat, ReParse.pAtom,
    ReParse.pRep, ReParse.pRepEnd, Re.anch]

theorem exPerms_shape : PermsShapeOK exPerms := by
  intro ce hce e he pw pa hwa
  simp only [exPerms, List.mem_cons, List.not_mem_nil, or_false] at hce
  rcases hce with rfl | rfl
  · simp only [List.mem_cons, List.not_mem_nil, or_false] at he
    subst he
    rw [wa1] at hwa
    cases hwa
    exact ⟨sh1, sh2⟩
  · simp only [List.mem_cons, List.not_mem_nil, or_false] at he
    subst he
    rw [wa2] at hwa
    cases hwa
    exact ⟨sh3, sh4⟩

theorem exPerms_compiles : (compilePerms regexify exPerms).isSome = true := by
  simp [exPerms, compilePerms, compileEntries, compileEntry, wa1, wa2, regexify, ReParse.parse,
    ReParse.pAlt, ReParse.pCat, ReParse.pAtom, ReParse.pRep, ReParse.pRepEnd]

/-- both hypotheses of `check_refines_spec` hold for `exPerms`, so the refinement applies to it for
    every client, account and operation -/
example : ∃ acc, compilePerms regexify exPerms = some acc ∧ PermsShapeOK exPerms ∧
    ∀ client account op, check acc client account op = firstBearing exPerms client account op := by
  obtain ⟨acc, hacc⟩ := Option.isSome_iff_exists.1 exPerms_compiles
  exact ⟨acc, hacc, exPerms_shape, fun client account op =>
    check_refines_spec exPerms acc client account op hacc exPerms_shape⟩

/-- the hypothesis of `check_default_deny_spec` holds non-vacuously: client `c2` is known, has an
    entry, and its only item `attest` does not bear on `sign` — so `sign` on `w/x` is refused -/
example : ∃ acc, compilePerms regexify exPerms = some acc ∧ check acc "c2" "w/x" "sign" = false := by
  obtain ⟨acc, hacc⟩ := Option.isSome_iff_exists.1 exPerms_compiles
  refine ⟨acc, hacc, check_default_deny_spec exPerms acc "c2" "w/x" "sign" hacc exPerms_shape ?_⟩
  intro w a es _ hl
  have hes : es = [⟨"w", ["attest"]⟩] := by
    simp [exPerms, List.lookup] at hl
    exact hl.symm
  subst hes
  refine .inr (fun e he _ item hi => ?_)
  simp only [List.mem_cons, List.not_mem_nil, or_false] at he
  subst he
  simp only [List.mem_cons, List.not_mem_nil, or_false] at hi
  subst hi
  simp [bearing, equalFold, lowerS, Re.lowerC]

end PermsRefineExample

end Dirk

#print axioms Dirk.compilePerms_lookup
#print axioms Dirk.compileEntries_filter_ops
#print axioms Dirk.check_refines_spec
#print axioms Dirk.check_default_deny_spec
#print axioms Dirk.check_true_has_bearing
#print axioms Dirk.PermsRefineExample.exPerms_shape
#print axioms Dirk.PermsRefineExample.exPerms_compiles
