/-
  Dirk.Gen.Kernels — GENERATED — do not edit.  Regenerated on every run by /verif/factx (kernels.go) from the
  Go source of three decision kernels in rules/standard; Dirk/Props/KernelsEq.lean proves each definition
  equal to the hand-written model function.  A kernel outside the translatable fragment appears as
  `kernelUntranslatable_<name>` instead, and KernelsEq.lean does not build.
-/
import Dirk.Model.Rules

set_option linter.unusedVariables false

namespace Dirk.Gen

/-- `runSignBeaconAttestationChecks` (rules/standard/signbeaconattestations.go), translated statement by statement; model counterpart: `Dirk.attChecks`. -/
def attChecksGen (domain : Bytes) (src : Nat) (tgt : Nat) (stSrc : Int) (stTgt : Int) : Verdict × (Int × Int) :=
  if ¬ (prefix4 domain = domAttester) then (.denied, (stSrc, stTgt))
  else if ((src ≠ 0) ∨ (tgt ≠ 0)) ∧ (tgt ≤ src) then (.denied, (stSrc, stTgt))
  else if (src > maxI64) ∨ (tgt > maxI64) then (.denied, (stSrc, stTgt))
  else if (stTgt ≥ 0) ∧ (tgt ≤ (u64 stTgt)) then (.denied, (stSrc, stTgt))
  else if (stSrc ≥ 0) ∧ (src < (u64 stSrc)) then (.denied, (stSrc, stTgt))
  else (.approved, (i64 src, i64 tgt))

/-- the guards of `runSignBeaconAttestationChecks`, as written in the source, in order -/
def attChecksGuards : List String := [
  "!bytes.Equal(req.Domain[0:4], e2types.DomainBeaconAttester[:]) => return rules.DENIED",
  "(sourceEpoch != 0 || targetEpoch != 0) && (targetEpoch <= sourceEpoch) => return rules.DENIED",
  "sourceEpoch > math.MaxInt64 || targetEpoch > math.MaxInt64 => return rules.DENIED",
  "state.TargetEpoch >= 0 && targetEpoch <= uint64(state.TargetEpoch) => return rules.DENIED",
  "state.SourceEpoch >= 0 && sourceEpoch < uint64(state.SourceEpoch) => return rules.DENIED",
  "return rules.APPROVED"
]

/-- `OnSignBeaconProposal` (rules/standard/signbeaconproposal.go), translated statement by statement; model counterpart: `Dirk.onPropose`.
    `fetched` = result of `fetchSignBeaconProposalState` (`none` = error), `storeOk` = `storeSignBeaconProposalState` returned no error;
    second component = the state handed to the store, if it was called. -/
def propChecksGen (domain : Bytes) (slot : Nat) (fetched : Option Int) (storeOk : Bool) : Verdict × Option Int :=
  if ¬ (prefix4 domain = domProposer) then (.denied, none)
  else if slot > maxI64 then (.denied, none)
  else match fetched with
  | none => (.failed, none)
  | some stSlot =>
    if (stSlot ≥ 0) ∧ (slot ≤ (u64 stSlot)) then (.denied, none)
    else if storeOk = false then (.failed, some (i64 slot))
    else (.approved, some (i64 slot))

/-- the guards of `OnSignBeaconProposal`, as written in the source, in order -/
def propChecksGuards : List String := [
  "!bytes.Equal(req.Domain[0:4], e2types.DomainBeaconProposer[:]) => return rules.DENIED",
  "req.Slot > math.MaxInt64 => return rules.DENIED",
  "fetch s.fetchSignBeaconProposalState(metadata.PubKey); err != nil => return rules.FAILED",
  "state.Slot >= 0 && slot <= uint64(state.Slot) => return rules.DENIED",
  "store s.storeSignBeaconProposalState(metadata.PubKey, state); err != nil => return rules.FAILED",
  "return rules.APPROVED"
]

/-- `OnSign` (rules/standard/sign.go), translated statement by statement; model counterpart: `Dirk.onSign`. -/
def onSignGen (metadataNil : Bool) (adminIPs : List String) (ip : String) (domain : Bytes) : Verdict :=
  if metadataNil = true then .failed
  else if prefix4 domain = domAttester then .denied
  else if prefix4 domain = domProposer then .denied
  else if (prefix4 domain = domExit) ∧ (ip = "") then .denied
  else if (prefix4 domain = domExit) ∧ (¬ (adminIPs.contains ip)) then .denied
  else .approved

/-- the guards of `OnSign`, as written in the source, in order -/
def onSignGuards : List String := [
  "metadata == nil => return rules.FAILED",
  "bytes.Equal(req.Domain[0:4], e2types.DomainBeaconAttester[:]) => return rules.DENIED",
  "bytes.Equal(req.Domain[0:4], e2types.DomainBeaconProposer[:]) => return rules.DENIED",
  "bytes.Equal(req.Domain[0:4], e2types.DomainVoluntaryExit[:]) && metadata.IP == \"\" => return rules.DENIED",
  "validIP := (metadata.IP ∈ s.adminIPs)  [for-range membership loop]",
  "bytes.Equal(req.Domain[0:4], e2types.DomainVoluntaryExit[:]) && !validIP => return rules.DENIED",
  "return rules.APPROVED"
]

end Dirk.Gen
